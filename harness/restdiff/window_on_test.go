//go:build restsched

package restdiff

// WINDOW RUNS of the REST gateway (properties C20 and C06).
//
// The model-chosen schedules (sched_on_test.go) execute one step of coq/Model/Rest.v per item; the yield points are the
// model's program points. A tree under test may have split such a step - ValidateSession that releases sessionsMtx BEFORE it
// waits for the session mutex has a new point between the two at which the unchanged tree can never be preempted, and no
// anchor of the model describes it. The INNER yield points do: lib/instrument.py puts `verifStep("A:<site>", <mutex identity>)`
// before EVERY mutex acquisition and every timer-manager / time.Timer call it finds by text in net/rest/rest.go and
// `verifStep("R:<text>", <mutex identity>)` after every release (anchors.json, section "acquisitions"); the harness adds two
// yield points of its own inside the server calls (H:serve - the request is inside mux.ServeHTTP, about to call the lock
// server; H:connend - HandleConn(ConnEnd) was entered).
//
// In a window run every inner yield point parks (the model's labels are transparent, except that the first one of the idle
// timer's function introduces that goroutine), and the HARNESS explores the interleavings of request / DELETE / idle-expiry
// threads itself: stateless depth-first search with a preemption bound, a fresh handler + LockServer per execution, the
// choice sequence replayed from the start. The A:/R: notes say which goroutine owns which mutex OBJECT: a goroutine parked in
// front of an acquisition that would block is not enabled; if none is enabled the suspected deadlock is confirmed on the real
// mutexes (everybody is released; a real deadlock stops the process' progress and the wall-clock watchdog reports it).
// Nothing here is compared with the model; lib/restsess.py judges the real observations:
//   - events of the server calls in their real order (serve-enter / serve-exit of every request, end-enter / end-exit of every
//     ConnEnd, with the mutexes the goroutine owned): "a request of session c runs its server call after c's ConnEnd" is
//     C20_serve_before_end (fs_late of the model) as an executable check; a ConnEnd that begins while a request of its
//     session is inside the server call is the mutual exclusion of the session mutex;
//   - at the join (every thread has returned): statuses, ConnEnd deliveries, LockServer.Locks(), the session table;
//   - after settling (3 timeouts of idleness): ConnEnd exactly once per session, nothing held, every cookie refused.

import (
	"bufio"
	"encoding/json"
	"fmt"
	"io"
	"log/slog"
	"math/rand"
	"os"
	"path/filepath"
	"sort"
	"strings"
	"sync"
	"sync/atomic"
	"testing"
	"testing/synctest"
	"time"

	"github.com/imoore76/ldlm/net/rest"
	"github.com/imoore76/ldlm/timermap"

	"ldlmverif/vhook"
)

type WThread struct {
	K   int    `json:"k"`   // thread id (1..)
	S   int    `json:"s"`   // session slot (0-based)
	Act string `json:"act"` // req (TryLock of "w<k>") | del
}

type WScenario struct {
	ID       string    `json:"id"`
	Sessions int       `json:"sessions"`
	Threads  []WThread `json:"threads"`
	Fires    []int     `json:"fires,omitempty"` // session slots whose idle expiry the search fires (at every point)
	Keep     bool      `json:"keep,omitempty"`  // the LAST session takes the lock "keep" before the race and is left alone
	NoClear  bool      `json:"noclear,omitempty"`
	Bound    int       `json:"bound"`
	Cap      int       `json:"cap"`
	Seed     int64     `json:"seed"`
	Path     []int     `json:"path,omitempty"`
	Replay   bool      `json:"replay,omitempty"` // execute exactly Path, once
}

type WStep struct {
	T    string `json:"t"`              // u<k> | c<slot> | fire <slot>
	From string `json:"from,omitempty"` // the yield point the thread left
	To   string `json:"to"`             // where it is now: a yield point | finished | panicked | running
}

type WEvent struct {
	Seq   int      `json:"seq"`
	Step  int      `json:"step"`
	What  string   `json:"what"` // serve-enter serve-exit serve-exit-locked end-enter end-exit
	Tid   int      `json:"tid"`  // 1000+slot: the idle timer's function; -1: a goroutine the harness does not know
	Sid   string   `json:"sid"`
	Name  string   `json:"name,omitempty"`
	Holds []string `json:"holds"` // the mutexes the goroutine owns, by the acquisition / release notes
}

type WResult struct {
	ID          string         `json:"id"`
	Scenario    string         `json:"scenario"`
	Path        []int          `json:"path"`
	Preemptions int            `json:"preemptions"`
	Steps       []WStep        `json:"steps"`
	Events      []WEvent       `json:"events"`
	Acts        map[int]string `json:"acts"`
	Statuses    map[int]int    `json:"statuses"`
	Locked      map[int]bool   `json:"locked"`  // request thread -> its TryLock was granted
	Created     []string       `json:"created"` // server session ids by slot
	NoClear     bool           `json:"noclear"`
	Keep        bool           `json:"keep"`
	EndsJoin    map[string]int `json:"ends_join"`  // ConnEnd deliveries entered when every thread had returned
	EndedJoin   map[string]int `json:"ended_join"` // ... returned
	LocksJoin   []string       `json:"locks_join"`
	TableJoin   []int          `json:"table_join"` // session slots still in the gateway's table (nil: not visible)
	TableSeen   bool           `json:"table_seen"`
	EndsFinal   map[string]int `json:"ends_final"`
	LocksLeft   []string       `json:"locks_left"`
	Post        []int          `json:"post"`
	Panics      map[int]string `json:"panics,omitempty"`
	Stuck       []string       `json:"stuck,omitempty"`        // threads that were neither finished nor at a yield point after a step
	Suspected   []string       `json:"suspected,omitempty"`    // nobody enabled by the notes: the parked threads (confirmed on the real mutexes)
	TrackingOff bool           `json:"tracking_off,omitempty"` // ... and they all ran to their end: the notes had lost track, no deadlock
	Truncated   bool           `json:"truncated,omitempty"`
	SetupFail   string         `json:"setup_fail,omitempty"`
	Sites       map[string]int `json:"sites,omitempty"` // inner yield points at which some thread parked in this execution
}

type wSummary struct {
	Summary    bool   `json:"summary"`
	Scenario   string `json:"scenario"`
	Executions int    `json:"executions"`
	Exhausted  bool   `json:"exhausted"`
	Bound      int    `json:"bound"`
	Cap        int    `json:"cap"`
}

const winTmo = 10 * time.Second

type wChoice struct {
	n      int
	costs  []int
	chosen int
}

type wAlt struct {
	tid  int // >= 0: micro-step of that thread
	fire int // slot (tid < 0)
	cost int
}

// wrun is one execution.
type wrun struct {
	ws      *WScenario
	sch     *vhook.Sched
	R       side
	parking atomic.Bool
	mu      sync.Mutex
	holdW   map[string]int // mutex id -> owner tid (exclusive)
	holdR   map[string]int // mutex id -> readers
	owned   map[int]map[string]bool
	alias   map[string]string
	aliasN  map[string]int
	idxOf   map[string]int // cookie -> slot+1
	slotOf  map[int]int    // tid -> slot
	events  []WEvent
	step    int
	fired   map[int]bool
	armedAt map[int]time.Duration
	t0      time.Time
	res     *WResult
}

func labelSite(full string) (string, string) {
	if i := strings.IndexByte(full, 0); i >= 0 {
		return full[:i], full[i+1:]
	}
	return full, ""
}

// siteMutexName: "A:restHandler.DestroySession#3:*.mtx.Lock()" -> ("mtx", 'W'); no mutex operation -> ("", 0).
func siteMutexName(label string) (string, byte) {
	i := strings.LastIndex(label, ":")
	t := label[i+1:]
	mode := byte(0)
	switch {
	case strings.HasSuffix(t, ".RLock()"):
		t, mode = strings.TrimSuffix(t, ".RLock()"), 'R'
	case strings.HasSuffix(t, ".Lock()"):
		t, mode = strings.TrimSuffix(t, ".Lock()"), 'W'
	case strings.HasSuffix(t, ".RUnlock()"):
		t, mode = strings.TrimSuffix(t, ".RUnlock()"), 'R'
	case strings.HasSuffix(t, ".Unlock()"):
		t, mode = strings.TrimSuffix(t, ".Unlock()"), 'W'
	default:
		return "", 0
	}
	if j := strings.LastIndex(t, "."); j >= 0 {
		t = t[j+1:]
	}
	return t, mode
}

// mutexID: the identity the note carries (the address of the mutex object); without one: the field name, per session for
// every mutex but the handler's table mutex (a goroutine only ever works on its own session).
func (r *wrun) mutexID(tid int, label, addr string) (string, byte) {
	name, mode := siteMutexName(label)
	if mode == 0 {
		return "", 0
	}
	id := addr
	if id == "" {
		id = name
		if !strings.Contains(strings.ToLower(name), "sessions") {
			id = fmt.Sprintf("%s@%d", name, r.slotOf[tid])
		}
	}
	if _, ok := r.alias[id]; !ok {
		r.aliasN[name]++
		if strings.Contains(strings.ToLower(name), "sessions") && r.aliasN[name] == 1 {
			r.alias[id] = name
		} else {
			r.alias[id] = fmt.Sprintf("%s#%d", name, r.aliasN[name])
		}
	}
	return id, mode
}

func (r *wrun) noteAcquire(tid int, label, addr string) {
	r.mu.Lock()
	defer r.mu.Unlock()
	id, mode := r.mutexID(tid, label, addr)
	if mode == 0 {
		return
	}
	if mode == 'W' {
		r.holdW[id] = tid + 1
	} else {
		r.holdR[id]++
	}
	if r.owned[tid] == nil {
		r.owned[tid] = map[string]bool{}
	}
	r.owned[tid][id] = true
}

func (r *wrun) noteRelease(tid int, text, addr string) {
	r.mu.Lock()
	defer r.mu.Unlock()
	id, mode := r.mutexID(tid, ":"+text, addr)
	if mode == 0 {
		return
	}
	if mode == 'W' {
		delete(r.holdW, id)
	} else if r.holdR[id] > 0 {
		r.holdR[id]--
	}
	for _, o := range r.owned {
		delete(o, id)
	}
}

func (r *wrun) holdsOf(tid int) []string {
	out := []string{}
	for id := range r.owned[tid] {
		out = append(out, r.alias[id])
	}
	sort.Strings(out)
	return out
}

// hook is what the instrumented rest.go calls at every yield point.
func (r *wrun) hook(label string, args ...string) {
	if !r.parking.Load() {
		return
	}
	addr := ""
	if len(args) > 0 {
		addr = args[0]
	}
	switch {
	case strings.HasPrefix(label, "R:"):
		if tid, ok := r.sch.Who(); ok {
			r.noteRelease(tid, label[2:], addr)
		}
	case strings.HasPrefix(label, "A:") || strings.HasPrefix(label, "H:"):
		full := label
		if addr != "" {
			full += "\x00" + addr
		}
		r.sch.Step(full)
		if tid, ok := r.sch.Who(); ok && r.parking.Load() {
			r.noteAcquire(tid, label, addr)
		}
	default:
		// a program point of the model: transparent here; the first one of the idle timer's function introduces its goroutine
		if _, ok := r.sch.Who(); !ok && addr != "" && strings.HasPrefix(label, "C") {
			r.sch.Step(label + ":" + addr)
		}
	}
}

func (r *wrun) onUnknown(label string) (int, bool) {
	r.mu.Lock()
	defer r.mu.Unlock()
	if strings.HasPrefix(label, "C") {
		if i := strings.IndexByte(label, ':'); i > 0 {
			if idx := r.idxOf[label[i+1:]]; idx > 0 && !r.fired[idx-1] {
				r.fired[idx-1] = true
				r.slotOf[1000+idx-1] = idx - 1
				return 1000 + idx - 1, true
			}
		}
		return 0, false
	}
	if strings.HasPrefix(label, "A:") || strings.HasPrefix(label, "H:") {
		// a goroutine the harness did not start is inside the handler: it is an idle timer's function whose own first label is not
		// on this tree (its code was moved into a helper, say): that of the armed session with the earliest deadline that has none yet
		best, bestAt := -1, time.Duration(1<<62)
		for s, at := range r.armedAt {
			if !r.fired[s] && at < bestAt {
				best, bestAt = s, at
			}
		}
		if best >= 0 {
			r.fired[best] = true
			r.slotOf[1000+best] = best
			return 1000 + best, true
		}
	}
	return 0, false
}

func (r *wrun) onEvent(what, sid, name string) {
	tid, ok := r.sch.Who()
	if !ok {
		tid = -1
	}
	r.mu.Lock()
	r.events = append(r.events, WEvent{Seq: len(r.events), Step: r.step, What: what, Tid: tid, Sid: sid, Name: name, Holds: r.holdsOf(tid)})
	r.mu.Unlock()
}

// canRun: releasing the parked thread does not make it block on a mutex that the notes say is owned.
func (r *wrun) canRun(in vhook.Info) bool {
	if in.State != vhook.Parked {
		return false
	}
	label, addr := labelSite(in.Label)
	if !strings.HasPrefix(label, "A:") {
		return true
	}
	r.mu.Lock()
	defer r.mu.Unlock()
	id, mode := r.mutexID(in.ID, label, addr)
	if mode == 0 {
		return true
	}
	if r.holdW[id] != 0 {
		return false
	}
	return mode == 'R' || r.holdR[id] == 0
}

func tname(tid int) string {
	if tid >= 1000 {
		return fmt.Sprintf("c%d", tid-1000)
	}
	return fmt.Sprintf("u%d", tid)
}

func (r *wrun) where(tid int) string {
	in, ok := r.sch.Get(tid)
	if !ok {
		return "absent"
	}
	if in.State == vhook.Parked {
		l, _ := labelSite(in.Label)
		return l
	}
	return in.State.String()
}

func (r *wrun) settle1ns() {
	time.Sleep(1)
	synctest.Wait()
}

// exec runs the scenario along path (beyond it: the first alternative at every choice point).
func (r *wrun) exec(path []int, beat func(string)) []wChoice {
	ws, res := r.ws, r.res
	var recs []wChoice
	sch := vhook.New()
	r.sch = sch
	sch.OnUnknown = r.onUnknown
	rest.VerifStep = r.hook
	timermap.VerifStep = func(label, id string) {}
	defer func() { rest.VerifStep, timermap.VerifStep = nil, nil }()
	R, err := bootRest(Cfg{NoClear: ws.NoClear, GcI: 1800e9, GcM: 300e9, Dlt: 600e9, Shards: 16, Tmo: int64(winTmo)}, "")
	if err != nil {
		res.SetupFail = err.Error()
		return nil
	}
	r.R = R
	h := R.handler
	r.t0 = time.Now()
	cookies := []string{}
	for s := 0; s < ws.Sessions; s++ {
		st, _, ck := serveDirect(h, "POST", "/session", "", nil)
		if st != 201 || ck == "" {
			res.SetupFail = fmt.Sprintf("POST /session answered %d", st)
		}
		cookies = append(cookies, ck)
		r.idxOf[ck] = s + 1
		res.Created = append(res.Created, R.wrap.lastTagged())
		r.armedAt[s] = time.Since(r.t0)
		time.Sleep(time.Millisecond)
		synctest.Wait()
	}
	if ws.Keep && ws.Sessions > 0 {
		ck := cookies[ws.Sessions-1]
		if st, _, _ := serveDirect(h, "POST", "/v1/lock", `{"name":"keep"}`, &ck); st != 200 {
			res.SetupFail = fmt.Sprintf("the lock of the session that is left alone: status %d", st)
		}
		r.armedAt[ws.Sessions-1] = time.Since(r.t0)
		time.Sleep(time.Millisecond)
		synctest.Wait()
	}
	if res.SetupFail != "" {
		R.hcloser()
		R.closer()
		return nil
	}
	R.wrap.onEvent = r.onEvent
	R.wrap.yield = func(label string) { r.hook(label) }
	r.parking.Store(true)
	var smu sync.Mutex
	for _, t := range ws.Threads {
		t := t
		ck := cookies[t.S%len(cookies)]
		r.slotOf[t.K] = t.S % len(cookies)
		res.Acts[t.K] = fmt.Sprintf("%s %d", t.Act, t.S%len(cookies))
		sch.Go(t.K, func() {
			var code int
			var body string
			if t.Act == "del" {
				code, body, _ = serveDirect(h, "DELETE", "/session", "", &ck)
			} else {
				code, body, _ = serveDirect(h, "POST", "/v1/lock", fmt.Sprintf(`{"name":"w%d"}`, t.K), &ck)
			}
			smu.Lock()
			res.Statuses[t.K] = code
			if code == -1 {
				res.Panics[t.K] = body
			}
			if t.Act == "req" && code == 200 {
				res.Locked[t.K] = strings.Contains(body, `"locked":true`)
			}
			smu.Unlock()
		})
		synctest.Wait()
	}
	last := -1
	perm := func(depth, n int) []int { return rand.New(rand.NewSource(ws.Seed*1000003 + int64(depth))).Perm(n) }
	for r.step = 0; r.step < 300; r.step++ {
		beat(fmt.Sprintf("step %d", r.step))
		var enabled []int
		lastEnabled := false
		parked := []string{}
		for _, in := range sch.Snapshot() {
			if in.State == vhook.Parked {
				l, _ := labelSite(in.Label)
				if strings.HasPrefix(l, "A:") || strings.HasPrefix(l, "H:") {
					res.Sites[l]++
				}
				if r.canRun(in) {
					enabled = append(enabled, in.ID)
					lastEnabled = lastEnabled || in.ID == last
				} else {
					parked = append(parked, tname(in.ID)+"@"+l)
				}
			}
		}
		var alts, restAlts []wAlt
		if lastEnabled {
			alts = append(alts, wAlt{tid: last})
		}
		for _, t := range enabled {
			if t != last {
				restAlts = append(restAlts, wAlt{tid: t, cost: b2i(lastEnabled)})
			}
		}
		for _, s := range ws.Fires {
			if s < ws.Sessions && !r.isFired(s) {
				restAlts = append(restAlts, wAlt{tid: -1, fire: s, cost: b2i(lastEnabled)})
			}
		}
		for _, j := range perm(len(recs), len(restAlts)) {
			alts = append(alts, restAlts[j])
		}
		if len(alts) == 0 {
			if len(parked) > 0 {
				res.Suspected = parked
			}
			break
		}
		rec := wChoice{n: len(alts)}
		for _, a := range alts {
			rec.costs = append(rec.costs, a.cost)
		}
		if len(recs) < len(path) && path[len(recs)] < len(alts) {
			rec.chosen = path[len(recs)]
		}
		recs = append(recs, rec)
		res.Path = append(res.Path, rec.chosen)
		res.Preemptions += rec.costs[rec.chosen]
		a := alts[rec.chosen]
		if a.tid >= 0 {
			from := r.where(a.tid)
			sch.Release(a.tid)
			synctest.Wait()
			to := r.where(a.tid)
			res.Steps = append(res.Steps, WStep{T: tname(a.tid), From: from, To: to})
			if strings.Contains(from, "timerMgr.Reset(") || strings.Contains(from, "timerMgr.Add(") || (strings.Contains(from, ".Reset(") && !strings.Contains(from, "timerMgr")) {
				r.mu.Lock()
				r.armedAt[r.slotOf[a.tid]] = time.Since(r.t0)
				r.mu.Unlock()
			}
			if to == "running" && a.tid < 1000 { // (the timer's goroutine is not started by the harness: running = it has ended)
				res.Stuck = append(res.Stuck, tname(a.tid)+" after "+from)
			}
			last = a.tid
			r.settle1ns()
			continue
		}
		// the idle timer of session a.fire: the clock reaches the deadline of its latest (re-)arming
		r.mu.Lock()
		d := r.armedAt[a.fire] + winTmo - time.Since(r.t0)
		r.mu.Unlock()
		if d > 0 {
			time.Sleep(d)
		}
		synctest.Wait()
		to := "no-op (the timer was stopped or removed)"
		if _, ok := sch.Get(1000 + a.fire); ok {
			to = "c" + fmt.Sprint(a.fire) + "@" + r.where(1000+a.fire)
		}
		r.mu.Lock()
		r.fired[a.fire] = true
		r.mu.Unlock()
		res.Steps = append(res.Steps, WStep{T: fmt.Sprintf("fire %d", a.fire), To: to})
		last = -1
		r.settle1ns()
	}
	if r.step >= 300 {
		res.Truncated = true
	}
	return recs
}

func (r *wrun) isFired(s int) bool {
	r.mu.Lock()
	defer r.mu.Unlock()
	return r.fired[s]
}

func b2i(b bool) int {
	if b {
		return 1
	}
	return 0
}

// finish: the join observations, the settling, the final observations.
func (r *wrun) finish(beat func(string)) {
	res, R := r.res, r.R
	if res.SetupFail != "" || R.handler == nil {
		return
	}
	if len(res.Suspected) > 0 {
		// nobody is enabled by the notes. Confirm on the real mutexes: a real deadlock never comes back from here (the
		// wall-clock watchdog ends the process and names this execution); if everybody finishes the notes had lost track
		beat("confirming a suspected deadlock: " + strings.Join(res.Suspected, " "))
	}
	r.parking.Store(false)
	r.sch.FreeRun()
	synctest.Wait()
	if len(res.Suspected) > 0 {
		res.TrackingOff = true
	}
	beat("join")
	for _, in := range r.sch.Snapshot() {
		if in.State == vhook.Panicked {
			res.Panics[in.ID] = in.Panic
		}
		if in.State != vhook.Finished && in.State != vhook.Panicked && in.ID < 1000 {
			res.Stuck = append(res.Stuck, tname(in.ID)+" "+in.State.String()+" after the free run")
		}
	}
	r.mu.Lock()
	res.Events = append([]WEvent(nil), r.events...)
	r.mu.Unlock()
	R.wrap.mu.Lock()
	for _, s := range R.wrap.ends {
		res.EndsJoin[s]++
	}
	for _, s := range R.wrap.ended {
		res.EndedJoin[s]++
	}
	R.wrap.mu.Unlock()
	res.LocksJoin = []string{}
	for _, l := range R.srv.Locks() {
		res.LocksJoin = append(res.LocksJoin, l.Name())
	}
	sort.Strings(res.LocksJoin)
	if table, ok := sessionCookies(R.handler); ok {
		res.TableSeen = true
		res.TableJoin = []int{}
		for _, ck := range table {
			if idx := r.idxOf[ck]; idx > 0 {
				res.TableJoin = append(res.TableJoin, idx-1)
			}
		}
		sort.Ints(res.TableJoin)
	}
	// settle: every session idles for three timeouts
	time.Sleep(3 * winTmo)
	synctest.Wait()
	beat("settled")
	cks := make([]string, len(r.idxOf))
	for ck, idx := range r.idxOf {
		cks[idx-1] = ck
	}
	for _, ck := range cks {
		ck := ck
		code, _, _ := serveDirect(R.handler, "POST", "/v1/lock", `{"name":"post"}`, &ck)
		res.Post = append(res.Post, code)
	}
	R.wrap.mu.Lock()
	for _, s := range R.wrap.ends {
		res.EndsFinal[s]++
	}
	R.wrap.mu.Unlock()
	res.LocksLeft = []string{}
	for _, l := range R.srv.Locks() {
		res.LocksLeft = append(res.LocksLeft, l.Name())
	}
	sort.Strings(res.LocksLeft)
	R.hcloser()
	R.closer()
	synctest.Wait()
}

func newWrun(ws *WScenario, id string) *wrun {
	res := &WResult{ID: id, Scenario: ws.ID, Path: []int{}, Steps: []WStep{}, Events: []WEvent{}, Acts: map[int]string{}, Statuses: map[int]int{}, Locked: map[int]bool{},
		NoClear: ws.NoClear, Keep: ws.Keep, EndsJoin: map[string]int{}, EndedJoin: map[string]int{}, EndsFinal: map[string]int{}, Panics: map[int]string{}, Sites: map[string]int{}}
	return &wrun{ws: ws, holdW: map[string]int{}, holdR: map[string]int{}, owned: map[int]map[string]bool{}, alias: map[string]string{}, aliasN: map[string]int{},
		idxOf: map[string]int{}, slotOf: map[int]int{}, fired: map[int]bool{}, armedAt: map[int]time.Duration{}, res: res}
}

// exploreWindow: the preemption-bounded depth-first search over one scenario. -> (executions, exhausted)
func exploreWindow(t *testing.T, ws *WScenario, emit func(*WResult), pf *os.File, running *bool) (int, bool) {
	path := append([]int(nil), ws.Path...)
	runs := 0
	cap_ := ws.Cap
	if ws.Replay {
		cap_ = 1
	}
	for runs < cap_ {
		id := fmt.Sprintf("w:%s~%d", ws.ID, runs)
		pj, _ := json.Marshal(path)
		fmt.Fprintf(pf, "S %s\nW %s %s %s\n", id, id, ws.ID, pj)
		progCase.Store(id)
		var recs []wChoice
		r := newWrun(ws, id)
		beat := func(what string) {
			progTick.Add(1)
		}
		*running = true
		synctest.Test(t, func(t *testing.T) {
			recs = r.exec(path, beat)
			r.finish(func(what string) {
				progTick.Add(1)
				if strings.HasPrefix(what, "confirming") {
					b, _ := json.Marshal(r.res)
					fmt.Fprintf(pf, "L %s %s\n", id, b)
					pf.Sync()
				}
			})
		})
		*running = false
		emit(r.res)
		fmt.Fprintf(pf, "D %s\n", id)
		runs++
		if ws.Replay {
			return runs, true
		}
		// backtrack: the deepest choice point with an untried alternative within the preemption bound
		cum := make([]int, len(recs)+1)
		for i, rc := range recs {
			cum[i+1] = cum[i] + rc.costs[rc.chosen]
		}
		next, nj := -1, 0
		for i := len(recs) - 1; i >= 0 && next < 0; i-- {
			for j := recs[i].chosen + 1; j < recs[i].n; j++ {
				if cum[i]+recs[i].costs[j] <= ws.Bound {
					next, nj = i, j
					break
				}
			}
		}
		if next < 0 {
			return runs, true
		}
		path = path[:0]
		for i := 0; i < next; i++ {
			path = append(path, recs[i].chosen)
		}
		path = append(path, nj)
	}
	return runs, false
}

// Environment: RD_OUT (windows.jsonl, progress.txt), RD_WINDOW (JSONL of WScenario), RD_WATCHDOG (seconds).
func TestWindow(t *testing.T) {
	slog.SetDefault(slog.New(slog.NewTextHandler(io.Discard, nil)))
	out := os.Getenv("RD_OUT")
	if out == "" {
		t.Skip("RD_OUT not set")
	}
	os.MkdirAll(out, 0o755)
	f, err := os.Open(os.Getenv("RD_WINDOW"))
	if err != nil {
		t.Fatal(err)
	}
	var scs []*WScenario
	sc := bufio.NewScanner(f)
	sc.Buffer(make([]byte, 1<<20), 1<<26)
	for sc.Scan() {
		var s WScenario
		if json.Unmarshal(sc.Bytes(), &s) == nil && s.ID != "" {
			if s.Bound <= 0 && !s.Replay {
				s.Bound = 2
			}
			if s.Cap <= 0 {
				s.Cap = 120
			}
			scs = append(scs, &s)
		}
	}
	f.Close()
	wf, _ := os.OpenFile(filepath.Join(out, "windows.jsonl"), os.O_CREATE|os.O_WRONLY|os.O_APPEND, 0o644)
	pf, _ := os.OpenFile(filepath.Join(out, "progress.txt"), os.O_CREATE|os.O_WRONLY|os.O_APPEND, 0o644)
	defer wf.Close()
	defer pf.Close()
	running := false
	watchdog(pf, time.Duration(envInt("RD_WATCHDOG", 10))*time.Second, &running)
	w := bufio.NewWriter(wf)
	emit := func(res *WResult) {
		b, _ := json.Marshal(res)
		w.Write(append(b, '\n'))
		w.Flush()
	}
	for _, s := range scs {
		n, ex := exploreWindow(t, s, emit, pf, &running)
		b, _ := json.Marshal(wSummary{Summary: true, Scenario: s.ID, Executions: n, Exhausted: ex, Bound: s.Bound, Cap: s.Cap})
		w.Write(append(b, '\n'))
		w.Flush()
	}
}
