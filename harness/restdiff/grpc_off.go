//go:build !restgrpc

package restdiff

import (
	"context"
	"net"
	"testing/synctest"

	"google.golang.org/grpc/stats"

	grpcsvc "github.com/imoore76/ldlm/net/grpc"
	"github.com/imoore76/ldlm/server"
)

// Fallback when net/grpc.Run could not be instrumented on this tree: the Service object is called directly with a
// TagConn/HandleConn-managed context (no interceptors, no transport).
const grpcFrontIsReal = false

const grpcFrontKind = "Service methods called directly with TagConn/HandleConn contexts (grpc.Run could not be instrumented)"

func newGrpcFront(srv *server.LockServer) (*grpcFront, error) {
	svc := grpcsvc.NewService(srv)
	f := &grpcFront{stop: func() {}}
	f.connect = func() (caller, context.Context, string, func(), error) {
		ctx0 := svc.TagConn(context.Background(), &stats.ConnTagInfo{RemoteAddr: &net.TCPAddr{IP: net.IPv4(127, 0, 0, 1)}})
		ctx, cancel := context.WithCancel(ctx0)
		sid, _ := srv.SessionId(ctx)
		closeFn := func() {
			cancel()
			synctest.Wait()
			svc.HandleConn(ctx, &stats.ConnEnd{})
		}
		return svc, ctx, sid, closeFn, nil
	}
	return f, nil
}
