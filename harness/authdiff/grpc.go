package main

import (
	"context"
	"encoding/json"
	"fmt"
	"strings"
	"time"

	lgrpc "github.com/imoore76/ldlm/net/grpc"
	"github.com/imoore76/ldlm/net/security"
	pb "github.com/imoore76/ldlm/protos"
	"github.com/imoore76/ldlm/server"
	"google.golang.org/grpc"
	"google.golang.org/grpc/codes"
	"google.golang.org/grpc/credentials/insecure"
	"google.golang.org/grpc/metadata"
	"google.golang.org/grpc/status"
	"google.golang.org/protobuf/types/known/emptypb"
)

type grpcCase struct {
	ID     int         `json:"id"`
	Method string      `json:"method"` // Lock | TryLock | Unlock | Renew
	MD     [][2]string `json:"md"`     // [key, hex(value)] appended in this order (metadata.MD.Append lower-cases keys)
}

type grpcGroup struct {
	Password string     `json:"password"` // hex
	Cases    []grpcCase `json:"cases"`
}

type grpcInput struct {
	Groups []grpcGroup `json:"groups"`
}

type grpcObs struct {
	ID          int      `json:"id"`
	Code        string   `json:"code"` // codes.Code name of the RPC status; "OK" when the handler ran
	Message     string   `json:"message"`
	Unsendable  bool     `json:"unsendable"` // grpc-go's client refused to send this metadata
	RespErr     string   `json:"resp_err,omitempty"`
	RespLocked  bool     `json:"resp_locked"`
	LocksBefore []string `json:"locks_before"`
	LocksAfter  []string `json:"locks_after"`
	Degraded    bool     `json:"degraded,omitempty"`
}

type grpcFixture struct {
	ls       *server.LockServer
	pw       string
	cc       *grpc.ClientConn
	cl       pb.LDLMClient // one connection = one server session; metadata is per call
	heldKey  string
	degraded string // non-empty: the baseline (one held lock) could not be established, for a reason other than authentication
	closers  []func()
}

func (f *grpcFixture) rightCtx() (context.Context, context.CancelFunc) {
	ctx, cancel := context.WithTimeout(context.Background(), 5*time.Second)
	if f.pw != "" {
		ctx = metadata.AppendToOutgoingContext(ctx, "authorization", f.pw)
	}
	return ctx, cancel
}

func newGrpcFixture(pw string) (*grpcFixture, error) {
	ls, lsClose, err := newLockServer()
	if err != nil {
		return nil, fmt.Errorf("server.New: %v", err)
	}
	f := &grpcFixture{ls: ls, pw: pw, closers: []func(){lsClose}}
	svc := lgrpc.NewService(ls)
	var addr string
	var stop func()
	for attempt := 0; attempt < 5; attempt++ {
		port, err := freePort()
		if err != nil {
			f.close()
			return nil, err
		}
		addr = fmt.Sprintf("127.0.0.1:%d", port)
		stop, err = lgrpc.Run(svc, &lgrpc.GrpcConfig{
			KeepaliveInterval: time.Minute, KeepaliveTimeout: 10 * time.Second, ListenAddress: addr,
		}, &security.SecurityConfig{Password: pw})
		if err == nil {
			break
		}
		if !strings.Contains(err.Error(), "address already in use") || attempt == 4 {
			f.close()
			return nil, fmt.Errorf("grpc.Run: %v", err)
		}
	}
	f.closers = append([]func(){stop}, f.closers...)
	cc, err := grpc.NewClient(addr, grpc.WithTransportCredentials(insecure.NewCredentials()))
	if err != nil {
		f.close()
		return nil, fmt.Errorf("grpc.NewClient: %v", err)
	}
	f.closers = append([]func(){func() { cc.Close() }}, f.closers...)
	f.cc = cc
	f.cl = pb.NewLDLMClient(cc)
	return f, nil
}

func (f *grpcFixture) close() {
	for _, c := range f.closers {
		c()
	}
}

// baseline: the connection holds exactly one lock; nothing else is held. An error means the
// CONFIGURED password was answered Unauthenticated (that is the property); any other obstacle
// only degrades the fixture (f.degraded) and the cases run against whatever state there is.
func (f *grpcFixture) baseline() error {
	f.degraded = ""
	for _, l := range f.ls.Locks() {
		ctx, cancel := f.rightCtx()
		_, err := f.cl.Unlock(ctx, &pb.UnlockRequest{Name: l.Name(), Key: l.Key()})
		cancel()
		if status.Code(err) == codes.Unauthenticated {
			return fmt.Errorf("Unlock with the configured password: %v", err)
		} else if err != nil {
			f.degraded = fmt.Sprintf("Unlock: %v", err)
		}
	}
	ctx, cancel := f.rightCtx()
	defer cancel()
	to := int32(3600)
	r, err := f.cl.TryLock(ctx, &pb.TryLockRequest{Name: heldLock, LockTimeoutSeconds: &to})
	if status.Code(err) == codes.Unauthenticated {
		return fmt.Errorf("TryLock with the configured password: %v", err)
	}
	if err != nil || !r.Locked || r.Key == "" {
		f.degraded = fmt.Sprintf("TryLock(%s) = %v, %v", heldLock, r, err)
		return nil
	}
	f.heldKey = r.Key
	if l := locksOf(f.ls); len(l) != 1 {
		f.degraded = fmt.Sprintf("expected exactly the held lock, Locks() = %v", l)
	}
	return nil
}

func runGrpc(data []byte, out *json.Encoder) {
	var in grpcInput
	if err := json.Unmarshal(data, &in); err != nil {
		fatal(out, "bad input: "+err.Error())
		return
	}
	for gi, g := range in.Groups {
		pw := unhex(g.Password)
		f, err := newGrpcFixture(pw)
		if err != nil {
			out.Encode(map[string]any{"group": gi, "fatal": err.Error()})
			continue
		}
		if err := f.baseline(); err != nil {
			out.Encode(map[string]any{"group": gi, "fatal": "baseline: " + err.Error(), "kind": "right_password_rejected"})
			f.close()
			continue
		}
		if f.degraded != "" {
			out.Encode(map[string]any{"group": gi, "degraded": f.degraded})
		}
		for _, c := range g.Cases {
			md := metadata.MD{}
			for _, kv := range c.MD {
				md.Append(kv[0], unhex(kv[1]))
			}
			ctx, cancel := context.WithTimeout(context.Background(), 5*time.Second)
			if len(c.MD) > 0 {
				ctx = metadata.NewOutgoingContext(ctx, md)
			}
			o := grpcObs{ID: c.ID, LocksBefore: locksOf(f.ls), Degraded: f.degraded != ""}
			to := int32(3600)
			zero := int32(0)
			var rerr error
			var perr *pb.Error
			switch c.Method {
			case "Lock":
				var r *pb.LockResponse
				r, rerr = f.cl.Lock(ctx, &pb.LockRequest{Name: "verif-probe", LockTimeoutSeconds: &to, WaitTimeoutSeconds: &zero})
				if r != nil {
					o.RespLocked, perr = r.Locked, r.Error
				}
			case "TryLock":
				var r *pb.LockResponse
				r, rerr = f.cl.TryLock(ctx, &pb.TryLockRequest{Name: "verif-probe", LockTimeoutSeconds: &to})
				if r != nil {
					o.RespLocked, perr = r.Locked, r.Error
				}
			case "Unlock":
				var r *pb.UnlockResponse
				r, rerr = f.cl.Unlock(ctx, &pb.UnlockRequest{Name: heldLock, Key: f.heldKey})
				if r != nil {
					o.RespLocked, perr = r.Unlocked, r.Error
				}
			case "Renew":
				var r *pb.LockResponse
				r, rerr = f.cl.Renew(ctx, &pb.RenewRequest{Name: heldLock, Key: f.heldKey, LockTimeoutSeconds: 3600})
				if r != nil {
					o.RespLocked, perr = r.Locked, r.Error
				}
			default:
				// a unary method this harness has no request for (the descriptor of the tree lists it): an empty
				// message decodes into any protobuf message, so the call reaches the interceptor chain
				rerr = f.cc.Invoke(ctx, "/"+pb.LDLM_ServiceDesc.ServiceName+"/"+c.Method, &emptypb.Empty{}, &emptypb.Empty{})
			}
			cancel()
			if perr != nil {
				o.RespErr = perr.String()
			}
			st, _ := status.FromError(rerr)
			o.Code = st.Code().String()
			o.Message = st.Message()
			// grpc-go validates outgoing metadata before anything is sent.
			if st.Code() == codes.Internal && strings.Contains(st.Message(), "header key") {
				o.Unsendable = true
			}
			o.LocksAfter = locksOf(f.ls)
			out.Encode(o)
			if !sameStrings(o.LocksBefore, o.LocksAfter) || st.Code() == codes.OK {
				if err := f.baseline(); err != nil {
					out.Encode(map[string]any{"group": gi, "fatal": "baseline after case " + fmt.Sprint(c.ID) + ": " + err.Error(), "kind": "right_password_rejected"})
					break
				}
			}
		}
		f.close()
	}
}
