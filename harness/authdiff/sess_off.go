//go:build !restsess

package main

import "net/http"

// Built without the overlay (it did not compile against this tree): the session table is not
// reachable; the harness still observes whether the session created before a request works after it.
func sessionCount(h http.Handler) int { return -2 }
