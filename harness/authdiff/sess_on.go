//go:build restsess

package main

import (
	"net/http"

	"github.com/imoore76/ldlm/net/rest"
)

// sessionCount reads the size of the REST session table through rest.VerifSessionCount, a
// function checks/c16.py adds to package rest with `go build -overlay` (nothing is written to
// the tree under test).
func sessionCount(h http.Handler) int { return rest.VerifSessionCount(h) }
