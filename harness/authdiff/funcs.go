package main

import (
	"encoding/base64"
	"encoding/json"
	"strings"

	pb "github.com/imoore76/ldlm/protos"
)

// runDesc prints the service descriptor the tree registers: the password interceptor is a
// grpc.UnaryInterceptor, so it covers exactly the unary methods; a stream would bypass it.
func runDesc(out *json.Encoder) {
	ms, ss := []string{}, []string{}
	for _, m := range pb.LDLM_ServiceDesc.Methods {
		ms = append(ms, m.MethodName)
	}
	for _, s := range pb.LDLM_ServiceDesc.Streams {
		ss = append(ss, s.StreamName)
	}
	out.Encode(map[string]any{"service": pb.LDLM_ServiceDesc.ServiceName, "methods": ms, "streams": ss})
}

type funcsInput struct {
	Strings []string `json:"strings"` // hex
}

// runFuncs: the two library functions ValidatePassword is made of, on their own.
func runFuncs(data []byte, out *json.Encoder) {
	var in funcsInput
	if err := json.Unmarshal(data, &in); err != nil {
		fatal(out, "bad input: "+err.Error())
		return
	}
	for i, h := range in.Strings {
		s := unhex(h)
		o := map[string]any{"id": i}
		if d, err := base64.StdEncoding.DecodeString(s); err == nil {
			o["b64"] = hx(string(d))
		} else {
			o["b64"] = nil
		}
		parts := []string{}
		for _, p := range strings.Split(s, "Basic ") {
			parts = append(parts, hx(p))
		}
		o["split"] = parts
		out.Encode(o)
	}
}
