package main

import (
	"encoding/base64"
	"encoding/json"
	"fmt"
	"net/http"
	"net/http/httptest"
	"strings"
	"time"

	lgrpc "github.com/imoore76/ldlm/net/grpc"
	"github.com/imoore76/ldlm/net/rest"
	"github.com/imoore76/ldlm/net/security"
	"github.com/imoore76/ldlm/server"
)

type restCase struct {
	ID      int         `json:"id"`
	Method  string      `json:"method"`
	Path    string      `json:"path"`
	Headers [][2]string `json:"headers"` // [name, hex(value)], set in this order
}

type restGroup struct {
	Password string     `json:"password"` // hex
	Cases    []restCase `json:"cases"`
}

type restInput struct {
	Groups []restGroup `json:"groups"`
}

type restObs struct {
	ID              int      `json:"id"`
	Status          int      `json:"status"`
	Body            string   `json:"body"` // hex
	WWWAuthenticate string   `json:"www_authenticate"`
	SetCookie       bool     `json:"set_cookie"`
	LocksBefore     []string `json:"locks_before"`
	LocksAfter      []string `json:"locks_after"`
	// len(restHandler.sessions) through the build overlay; -2 when the overlay could not be applied
	SessionsBefore int `json:"sessions_before"`
	SessionsAfter  int `json:"sessions_after"`
	// after the request: does the session created before it still work, with the right password?
	PostRenewStatus int    `json:"post_renew_status"`
	PostRenewBody   string `json:"post_renew_body"`
	PostRenewLocked bool   `json:"post_renew_locked"`
	Error           string `json:"error,omitempty"`
	Degraded        bool   `json:"degraded,omitempty"`
}

const sessionCookie = "ldlm-session"
const heldLock = "verif-held"

type restFixture struct {
	ls       *server.LockServer
	h        http.Handler
	pw       string
	cookie   string
	heldKey  string
	degraded string // non-empty: the baseline could not be established for a reason other than authentication
	closers  []func()
}

// serve calls the real handler; a handler that does not return within 5 s is reported.
func (f *restFixture) serve(method, path, body string, hdr http.Header, withCookie bool) (*httptest.ResponseRecorder, error) {
	var req *http.Request
	func() {
		defer func() { recover() }() // httptest.NewRequest panics on a target it cannot parse
		req = httptest.NewRequest(method, path, strings.NewReader(body))
	}()
	if req == nil {
		return nil, fmt.Errorf("unusable request target %q %q", method, path)
	}
	for k, v := range hdr {
		req.Header[k] = v
	}
	if withCookie && f.cookie != "" {
		req.AddCookie(&http.Cookie{Name: sessionCookie, Value: f.cookie})
	}
	rec := httptest.NewRecorder()
	done := make(chan struct{})
	go func() {
		defer func() {
			if r := recover(); r != nil {
				rec.Code = -1
				rec.Body.WriteString(fmt.Sprint("panic: ", r))
			}
			close(done)
		}()
		f.h.ServeHTTP(rec, req)
	}()
	select {
	case <-done:
		return rec, nil
	case <-time.After(5 * time.Second):
		return nil, fmt.Errorf("handler did not return within 5s on %s %s", method, path)
	}
}

func (f *restFixture) rightAuth() http.Header {
	h := http.Header{}
	if f.pw != "" {
		h["Authorization"] = []string{"Basic " + base64.StdEncoding.EncodeToString([]byte("verif:"+f.pw))}
	}
	return h
}

// gateRejected: the answer ValidatePassword gives (401, no body).
func gateRejected(rec *httptest.ResponseRecorder) bool {
	return rec.Code == http.StatusUnauthorized && rec.Body.Len() == 0
}

// baseline (re)creates: one REST session holding one lock, nothing else held. An error means
// the CONFIGURED password was answered 401 by the gate (that is the property) or the handler
// hung; any other obstacle only degrades the fixture (f.degraded).
func (f *restFixture) baseline() error {
	f.degraded = ""
	if f.cookie != "" {
		if _, err := f.serve("DELETE", "/session", "", f.rightAuth(), true); err != nil {
			return err
		}
		f.cookie = ""
	}
	f.heldKey = ""
	rec, err := f.serve("POST", "/session", "", f.rightAuth(), false)
	if err != nil {
		return err
	}
	if gateRejected(rec) {
		return fmt.Errorf("POST /session with the configured password answered %d %q", rec.Code, rec.Body.String())
	}
	for _, c := range rec.Result().Cookies() {
		if c.Name == sessionCookie {
			f.cookie = c.Value
		}
	}
	if rec.Code != http.StatusCreated || f.cookie == "" {
		f.degraded = fmt.Sprintf("POST /session answered %d %q", rec.Code, rec.Body.String())
		return nil
	}
	rec, err = f.serve("POST", "/v1/lock", fmt.Sprintf(`{"name":%q,"lockTimeoutSeconds":3600}`, heldLock), f.rightAuth(), true)
	if err != nil {
		return err
	}
	if gateRejected(rec) {
		return fmt.Errorf("POST /v1/lock with the configured password answered %d %q", rec.Code, rec.Body.String())
	}
	var lr struct {
		Locked bool   `json:"locked"`
		Key    string `json:"key"`
	}
	if rec.Code != 200 || json.Unmarshal(rec.Body.Bytes(), &lr) != nil || !lr.Locked || lr.Key == "" {
		f.degraded = fmt.Sprintf("POST /v1/lock answered %d %q", rec.Code, rec.Body.String())
		return nil
	}
	f.heldKey = lr.Key
	if l := locksOf(f.ls); len(l) != 1 {
		f.degraded = fmt.Sprintf("expected exactly the held lock, Locks() = %v", l)
	}
	// the probe used after every case ("is the session still what it was") must work on an untouched session
	rec, err = f.serve("POST", "/v1/renew", f.bodyFor("/v1/renew"), f.rightAuth(), true)
	if err != nil {
		return err
	}
	lr.Locked = false
	if rec.Code != 200 || json.Unmarshal(rec.Body.Bytes(), &lr) != nil || !lr.Locked {
		f.degraded = fmt.Sprintf("POST /v1/renew of the held lock answered %d %q", rec.Code, rec.Body.String())
	}
	return nil
}

func (f *restFixture) bodyFor(path string) string {
	switch path {
	case "/v1/lock":
		return `{"name":"verif-probe","lockTimeoutSeconds":3600}`
	case "/v1/unlock":
		return fmt.Sprintf(`{"name":%q,"key":%q}`, heldLock, f.heldKey)
	case "/v1/renew":
		return fmt.Sprintf(`{"name":%q,"key":%q,"lockTimeoutSeconds":3600}`, heldLock, f.heldKey)
	}
	return ""
}

func newRestFixture(pw string) (*restFixture, error) {
	ls, lsClose, err := newLockServer()
	if err != nil {
		return nil, fmt.Errorf("server.New: %v", err)
	}
	svc := lgrpc.NewService(ls)
	srv, restClose, err := rest.NewRestServer(svc, &rest.RestConfig{RestSessionTimeout: time.Hour},
		&security.SecurityConfig{Password: pw})
	if err != nil {
		lsClose()
		return nil, fmt.Errorf("rest.NewRestServer: %v", err)
	}
	f := &restFixture{ls: ls, h: srv.Handler, pw: pw, closers: []func(){restClose, lsClose}}
	return f, nil
}

func (f *restFixture) close() {
	for _, c := range f.closers {
		c()
	}
}

func runRest(data []byte, out *json.Encoder) {
	var in restInput
	if err := json.Unmarshal(data, &in); err != nil {
		fatal(out, "bad input: "+err.Error())
		return
	}
	for gi, g := range in.Groups {
		pw := unhex(g.Password)
		f, err := newRestFixture(pw)
		if err != nil {
			out.Encode(map[string]any{"group": gi, "fatal": err.Error()})
			continue
		}
		if err := f.baseline(); err != nil {
			out.Encode(map[string]any{"group": gi, "fatal": "baseline: " + err.Error(), "kind": fatalKind(err)})
			f.close()
			continue
		}
		if f.degraded != "" {
			out.Encode(map[string]any{"group": gi, "degraded": f.degraded})
		}
		for _, c := range g.Cases {
			hdr := http.Header{}
			for _, kv := range c.Headers {
				k := http.CanonicalHeaderKey(kv[0])
				hdr[k] = append(hdr[k], unhex(kv[1]))
			}
			o := restObs{ID: c.ID, LocksBefore: locksOf(f.ls), Degraded: f.degraded != "", SessionsBefore: sessionCount(f.h), SessionsAfter: -2}
			rec, err := f.serve(c.Method, c.Path, f.bodyFor(c.Path), hdr, true)
			if err != nil && strings.HasPrefix(err.Error(), "unusable request target") {
				o.Error = err.Error()
				out.Encode(o)
				continue
			}
			if err != nil {
				o.Error = err.Error()
				out.Encode(o)
				out.Encode(map[string]any{"group": gi, "fatal": "abandoned after: " + err.Error(), "kind": "hang"})
				break
			}
			o.Status = rec.Code
			o.Body = hx(rec.Body.String())
			o.WWWAuthenticate = rec.Header().Get("WWW-Authenticate")
			o.SetCookie = len(rec.Header()["Set-Cookie"]) > 0
			o.LocksAfter = locksOf(f.ls)
			o.SessionsAfter = sessionCount(f.h)
			// Is the session (and the hold) still what it was?
			pr, err := f.serve("POST", "/v1/renew", f.bodyFor("/v1/renew"), f.rightAuth(), true)
			if err != nil {
				o.Error = err.Error()
			} else {
				o.PostRenewStatus = pr.Code
				o.PostRenewBody = pr.Body.String()
				var lr struct {
					Locked bool `json:"locked"`
				}
				o.PostRenewLocked = json.Unmarshal(pr.Body.Bytes(), &lr) == nil && lr.Locked
			}
			out.Encode(o)
			untouched := gateRejected(rec) && sameStrings(o.LocksBefore, o.LocksAfter) && o.SessionsBefore == o.SessionsAfter &&
				(f.degraded != "" || (pr != nil && pr.Code == 200 && o.PostRenewLocked))
			if !untouched {
				if err := f.baseline(); err != nil {
					out.Encode(map[string]any{"group": gi, "fatal": "baseline after case " + fmt.Sprint(c.ID) + ": " + err.Error(), "kind": fatalKind(err)})
					break
				}
			}
		}
		f.close()
	}
}

func fatalKind(err error) string {
	if strings.Contains(err.Error(), "did not return") {
		return "hang"
	}
	return "right_password_rejected"
}

func fatal(out *json.Encoder, msg string) {
	out.Encode(map[string]any{"group": -1, "fatal": msg})
}
