package main

import (
	"context"
	"crypto/tls"
	"crypto/x509"
	"encoding/base64"
	"encoding/json"
	"fmt"
	"io"
	"net"
	"net/http"
	"os"
	"strings"
	"time"

	ldlmnet "github.com/imoore76/ldlm/net"
	"github.com/imoore76/ldlm/net/security"
	pb "github.com/imoore76/ldlm/protos"
	"github.com/imoore76/ldlm/server"
	"google.golang.org/grpc"
	"google.golang.org/grpc/codes"
	"google.golang.org/grpc/credentials"
	"google.golang.org/grpc/credentials/insecure"
	"google.golang.org/grpc/metadata"
	"google.golang.org/grpc/status"
)

type tlsInput struct {
	Cert     string `json:"cert"`
	Key      string `json:"key"`
	Verify   bool   `json:"verify"`
	CA       string `json:"ca"`
	Password string `json:"password"` // hex
	Rest     bool   `json:"rest"`
	// client side material
	ServerCA   string `json:"server_ca"`
	ClientCert string `json:"client_cert"`
	ClientKey  string `json:"client_key"`
}

type probe struct {
	OK bool `json:"ok"` // the expected application-level answer of the ldlm handler was obtained over this transport
	// Reached: the transport let the request through to the server's request handling at all (any gRPC status that
	// is not a connection failure / any HTTP response other than net/http's own "HTTP request to an HTTPS server").
	// This, not OK, is what "the listener accepts this kind of client" means: a tree whose lock logic is broken
	// still answers.
	Reached bool   `json:"reached"`
	Detail  string `json:"detail"`
}

type pwProbe struct {
	Proto     string `json:"proto"`
	Mode      string `json:"mode"`
	Route     string `json:"route"`
	Cred      string `json:"cred"` // none | wrong | right
	Outcome   string `json:"outcome"`
	BodyEmpty bool   `json:"body_empty"`
	LocksSame bool   `json:"locks_same"`
}

type tlsOutput struct {
	Facts       map[string]bool  `json:"facts"`
	Direct      map[string]any   `json:"direct"`
	Started     bool             `json:"started"`
	Error       string           `json:"error"`
	RestUp      bool             `json:"rest_listening"`
	Probes      map[string]probe `json:"probes"`
	PwProbes    []pwProbe        `json:"password_probes"`
	ProbeErrors []string         `json:"probe_errors"`
}

// oracleFacts: what the file system and the parsers of the standard library say about the
// configured files — the instantiation of the model's file_oracle for this run.
func oracleFacts(in *tlsInput) map[string]bool {
	f := map[string]bool{}
	certPEM, e1 := os.ReadFile(in.Cert)
	keyPEM, e2 := os.ReadFile(in.Key)
	f["read_cert"] = e1 == nil
	f["read_key"] = e2 == nil
	if e1 == nil && e2 == nil {
		_, err := tls.X509KeyPair(certPEM, keyPEM)
		f["pair"] = err == nil
	}
	caPEM, e3 := os.ReadFile(in.CA)
	f["read_ca"] = e3 == nil
	if e3 == nil {
		f["append_ca"] = x509.NewCertPool().AppendCertsFromPEM(caPEM)
	}
	_, e4 := os.ReadFile("")
	f["read_empty_path"] = e4 == nil
	return f
}

func clientTLS(in *tlsInput, withCert bool) (*tls.Config, error) {
	pool := x509.NewCertPool()
	pem, err := os.ReadFile(in.ServerCA)
	if err != nil {
		return nil, err
	}
	pool.AppendCertsFromPEM(pem)
	c := &tls.Config{RootCAs: pool, ServerName: "localhost"}
	if withCert {
		cert, err := tls.LoadX509KeyPair(in.ClientCert, in.ClientKey)
		if err != nil {
			return nil, err
		}
		c.Certificates = []tls.Certificate{cert}
	}
	return c, nil
}

var modes = []string{"plain", "tls_nocert", "tls_cert"}

func grpcClient(in *tlsInput, addr, mode string) (pb.LDLMClient, func(), error) {
	var creds credentials.TransportCredentials
	if mode == "plain" {
		creds = insecure.NewCredentials()
	} else {
		c, err := clientTLS(in, mode == "tls_cert")
		if err != nil {
			return nil, nil, err
		}
		creds = credentials.NewTLS(c)
	}
	cc, err := grpc.NewClient(addr, grpc.WithTransportCredentials(creds))
	if err != nil {
		return nil, nil, err
	}
	return pb.NewLDLMClient(cc), func() { cc.Close() }, nil
}

func httpClient(in *tlsInput, mode string) (*http.Client, string, error) {
	tr := &http.Transport{DisableKeepAlives: true}
	scheme := "http"
	if mode != "plain" {
		c, err := clientTLS(in, mode == "tls_cert")
		if err != nil {
			return nil, "", err
		}
		tr.TLSClientConfig = c
		scheme = "https"
	}
	return &http.Client{Transport: tr, Timeout: 3 * time.Second}, scheme, nil
}

func credCtx(cred, pw string) (context.Context, context.CancelFunc) {
	ctx, cancel := context.WithTimeout(context.Background(), 3*time.Second)
	switch cred {
	case "right":
		if pw != "" {
			ctx = metadata.AppendToOutgoingContext(ctx, "authorization", pw)
		}
	case "wrong":
		ctx = metadata.AppendToOutgoingContext(ctx, "authorization", pw+"x")
	}
	return ctx, cancel
}

func basic(cred, pw string) string {
	switch cred {
	case "right":
		return "Basic " + base64.StdEncoding.EncodeToString([]byte("verif:"+pw))
	case "wrong":
		return "Basic " + base64.StdEncoding.EncodeToString([]byte("verif:"+pw+"x"))
	}
	return ""
}

func runTLSOne(data []byte, enc *json.Encoder) {
	var in tlsInput
	if err := json.Unmarshal(data, &in); err != nil {
		fmt.Fprintln(os.Stderr, "authdiff: bad input:", err)
		os.Exit(64)
	}
	pw := unhex(in.Password)
	out := tlsOutput{Facts: oracleFacts(&in), Direct: map[string]any{}, Probes: map[string]probe{}, PwProbes: []pwProbe{}, ProbeErrors: []string{}}
	sconf := security.SecurityConfig{TlsCert: in.Cert, TlsKey: in.Key, ClientCertVerify: in.Verify, ClientCA: in.CA, Password: pw}

	// The decision function on its own.
	sc := sconf
	if c, err := security.GetTLSConfig(&sc); err != nil {
		out.Direct["err"] = err.Error()
	} else if c == nil {
		out.Direct["nil"] = true
	} else {
		out.Direct["client_auth"] = c.ClientAuth.String()
		out.Direct["certs"] = len(c.Certificates)
		out.Direct["client_cas"] = c.ClientCAs != nil
	}

	// The real start-up path.
	ls, lsClose, err := newLockServer()
	if err != nil {
		fmt.Fprintln(os.Stderr, "authdiff: server.New:", err)
		os.Exit(70)
	}
	gp, err1 := freePort()
	rp, err2 := freePort()
	if err1 != nil || err2 != nil {
		fmt.Fprintln(os.Stderr, "authdiff: no free port:", err1, err2)
		os.Exit(70)
	}
	conf := &ldlmnet.NetConfig{}
	conf.ListenAddress = fmt.Sprintf("127.0.0.1:%d", gp)
	conf.KeepaliveInterval = time.Minute
	conf.KeepaliveTimeout = 10 * time.Second
	restAddr := fmt.Sprintf("127.0.0.1:%d", rp)
	if in.Rest {
		conf.RestListenAddress = restAddr
		conf.RestSessionTimeout = time.Hour
	}
	conf.SecurityConfig = sconf
	closer, err := ldlmnet.Run(ls, conf)
	if err != nil {
		out.Error = err.Error()
		lsClose()
		enc.Encode(out)
		return
	}
	out.Started = true
	if in.Rest {
		for i := 0; i < 60 && !out.RestUp; i++ {
			c, err := net.DialTimeout("tcp", restAddr, 200*time.Millisecond)
			if err == nil {
				c.Close()
				out.RestUp = true
			} else {
				time.Sleep(50 * time.Millisecond)
			}
		}
	}

	// Connectivity: which transports reach the handler (with the configured password)?
	for _, mode := range modes {
		out.Probes["grpc_"+mode] = grpcConnectivity(&in, conf.ListenAddress, mode, pw)
		if in.Rest {
			out.Probes["rest_"+mode] = restConnectivity(&in, restAddr, mode, pw)
		}
	}

	// Password over the wire, on the first transport that works.
	if pw != "" {
		for _, mode := range modes {
			if out.Probes["grpc_"+mode].Reached {
				out.PwProbes = append(out.PwProbes, grpcPasswordProbes(&in, ls, conf.ListenAddress, mode, pw, &out)...)
				break
			}
		}
		for _, mode := range modes {
			if in.Rest && out.Probes["rest_"+mode].Reached {
				out.PwProbes = append(out.PwProbes, restPasswordProbes(&in, ls, restAddr, mode, pw, &out)...)
				break
			}
		}
	}
	closer()
	lsClose()
	enc.Encode(out)
}

func grpcConnectivity(in *tlsInput, addr, mode, pw string) probe {
	cl, closeFn, err := grpcClient(in, addr, mode)
	if err != nil {
		return probe{false, false, "client: " + err.Error()}
	}
	defer closeFn()
	ctx, cancel := credCtx("right", pw)
	defer cancel()
	to := int32(60)
	name := "verif-conn-" + mode
	r, err := cl.TryLock(ctx, &pb.TryLockRequest{Name: name, LockTimeoutSeconds: &to})
	if err != nil {
		c := status.Code(err)
		reached := c != codes.Unavailable && c != codes.DeadlineExceeded && c != codes.Canceled
		return probe{false, reached, c.String() + ": " + status.Convert(err).Message()}
	}
	if !r.Locked {
		return probe{false, true, "answered but not locked: " + r.String()}
	}
	ctx2, cancel2 := credCtx("right", pw)
	defer cancel2()
	cl.Unlock(ctx2, &pb.UnlockRequest{Name: name, Key: r.Key})
	return probe{true, true, "TryLock locked"}
}

func restDo(c *http.Client, method, url, auth, cookie, body string) (int, string, []*http.Cookie, error) {
	req, err := http.NewRequest(method, url, strings.NewReader(body))
	if err != nil {
		return 0, "", nil, err
	}
	if auth != "" {
		req.Header.Set("Authorization", auth)
	}
	if cookie != "" {
		req.AddCookie(&http.Cookie{Name: sessionCookie, Value: cookie})
	}
	resp, err := c.Do(req)
	if err != nil {
		return 0, "", nil, err
	}
	defer resp.Body.Close()
	b, _ := io.ReadAll(io.LimitReader(resp.Body, 1<<16))
	return resp.StatusCode, string(b), resp.Cookies(), nil
}

func restConnectivity(in *tlsInput, addr, mode, pw string) probe {
	c, scheme, err := httpClient(in, mode)
	if err != nil {
		return probe{false, false, "client: " + err.Error()}
	}
	code, body, cookies, err := restDo(c, "POST", scheme+"://"+addr+"/session", basic("right", pw), "", "")
	if err != nil {
		return probe{false, false, err.Error()}
	}
	if code != http.StatusCreated {
		// net/http's TLS listener answers a plaintext request itself, before any handler
		own := code == http.StatusBadRequest && strings.HasPrefix(body, "Client sent an HTTP request to an HTTPS server")
		return probe{false, !own, fmt.Sprintf("HTTP %d %q", code, body)}
	}
	for _, ck := range cookies {
		if ck.Name == sessionCookie {
			restDo(c, "DELETE", scheme+"://"+addr+"/session", basic("right", pw), ck.Value, "")
		}
	}
	return probe{true, true, "POST /session 201"}
}

func grpcPasswordProbes(in *tlsInput, ls *server.LockServer, addr, mode, pw string, out *tlsOutput) []pwProbe {
	res := []pwProbe{}
	cl, closeFn, err := grpcClient(in, addr, mode)
	if err != nil {
		out.ProbeErrors = append(out.ProbeErrors, "grpc client: "+err.Error())
		return res
	}
	defer closeFn()
	to := int32(3600)
	zero := int32(0)
	ctx, cancel := credCtx("right", pw)
	held, err := cl.TryLock(ctx, &pb.TryLockRequest{Name: heldLock, LockTimeoutSeconds: &to})
	cancel()
	if err != nil || !held.Locked {
		out.ProbeErrors = append(out.ProbeErrors, fmt.Sprintf("grpc: cannot take the held lock with the configured password: %v %v", held, err))
		return res
	}
	call := func(method, cred string) pwProbe {
		before := locksOf(ls)
		ctx, cancel := credCtx(cred, pw)
		defer cancel()
		var err error
		switch method {
		case "Lock":
			var r *pb.LockResponse
			r, err = cl.Lock(ctx, &pb.LockRequest{Name: "verif-probe-l", LockTimeoutSeconds: &to, WaitTimeoutSeconds: &zero})
			if err == nil && r.Locked {
				c2, cc := credCtx("right", pw)
				cl.Unlock(c2, &pb.UnlockRequest{Name: "verif-probe-l", Key: r.Key})
				cc()
			}
		case "TryLock":
			var r *pb.LockResponse
			r, err = cl.TryLock(ctx, &pb.TryLockRequest{Name: "verif-probe-t", LockTimeoutSeconds: &to})
			if err == nil && r.Locked {
				c2, cc := credCtx("right", pw)
				cl.Unlock(c2, &pb.UnlockRequest{Name: "verif-probe-t", Key: r.Key})
				cc()
			}
		case "Renew":
			_, err = cl.Renew(ctx, &pb.RenewRequest{Name: heldLock, Key: held.Key, LockTimeoutSeconds: 3600})
		case "Unlock":
			_, err = cl.Unlock(ctx, &pb.UnlockRequest{Name: heldLock, Key: held.Key})
		}
		after := locksOf(ls)
		return pwProbe{Proto: "grpc", Mode: mode, Route: method, Cred: cred, Outcome: status.Code(err).String(),
			BodyEmpty: true, LocksSame: sameStrings(before, after)}
	}
	for _, cred := range []string{"none", "wrong"} {
		for _, m := range []string{"Lock", "TryLock", "Renew", "Unlock"} {
			res = append(res, call(m, cred))
		}
	}
	for _, m := range []string{"Renew", "Lock", "TryLock", "Unlock"} {
		res = append(res, call(m, "right"))
	}
	return res
}

func restPasswordProbes(in *tlsInput, ls *server.LockServer, addr, mode, pw string, out *tlsOutput) []pwProbe {
	res := []pwProbe{}
	c, scheme, err := httpClient(in, mode)
	if err != nil {
		out.ProbeErrors = append(out.ProbeErrors, "http client: "+err.Error())
		return res
	}
	base := scheme + "://" + addr
	code, body, cookies, err := restDo(c, "POST", base+"/session", basic("right", pw), "", "")
	cookie := ""
	for _, ck := range cookies {
		if ck.Name == sessionCookie {
			cookie = ck.Value
		}
	}
	if err != nil || code != 201 || cookie == "" {
		out.ProbeErrors = append(out.ProbeErrors, fmt.Sprintf("rest: POST /session with the configured password: %d %q %v", code, body, err))
		return res
	}
	code, body, _, err = restDo(c, "POST", base+"/v1/lock", basic("right", pw), cookie, fmt.Sprintf(`{"name":%q,"lockTimeoutSeconds":3600}`, heldLock))
	var lr struct {
		Locked bool   `json:"locked"`
		Key    string `json:"key"`
	}
	if err != nil || code != 200 || json.Unmarshal([]byte(body), &lr) != nil || !lr.Locked {
		out.ProbeErrors = append(out.ProbeErrors, fmt.Sprintf("rest: POST /v1/lock with the configured password: %d %q %v", code, body, err))
		return res
	}
	type route struct{ method, path, body string }
	routes := map[string]route{
		"POST /session":   {"POST", "/session", ""},
		"DELETE /session": {"DELETE", "/session", ""},
		"POST /v1/lock":   {"POST", "/v1/lock", `{"name":"verif-probe-r","lockTimeoutSeconds":3600}`},
		"POST /v1/unlock": {"POST", "/v1/unlock", fmt.Sprintf(`{"name":%q,"key":%q}`, heldLock, lr.Key)},
		"POST /v1/renew":  {"POST", "/v1/renew", fmt.Sprintf(`{"name":%q,"key":%q,"lockTimeoutSeconds":3600}`, heldLock, lr.Key)},
	}
	call := func(name, cred string) pwProbe {
		r := routes[name]
		before := locksOf(ls)
		code, body, _, err := restDo(c, r.method, base+r.path, basic(cred, pw), cookie, r.body)
		after := locksOf(ls)
		o := fmt.Sprint(code)
		if err != nil {
			o = "error: " + err.Error()
		}
		return pwProbe{Proto: "rest", Mode: mode, Route: name, Cred: cred, Outcome: o, BodyEmpty: body == "", LocksSame: sameStrings(before, after)}
	}
	for _, cred := range []string{"none", "wrong"} {
		for _, n := range []string{"POST /session", "DELETE /session", "POST /v1/lock", "POST /v1/unlock", "POST /v1/renew"} {
			res = append(res, call(n, cred))
		}
	}
	for _, n := range []string{"POST /v1/renew", "POST /v1/lock", "POST /v1/unlock", "POST /session", "DELETE /session"} {
		res = append(res, call(n, "right"))
	}
	return res
}
