// Command authdiff runs the REAL authentication / TLS code of the tree under test
// (github.com/imoore76/ldlm, replaced by $VERIF_REPO in go.mod) on cases written by
// checks/c16.py and prints what the implementation did, one JSON object per line.
// It decides nothing: comparison with the Coq model (ocaml/auth) and the evaluation
// of the property's predicate happen in the check.
//
//	authdiff rest   <cases.json>   in-process: rest.NewRestServer(...).Handler on a real LockServer
//	authdiff grpc   <cases.json>   real grpc.Run on 127.0.0.1:<free port>, raw pb client + metadata
//	authdiff tlsone <config.json>  ONE configuration through the real net.Run, probed over the wire
//	                               (run as a child process: a panicking listener goroutine kills it)
//	authdiff desc   -              the gRPC service descriptor of the tree (unary methods, streams)
//	authdiff funcs  <cases.json>   encoding/base64 StdEncoding.DecodeString and strings.Split(s, "Basic ") of this
//	                               toolchain on hex strings (direct tie of the Gallina decoder / splitter)
package main

import (
	"encoding/hex"
	"encoding/json"
	"fmt"
	"io"
	"log/slog"
	"net"
	"os"
	"sort"
	"time"

	"github.com/imoore76/ldlm/server"
)

func main() {
	// The servers log through slog; keep stdout for results only.
	slog.SetDefault(slog.New(slog.NewTextHandler(io.Discard, nil)))
	if len(os.Args) < 3 {
		fmt.Fprintln(os.Stderr, "usage: authdiff rest|grpc|tlsone|funcs|desc <file.json>")
		os.Exit(64)
	}
	out := json.NewEncoder(os.Stdout)
	if os.Args[1] == "desc" {
		runDesc(out)
		return
	}
	data, err := os.ReadFile(os.Args[2])
	if err != nil {
		fmt.Fprintln(os.Stderr, "authdiff:", err)
		os.Exit(64)
	}
	switch os.Args[1] {
	case "funcs":
		runFuncs(data, out)
	case "rest":
		runRest(data, out)
	case "grpc":
		runGrpc(data, out)
	case "tlsone":
		runTLSOne(data, out)
	default:
		fmt.Fprintln(os.Stderr, "authdiff: unknown mode", os.Args[1])
		os.Exit(64)
	}
}

func unhex(s string) string {
	b, err := hex.DecodeString(s)
	if err != nil {
		fmt.Fprintln(os.Stderr, "authdiff: bad hex", s)
		os.Exit(64)
	}
	return string(b)
}

func hx(s string) string { return hex.EncodeToString([]byte(s)) }

// newLockServer builds a real lock server without IPC socket and without state file.
func newLockServer() (*server.LockServer, func(), error) {
	c := &server.LockServerConfig{
		Shards:             4,
		LockGcInterval:     time.Hour,
		LockGcMinIdle:      time.Hour,
		DefaultLockTimeout: time.Hour,
	}
	c.IPCSocketFile = ""
	c.StateFile = ""
	return server.New(c)
}

// locksOf is the observable lock state: sorted "name/key/size" of LockServer.Locks().
func locksOf(ls *server.LockServer) []string {
	r := []string{}
	for _, l := range ls.Locks() {
		r = append(r, fmt.Sprintf("%s/%s/%d", l.Name(), l.Key(), l.Size()))
	}
	sort.Strings(r)
	return r
}

func sameStrings(a, b []string) bool {
	if len(a) != len(b) {
		return false
	}
	for i := range a {
		if a[i] != b[i] {
			return false
		}
	}
	return true
}

// freePort asks the kernel for a free TCP port on 127.0.0.1 (net.Run does not report the
// port it bound, so ":0" cannot be used with it).
func freePort() (int, error) {
	l, err := net.Listen("tcp", "127.0.0.1:0")
	if err != nil {
		return 0, err
	}
	p := l.Addr().(*net.TCPAddr).Port
	l.Close()
	return p, nil
}
