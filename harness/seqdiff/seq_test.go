package seqdiff

import (
	"bufio"
	"encoding/json"
	"fmt"
	"io"
	"log/slog"
	"os"
	"path/filepath"
	"strconv"
	"testing"
	"testing/synctest"
)

// Environment:
//
//	SEQ_OUT      directory for trace.txt, histories.jsonl, stats.json, progress.txt
//	SEQ_PROFILE  profile JSON file           (generation mode)
//	SEQ_N        number of histories          SEQ_SEED seed     SEQ_FIRST first history number
//	SEQ_REPLAY   JSONL file of symbolic histories to execute instead of generating
//	SEQ_MODE     "service": execute through the grpc.Service handlers (generated histories get ids s<seed>-<k> and
//	             mode "service"; replayed histories are forced into that mode; unset: a replayed history's own "mode" decides)
func TestSeq(t *testing.T) {
	slog.SetDefault(slog.New(slog.NewTextHandler(io.Discard, nil)))
	out := os.Getenv("SEQ_OUT")
	if out == "" {
		t.Skip("SEQ_OUT not set")
	}
	os.MkdirAll(out, 0o755)
	tf, _ := os.OpenFile(filepath.Join(out, "trace.txt"), os.O_CREATE|os.O_WRONLY|os.O_APPEND, 0o644)
	hf, _ := os.OpenFile(filepath.Join(out, "histories.jsonl"), os.O_CREATE|os.O_WRONLY|os.O_APPEND, 0o644)
	pf, _ := os.OpenFile(filepath.Join(out, "progress.txt"), os.O_CREATE|os.O_WRONLY|os.O_APPEND, 0o644)
	defer tf.Close()
	defer hf.Close()
	defer pf.Close()
	statePath := filepath.Join(out, "state.bin")
	mode := os.Getenv("SEQ_MODE")
	if mode == "direct" {
		mode = ""
	}
	stats := map[string]int{}

	emit := func(h *History, lines []string, panicMsg string) {
		w := bufio.NewWriter(tf)
		for _, l := range lines {
			w.WriteString(l + "\n")
		}
		w.Flush()
		b, _ := json.Marshal(h)
		hf.Write(append(b, '\n'))
		fmt.Fprintf(pf, "D %s\n", h.ID)
	}

	if rp := os.Getenv("SEQ_REPLAY"); rp != "" {
		f, err := os.Open(rp)
		if err != nil {
			t.Fatal(err)
		}
		sc := bufio.NewScanner(f)
		sc.Buffer(make([]byte, 1<<20), 1<<26)
		for sc.Scan() {
			if len(sc.Bytes()) == 0 {
				continue
			}
			var h History
			if err := json.Unmarshal(sc.Bytes(), &h); err != nil {
				continue
			}
			if os.Getenv("SEQ_MODE") != "" {
				h.Mode = mode
			}
			fmt.Fprintf(pf, "S %s\n", h.ID)
			synctest.Test(t, func(t *testing.T) {
				lines, p := RunHistory(&h, statePath, nil)
				emit(&h, lines, p)
			})
		}
		return
	}

	var prof Profile
	b, err := os.ReadFile(os.Getenv("SEQ_PROFILE"))
	if err != nil {
		t.Fatal(err)
	}
	if err := json.Unmarshal(b, &prof); err != nil {
		t.Fatal(err)
	}
	n, _ := strconv.Atoi(os.Getenv("SEQ_N"))
	seed, _ := strconv.ParseUint(os.Getenv("SEQ_SEED"), 10, 64)
	first, _ := strconv.Atoi(os.Getenv("SEQ_FIRST"))
	for k := first; k < first+n; k++ {
		g := NewGen(seed, uint64(k), &prof)
		h := &History{ID: fmt.Sprintf("g%d-%d", seed, k), Cfg: g.Config(), Mode: mode}
		if mode == "service" {
			h.ID = fmt.Sprintf("s%d-%d", seed, k)
		} else if f, cls := g.InitFile(h.Cfg); f != nil {
			// boot on an adversarial state file (direct mode only)
			h.ID, h.InitFile, h.InitClass = fmt.Sprintf("f%d-%d", seed, k), f, cls
		}
		fmt.Fprintf(pf, "S %s\n", h.ID)
		synctest.Test(t, func(t *testing.T) {
			var prev *Ev
			lines, p := RunHistory(h, statePath, func(x *Exec, i int) (Ev, bool) {
				ev, ok := g.Next(x, i, prev)
				if ok {
					e := ev
					prev = &e
				}
				return ev, ok
			})
			emit(h, lines, p)
		})
		for k, v := range g.Stats {
			stats[k] += v
		}
		stats["histories"]++
		stats["events"] += len(h.Events)
	}
	sb, _ := json.Marshal(stats)
	os.WriteFile(filepath.Join(out, fmt.Sprintf("stats-%d.json", first)), sb, 0o644)
}
