// Package seqdiff is the T1 correspondence harness: it runs symbolic event histories against the
// real ldlm LockServer inside a testing/synctest bubble (virtual time, exact) one event at a time
// to quiescence, and writes the observed trace in the line format read by ocaml/seq/driver.ml.
package seqdiff

// KeyRef names a key symbolically so that histories replay although the server draws fresh UUIDs:
// Pre + (key returned by event Ref, if Ref >= 0) + Suf, or the literal Lit when Ref < 0.
type KeyRef struct {
	Ref int    `json:"ref"`
	Pre string `json:"pre,omitempty"` // hex
	Suf string `json:"suf,omitempty"` // hex
	Lit string `json:"lit,omitempty"` // hex
}

// Ev is one symbolic event.
type Ev struct {
	Op   string  `json:"op"`             // conn disc try lock unl ren cancel adv restart shutdown probe ipcl ipcu
	S    int     `json:"s,omitempty"`    // session index; -1 = request without a session
	Name string  `json:"name,omitempty"` // hex
	Size *int32  `json:"size,omitempty"`
	Lt   *int32  `json:"lt,omitempty"`
	Wt   *int32  `json:"wt,omitempty"`
	Key  *KeyRef `json:"key,omitempty"`
	W    int     `json:"w,omitempty"`  // cancel: index of the lock event
	Dt   int64   `json:"dt,omitempty"` // adv: ns
}

type Cfg struct {
	NoClear bool   `json:"noclear"`
	File    bool   `json:"file"`
	GcI     int64  `json:"gci"`
	GcM     int64  `json:"gcm"`
	Dlt     int64  `json:"dlt"`
	Shards  uint32 `json:"shards"`
}

// History.Mode: "" (direct: LockServer.Lock/TryLock/Unlock/Renew are called) or "service" (the same requests go through the
// real grpc.Service handlers of net/grpc as *pb.LockRequest etc.; the trace then carries error CODES, see exec.go).
type History struct {
	ID     string `json:"id"`
	Cfg    Cfg    `json:"cfg"`
	Mode   string `json:"mode,omitempty"`
	Events []Ev   `json:"events"`
}

// Profile steers the generator (one per property check; written by checks/*.py).
type Profile struct {
	Weights     map[string]int `json:"weights"`
	MaxLen      int            `json:"max_len"`
	MinLen      int            `json:"min_len"`
	Sessions    int            `json:"sessions"`
	Names       []string       `json:"names"` // hex
	Sizes       []*int32       `json:"sizes"`
	Lts         []*int32       `json:"lts"`
	Wts         []*int32       `json:"wts"`
	RenewLts    []int32        `json:"renew_lts"`
	Advs        []int64        `json:"advs"`
	NoClear     []bool         `json:"noclear"`
	File        []bool         `json:"file"`
	Gc          [][2]int64     `json:"gc"` // (interval, minIdle)
	Dlt         []int64        `json:"dlt"`
	Shards      []uint32       `json:"shards"`
	ProbeEvery  int            `json:"probe_every"`  // probe after every n-th event (0: only at the end)
	ProbeAround bool           `json:"probe_around"` // probe before every request as well (C07)
	BadKeyPct   int            `json:"bad_key_pct"`
	NoSessPct   int            `json:"no_sess_pct"`
	Drain       bool           `json:"drain"` // finish with TryLocks until refused on every name
	StickySizePct int          `json:"sticky_size_pct"` // chance that a Lock/TryLock asks for the size the name was last granted with
}
