// Package seqdiff is the T1 correspondence harness: it runs symbolic event histories against the
// real ldlm LockServer inside a testing/synctest bubble (virtual time, exact) one event at a time
// to quiescence, and writes the observed trace in the line format read by ocaml/seq/driver.ml.
package seqdiff

import (
	"encoding/json"
	"fmt"
)

// KeyRef names a key symbolically so that histories replay although the server draws fresh UUIDs:
// Pre + (key returned by event Ref, if Ref >= 0) + Suf, or the literal Lit when Ref < 0.
type KeyRef struct {
	Ref int    `json:"ref"`
	Pre string `json:"pre,omitempty"` // hex
	Suf string `json:"suf,omitempty"` // hex
	Lit string `json:"lit,omitempty"` // hex
}

// Ev is one symbolic event.
type Ev struct {
	Op   string  `json:"op"`             // conn disc try lock unl ren cancel adv restart shutdown probe ipcl ipcu
	S    int     `json:"s,omitempty"`    // session index; -1 = request without a session
	Name string  `json:"name,omitempty"` // hex
	Size *int32  `json:"size,omitempty"`
	Lt   *int32  `json:"lt,omitempty"`
	Wt   *int32  `json:"wt,omitempty"`
	Key  *KeyRef `json:"key,omitempty"`
	W    int     `json:"w,omitempty"`  // cancel: index of the lock event
	Dt   int64   `json:"dt,omitempty"` // adv: ns
}

type Cfg struct {
	NoClear bool   `json:"noclear"`
	File    bool   `json:"file"`
	GcI     int64  `json:"gci"`
	GcM     int64  `json:"gcm"`
	Dlt     int64  `json:"dlt"`
	Shards  uint32 `json:"shards"`
}

// History.Mode: "" (direct: LockServer.Lock/TryLock/Unlock/Renew are called) or "service" (the same requests go through the
// real grpc.Service handlers of net/grpc as *pb.LockRequest etc.; the trace then carries error CODES, see exec.go).
//
// History.InitFile ("boot on an adversarial state file", Model/SeqFile.v): when present and Cfg.File is set, the executor writes
// these sessions to the state file with the REAL store before the first boot; the first event of the history must then be
// `restart` (it IS that first boot: the model's ERestart from file_state) and the trace carries an `F` line after the C line.
// The session ids of the file belong to a previous run: they are never live connections of the history.
type History struct {
	ID        string   `json:"id"`
	Cfg       Cfg      `json:"cfg"`
	Mode      string   `json:"mode,omitempty"`
	InitFile  *[]FSess `json:"init_file,omitempty"`
	InitClass string   `json:"init_class,omitempty"` // which generator class produced InitFile (coverage only)
	Events    []Ev     `json:"events"`
}

// FSess is one session of an initial state file: its id (hex) and its list of client locks IN ORDER.
type FSess struct {
	Sid   string  `json:"sid"` // hex
	Locks []FLock `json:"locks"`
}

// FLock is one entry of a session's list; JSON form [name hex, key hex, size].
type FLock struct {
	Name string // hex
	Key  string // hex
	Size int32
}

func (l FLock) MarshalJSON() ([]byte, error) {
	return json.Marshal([]any{l.Name, l.Key, l.Size})
}

func (l *FLock) UnmarshalJSON(b []byte) error {
	var raw []json.RawMessage
	if err := json.Unmarshal(b, &raw); err != nil {
		return err
	}
	if len(raw) != 3 {
		return fmt.Errorf("init_file lock: want [name, key, size], got %d fields", len(raw))
	}
	if err := json.Unmarshal(raw[0], &l.Name); err != nil {
		return err
	}
	if err := json.Unmarshal(raw[1], &l.Key); err != nil {
		return err
	}
	return json.Unmarshal(raw[2], &l.Size)
}

// Profile steers the generator (one per property check; written by checks/*.py).
type Profile struct {
	Weights       map[string]int `json:"weights"`
	MaxLen        int            `json:"max_len"`
	MinLen        int            `json:"min_len"`
	Sessions      int            `json:"sessions"`
	Names         []string       `json:"names"` // hex
	Sizes         []*int32       `json:"sizes"`
	Lts           []*int32       `json:"lts"`
	Wts           []*int32       `json:"wts"`
	RenewLts      []int32        `json:"renew_lts"`
	Advs          []int64        `json:"advs"`
	NoClear       []bool         `json:"noclear"`
	File          []bool         `json:"file"`
	Gc            [][2]int64     `json:"gc"` // (interval, minIdle)
	Dlt           []int64        `json:"dlt"`
	Shards        []uint32       `json:"shards"`
	ProbeEvery    int            `json:"probe_every"`  // probe after every n-th event (0: only at the end)
	ProbeAround   bool           `json:"probe_around"` // probe before every request as well (C07)
	BadKeyPct     int            `json:"bad_key_pct"`
	FifoPct       int            `json:"fifo_pct"`    // lock: share replaced by the macro "holder + four queued calls, one gives up, releases in turn"
	PartialPct    int            `json:"partial_pct"` // ipcu: share replaced by the macro "two holds of a counting lock, release one, unlock by name"
	NoSessPct     int            `json:"no_sess_pct"`
	Drain         bool           `json:"drain"`           // finish with TryLocks until refused on every name
	StickySizePct int            `json:"sticky_size_pct"` // chance that a Lock/TryLock asks for the size the name was last granted with
	InitFilePct   int            `json:"init_file_pct"`   // share of the histories that boot on a generated state file (gen.go InitFile); ids f<seed>-<k>
}
