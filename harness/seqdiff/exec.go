package seqdiff

import (
	"context"
	"encoding/hex"
	"fmt"
	"net"
	"os"
	"sort"
	"strconv"
	"strings"
	"sync"
	"testing/synctest"
	"time"

	"google.golang.org/grpc/stats"

	"github.com/imoore76/ldlm/lock"
	grpcsvc "github.com/imoore76/ldlm/net/grpc"
	pb "github.com/imoore76/ldlm/protos"
	"github.com/imoore76/ldlm/server"
	cl "github.com/imoore76/ldlm/server/clientlock"
	"github.com/imoore76/ldlm/server/ipc"
	"github.com/imoore76/ldlm/server/session/store"
	"github.com/imoore76/ldlm/timermap"
)

func hx(s string) string {
	if s == "" {
		return "-"
	}
	return hex.EncodeToString([]byte(s))
}

func unhx(s string) string {
	if s == "" || s == "-" {
		return ""
	}
	b, err := hex.DecodeString(s)
	if err != nil {
		return ""
	}
	return string(b)
}

var errNames = []struct {
	e error
	n string
}{
	{server.ErrEmptyName, "server.ErrEmptyName"},
	{server.ErrLockWaitTimeout, "server.ErrLockWaitTimeout"},
	{server.ErrLockDoesNotExistOrInvalidKey, "server.ErrLockDoesNotExistOrInvalidKey"},
	{server.ErrSessionDoesNotExist, "server.ErrSessionDoesNotExist"},
	{server.ErrInvalidLockTimeout, "server.ErrInvalidLockTimeout"},
	{server.ErrInvalidWaitTimeout, "server.ErrInvalidWaitTimeout"},
	{lock.ErrInvalidLockKey, "lock.ErrInvalidLockKey"},
	{lock.ErrLockNotLocked, "lock.ErrLockNotLocked"},
	{lock.ErrLockDoesNotExist, "lock.ErrLockDoesNotExist"},
	{lock.ErrManagerShutdown, "lock.ErrManagerShutdown"},
	{lock.ErrLockSizeMismatch, "lock.ErrLockSizeMismatch"},
	{lock.ErrInvalidLockSize, "lock.ErrInvalidLockSize"},
	{timermap.ErrTimerDoesNotExist, "timermap.ErrTimerDoesNotExist"},
	{context.Canceled, "context.Canceled"},
	{context.DeadlineExceeded, "context.DeadlineExceeded"},
}

// errTok names the Go error VARIABLE (identity, not text); anything else is "other".
func errTok(e error) string {
	if e == nil {
		return "~"
	}
	for _, x := range errNames {
		if e == x.e {
			return x.n
		}
	}
	return "other"
}

// errTokByText is used only where the code itself flattens the error to text (ipc.Unlock).
func errTokByText(msg string) string {
	for _, x := range errNames {
		if msg == x.e.Error() {
			return x.n
		}
	}
	return "other"
}

// codeTok renders the error of a protobuf response (via-service mode): the NAME of its code, as the generated
// ErrorCode_name table of the tree under test spells it. The message is not part of the observation.
func codeTok(e *pb.Error) string {
	if e == nil {
		return "~"
	}
	if n, ok := pb.ErrorCode_name[int32(e.Code)]; ok && n != "" && !strings.ContainsAny(n, " \t\n") {
		return "code:" + n
	}
	return "code:#" + strconv.Itoa(int(e.Code))
}

func i32(p *int32) *int32 {
	if p == nil {
		return nil
	}
	v := *p
	return &v
}

type sess struct {
	ctx    context.Context
	cancel context.CancelFunc
	sid    string
	ended  bool
}

type completion struct {
	idx    int
	at     time.Duration
	locked bool
	key    string
	etok   string   // error token: name of the Go error variable (direct) or of the code (via service)
	bad    []string // via service: anomalies of the response (svcbad lines)
}

type tev struct {
	eline []string
	outs  []string
}

// Exec runs one history. It must be called inside a synctest bubble.
type Exec struct {
	cfg      Cfg
	viaSvc   bool // requests go through the grpc.Service handlers
	path     string
	srv      *server.LockServer
	closer   func()
	svc      *grpcsvc.Service
	ipcRecv  *ipc.IPC
	start    time.Time
	sessions map[int]*sess
	keys     map[int]string
	cancels  map[int]context.CancelFunc
	lockEv   map[int]int // lock event index -> position in trace
	mu       sync.Mutex
	done     []completion
	dropping bool
	trace    []tev
	Panic    string
	initFile *[]FSess // the state file written before the first boot (nil: none); the first boot is then the history's first `restart`
}

func (x *Exec) serverConfig() *server.LockServerConfig {
	c := &server.LockServerConfig{
		Shards:              x.cfg.Shards,
		LockGcInterval:      time.Duration(x.cfg.GcI),
		LockGcMinIdle:       time.Duration(x.cfg.GcM),
		DefaultLockTimeout:  time.Duration(x.cfg.Dlt),
		NoClearOnDisconnect: x.cfg.NoClear,
	}
	c.IPCSocketFile = ""
	if x.cfg.File {
		c.StateFile = x.path
	}
	return c
}

func (x *Exec) boot() error {
	srv, closer, err := server.New(x.serverConfig())
	if err != nil {
		if closer != nil {
			closer()
		}
		return err
	}
	x.srv, x.closer = srv, closer
	x.svc = grpcsvc.NewService(srv)
	x.ipcRecv = ipc.NewVerifIPC(srv)
	return nil
}

// writeInitFile puts the sessions of an init_file history into the state file, through the real store (the codec under test).
func writeInitFile(path string, f []FSess) error {
	m := map[string][]cl.Lock{}
	for _, s := range f {
		l := make([]cl.Lock, 0, len(s.Locks))
		for _, k := range s.Locks {
			l = append(l, cl.New(unhx(k.Name), unhx(k.Key), k.Size))
		}
		m[unhx(s.Sid)] = l
	}
	st, err := store.New(path)
	if err != nil {
		return err
	}
	defer st.Close()
	return st.Write(m)
}

func NewExec(cfg Cfg, statePath string) *Exec {
	return &Exec{cfg: cfg, path: statePath, sessions: map[int]*sess{}, keys: map[int]string{},
		cancels: map[int]context.CancelFunc{}, lockEv: map[int]int{}}
}

func (x *Exec) resolveKey(k *KeyRef) string {
	if k == nil {
		return ""
	}
	if k.Ref < 0 {
		return unhx(k.Lit)
	}
	return unhx(k.Pre) + x.keys[k.Ref] + unhx(k.Suf)
}

func (x *Exec) ctxFor(s int) (context.Context, string) {
	if s < 0 {
		return context.Background(), "~"
	}
	se, ok := x.sessions[s]
	if !ok {
		return context.Background(), "~"
	}
	return se.ctx, hx(se.sid)
}

func optTok(p *int32) string {
	if p == nil {
		return "~"
	}
	return strconv.Itoa(int(*p))
}

func b01(b bool) string {
	if b {
		return "1"
	}
	return "0"
}

func (x *Exec) quiesce() { synctest.Wait() }

// collect turns completions of parked Lock calls into outputs of the current event.
func (x *Exec) collect(cur int, outs *[]string) {
	x.mu.Lock()
	done := x.done
	x.done = nil
	x.mu.Unlock()
	sort.SliceStable(done, func(i, j int) bool { return done[i].at < done[j].at })
	for _, c := range done {
		x.keys[c.idx] = c.key
		delete(x.cancels, c.idx)
		if pos, ok := x.lockEv[c.idx]; ok {
			// patch the key into the E line of the lock call
			x.trace[pos].eline[7] = hx(c.key)
		}
		if c.etok == "" {
			// via service: the handler failed or returned no message; only the anomaly lines report it
		} else if c.idx == cur {
			*outs = append(*outs, fmt.Sprintf("r lock %s %s %s", b01(c.locked), hx(c.key), c.etok))
		} else {
			*outs = append(*outs, fmt.Sprintf("w %d %d %s %s %s", c.idx, int64(c.at), b01(c.locked), hx(c.key), c.etok))
		}
		*outs = append(*outs, c.bad...)
	}
}

func clockToks(n, k string, sz int32) string { return fmt.Sprintf("%s %s %d", hx(n), hx(k), sz) }

func (x *Exec) probe(outs *[]string) {
	// listing
	ls := x.srv.Locks()
	parts := []string{}
	for _, l := range ls {
		parts = append(parts, clockToks(l.Name(), l.Key(), l.Size()))
	}
	*outs = append(*outs, strings.TrimSpace(fmt.Sprintf("listing %d %s", len(ls), strings.Join(parts, " "))))
	// file
	if !x.cfg.File {
		*outs = append(*outs, "file none")
	} else {
		st, err := store.New(x.path)
		if err != nil {
			*outs = append(*outs, "file error:"+hx(err.Error()))
		} else {
			m, err := st.Read()
			st.Close()
			if err != nil {
				*outs = append(*outs, "file error:"+hx(err.Error()))
			} else if m == nil {
				*outs = append(*outs, "file none")
			} else {
				sids := []string{}
				for sid := range m {
					sids = append(sids, sid)
				}
				sort.Strings(sids)
				fp := []string{}
				for _, sid := range sids {
					cs := []string{}
					for _, l := range m[sid] {
						cs = append(cs, clockToks(l.Name(), l.Key(), l.Size()))
					}
					fp = append(fp, strings.TrimSpace(fmt.Sprintf("%s %d %s", hx(sid), len(m[sid]), strings.Join(cs, " "))))
				}
				*outs = append(*outs, strings.TrimSpace(fmt.Sprintf("file %d %s", len(m), strings.Join(fp, " "))))
			}
		}
	}
	// lock table
	tb := x.srv.VerifLockManager().VerifTable()
	sort.Slice(tb, func(i, j int) bool { return tb[i].Name < tb[j].Name })
	tp := []string{}
	for _, l := range tb {
		ks := []string{}
		for _, k := range l.Keys {
			ks = append(ks, hx(k))
		}
		tp = append(tp, strings.TrimSpace(fmt.Sprintf("%s %d %d %d %s", hx(l.Name), l.Size, l.LastAccessed-x.start.UnixNano(), len(l.Keys), strings.Join(ks, " "))))
	}
	*outs = append(*outs, strings.TrimSpace(fmt.Sprintf("table %d %s", len(tb), strings.Join(tp, " "))))
}

// killAll ends every context without delivering ConnEnd (the process "dies"), drops completions.
func (x *Exec) killAll() {
	x.mu.Lock()
	x.dropping = true
	x.mu.Unlock()
	for _, c := range x.cancels {
		c()
	}
	for _, s := range x.sessions {
		s.cancel()
		s.ended = true
	}
	x.quiesce()
	x.cancels = map[int]context.CancelFunc{}
	x.mu.Lock()
	x.done = nil
	x.dropping = false
	x.mu.Unlock()
}

// lockResp reads a *pb.LockResponse (Lock, TryLock, Renew through the service). etok == "" means there is no response to
// report (the handler failed or returned no message); bad lists what the trace format has no place for.
func lockResp(reqName string, resp *pb.LockResponse, rerr error) (locked bool, key, etok string, bad []string) {
	switch {
	case rerr != nil:
		return false, "", "", []string{"svcbad handler-error lock " + hx(rerr.Error())}
	case resp == nil:
		return false, "", "", []string{"svcbad no-message lock"}
	}
	if resp.Name != reqName {
		bad = append(bad, "svcbad name-echo lock "+hx(resp.Name))
	}
	return resp.Locked, resp.Key, codeTok(resp.Error), bad
}

// Step executes event i of the history and appends its trace entry.
func (x *Exec) Step(i int, ev Ev) {
	e := tev{}
	outs := []string{}
	if x.srv == nil && ev.Op != "restart" {
		// an init_file history whose first event is not the boot (a hand-edited replay): boot silently; the model will not follow
		if err := x.boot(); err != nil {
			x.Panic = "boot failed: " + err.Error()
			return
		}
	}
	switch ev.Op {
	case "conn":
		ctx0 := x.svc.TagConn(context.Background(), &stats.ConnTagInfo{RemoteAddr: &net.TCPAddr{IP: net.IPv4(127, 0, 0, 1)}})
		ctx, cancel := context.WithCancel(ctx0)
		sid, _ := x.srv.SessionId(ctx)
		x.sessions[ev.S] = &sess{ctx: ctx, cancel: cancel, sid: sid}
		e.eline = []string{"conn", hx(sid)}
	case "disc":
		se, ok := x.sessions[ev.S]
		if !ok || se.ended {
			return
		}
		e.eline = []string{"disc", hx(se.sid)}
		se.cancel()
		x.quiesce()
		x.svc.HandleConn(se.ctx, &stats.ConnEnd{})
		se.ended = true
	case "try":
		ctx, sidTok := x.ctxFor(ev.S)
		key, locked, etok := "", false, "~"
		var bad []string
		if x.viaSvc {
			name := unhx(ev.Name)
			resp, rerr := x.svc.TryLock(ctx, &pb.TryLockRequest{Name: name, Size: i32(ev.Size), LockTimeoutSeconds: i32(ev.Lt)})
			locked, key, etok, bad = lockResp(name, resp, rerr)
		} else {
			lk, err := x.srv.TryLock(ctx, unhx(ev.Name), ev.Size, ev.Lt)
			if lk != nil {
				key, locked = lk.Key, lk.Locked
			}
			etok = errTok(err)
		}
		x.keys[i] = key
		e.eline = []string{"try", sidTok, hx(unhx(ev.Name)), optTok(ev.Size), optTok(ev.Lt), hx(key)}
		if etok != "" {
			outs = append(outs, fmt.Sprintf("r lock %s %s %s", b01(locked), hx(key), etok))
		}
		outs = append(outs, bad...)
	case "lock":
		ctx, sidTok := x.ctxFor(ev.S)
		cctx, cancel := context.WithCancel(ctx)
		x.cancels[i] = cancel
		e.eline = []string{"lock", strconv.Itoa(i), sidTok, hx(unhx(ev.Name)), optTok(ev.Size), optTok(ev.Lt), optTok(ev.Wt), "-"}
		x.lockEv[i] = len(x.trace)
		name := unhx(ev.Name)
		viaSvc := x.viaSvc
		svc := x.svc
		srv := x.srv
		go func() {
			c := completion{idx: i}
			if viaSvc {
				// the per-call context is derived from the connection's (session's) context, as grpc-go derives a stream's
				// context from the one TagConn returned: it ends when the client goes away; the wait timeout is the server's own
				resp, rerr := svc.Lock(cctx, &pb.LockRequest{Name: name, Size: i32(ev.Size), LockTimeoutSeconds: i32(ev.Lt), WaitTimeoutSeconds: i32(ev.Wt)})
				c.at = time.Since(x.start)
				c.locked, c.key, c.etok, c.bad = lockResp(name, resp, rerr)
			} else {
				lk, err := srv.Lock(cctx, name, ev.Size, ev.Lt, ev.Wt)
				c.at = time.Since(x.start)
				c.etok = errTok(err)
				if lk != nil {
					c.key, c.locked = lk.Key, lk.Locked
				}
			}
			x.mu.Lock()
			if !x.dropping {
				x.done = append(x.done, c)
			}
			x.mu.Unlock()
		}()
		x.trace = append(x.trace, e)
		x.quiesce()
		x.collect(i, &outs)
		imm := false
		for _, o := range outs {
			if strings.HasPrefix(o, "r lock") {
				imm = true
			}
		}
		if !imm {
			outs = append([]string{"r blocked"}, outs...)
		}
		x.trace[len(x.trace)-1].outs = outs
		return
	case "unl":
		ctx, sidTok := x.ctxFor(ev.S)
		key := x.resolveKey(ev.Key)
		u, etok := false, "~"
		var bad []string
		if x.viaSvc {
			name := unhx(ev.Name)
			resp, rerr := x.svc.Unlock(ctx, &pb.UnlockRequest{Name: name, Key: key})
			switch {
			case rerr != nil:
				etok, bad = "", []string{"svcbad handler-error unl " + hx(rerr.Error())}
			case resp == nil:
				etok, bad = "", []string{"svcbad no-message unl"}
			default:
				u, etok = resp.Unlocked, codeTok(resp.Error)
				if resp.Name != name {
					bad = []string{"svcbad name-echo unl " + hx(resp.Name)}
				}
			}
		} else {
			var err error
			u, err = x.srv.Unlock(ctx, unhx(ev.Name), key)
			etok = errTok(err)
		}
		e.eline = []string{"unl", sidTok, hx(unhx(ev.Name)), hx(key)}
		x.quiesce()
		x.collect(i, &outs)
		if etok != "" {
			outs = append(outs, fmt.Sprintf("r unl %s %s", b01(u), etok))
		}
		outs = append(outs, bad...)
	case "ren":
		ctx, _ := x.ctxFor(ev.S)
		key := x.resolveKey(ev.Key)
		lt := int32(0)
		if ev.Lt != nil {
			lt = *ev.Lt
		}
		rk, locked, etok := "", false, "~"
		var bad []string
		if x.viaSvc {
			name := unhx(ev.Name)
			resp, rerr := x.svc.Renew(ctx, &pb.RenewRequest{Name: name, Key: key, LockTimeoutSeconds: lt})
			locked, rk, etok, bad = lockResp(name, resp, rerr)
		} else {
			lk, err := x.srv.Renew(ctx, unhx(ev.Name), key, lt)
			if lk != nil {
				rk, locked = lk.Key, lk.Locked
			}
			etok = errTok(err)
		}
		e.eline = []string{"ren", hx(unhx(ev.Name)), hx(key), strconv.Itoa(int(lt))}
		if etok != "" {
			outs = append(outs, fmt.Sprintf("r lock %s %s %s", b01(locked), hx(rk), etok))
		}
		outs = append(outs, bad...)
	case "cancel":
		c, ok := x.cancels[ev.W]
		if !ok {
			return
		}
		e.eline = []string{"cancel", strconv.Itoa(ev.W)}
		c()
	case "adv":
		e.eline = []string{"adv", strconv.FormatInt(ev.Dt, 10)}
		if ev.Dt > 0 {
			time.Sleep(time.Duration(ev.Dt))
		}
	case "restart":
		e.eline = []string{"restart"}
		if x.srv != nil {
			x.killAll()
			x.closer()
			x.quiesce()
		}
		// (x.srv == nil: the first boot of an init_file history, on the file written by RunHistory)
		if err := x.boot(); err != nil {
			x.Panic = "restart failed: " + err.Error()
			outs = append(outs, "restart-error "+hx(err.Error()))
		}
	case "shutdown":
		e.eline = []string{"shutdown"}
		x.srv.PrepareShutdown()
		for _, c := range x.cancels {
			c()
		}
		for _, s := range x.sessions {
			if !s.ended {
				s.cancel()
			}
		}
		x.quiesce()
		for _, s := range x.sessions {
			if !s.ended {
				x.svc.HandleConn(s.ctx, &stats.ConnEnd{})
				s.ended = true
			}
		}
		x.closer()
		x.closer = func() {}
	case "probe":
		e.eline = []string{"probe"}
		x.quiesce()
		x.probe(&outs)
	case "ipcl":
		e.eline = []string{"ipcl"}
		var resp ipc.ListLocksResponse
		if err := x.ipcRecv.ListLocks(ipc.ListLocksRequest{}, &resp); err != nil {
			outs = append(outs, "ipcl-error")
		} else {
			parts := []string{}
			for _, line := range resp {
				n, k, sz, ok := parseIpcLine(line)
				if !ok {
					parts = append(parts, "unparsable")
					continue
				}
				parts = append(parts, clockToks(n, k, sz))
			}
			outs = append(outs, strings.TrimSpace(fmt.Sprintf("ipcl %d %s", len(resp), strings.Join(parts, " "))))
		}
	case "ipcu":
		var keyTok = "~"
		key := ""
		if ev.Key != nil {
			key = x.resolveKey(ev.Key)
			keyTok = hx(key)
			if key == "" {
				// the admin request carries the key as a plain string: an empty key IS "unlock by name" (ipc.go)
				keyTok = "~"
			}
		}
		e.eline = []string{"ipcu", hx(unhx(ev.Name)), keyTok}
		var resp ipc.UnlockResponse
		err := x.ipcRecv.Unlock(ipc.UnlockRequest{Name: unhx(ev.Name), Key: key}, &resp)
		x.quiesce()
		x.collect(i, &outs)
		if err != nil {
			tok := errTok(err)
			if tok == "other" {
				tok = errTokByText(strings.TrimPrefix(err.Error(), "failed to unlock lock: "))
			}
			outs = append(outs, "ipcu ~ "+tok)
		} else {
			outs = append(outs, "ipcu "+b01(bool(resp))+" ~")
		}
	default:
		return
	}
	x.quiesce()
	x.collect(i, &outs)
	e.outs = outs
	x.trace = append(x.trace, e)
}

// parseIpcLine parses "{Name: %s, Key: %s, Size: %d}" from the right (keys are 36-byte UUIDs).
func parseIpcLine(s string) (name, key string, size int32, ok bool) {
	if !strings.HasPrefix(s, "{Name: ") || !strings.HasSuffix(s, "}") {
		return
	}
	s = s[len("{Name: ") : len(s)-1]
	i := strings.LastIndex(s, ", Size: ")
	if i < 0 {
		return
	}
	n, err := strconv.Atoi(s[i+len(", Size: "):])
	if err != nil {
		return
	}
	s = s[:i]
	j := strings.LastIndex(s, ", Key: ")
	if j < 0 {
		return
	}
	return s[:j], s[j+len(", Key: "):], int32(n), true
}

// Finish tears the server down so that the bubble can end.
func (x *Exec) Finish() {
	x.killAll()
	if x.closer != nil {
		x.closer()
	}
	x.quiesce()
}

// Lines renders the concrete trace of the history.
func (x *Exec) Lines(id string) []string {
	ls := []string{"H " + id,
		fmt.Sprintf("C %s %s %d %d %d", b01(x.cfg.NoClear), b01(x.cfg.File), x.cfg.GcI, x.cfg.GcM, x.cfg.Dlt)}
	if x.initFile != nil {
		fp := []string{}
		for _, s := range *x.initFile {
			cs := []string{}
			for _, l := range s.Locks {
				cs = append(cs, clockToks(unhx(l.Name), unhx(l.Key), l.Size))
			}
			fp = append(fp, strings.TrimSpace(fmt.Sprintf("%s %d %s", hx(unhx(s.Sid)), len(s.Locks), strings.Join(cs, " "))))
		}
		ls = append(ls, strings.TrimSpace(fmt.Sprintf("F %d %s", len(*x.initFile), strings.Join(fp, " "))))
	}
	if x.viaSvc {
		ls = append(ls, "V service")
	}
	for _, e := range x.trace {
		ls = append(ls, "E "+strings.Join(e.eline, " "))
		for _, o := range e.outs {
			ls = append(ls, "O "+o)
		}
	}
	return append(ls, "X")
}

// RunHistory executes h in the current bubble. gen, if not nil, supplies events online.
func RunHistory(h *History, statePath string, gen func(x *Exec, i int) (Ev, bool)) (lines []string, panicMsg string) {
	os.Remove(statePath)
	os.Remove(statePath + ".tmp")
	x := NewExec(h.Cfg, statePath)
	x.viaSvc = h.Mode == "service"
	x.start = time.Now()
	if h.InitFile != nil && h.Cfg.File {
		// boot on a given state file: written now with the real store, restored by the history's first event (`restart`)
		if err := writeInitFile(statePath, *h.InitFile); err != nil {
			return []string{"H " + h.ID, "B init-file-error " + hx(err.Error()), "X"}, "init file: " + err.Error()
		}
		x.initFile = h.InitFile
	} else if err := x.boot(); err != nil {
		return []string{"H " + h.ID, "B boot-error " + hx(err.Error()), "X"}, "boot: " + err.Error()
	}
	func() {
		defer func() {
			if r := recover(); r != nil {
				x.Panic = fmt.Sprint(r)
			}
		}()
		if gen != nil {
			for i := 0; ; i++ {
				ev, ok := gen(x, i)
				if !ok {
					break
				}
				h.Events = append(h.Events, ev)
				x.Step(i, ev)
				if x.Panic != "" {
					break
				}
			}
		} else {
			for i, ev := range h.Events {
				x.Step(i, ev)
				if x.Panic != "" {
					break
				}
			}
		}
	}()
	func() {
		defer func() { recover() }()
		x.Finish()
	}()
	lines = x.Lines(h.ID)
	if x.Panic != "" {
		lines = append(lines[:len(lines)-1], "P "+hx(x.Panic), "X")
	}
	return lines, x.Panic
}
