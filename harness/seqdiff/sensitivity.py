#!/usr/bin/env python3
"""Sensitivity run of T1's "via service" mode: slips in the gRPC handlers of net/grpc/grpc.go, one at a time, in a SCRATCH
worktree of /repo, and which registered checks (bin/check with VERIF_REPO pointing at the scratch tree) raise an alarm, in
which execution mode. Nothing here is needed by the checks; the scratch lives under /tmp/t1svc and is removed afterwards.

    python3 harness/seqdiff/sensitivity.py [--only i,ii,...] [--prop C04,C12,...] [--keep]
"""
import argparse
import json
import os
import re
import shutil
import subprocess
import sys
import time
from pathlib import Path

VERIF = Path(__file__).resolve().parent.parent.parent
REPO = Path(os.environ.get("VERIF_REPO_BASE", "/repo"))
SCRATCH = Path("/tmp/t1svc")
WT = SCRATCH / "wt"
F = "net/grpc/grpc.go"
PROPS = ["C01", "C03", "C04", "C06", "C07", "C08", "C10", "C12", "C13", "C18"]


def sub(old, new, count=1):
    def f(s):
        if old not in s:
            raise SystemExit("mutant does not apply: %r" % old[:80])
        return s.replace(old, new, count)
    return f


LOCK_CALL = "s.LockServer.Lock(ctx, req.Name, req.Size, req.LockTimeoutSeconds, req.WaitTimeoutSeconds)"
RENEW_RET = ("\tlk, err := s.LockServer.Renew(ctx, req.Name, req.Key, req.LockTimeoutSeconds)\n\tif lk == nil {\n\t\tlk = new(server.Lock)\n\t}\n")

MUTANTS = [
    ("i", "Lock handler drops req.Size (TryLock still passes it)", sub(LOCK_CALL, "s.LockServer.Lock(ctx, req.Name, nil, req.LockTimeoutSeconds, req.WaitTimeoutSeconds)")),
    ("ii", "Lock handler passes WaitTimeoutSeconds as the lock timeout", sub(LOCK_CALL, "s.LockServer.Lock(ctx, req.Name, req.Size, req.WaitTimeoutSeconds, req.WaitTimeoutSeconds)")),
    ("iii", "Renew handler returns the key only when locked (the code returns the request's key always, except for an invalid timeout)",
     sub(RENEW_RET, RENEW_RET + "\tif !lk.Locked {\n\t\tlk.Key = \"\"\n\t}\n")),
    ("iv", "Unlock handler ignores the error", lambda s: sub("\t\tUnlocked: unlocked,\n\t\tError:    lockErrToProtoBuffErr(err),\n", "\t\tUnlocked: unlocked,\n")(
         sub("unlocked, err := s.LockServer.Unlock(ctx, req.Name, req.Key)", "unlocked, _ := s.LockServer.Unlock(ctx, req.Name, req.Key)")(s))),
    ("v", "HandleConn(ConnEnd) does not call DestroySession", sub("\tcase *stats.ConnEnd:\n\t\ts.LockServer.DestroySession(ctx)\n", "\tcase *stats.ConnEnd:\n")),
    # further slips of the kind the mode was built for
    ("vi", "TryLock handler passes no lock timeout", sub("s.LockServer.TryLock(ctx, req.Name, req.Size, req.LockTimeoutSeconds)", "s.LockServer.TryLock(ctx, req.Name, req.Size, nil)")),
    ("vii", "Lock handler returns the request's name as key", sub("\t\tName:   req.Name,\n\t\tKey:    lk.Key,\n", "\t\tName:   req.Name,\n\t\tKey:    req.Name,\n")),
    ("viii", "Unlock handler echoes the key instead of the name", sub("\treturn &pb.UnlockResponse{\n\t\tName:     req.Name,", "\treturn &pb.UnlockResponse{\n\t\tName:     req.Key,")),
    ("ix", "Renew handler passes the timeout + 1", sub("s.LockServer.Renew(ctx, req.Name, req.Key, req.LockTimeoutSeconds)", "s.LockServer.Renew(ctx, req.Name, req.Key, req.LockTimeoutSeconds+1)")),
    ("x", "Lock handler swaps lock timeout and wait timeout", sub(LOCK_CALL, "s.LockServer.Lock(ctx, req.Name, req.Size, req.WaitTimeoutSeconds, req.LockTimeoutSeconds)")),
    ("xi", "TryLock handler reports locked=false for a grant whenever the request carried a size", sub("\t\tName:   req.Name,\n\t\tKey:    lk.Key,\n\t\tLocked: lk.Locked,\n\t\tError:  lockErrToProtoBuffErr(err),\n\t}, nil\n\n}\n\n// Renew",
                                                                      "\t\tName:   req.Name,\n\t\tKey:    lk.Key,\n\t\tLocked: lk.Locked && req.Size == nil,\n\t\tError:  lockErrToProtoBuffErr(err),\n\t}, nil\n\n}\n\n// Renew")),
]


def run(cmd, **kw):
    return subprocess.run(cmd, stdout=subprocess.PIPE, stderr=subprocess.STDOUT, text=True, **kw)


def main():
    ap = argparse.ArgumentParser()
    ap.add_argument("--only", default="")
    ap.add_argument("--prop", default=",".join(PROPS))
    ap.add_argument("--keep", action="store_true")
    ap.add_argument("--out", default=str(VERIF / ".work" / "t1svc" / "sensitivity.json"))
    a = ap.parse_args()
    only = [x for x in a.only.split(",") if x]
    props = [x for x in a.prop.split(",") if x]
    SCRATCH.mkdir(parents=True, exist_ok=True)
    if WT.exists():
        run(["git", "-C", str(REPO), "worktree", "remove", "--force", str(WT)])
    r = run(["git", "-C", str(REPO), "worktree", "add", "--detach", str(WT), "HEAD"])
    if r.returncode != 0:
        raise SystemExit(r.stdout)
    pristine = (WT / F).read_text()
    table = []
    try:
        for mid, text, fn in MUTANTS:
            if only and mid not in only:
                continue
            (WT / F).write_text(fn(pristine))
            row = {"id": mid, "what": text, "checks": {}}
            for p in props:
                env = dict(os.environ, VERIF_REPO=str(WT))
                t0 = time.time()
                r = run([str(VERIF / "bin" / "check"), p], env=env, cwd=str(VERIF))
                last = r.stdout.strip().splitlines()[-1] if r.stdout.strip() else ""
                viol = re.findall(r"VIOLATION property=\S+ replay=(\S+)( no-failing-input-found)?", r.stdout)
                modes, kinds = set(), set()
                for path, nfi in viol:
                    try:
                        o = json.loads(Path(path).read_text())
                    except Exception:
                        o = {}
                    ex = o.get("executed", "")
                    modes.add("service" if "Service" in ex else ("direct" if ex else "?"))
                    kinds.add(("correspondence " + ",".join(o.get("first_difference", [])[:2])) if nfi else ("oracle " + ",".join(o.get("failed_checks", [])[:2])))
                row["checks"][p] = {"exit": r.returncode, "violations": len(viol), "modes": sorted(modes), "kinds": sorted(kinds)[:3], "s": round(time.time() - t0, 1)}
                print("%-5s %s exit %d  %s  %s   %s" % (mid, p, r.returncode, sorted(modes), sorted(kinds)[:2], last), flush=True)
            table.append(row)
            (WT / F).write_text(pristine)
    finally:
        Path(a.out).parent.mkdir(parents=True, exist_ok=True)
        Path(a.out).write_text(json.dumps(table, indent=1))
        if not a.keep:
            run(["git", "-C", str(REPO), "worktree", "remove", "--force", str(WT)])
            shutil.rmtree(SCRATCH, ignore_errors=True)
    print()
    for row in table:
        caught = [p for p, v in row["checks"].items() if v["exit"] != 0]
        print("(%s) %s\n      caught by: %s" % (row["id"], row["what"], ", ".join("%s[%s]" % (p, "+".join(row["checks"][p]["modes"])) for p in caught) or "NOTHING"))


if __name__ == "__main__":
    sys.exit(main())
