package seqdiff

import (
	"math/rand/v2"
	"strings"
)

// Gen produces events online: every choice comes from one PCG stream, and it looks only at what
// the implementation answered (never at model state).
type Gen struct {
	r        *rand.Rand
	p        *Profile
	n        int
	grants   []grant // grants observed so far (live or not)
	blocked  []int   // lock events that were parked and not yet seen completing
	conn     map[int]bool
	queue    []Ev
	afterShut bool
	drained  bool
	Stats    map[string]int
}

type grant struct {
	ev   int
	name string // hex
	s    int
	size *int32
}

func NewGen(seed uint64, stream uint64, p *Profile) *Gen {
	g := &Gen{r: rand.New(rand.NewPCG(seed, stream)), p: p, conn: map[int]bool{}, Stats: map[string]int{}}
	g.n = p.MinLen
	if p.MaxLen > p.MinLen {
		g.n += g.r.IntN(p.MaxLen - p.MinLen + 1)
	}
	return g
}

func pick[T any](r *rand.Rand, l []T) T { return l[r.IntN(len(l))] }

func (g *Gen) Config() Cfg {
	c := Cfg{NoClear: pick(g.r, g.p.NoClear), File: pick(g.r, g.p.File), Dlt: pick(g.r, g.p.Dlt), Shards: pick(g.r, g.p.Shards)}
	gc := pick(g.r, g.p.Gc)
	c.GcI, c.GcM = gc[0], gc[1]
	return c
}

func (g *Gen) weighted() string {
	tot := 0
	for _, w := range g.p.Weights {
		tot += w
	}
	if tot == 0 {
		return "probe"
	}
	// iterate in a fixed order so that the choice is reproducible
	ops := []string{"conn", "disc", "try", "lock", "unl", "ren", "cancel", "adv", "restart", "shutdown", "probe", "ipcl", "ipcu"}
	k := g.r.IntN(tot)
	for _, op := range ops {
		w := g.p.Weights[op]
		if k < w {
			return op
		}
		k -= w
	}
	return "probe"
}

func (g *Gen) session() int {
	if g.p.NoSessPct > 0 && g.r.IntN(100) < g.p.NoSessPct {
		return -1
	}
	live := []int{}
	for s, ok := range g.conn {
		if ok {
			live = append(live, s)
		}
	}
	if len(live) == 0 {
		return -2
	}
	// map iteration order is random: sort
	for i := 1; i < len(live); i++ {
		for j := i; j > 0 && live[j] < live[j-1]; j-- {
			live[j], live[j-1] = live[j-1], live[j]
		}
	}
	return pick(g.r, live)
}

// keyFor chooses a key for unl/ren/ipcu on name: mostly a real one, sometimes an adversarial one.
func (g *Gen) keyFor(x *Exec) (string, *KeyRef) {
	if len(g.grants) == 0 || (g.p.BadKeyPct > 0 && g.r.IntN(100) < g.p.BadKeyPct) {
		name := pick(g.r, g.p.Names)
		switch g.r.IntN(6) {
		case 0:
			return name, &KeyRef{Ref: -1, Lit: ""}
		case 1:
			return name, &KeyRef{Ref: -1, Lit: "6e6f2d737563682d6b6579"}
		case 2, 3:
			if len(g.grants) > 0 {
				// the key of another lock's hold, possibly with the name boundary shifted: hold ("ab",K) attacked as ("a","b"+K)
				gr := pick(g.r, g.grants)
				gn := unhx(gr.name)
				if len(gn) > 1 {
					return hx(gn[:1]), &KeyRef{Ref: gr.ev, Pre: hx(gn[1:])}
				}
				return name, &KeyRef{Ref: gr.ev}
			}
			return name, &KeyRef{Ref: -1, Lit: "00"}
		case 4:
			if len(g.grants) > 0 {
				gr := pick(g.r, g.grants)
				return gr.name, &KeyRef{Ref: gr.ev, Suf: "78"}
			}
			return name, &KeyRef{Ref: -1, Lit: "78"}
		default:
			if len(g.grants) > 0 {
				gr := pick(g.r, g.grants)
				k := x.keys[gr.ev]
				if len(k) > 1 {
					return gr.name, &KeyRef{Ref: -1, Lit: hx(k[:len(k)-1])}
				}
			}
			return name, &KeyRef{Ref: -1, Lit: "2d"}
		}
	}
	// prefer recent grants (more likely still live)
	n := len(g.grants)
	i := n - 1 - g.r.IntN(min(n, 4))
	gr := g.grants[i]
	return gr.name, &KeyRef{Ref: gr.ev}
}

// observe updates the generator's view from the trace entry the executor just appended.
func (g *Gen) observe(x *Exec, i int, ev Ev) {
	if len(x.trace) == 0 {
		return
	}
	te := x.trace[len(x.trace)-1]
	for _, o := range te.outs {
		f := strings.Fields(o)
		switch {
		case len(f) >= 3 && f[0] == "r" && f[1] == "lock" && f[2] == "1" && (ev.Op == "try" || ev.Op == "lock"):
			g.grants = append(g.grants, grant{ev: i, name: ev.Name, s: ev.S, size: ev.Size})
			g.Stats["grant"]++
		case len(f) >= 2 && f[0] == "r" && f[1] == "blocked":
			g.blocked = append(g.blocked, i)
			g.Stats["blocked"]++
		case len(f) >= 4 && f[0] == "w":
			g.Stats["waiter-completion"]++
			if f[3] == "1" {
				g.Stats["waiter-grant"]++
			}
		case len(f) >= 4 && f[0] == "r" && f[len(f)-1] != "~":
			g.Stats["err:"+f[len(f)-1]]++
		}
		if len(f) >= 4 && f[0] == "w" {
			var idx int
			for _, c := range f[1] {
				idx = idx*10 + int(c-'0')
			}
			nb := g.blocked[:0]
			for _, b := range g.blocked {
				if b != idx {
					nb = append(nb, b)
				}
			}
			g.blocked = nb
			if f[3] == "1" && idx < len(x.trace) {
				g.grants = append(g.grants, grant{ev: idx, name: x.lockName(idx), s: 0})
			}
		}
	}
}

func (x *Exec) lockName(idx int) string {
	if pos, ok := x.lockEv[idx]; ok {
		return x.trace[pos].eline[3]
	}
	return "-"
}

// Next returns the next event, or false when the history is complete.
func (g *Gen) Next(x *Exec, i int, prev *Ev) (Ev, bool) {
	if prev != nil {
		g.observe(x, i-1, *prev)
	}
	if len(g.queue) > 0 {
		ev := g.queue[0]
		g.queue = g.queue[1:]
		g.Stats["op:"+ev.Op]++
		return ev, true
	}
	if i >= g.n {
		if g.afterShut {
			g.afterShut = false
			g.conn = map[int]bool{}
			g.blocked = nil
			return Ev{Op: "restart"}, true
		}
		if !g.drained {
			g.drained = true
			g.queue = append(g.queue, Ev{Op: "probe"})
			if g.p.Drain {
				s := 90
				g.queue = append(g.queue, Ev{Op: "conn", S: s})
				for _, n := range g.p.Names {
					if n == "" || n == "-" {
						continue
					}
					for k := 0; k < 4; k++ {
						g.queue = append(g.queue, Ev{Op: "try", S: s, Name: n, Size: nil})
					}
				}
				g.queue = append(g.queue, Ev{Op: "probe"})
			}
			return g.Next(x, i, nil)
		}
		return Ev{}, false
	}
	if g.afterShut {
		g.afterShut = false
		g.conn = map[int]bool{}
		g.blocked = nil
		g.queue = append(g.queue, Ev{Op: "probe"})
		g.Stats["op:restart"]++
		return Ev{Op: "restart"}, true
	}
	if g.p.ProbeEvery > 0 && i > 0 && i%g.p.ProbeEvery == 0 && (prev == nil || prev.Op != "probe") {
		g.Stats["op:probe"]++
		return Ev{Op: "probe"}, true
	}
	var ev Ev
	for tries := 0; tries < 50; tries++ {
		op := g.weighted()
		ok := true
		switch op {
		case "conn":
			s := g.r.IntN(max(g.p.Sessions, 1))
			if g.conn[s] {
				ok = false
				break
			}
			g.conn[s] = true
			ev = Ev{Op: "conn", S: s}
		case "disc":
			s := g.session()
			if s < 0 {
				ok = false
				break
			}
			g.conn[s] = false
			ev = Ev{Op: "disc", S: s}
		case "try", "lock":
			s := g.session()
			if s == -2 {
				s0 := g.r.IntN(max(g.p.Sessions, 1))
				g.conn[s0] = true
				g.queue = append(g.queue, Ev{Op: "conn", S: s0})
				s = s0
			}
			ev = Ev{Op: op, S: s, Name: pick(g.r, g.p.Names), Size: pick(g.r, g.p.Sizes), Lt: pick(g.r, g.p.Lts)}
			// mostly ask for the size the name was last GRANTED with: otherwise most requests on a live lock are size mismatches
			if g.p.StickySizePct > 0 && g.r.IntN(100) < g.p.StickySizePct {
				for j := len(g.grants) - 1; j >= 0; j-- {
					if g.grants[j].name == ev.Name {
						ev.Size = g.grants[j].size
						break
					}
				}
			}
			if op == "lock" {
				ev.Wt = pick(g.r, g.p.Wts)
			}
			if len(g.queue) > 0 {
				// the conn must come first
				g.queue = append(g.queue, ev)
				ev = g.queue[0]
				g.queue = g.queue[1:]
			}
		case "unl":
			s := g.session()
			if s == -2 {
				s = -1
			}
			name, key := g.keyFor(x)
			ev = Ev{Op: "unl", S: s, Name: name, Key: key}
		case "ren":
			name, key := g.keyFor(x)
			lt := pick(g.r, g.p.RenewLts)
			ev = Ev{Op: "ren", S: -1, Name: name, Key: key, Lt: &lt}
		case "cancel":
			if len(g.blocked) == 0 {
				ok = false
				break
			}
			ev = Ev{Op: "cancel", W: pick(g.r, g.blocked)}
		case "adv":
			ev = Ev{Op: "adv", Dt: pick(g.r, g.p.Advs)}
		case "restart":
			g.conn = map[int]bool{}
			g.blocked = nil
			ev = Ev{Op: "restart"}
			g.queue = append(g.queue, Ev{Op: "probe"})
		case "shutdown":
			g.afterShut = true
			ev = Ev{Op: "shutdown"}
		case "probe":
			ev = Ev{Op: "probe"}
		case "ipcl":
			ev = Ev{Op: "ipcl"}
		case "ipcu":
			name, key := g.keyFor(x)
			if g.r.IntN(3) == 0 {
				key = nil
			}
			ev = Ev{Op: "ipcu", Name: name, Key: key}
		default:
			ok = false
		}
		if ok {
			if g.p.ProbeAround && (ev.Op == "try" || ev.Op == "lock" || ev.Op == "unl" || ev.Op == "ren") {
				// probe, request, probe
				g.queue = append([]Ev{ev, {Op: "probe"}}, g.queue...)
				ev = Ev{Op: "probe"}
			}
			g.Stats["op:"+ev.Op]++
			return ev, true
		}
	}
	g.Stats["op:probe"]++
	return Ev{Op: "probe"}, true
}
