package seqdiff

import (
	"fmt"
	"math/rand/v2"
	"strings"
)

// Gen produces events online: every choice comes from one PCG stream, and it looks only at what
// the implementation answered (never at model state).
type Gen struct {
	r         *rand.Rand
	p         *Profile
	n         int
	grants    []grant // grants observed so far (live or not)
	blocked   []int   // lock events that were parked and not yet seen completing
	conn      map[int]bool
	queue     []Ev
	afterShut bool
	drained   bool
	nfile     int // the first nfile entries of grants are the entries of the initial state file (InitFile)
	Stats     map[string]int
}

type grant struct {
	ev   int
	name string // hex
	s    int
	size *int32
	lit  string // ev < 0: a hold that came out of the initial state file; its raw key (such keys are referred to by literal)
}

// ref is the symbolic key pre + (key of gr) + suf.
func (g *Gen) ref(gr grant, pre, suf string) *KeyRef {
	if gr.ev < 0 {
		return &KeyRef{Ref: -1, Lit: hx(pre + gr.lit + suf)}
	}
	k := &KeyRef{Ref: gr.ev}
	if pre != "" {
		k.Pre = hx(pre)
	}
	if suf != "" {
		k.Suf = hx(suf)
	}
	return k
}

func alnum(c byte) bool {
	return (c >= '0' && c <= '9') || (c >= 'a' && c <= 'z') || (c >= 'A' && c <= 'Z')
}

func NewGen(seed uint64, stream uint64, p *Profile) *Gen {
	g := &Gen{r: rand.New(rand.NewPCG(seed, stream)), p: p, conn: map[int]bool{}, Stats: map[string]int{}}
	g.n = p.MinLen
	if p.MaxLen > p.MinLen {
		g.n += g.r.IntN(p.MaxLen - p.MinLen + 1)
	}
	return g
}

func pick[T any](r *rand.Rand, l []T) T { return l[r.IntN(len(l))] }

func (g *Gen) Config() Cfg {
	c := Cfg{NoClear: pick(g.r, g.p.NoClear), File: pick(g.r, g.p.File), Dlt: pick(g.r, g.p.Dlt), Shards: pick(g.r, g.p.Shards)}
	gc := pick(g.r, g.p.Gc)
	c.GcI, c.GcM = gc[0], gc[1]
	return c
}

func (g *Gen) weighted() string {
	tot := 0
	for _, w := range g.p.Weights {
		tot += w
	}
	if tot == 0 {
		return "probe"
	}
	// iterate in a fixed order so that the choice is reproducible
	ops := []string{"conn", "disc", "try", "lock", "unl", "ren", "cancel", "adv", "restart", "shutdown", "probe", "ipcl", "ipcu"}
	k := g.r.IntN(tot)
	for _, op := range ops {
		w := g.p.Weights[op]
		if k < w {
			return op
		}
		k -= w
	}
	return "probe"
}

func (g *Gen) session() int {
	if g.p.NoSessPct > 0 && g.r.IntN(100) < g.p.NoSessPct {
		return -1
	}
	live := []int{}
	for s, ok := range g.conn {
		if ok {
			live = append(live, s)
		}
	}
	if len(live) == 0 {
		return -2
	}
	// map iteration order is random: sort
	for i := 1; i < len(live); i++ {
		for j := i; j > 0 && live[j] < live[j-1]; j-- {
			live[j], live[j-1] = live[j-1], live[j]
		}
	}
	return pick(g.r, live)
}

// keyFor chooses a key for unl/ren/ipcu on name: mostly a real one, sometimes an adversarial one.
func (g *Gen) keyFor(x *Exec) (string, *KeyRef) {
	if len(g.grants) == 0 || (g.p.BadKeyPct > 0 && g.r.IntN(100) < g.p.BadKeyPct) {
		name := pick(g.r, g.p.Names)
		switch g.r.IntN(6) {
		case 0:
			return name, &KeyRef{Ref: -1, Lit: ""}
		case 1:
			return name, &KeyRef{Ref: -1, Lit: "6e6f2d737563682d6b6579"}
		case 2, 3:
			if len(g.grants) > 0 {
				// the key of another lock's hold, possibly with the name boundary shifted: hold ("abc",K) attacked as ("a","bc"+K) or
				// ("ab","c"+K) (any cut), and — when the name contains a byte that could serve as a separator in some composite key
				// (":", "/", "|", "-", " ", NUL, ...) — the SEPARATOR form: hold (p+SEP+q, K) attacked as (p, q+SEP+K), so that
				// p+SEP+(q+SEP+K) = (p+SEP+q)+SEP+K
				gr := pick(g.r, g.grants)
				if g.r.IntN(2) == 0 {
					// prefer a hold whose name contains a possible separator
					withSep := []grant{}
					for _, c := range g.grants {
						cn := unhx(c.name)
						for i := 1; i < len(cn); i++ {
							if !alnum(cn[i]) {
								withSep = append(withSep, c)
								break
							}
						}
					}
					if len(withSep) > 0 {
						gr = pick(g.r, withSep)
					}
				}
				gn := unhx(gr.name)
				if len(gn) > 1 {
					seps := []int{}
					for i := 1; i < len(gn); i++ {
						if !alnum(gn[i]) {
							seps = append(seps, i)
						}
					}
					if len(seps) > 0 && g.r.IntN(4) != 0 {
						i := pick(g.r, seps)
						g.Stats["badkey:separator-shift"]++
						return hx(gn[:i]), g.ref(gr, gn[i+1:]+gn[i:i+1], "")
					}
					c := 1 + g.r.IntN(len(gn)-1)
					g.Stats["badkey:boundary-shift"]++
					return hx(gn[:c]), g.ref(gr, gn[c:], "")
				}
				return name, g.ref(gr, "", "")
			}
			return name, &KeyRef{Ref: -1, Lit: "00"}
		case 4:
			if len(g.grants) > 0 {
				gr := pick(g.r, g.grants)
				return gr.name, g.ref(gr, "", "x")
			}
			return name, &KeyRef{Ref: -1, Lit: "78"}
		default:
			if len(g.grants) > 0 {
				gr := pick(g.r, g.grants)
				k := x.keys[gr.ev]
				if gr.ev < 0 {
					k = gr.lit
				}
				if len(k) > 1 {
					return gr.name, &KeyRef{Ref: -1, Lit: hx(k[:len(k)-1])}
				}
			}
			return name, &KeyRef{Ref: -1, Lit: "2d"}
		}
	}
	// prefer recent grants (more likely still live)
	n := len(g.grants)
	i := n - 1 - g.r.IntN(min(n, 4))
	gr := g.grants[i]
	if g.nfile > 0 && g.r.IntN(100) < 40 {
		// keep the holds that came out of the state file in play
		gr = g.grants[g.r.IntN(g.nfile)]
	}
	return gr.name, g.ref(gr, "", "")
}

// ---------------------------------------------------------------------------------------------------------------------
// Initial state files (History.InitFile; Model/SeqFile.v). Every (name, key) pair of a generated file is unique (file_wf): the
// keys are distinct uuid-shaped strings. Classes:
//
//	a  consistent (control): every name has one size and at most that many entries
//	b  a lock listed more often than its size (size 1: 2-3 entries, size n: n+1..n+2), all inside ONE session's list, the
//	   surplus entries followed by / between / after entries of OTHER names of the same list
//	c  entries of one name with different sizes (1 vs 2) inside one list
//	d  an entry with an invalid size (0, -1) inside one list
//	e  the conflict (surplus / size mismatch) spread over SEVERAL sessions: the outcome depends on Go's map order (the model
//	   side tries every order of the sessions)
//	f  empty file map, sessions with empty lists, alone or next to a list of class a / b
//
// b, c, d get 0-2 further sessions with consistent entries of other names, so that the map order does not matter.
// A file has at most maxFileEntries entries: every restored hold gets the same lease (the default lock timeout), the model side
// (Seq.advance_loop) explores every order in which leases that end at the same instant fire, and replay keeps one candidate state
// per order — k restored holds that expire together cost k! candidates.
const maxFileEntries = 6

func (g *Gen) uuid() string {
	return fmt.Sprintf("%08x-%04x-%04x-%04x-%012x", g.r.Uint32(), g.r.Uint32()&0xffff, 0x4000|g.r.Uint32()&0x0fff,
		0x8000|g.r.Uint32()&0x3fff, g.r.Uint64()&0xffffffffffff)
}

type fileGen struct {
	g     *Gen
	names []string         // hex, not yet used as the target of a conflict
	size  map[string]int32 // consistent names: their size
	left  map[string]int   // consistent names: capacity not yet listed
	keys  map[string]bool
	room  int // entries the file may still get
}

func (f *fileGen) ent(name string, size int32) FLock {
	f.room--
	k := f.g.uuid()
	for f.keys[k] {
		k = f.g.uuid()
	}
	f.keys[k] = true
	return FLock{Name: name, Key: hx(k), Size: size}
}

// target takes a name out of the pool of consistent names (it becomes the subject of a conflict).
func (f *fileGen) target() (string, bool) {
	free := []string{}
	for _, n := range f.names {
		if _, used := f.size[n]; !used {
			free = append(free, n)
		}
	}
	if len(free) == 0 {
		return "", false
	}
	t := pick(f.g.r, free)
	nn := f.names[:0:0]
	for _, n := range f.names {
		if n != t {
			nn = append(nn, n)
		}
	}
	f.names = nn
	return t, true
}

// consistent returns up to k entries that can all be restored whatever the order.
func (f *fileGen) consistent(k int) []FLock {
	out := []FLock{}
	for tries := 0; len(out) < k && f.room > 0 && tries < 4*k+4 && len(f.names) > 0; tries++ {
		n := pick(f.g.r, f.names)
		if _, ok := f.size[n]; !ok {
			f.size[n] = pick(f.g.r, []int32{1, 1, 2, 3})
			f.left[n] = int(f.size[n])
		}
		if f.left[n] == 0 {
			continue
		}
		f.left[n]--
		out = append(out, f.ent(n, f.size[n]))
	}
	return out
}

// layout mixes the entries of the conflict (ts, in their order) with entries of other names.
func (f *fileGen) layout(ts, others []FLock) []FLock {
	r := f.g.r
	switch r.IntN(5) {
	case 0: // the conflict first, the others behind it
		return append(append([]FLock{}, ts...), others...)
	case 1: // alternating
		out := []FLock{}
		for i := 0; i < len(ts) || i < len(others); i++ {
			if i < len(ts) {
				out = append(out, ts[i])
			}
			if i < len(others) {
				out = append(out, others[i])
			}
		}
		return out
	case 2: // the others first (nothing follows the last refused entry: control)
		return append(append([]FLock{}, others...), ts...)
	case 3: // one other entry, the conflict, the rest
		if len(others) > 0 {
			return append(append(append([]FLock{}, others[0]), ts...), others[1:]...)
		}
		return ts
	default: // any interleaving that keeps the order of ts
		out := []FLock{}
		i, j := 0, 0
		for i < len(ts) || j < len(others) {
			if j >= len(others) || (i < len(ts) && r.IntN(2) == 0) {
				out = append(out, ts[i])
				i++
			} else {
				out = append(out, others[j])
				j++
			}
		}
		return out
	}
}

// conflict returns the entries of one name that cannot all be restored.
func (f *fileGen) conflict(kind string) []FLock {
	r := f.g.r
	t, ok := f.target()
	if !ok || f.room < 2 {
		return nil
	}
	ts := []FLock{}
	switch kind {
	case "b":
		n := pick(r, []int32{1, 1, 2, 3})
		for int(n)+1 > f.room {
			n--
		}
		cnt := int(n) + 1 + r.IntN(2)
		for i := 0; i < cnt && (f.room > 1 || i <= int(n)); i++ {
			ts = append(ts, f.ent(t, n))
		}
	case "c":
		s1 := int32(1 + r.IntN(2))
		ts = append(ts, f.ent(t, s1), f.ent(t, 3-s1))
		if r.IntN(2) == 0 && f.room > 1 {
			ts = append(ts, f.ent(t, pick(r, []int32{s1, 3 - s1})))
		}
	case "d":
		bad := pick(r, []int32{0, -1, 0, -1, -2147483648})
		good := pick(r, []int32{1, 2})
		switch r.IntN(4) {
		case 0:
			ts = append(ts, f.ent(t, bad))
		case 1:
			ts = append(ts, f.ent(t, bad), f.ent(t, good))
		case 2:
			ts = append(ts, f.ent(t, good), f.ent(t, bad))
		default:
			ts = append(ts, f.ent(t, bad), f.ent(t, bad), f.ent(t, good))
		}
	}
	return ts
}

// InitFile decides whether this history boots on a generated state file and, if so, draws it, registers its entries as holds
// the later requests may name, and queues the boot (`restart`) and a probe. cfg.File must be on.
func (g *Gen) InitFile(cfg Cfg) (*[]FSess, string) {
	if g.p.InitFilePct <= 0 || !cfg.File || g.r.IntN(100) >= g.p.InitFilePct {
		return nil, ""
	}
	f := &fileGen{g: g, size: map[string]int32{}, left: map[string]int{}, keys: map[string]bool{}, room: maxFileEntries}
	for _, n := range g.p.Names {
		if n != "" && n != "-" {
			dup := false
			for _, m := range f.names {
				dup = dup || m == n
			}
			if !dup {
				f.names = append(f.names, n)
			}
		}
	}
	r := g.r
	cls := pick(r, []string{"a", "a", "b", "b", "b", "b", "b", "b", "c", "c", "c", "d", "d", "d", "e", "e", "e", "f", "f"})
	lists := [][]FLock{}
	switch cls {
	case "a":
		f.room-- // every entry of such a file is restored
		for n := 1 + r.IntN(3); n > 0; n-- {
			lists = append(lists, f.consistent(1+r.IntN(3)))
		}
	case "b", "c", "d":
		ts := f.conflict(cls)
		if r.IntN(4) == 0 {
			// a second conflict of any kind in the same list
			ts = f.layout(ts, f.conflict(pick(r, []string{"b", "c", "d"})))
		}
		lists = append(lists, f.layout(ts, f.consistent(1+r.IntN(3))))
		for n := r.IntN(3); n > 0; n-- {
			lists = append(lists, f.consistent(r.IntN(3)))
		}
	case "e":
		ts := f.conflict(pick(r, []string{"b", "b", "c"}))
		ns := 2 + r.IntN(2)
		parts := make([][]FLock, ns)
		for i, e := range ts {
			k := r.IntN(ns)
			if i < ns {
				k = i // every session gets one when there are enough
			}
			parts[k] = append(parts[k], e)
		}
		for _, p := range parts {
			lists = append(lists, f.layout(p, f.consistent(r.IntN(3))))
		}
	case "f":
		switch r.IntN(4) {
		case 0: // a file that holds an empty map
		case 1:
			for n := 1 + r.IntN(3); n > 0; n-- {
				lists = append(lists, []FLock{})
			}
		case 2:
			lists = append(lists, []FLock{}, f.consistent(1+r.IntN(3)), []FLock{})
		default:
			lists = append(lists, []FLock{}, f.layout(f.conflict("b"), f.consistent(1+r.IntN(2))))
		}
	}
	r.Shuffle(len(lists), func(i, j int) { lists[i], lists[j] = lists[j], lists[i] })
	out := make([]FSess, 0, len(lists))
	for _, l := range lists {
		if l == nil {
			l = []FLock{}
		}
		out = append(out, FSess{Sid: hx(g.uuid()), Locks: l})
		for _, e := range l {
			sz := e.Size
			g.grants = append(g.grants, grant{ev: -1, name: e.Name, s: -1, size: &sz, lit: unhx(e.Key)})
		}
	}
	g.nfile = len(g.grants)
	g.queue = append(g.queue, Ev{Op: "restart"}, Ev{Op: "probe"})
	g.Stats["initfile:"+cls]++
	return &out, cls
}

// observe updates the generator's view from the trace entry the executor just appended.
func (g *Gen) observe(x *Exec, i int, ev Ev) {
	if len(x.trace) == 0 {
		return
	}
	te := x.trace[len(x.trace)-1]
	for _, o := range te.outs {
		f := strings.Fields(o)
		switch {
		case len(f) >= 3 && f[0] == "r" && f[1] == "lock" && f[2] == "1" && (ev.Op == "try" || ev.Op == "lock"):
			g.grants = append(g.grants, grant{ev: i, name: ev.Name, s: ev.S, size: ev.Size})
			g.Stats["grant"]++
		case len(f) >= 2 && f[0] == "r" && f[1] == "blocked":
			g.blocked = append(g.blocked, i)
			g.Stats["blocked"]++
		case len(f) >= 4 && f[0] == "w":
			g.Stats["waiter-completion"]++
			if f[3] == "1" {
				g.Stats["waiter-grant"]++
			}
		case len(f) >= 4 && f[0] == "r" && f[len(f)-1] != "~":
			g.Stats["err:"+f[len(f)-1]]++
		}
		if len(f) >= 4 && f[0] == "w" {
			var idx int
			for _, c := range f[1] {
				idx = idx*10 + int(c-'0')
			}
			nb := g.blocked[:0]
			for _, b := range g.blocked {
				if b != idx {
					nb = append(nb, b)
				}
			}
			g.blocked = nb
			if f[3] == "1" && idx < len(x.trace) {
				g.grants = append(g.grants, grant{ev: idx, name: x.lockName(idx), s: 0})
			}
		}
	}
}

func (x *Exec) lockName(idx int) string {
	if pos, ok := x.lockEv[idx]; ok {
		return x.trace[pos].eline[3]
	}
	return "-"
}

// Next returns the next event, or false when the history is complete.
func (g *Gen) Next(x *Exec, i int, prev *Ev) (Ev, bool) {
	if prev != nil {
		g.observe(x, i-1, *prev)
	}
	if len(g.queue) > 0 {
		ev := g.queue[0]
		g.queue = g.queue[1:]
		g.Stats["op:"+ev.Op]++
		return ev, true
	}
	if i >= g.n {
		if g.afterShut {
			g.afterShut = false
			g.conn = map[int]bool{}
			g.blocked = nil
			return Ev{Op: "restart"}, true
		}
		if !g.drained {
			g.drained = true
			g.queue = append(g.queue, Ev{Op: "probe"})
			if g.p.Drain {
				s := 90
				g.queue = append(g.queue, Ev{Op: "conn", S: s})
				for _, n := range g.p.Names {
					if n == "" || n == "-" {
						continue
					}
					for k := 0; k < 4; k++ {
						g.queue = append(g.queue, Ev{Op: "try", S: s, Name: n, Size: nil})
					}
				}
				g.queue = append(g.queue, Ev{Op: "probe"})
			}
			return g.Next(x, i, nil)
		}
		return Ev{}, false
	}
	if g.afterShut {
		g.afterShut = false
		g.conn = map[int]bool{}
		g.blocked = nil
		g.queue = append(g.queue, Ev{Op: "probe"})
		g.Stats["op:restart"]++
		return Ev{Op: "restart"}, true
	}
	if g.p.ProbeEvery > 0 && i > 0 && i%g.p.ProbeEvery == 0 && (prev == nil || prev.Op != "probe") {
		g.Stats["op:probe"]++
		return Ev{Op: "probe"}, true
	}
	var ev Ev
	for tries := 0; tries < 50; tries++ {
		op := g.weighted()
		ok := true
		switch op {
		case "conn":
			s := g.r.IntN(max(g.p.Sessions, 1))
			if g.conn[s] {
				ok = false
				break
			}
			g.conn[s] = true
			ev = Ev{Op: "conn", S: s}
		case "disc":
			s := g.session()
			if s < 0 {
				ok = false
				break
			}
			g.conn[s] = false
			ev = Ev{Op: "disc", S: s}
		case "try", "lock":
			if op == "lock" && g.p.FifoPct > 0 && g.r.IntN(100) < g.p.FifoPct {
				// a holder and four queued Lock calls; one of the first two gives up (wait timeout or cancel) while others are behind it;
				// the holder releases; then each new holder releases in turn: the grants must come in arrival order (seed C03e)
				live := []int{}
				for s0 := 0; s0 < max(g.p.Sessions, 1); s0++ {
					if g.conn[s0] {
						live = append(live, s0)
					}
				}
				if len(live) > 0 {
					n := pick(g.r, g.p.Names)
					one := int32(1)
					wtGive := int32(1)
					giver := g.r.IntN(2) // which of the queued calls gives up: the first or the second
					byCancel := g.r.IntN(2) == 0
					ev = Ev{Op: "try", S: pick(g.r, live), Name: n, Size: &one}
					q := []Ev{}
					for w := 0; w < 4; w++ {
						l := Ev{Op: "lock", S: pick(g.r, live), Name: n, Size: &one}
						if w == giver && !byCancel {
							l.Wt = &wtGive
						}
						q = append(q, l)
					}
					if byCancel {
						q = append(q, Ev{Op: "cancel", W: i + 1 + giver})
					} else {
						q = append(q, Ev{Op: "adv", Dt: 1000000001})
					}
					q = append(q, Ev{Op: "probe"}, Ev{Op: "unl", S: -1, Name: n, Key: &KeyRef{Ref: i}}, Ev{Op: "probe"})
					for w := 0; w < 4; w++ {
						if w != giver {
							q = append(q, Ev{Op: "unl", S: -1, Name: n, Key: &KeyRef{Ref: i + 1 + w}}, Ev{Op: "probe"})
						}
					}
					g.queue = append(g.queue, q...)
					g.Stats["macro:queue-giveup-fifo"]++
					break
				}
			}
			s := g.session()
			if s == -2 {
				s0 := g.r.IntN(max(g.p.Sessions, 1))
				g.conn[s0] = true
				g.queue = append(g.queue, Ev{Op: "conn", S: s0})
				s = s0
			}
			ev = Ev{Op: op, S: s, Name: pick(g.r, g.p.Names), Size: pick(g.r, g.p.Sizes), Lt: pick(g.r, g.p.Lts)}
			// mostly ask for the size the name was last GRANTED with: otherwise most requests on a live lock are size mismatches
			if g.p.StickySizePct > 0 && g.r.IntN(100) < g.p.StickySizePct {
				for j := len(g.grants) - 1; j >= 0; j-- {
					if g.grants[j].name == ev.Name {
						ev.Size = g.grants[j].size
						break
					}
				}
			}
			if op == "lock" {
				ev.Wt = pick(g.r, g.p.Wts)
			}
			if len(g.queue) > 0 {
				// the conn must come first
				g.queue = append(g.queue, ev)
				ev = g.queue[0]
				g.queue = g.queue[1:]
			}
		case "unl":
			s := g.session()
			if s == -2 {
				s = -1
			}
			name, key := g.keyFor(x)
			ev = Ev{Op: "unl", S: s, Name: name, Key: key}
		case "ren":
			name, key := g.keyFor(x)
			lt := pick(g.r, g.p.RenewLts)
			ev = Ev{Op: "ren", S: -1, Name: name, Key: key, Lt: &lt}
		case "cancel":
			if len(g.blocked) == 0 {
				ok = false
				break
			}
			ev = Ev{Op: "cancel", W: pick(g.r, g.blocked)}
		case "adv":
			ev = Ev{Op: "adv", Dt: pick(g.r, g.p.Advs)}
		case "restart":
			g.conn = map[int]bool{}
			g.blocked = nil
			ev = Ev{Op: "restart"}
			g.queue = append(g.queue, Ev{Op: "probe"})
		case "shutdown":
			g.afterShut = true
			ev = Ev{Op: "shutdown"}
		case "probe":
			ev = Ev{Op: "probe"}
		case "ipcl":
			ev = Ev{Op: "ipcl"}
		case "ipcu":
			if g.p.PartialPct > 0 && g.r.IntN(100) < g.p.PartialPct {
				// a counting lock held twice, ONE of the two holds released (the first or the latest), then the admin's unlock by name
				// and listing: what an index "name -> last key" or "name -> first key" gets wrong (seed C18e)
				live := []int{}
				for s0 := 0; s0 < max(g.p.Sessions, 1); s0++ {
					if g.conn[s0] {
						live = append(live, s0)
					}
				}
				if len(live) > 0 {
					s1, s2 := pick(g.r, live), pick(g.r, live)
					n := pick(g.r, g.p.Names)
					k := int32(2 + g.r.IntN(2))
					for j := len(g.grants) - 1; j >= 0; j-- {
						if g.grants[j].name == n && g.grants[j].size != nil && *g.grants[j].size > 1 {
							k = *g.grants[j].size
							break
						}
					}
					rel := i + g.r.IntN(2)
					ev = Ev{Op: "try", S: s1, Name: n, Size: &k}
					g.queue = append(g.queue, Ev{Op: "try", S: s2, Name: n, Size: &k}, Ev{Op: "unl", S: s1, Name: n, Key: &KeyRef{Ref: rel}},
						Ev{Op: "probe"}, Ev{Op: "ipcu", Name: n}, Ev{Op: "probe"}, Ev{Op: "ipcl"})
					g.Stats["macro:partial-release-then-unlock-by-name"]++
					break
				}
			}
			name, key := g.keyFor(x)
			if g.r.IntN(3) == 0 {
				key = nil
			}
			ev = Ev{Op: "ipcu", Name: name, Key: key}
		default:
			ok = false
		}
		if ok {
			if g.p.ProbeAround && (ev.Op == "try" || ev.Op == "lock" || ev.Op == "unl" || ev.Op == "ren") {
				// probe, request, probe
				g.queue = append([]Ev{ev, {Op: "probe"}}, g.queue...)
				ev = Ev{Op: "probe"}
			}
			g.Stats["op:"+ev.Op]++
			return ev, true
		}
	}
	g.Stats["op:probe"]++
	return Ev{Op: "probe"}, true
}
