// Package sched is the layer-1 harness of the T2 "sched-diff" tie: it drives the REAL lock.Manager (instrumented with
// yield points through `go test -overlay`, see anchors.json) along schedules chosen by the extracted model Mlk
// (ocaml/lk/lkdriver gen), one critical section per item, and writes what the implementation did after every item in
// the format `lkdriver check` reads. After each schedule an epilogue (free running, sequential calls) probes the
// remaining capacity and unlocks every granted key, so that the property oracles of lib/schedtie.py can be evaluated
// on the real trace.
package sched

import (
	"bufio"
	"context"
	"encoding/hex"
	"fmt"
	"os"
	"sort"
	"strconv"
	"strings"
	"testing/synctest"
	"time"

	"golang.org/x/sync/semaphore"

	"github.com/imoore76/ldlm/lock"
	"github.com/imoore76/ldlm/server"

	"ldlmverif/vhook"
)

// one model time unit
const Unit = time.Millisecond

func hx(s string) string {
	if s == "" {
		return "-"
	}
	return hex.EncodeToString([]byte(s))
}

func unhx(s string) string {
	if s == "" || s == "-" {
		return ""
	}
	b, err := hex.DecodeString(s)
	if err != nil {
		return ""
	}
	return string(b)
}

var errNames = []struct {
	e error
	n string
}{
	{server.ErrLockWaitTimeout, "server.ErrLockWaitTimeout"},
	{lock.ErrInvalidLockKey, "lock.ErrInvalidLockKey"},
	{lock.ErrLockNotLocked, "lock.ErrLockNotLocked"},
	{lock.ErrLockDoesNotExist, "lock.ErrLockDoesNotExist"},
	{lock.ErrManagerShutdown, "lock.ErrManagerShutdown"},
	{lock.ErrLockSizeMismatch, "lock.ErrLockSizeMismatch"},
	{lock.ErrInvalidLockSize, "lock.ErrInvalidLockSize"},
	{context.Canceled, "context.Canceled"},
	{context.DeadlineExceeded, "context.DeadlineExceeded"},
}

// errTok names the Go error VARIABLE (identity, not text); anything else is "other".
func errTok(e error) string {
	if e == nil {
		return "~"
	}
	for _, x := range errNames {
		if e == x.e {
			return x.n
		}
	}
	return "other"
}

func errOfTok(t string) error {
	for _, x := range errNames {
		if t == x.n {
			return x.e
		}
	}
	return context.Canceled
}

// ---------------------------------------------------------------------------------------------- schedules

type Item struct {
	K    int
	Kind string // call run wake fcancel cancel gcpass tick shutdown
	Tid  int
	Op   string // try lock unl
	Name string
	Key  string
	Size int32
	Err  string
	Dt   int
	Raw  string // the tokens after "I <k>"
}

type Schedule struct {
	ID      string
	MinIdle int
	Items   []Item
}

func (it Item) forced() bool { return it.Kind == "wake" || it.Kind == "fcancel" }

// ParseSchedules reads `lkdriver gen` output (expected observations and ghost lines are skipped).
func ParseSchedules(sc *bufio.Scanner) []*Schedule {
	var out []*Schedule
	var cur *Schedule
	for sc.Scan() {
		f := strings.Fields(sc.Text())
		if len(f) == 0 {
			continue
		}
		switch f[0] {
		case "S":
			if len(f) >= 2 {
				cur = &Schedule{ID: f[1]}
				out = append(out, cur)
			}
		case "C":
			if cur != nil && len(f) >= 2 {
				cur.MinIdle, _ = strconv.Atoi(f[1])
			}
		case "I":
			if cur == nil || len(f) < 3 {
				continue
			}
			it := Item{Kind: f[2], Raw: strings.Join(f[2:], " ")}
			it.K, _ = strconv.Atoi(f[1])
			switch f[2] {
			case "call":
				if len(f) < 8 {
					continue
				}
				it.Tid, _ = strconv.Atoi(f[3])
				it.Op = f[4]
				it.Name = unhx(f[5])
				it.Key = unhx(f[6])
				z, _ := strconv.Atoi(f[7])
				it.Size = int32(z)
			case "run", "wake", "fcancel":
				if len(f) < 4 {
					continue
				}
				it.Tid, _ = strconv.Atoi(f[3])
			case "cancel":
				if len(f) < 5 {
					continue
				}
				it.Tid, _ = strconv.Atoi(f[3])
				it.Err = f[4]
			case "tick":
				if len(f) < 4 {
					continue
				}
				it.Dt, _ = strconv.Atoi(f[3])
			case "gcpass", "shutdown":
			default:
				continue
			}
			cur.Items = append(cur.Items, it)
		case "Z":
			cur = nil
		}
	}
	return out
}

// ---------------------------------------------------------------------------------------------- execution

type call struct {
	tid    int
	op     string
	name   string
	key    string
	size   int32
	cancel context.CancelCauseFunc
	done   bool
	ok     bool
	err    error
	seen   bool // response already reported (X block or "late")
}

type runner struct {
	w        *bufio.Writer
	wd       *vhook.Watchdog
	s        *vhook.Sched
	m        *lock.Manager
	closer   func()
	calls    map[int]*call
	order    []int
	minIdle  time.Duration
	shut     bool
	crashed  bool
	idx      int // event index (items, then epilogue events)
	sid      string
	nprobe   int
	Reached  map[string]int
	hangInfo string
}

func (r *runner) beat(what string) {
	r.wd.Beat(fmt.Sprintf("%s %d %s", r.sid, r.idx, what))
}

func (r *runner) wait(what string) {
	r.beat(what)
	synctest.Wait()
	r.beat(what + " done")
}

func (r *runner) startCall(it Item) {
	ctx, cancel := context.WithCancelCause(context.Background())
	c := &call{tid: it.Tid, op: it.Op, name: it.Name, key: it.Key, size: it.Size, cancel: cancel}
	r.calls[it.Tid] = c
	r.order = append(r.order, it.Tid)
	m := r.m
	r.s.Go(it.Tid, func() {
		switch c.op {
		case "try":
			c.ok, c.err = m.TryLock(c.name, c.key, c.size)
		case "lock":
			c.err = m.Lock(c.name, c.key, c.size, ctx)
			c.ok = c.err == nil
		case "unl":
			c.ok, c.err = m.Unlock(c.name, c.key)
		}
		c.done = true
	})
}

func (r *runner) table() []lock.VerifLock {
	t := r.m.VerifTable()
	sort.Slice(t, func(i, j int) bool { return hx(t[i].Name) < hx(t[j].Name) })
	return t
}

func (r *runner) emitTable(prefix string) {
	for _, l := range r.table() {
		fmt.Fprintf(r.w, "%s %s %d %d", prefix, hx(l.Name), l.Size, len(l.Keys))
		for _, k := range l.Keys {
			fmt.Fprintf(r.w, " %s", hx(k))
		}
		fmt.Fprintln(r.w)
	}
}

// observe writes the X block after item k.
func (r *runner) observe(k int) {
	fmt.Fprintf(r.w, "X %d\n", k)
	for _, in := range r.s.Snapshot() {
		c := r.calls[in.ID]
		switch in.State {
		case vhook.Parked:
			fmt.Fprintf(r.w, "T %d P %s\n", in.ID, in.Label)
		case vhook.Running:
			fmt.Fprintf(r.w, "T %d B\n", in.ID)
		case vhook.Finished:
			if c != nil {
				c.seen = true
				fmt.Fprintf(r.w, "T %d F %d %s\n", in.ID, b2i(c.ok), errTok(c.err))
			}
		case vhook.Panicked:
			r.crashed = true
			fmt.Fprintf(r.w, "T %d Z %s\n", in.ID, hx(in.Panic))
		}
	}
	r.emitTable("L")
	fmt.Fprintf(r.w, "K %d\n", b2i(r.crashed))
	r.w.Flush()
}

func b2i(b bool) int {
	if b {
		return 1
	}
	return 0
}

func (r *runner) note(k int, format string, a ...any) {
	fmt.Fprintf(r.w, "N %d %s\n", k, fmt.Sprintf(format, a...))
}

// realInFlight: some call is between its PEnter step and its return on the REAL side.
func (r *runner) realInFlight() bool {
	for _, in := range r.s.Snapshot() {
		switch in.State {
		case vhook.Finished, vhook.Panicked:
		case vhook.Parked:
			if in.Label != "PEnter" {
				return true
			}
		default:
			return true
		}
	}
	return false
}

func (r *runner) doItem(it Item) {
	switch it.Kind {
	case "call":
		r.startCall(it)
	case "run":
		if !r.s.Release(it.Tid) {
			in, _ := r.s.Get(it.Tid)
			r.note(it.K, "run %d skipped: thread is %s", it.Tid, in.State)
		}
	case "wake", "fcancel":
		// the goroutine made this move by itself
	case "cancel":
		if c := r.calls[it.Tid]; c != nil {
			c.cancel(errOfTok(it.Err))
		} else {
			r.note(it.K, "cancel %d skipped: no such call", it.Tid)
		}
	case "gcpass":
		done := false
		m, mi := r.m, r.minIdle
		go func() { m.VerifLockGc(mi); done = true }()
		r.wait("gcpass")
		if !done {
			r.note(it.K, "gcpass did not finish")
		}
	case "tick":
		time.Sleep(time.Duration(it.Dt) * Unit)
	case "shutdown":
		if r.shut {
			return
		}
		if r.realInFlight() {
			r.note(it.K, "shutdown skipped: a call is in flight on the real side")
			return
		}
		// the model's final GC pass is lockGc(0) exactly as the code has it: it collects what has been idle for MORE than 0 ns
		// on the (fake) clock, so a lock touched at this very instant survives it on both sides. SCHED_SHUTDOWN_TICK=1 lets
		// one nanosecond pass first (the model then needs a tick item too).
		if os.Getenv("SCHED_SHUTDOWN_TICK") != "" {
			time.Sleep(time.Nanosecond)
		}
		r.shut = true
		cl := r.closer
		go cl()
	}
}

// RunSchedule executes one schedule inside the current synctest bubble.
func RunSchedule(sc *Schedule, w *bufio.Writer, wd *vhook.Watchdog, reached map[string]int) {
	r := &runner{w: w, wd: wd, s: vhook.New(), calls: map[int]*call{}, sid: sc.ID, minIdle: time.Duration(sc.MinIdle) * Unit}
	// labels starting with "X" are sentinels (anchors.json): yield points that exist only because the code's shape deviates
	// from the model's. SCHED_XPARK=0 makes them transparent (the run is compared with the model at the model's own
	// granularity); otherwise they park like every other label (the window they open is exhibited to the oracles).
	step := r.s.Step
	if os.Getenv("SCHED_XPARK") == "0" {
		step = func(label string) {
			if strings.HasPrefix(label, "X") {
				return
			}
			r.s.Step(label)
		}
	}
	lock.VerifStep = step
	semaphore.VerifStep = step
	defer func() {
		lock.VerifStep = nil
		semaphore.VerifStep = nil
	}()
	fmt.Fprintf(w, "S %s\nC %d\n", sc.ID, sc.MinIdle)
	// ONE shard; the manager's own GC ticker never fires (passes are schedule items)
	r.m, r.closer = lock.NewManager(1, 1000000*time.Hour, r.minIdle)
	r.wait("new manager")

	last := -1
	for i, it := range sc.Items {
		r.idx = it.K
		last = it.K
		fmt.Fprintf(w, "I %d %s\n", it.K, it.Raw)
		w.Flush()
		r.doItem(it)
		r.wait("item " + it.Raw)
		if i+1 < len(sc.Items) && sc.Items[i+1].forced() {
			continue
		}
		r.observe(it.K)
		if r.crashed {
			break
		}
	}
	r.idx = last + 1
	if !r.crashed {
		r.epilogue()
	}
	r.teardown()
	for k, v := range r.s.Reached() {
		reached[k] += v
	}
	fmt.Fprintln(w, "Z")
	w.Flush()
}

// ---------------------------------------------------------------------------------------------- epilogue

func (r *runner) ev() int { k := r.idx; r.idx++; return k }

// late reports the calls that returned since the last report.
func (r *runner) late() {
	for _, tid := range r.order {
		c := r.calls[tid]
		in, _ := r.s.Get(tid)
		if in.State == vhook.Panicked && !r.crashed {
			r.crashed = true
			fmt.Fprintf(r.w, "E %d panic %d %s\n", r.ev(), tid, hx(in.Panic))
		}
		if c.done && !c.seen {
			c.seen = true
			fmt.Fprintf(r.w, "E %d late %d %d %s\n", r.ev(), tid, b2i(c.ok), errTok(c.err))
		}
	}
}

func (r *runner) ecall(op, name, key string, size int32, tag string) bool {
	var ok bool
	var err error
	if r.crashed {
		return false
	}
	k := r.ev()
	r.beat("epilogue " + tag)
	switch op {
	case "try":
		ok, err = r.m.TryLock(name, key, size)
	case "unl":
		ok, err = r.m.Unlock(name, key)
	}
	fmt.Fprintf(r.w, "E %d call %s %s %s %d %d %s %s\n", k, op, hx(name), hx(key), size, b2i(ok), errTok(err), tag)
	r.w.Flush()
	r.wait("epilogue " + tag)
	r.late()
	return ok
}

type hold struct{ name, key string }

func (r *runner) epilogue() {
	fmt.Fprintf(r.w, "E %d begin\n", r.ev())
	r.w.Flush()
	r.s.FreeRun()
	r.wait("free run")
	r.late()
	if r.crashed {
		return
	}
	if r.shut {
		r.emitTable(fmt.Sprintf("E %d tab", r.ev()))
		return
	}
	// (a) a refused / failed acquisition holds nothing: its key does not unlock
	acqKeys := map[hold]int{}
	for _, tid := range r.order {
		c := r.calls[tid]
		if c.op != "unl" {
			acqKeys[hold{c.name, c.key}]++
		}
	}
	for _, tid := range r.order {
		c := r.calls[tid]
		if c.op != "unl" && c.done && !c.ok && acqKeys[hold{c.name, c.key}] == 1 {
			r.ecall("unl", c.name, c.key, 1, "refused-key")
		}
	}
	// (b) probe: TryLock until refused, then give the probe keys back
	for _, l := range r.table() {
		var got []string
		for i := 0; i <= int(l.Size)+1; i++ {
			key := fmt.Sprintf("probe-%d", r.nprobe)
			r.nprobe++
			if !r.ecall("try", l.Name, key, l.Size, "probe") {
				break
			}
			got = append(got, key)
		}
		fmt.Fprintf(r.w, "E %d probe %s %d %d %d\n", r.ev(), hx(l.Name), l.Size, len(l.Keys), len(got))
		for _, k := range got {
			r.ecall("unl", l.Name, k, 1, "unprobe")
		}
	}
	// (c) every granted key that no call of the schedule unlocked unlocks exactly once; waiters are served meanwhile
	unlocked := map[hold]bool{}
	for _, tid := range r.order {
		c := r.calls[tid]
		if c.op == "unl" && c.done && c.ok {
			unlocked[hold{c.name, c.key}] = true
		}
	}
	var released []hold
	for round := 0; round < 16; round++ {
		progress := false
		for _, tid := range r.order {
			c := r.calls[tid]
			h := hold{c.name, c.key}
			if c.op != "unl" && c.done && c.ok && !unlocked[h] {
				unlocked[h] = true
				released = append(released, h)
				r.ecall("unl", c.name, c.key, 1, "release")
				progress = true
			}
		}
		if !progress {
			break
		}
	}
	for h := range unlocked {
		found := false
		for _, x := range released {
			if x == h {
				found = true
			}
		}
		if !found {
			released = append(released, h)
		}
	}
	sort.Slice(released, func(i, j int) bool {
		if released[i].name != released[j].name {
			return released[i].name < released[j].name
		}
		return released[i].key < released[j].key
	})
	for _, h := range released {
		r.ecall("unl", h.name, h.key, 1, "second-unlock")
	}
	// (d) whoever is still blocked now lost a wake-up
	for _, in := range r.s.Snapshot() {
		if in.State == vhook.Running {
			fmt.Fprintf(r.w, "E %d stuck %d\n", r.ev(), in.ID)
		}
	}
	r.emitTable(fmt.Sprintf("E %d tab", r.ev()))
	// (e) final probe: the whole capacity of every remaining object is free
	for _, l := range r.table() {
		var got []string
		for i := 0; i <= int(l.Size)+1; i++ {
			key := fmt.Sprintf("probe-%d", r.nprobe)
			r.nprobe++
			if !r.ecall("try", l.Name, key, l.Size, "final") {
				break
			}
			got = append(got, key)
		}
		fmt.Fprintf(r.w, "E %d final %s %d %d %d\n", r.ev(), hx(l.Name), l.Size, len(l.Keys), len(got))
		for _, k := range got {
			r.ecall("unl", l.Name, k, 1, "unfinal")
		}
	}
	r.w.Flush()
}

// teardown makes every goroutine of the bubble exit.
func (r *runner) teardown() {
	r.s.FreeRun()
	for _, c := range r.calls {
		c.cancel(context.Canceled)
	}
	r.wait("teardown cancel")
	if !r.shut {
		r.shut = true
		cl := r.closer
		go cl()
		r.wait("teardown close")
	}
}
