// Package sched is the layer-1 harness of the T2 "sched-diff" tie: it drives the REAL lock.Manager (instrumented with
// yield points through `go test -overlay`, see anchors.json) along schedules chosen by the extracted model Mlk
// (ocaml/lk/lkdriver gen), one critical section per item, and writes what the implementation did after every item in
// the format `lkdriver check` reads. After each schedule an epilogue (free running, sequential calls) probes the
// remaining capacity and unlocks every granted key, so that the property oracles of lib/schedtie.py can be evaluated
// on the real trace.
package sched

import (
	"bufio"
	"context"
	"encoding/hex"
	"encoding/json"
	"fmt"
	"os"
	"sort"
	"strconv"
	"strings"
	"sync"
	"testing/synctest"
	"time"

	"golang.org/x/sync/semaphore"

	"github.com/imoore76/ldlm/lock"
	"github.com/imoore76/ldlm/server"

	"ldlmverif/vhook"
)

// one model time unit
const Unit = time.Millisecond

func hx(s string) string {
	if s == "" {
		return "-"
	}
	return hex.EncodeToString([]byte(s))
}

func unhx(s string) string {
	if s == "" || s == "-" {
		return ""
	}
	b, err := hex.DecodeString(s)
	if err != nil {
		return ""
	}
	return string(b)
}

var errNames = []struct {
	e error
	n string
}{
	{server.ErrLockWaitTimeout, "server.ErrLockWaitTimeout"},
	{lock.ErrInvalidLockKey, "lock.ErrInvalidLockKey"},
	{lock.ErrLockNotLocked, "lock.ErrLockNotLocked"},
	{lock.ErrLockDoesNotExist, "lock.ErrLockDoesNotExist"},
	{lock.ErrManagerShutdown, "lock.ErrManagerShutdown"},
	{lock.ErrLockSizeMismatch, "lock.ErrLockSizeMismatch"},
	{lock.ErrInvalidLockSize, "lock.ErrInvalidLockSize"},
	{context.Canceled, "context.Canceled"},
	{context.DeadlineExceeded, "context.DeadlineExceeded"},
}

// errTok names the Go error VARIABLE (identity, not text); anything else is "other".
func errTok(e error) string {
	if e == nil {
		return "~"
	}
	for _, x := range errNames {
		if e == x.e {
			return x.n
		}
	}
	return "other"
}

func errOfTok(t string) error {
	for _, x := range errNames {
		if t == x.n {
			return x.e
		}
	}
	return context.Canceled
}

// ---------------------------------------------------------------------------------------------- schedules

type Item struct {
	K    int
	Kind string // call run wake fcancel cancel gcpass gcstart gcrun resume tick shutdown
	Tid  int
	Op   string // try lock unl
	Name string
	Key  string
	Size int32
	Err  string
	Dt   int
	Raw  string // the tokens after "I <k>"
}

type Schedule struct {
	ID      string
	MinIdle int
	Shards  int
	Items   []Item
}

// first thread id of the GC passes started by "gcstart" items (pass n runs as thread GcTid0+n)
const GcTid0 = 90

func (it Item) forced() bool { return it.Kind == "wake" || it.Kind == "fcancel" }

// ParseSchedules reads `lkdriver gen` output (expected observations and ghost lines are skipped).
func ParseSchedules(sc *bufio.Scanner) []*Schedule {
	var out []*Schedule
	var cur *Schedule
	for sc.Scan() {
		f := strings.Fields(sc.Text())
		if len(f) == 0 {
			continue
		}
		switch f[0] {
		case "S":
			if len(f) >= 2 {
				cur = &Schedule{ID: f[1], Shards: 1}
				out = append(out, cur)
			}
		case "C":
			if cur != nil && len(f) >= 2 {
				cur.MinIdle, _ = strconv.Atoi(f[1])
			}
		case "H":
			if cur != nil && len(f) >= 2 {
				if n, err := strconv.Atoi(f[1]); err == nil && n >= 1 && n <= 4096 {
					cur.Shards = n
				}
			}
		case "I":
			if cur == nil || len(f) < 3 {
				continue
			}
			it := Item{Kind: f[2], Raw: strings.Join(f[2:], " ")}
			it.K, _ = strconv.Atoi(f[1])
			switch f[2] {
			case "call":
				if len(f) < 8 {
					continue
				}
				it.Tid, _ = strconv.Atoi(f[3])
				it.Op = f[4]
				it.Name = unhx(f[5])
				it.Key = unhx(f[6])
				z, _ := strconv.Atoi(f[7])
				it.Size = int32(z)
			case "run", "wake", "fcancel", "resume":
				if len(f) < 4 {
					continue
				}
				it.Tid, _ = strconv.Atoi(f[3])
			case "cancel":
				if len(f) < 5 {
					continue
				}
				it.Tid, _ = strconv.Atoi(f[3])
				it.Err = f[4]
			case "tick":
				if len(f) < 4 {
					continue
				}
				it.Dt, _ = strconv.Atoi(f[3])
			case "gcpass", "shutdown", "gcstart", "gcrun":
			default:
				continue
			}
			cur.Items = append(cur.Items, it)
		case "Z":
			cur = nil
		}
	}
	return out
}

// ---------------------------------------------------------------------------------------------- execution

type call struct {
	tid    int
	op     string
	name   string
	key    string
	size   int32
	cancel context.CancelCauseFunc
	done   bool
	ok     bool
	err    error
	seen   bool // response already reported (X block or "late")
}

type runner struct {
	w        *bufio.Writer
	wd       *vhook.Watchdog
	s        *vhook.Sched
	m        *lock.Manager
	closer   func()
	calls    map[int]*call
	order    []int
	minIdle  time.Duration
	shut     bool
	crashed  bool
	idx      int // event index (items, then epilogue events)
	sid      string
	nprobe   int
	Reached  map[string]int
	hangInfo string
	exhibit  bool  // window yield points (W labels) park
	xpark    bool  // shape sentinels (X labels) park
	gcs      []int // thread ids of the GC passes started so far
	pmu      sync.Mutex
	passed   []passage // window yield points passed since the last report (comparison run)
	epi      bool
	acq      map[int]*acqState
}

// a registered thread went through a transparent window yield point
type passage struct {
	tid   int
	label string
}

func isWindow(label string) bool   { return strings.HasPrefix(label, "W") }
func isSentinel(label string) bool { return strings.HasPrefix(label, "X") }

// an ADDITIONAL mutex acquisition inside a model step (W<Recv.Func>#<ordinal>, see AcqTable)
func isAdditional(label string) bool { return isWindow(label) && strings.Contains(label, "#") }

// AcqRule: the mutex acquisition sites ("<Recv.Func>:<text>") a thread goes through after it was released from a model label:
// Head in order (each element a list of alternatives), then Loop repeated. Anything else before the next model label is an
// additional acquisition: the code has more critical sections in that step than the model.
type AcqRule struct {
	Head [][]string `json:"head"`
	Loop [][]string `json:"loop"`
}

// AcqTable (anchors.json "acquisitions"."allowed", file named by SCHED_ACQ_TABLE); nil: every site is transparent.
var AcqTable map[string]AcqRule

func LoadAcqTable(path string) {
	AcqTable = nil
	if path == "" {
		return
	}
	b, err := os.ReadFile(path)
	if err != nil {
		return
	}
	var t map[string]AcqRule
	if json.Unmarshal(b, &t) == nil {
		AcqTable = t
	}
}

func (ru AcqRule) at(n int) []string {
	if n < len(ru.Head) {
		return ru.Head[n]
	}
	if len(ru.Loop) > 0 {
		return ru.Loop[(n-len(ru.Head))%len(ru.Loop)]
	}
	return nil
}

// per thread: the model label it was last released from, the number of acquisition sites gone through since, and whether one
// of them was already additional
type acqState struct {
	cur   string
	n     int
	extra bool
}

// classify: an acquisition site "A:<Recv.Func>#<ordinal>:<text>" reached by thread id. "" = it coincides with the model step
// (transparent), else the window label of the additional acquisition.
func (r *runner) classify(id int, label string) string {
	site := strings.TrimPrefix(label, "A:")
	i := strings.Index(site, ":")
	if i < 0 {
		return ""
	}
	fnord, text := site[:i], site[i+1:]
	fn := fnord
	if j := strings.Index(fnord, "#"); j >= 0 {
		fn = fnord[:j]
	}
	r.pmu.Lock()
	defer r.pmu.Unlock()
	st := r.acq[id]
	if st == nil {
		return ""
	}
	rule, known := AcqTable[st.cur]
	if !known {
		return ""
	}
	ok := false
	if !st.extra {
		for _, alt := range rule.at(st.n) {
			if alt == fn+":"+text {
				ok = true
			}
		}
	}
	st.n++
	if ok {
		return ""
	}
	st.extra = true
	return "W" + fnord
}

// asynchronous items: what the environment may do at any time (they never release a request goroutine)
func (it Item) async() bool {
	switch it.Kind {
	case "cancel", "gcpass", "tick", "gcstart", "gcrun":
		return true
	}
	return false
}

func (r *runner) beat(what string) {
	r.wd.Beat(fmt.Sprintf("%s %d %s", r.sid, r.idx, what))
}

func (r *runner) wait(what string) {
	r.beat(what)
	synctest.Wait()
	r.beat(what + " done")
}

func (r *runner) startCall(it Item) {
	ctx, cancel := context.WithCancelCause(context.Background())
	c := &call{tid: it.Tid, op: it.Op, name: it.Name, key: it.Key, size: it.Size, cancel: cancel}
	r.calls[it.Tid] = c
	r.order = append(r.order, it.Tid)
	m := r.m
	r.s.Go(it.Tid, func() {
		switch c.op {
		case "try":
			c.ok, c.err = m.TryLock(c.name, c.key, c.size)
		case "lock":
			c.err = m.Lock(c.name, c.key, c.size, ctx)
			c.ok = c.err == nil
		case "unl":
			c.ok, c.err = m.Unlock(c.name, c.key)
		}
		c.done = true
	})
}

func (r *runner) table() []lock.VerifLock {
	t := r.m.VerifTable()
	sort.Slice(t, func(i, j int) bool { return hx(t[i].Name) < hx(t[j].Name) })
	return t
}

func (r *runner) emitTable(prefix string) {
	for _, l := range r.table() {
		fmt.Fprintf(r.w, "%s %s %d %d", prefix, hx(l.Name), l.Size, len(l.Keys))
		for _, k := range l.Keys {
			fmt.Fprintf(r.w, " %s", hx(k))
		}
		fmt.Fprintln(r.w)
	}
}

// observe writes the X block after item k.
func (r *runner) observe(k int) {
	fmt.Fprintf(r.w, "X %d\n", k)
	for _, in := range r.s.Snapshot() {
		c := r.calls[in.ID]
		switch in.State {
		case vhook.Parked:
			fmt.Fprintf(r.w, "T %d P %s\n", in.ID, in.Label)
		case vhook.Running:
			fmt.Fprintf(r.w, "T %d B\n", in.ID)
		case vhook.Finished:
			// (a finished GC pass is not a thread any more)
			if c != nil {
				c.seen = true
				fmt.Fprintf(r.w, "T %d F %d %s\n", in.ID, b2i(c.ok), errTok(c.err))
			}
		case vhook.Panicked:
			r.crashed = true
			fmt.Fprintf(r.w, "T %d Z %s\n", in.ID, hx(in.Panic))
		}
	}
	r.emitTable("L")
	fmt.Fprintf(r.w, "K %d\n", b2i(r.crashed))
	r.w.Flush()
}

func b2i(b bool) int {
	if b {
		return 1
	}
	return 0
}

func (r *runner) note(k int, format string, a ...any) {
	fmt.Fprintf(r.w, "N %d %s\n", k, fmt.Sprintf(format, a...))
}

// realInFlight: some call is between its PEnter step and its return on the REAL side.
func (r *runner) realInFlight() bool {
	for _, in := range r.s.Snapshot() {
		switch in.State {
		case vhook.Finished, vhook.Panicked:
		case vhook.Parked:
			if in.Label != "PEnter" {
				return true
			}
		default:
			return true
		}
	}
	return false
}

func (r *runner) doItem(it Item) {
	switch it.Kind {
	case "call":
		r.startCall(it)
	case "run":
		if !r.s.Release(it.Tid) {
			in, _ := r.s.Get(it.Tid)
			r.note(r.idx, "run %d skipped: thread is %s", it.Tid, in.State)
		}
	case "wake", "fcancel":
		// the goroutine made this move by itself
	case "resume":
		// a thread parked at a window yield point (exhibit runs) continues to its next yield point
		in, ok := r.s.Get(it.Tid)
		if !ok || in.State != vhook.Parked || !isWindow(in.Label) || !r.s.Release(it.Tid) {
			r.note(r.idx, "resume %d skipped: thread is %s %s", it.Tid, in.State, in.Label)
		}
	case "gcstart":
		// one GC pass in a goroutine of its own: it parks before its first shard.Lock() (yield points GcShard<n>)
		id := GcTid0 + len(r.gcs)
		r.gcs = append(r.gcs, id)
		m, mi := r.m, r.minIdle
		r.s.Go(id, func() { m.VerifLockGc(mi) })
	case "gcrun":
		if !r.gcAdvance() {
			r.note(r.idx, "gcrun skipped: no GC pass is parked")
		}
	case "cancel":
		if c := r.calls[it.Tid]; c != nil {
			c.cancel(errOfTok(it.Err))
		} else {
			r.note(r.idx, "cancel %d skipped: no such call", it.Tid)
		}
	case "gcpass":
		// a whole pass, atomically (an unregistered goroutine passes through the GcShard yield points)
		done := false
		m, mi := r.m, r.minIdle
		go func() { m.VerifLockGc(mi); done = true }()
		r.wait("gcpass")
		if !done {
			r.note(r.idx, "gcpass did not finish")
		}
	case "tick":
		time.Sleep(time.Duration(it.Dt) * Unit)
	case "shutdown":
		if r.shut {
			return
		}
		if r.realInFlight() {
			r.note(r.idx, "shutdown skipped: a call is in flight on the real side")
			return
		}
		// the model's final GC pass is lockGc(0) exactly as the code has it: it collects what has been idle for MORE than 0 ns
		// on the (fake) clock, so a lock touched at this very instant survives it on both sides. SCHED_SHUTDOWN_TICK=1 lets
		// one nanosecond pass first (the model then needs a tick item too).
		if os.Getenv("SCHED_SHUTDOWN_TICK") != "" {
			time.Sleep(time.Nanosecond)
		}
		r.shut = true
		cl := r.closer
		go cl()
	}
}

// gcAdvance lets the oldest parked GC pass run to its next yield point (or to its end).
func (r *runner) gcAdvance() bool {
	for _, id := range r.gcs {
		if in, ok := r.s.Get(id); ok && in.State == vhook.Parked {
			return r.s.Release(id)
		}
	}
	return false
}

func (r *runner) gcParked() bool {
	for _, id := range r.gcs {
		if in, ok := r.s.Get(id); ok && in.State == vhook.Parked {
			return true
		}
	}
	return false
}

// handledAhead: the schedule itself deals with thread tid parked at a window yield point: only asynchronous items (and
// resumes) stand between here and "resume tid".
func handledAhead(items []Item, i int, tid int) bool {
	for j := i + 1; j < len(items); j++ {
		it := items[j]
		if it.Kind == "resume" {
			if it.Tid == tid {
				return true
			}
			continue
		}
		if !it.async() {
			return false
		}
	}
	return false
}

// autoResume (exhibit runs): a thread parked at a window yield point that the schedule does not deal with continues at once
// (the window stays closed, as in the comparison run).
func (r *runner) autoResume(items []Item, i int) {
	for round := 0; round < 16; round++ {
		moved := false
		for _, in := range r.s.Snapshot() {
			if r.xpark && isAdditional(in.Label) {
				continue // parks until the thread's next "run" / "gcrun" item: the other threads' steps come in between
			}
			if in.State == vhook.Parked && isWindow(in.Label) && !handledAhead(items, i, in.ID) {
				if r.s.Release(in.ID) {
					moved = true
					r.wait("auto resume")
				}
			}
		}
		if !moved {
			return
		}
	}
}

// flushPassed writes the window yield points passed during the last item (comparison run).
func (r *runner) flushPassed(k int) {
	r.pmu.Lock()
	ps := r.passed
	r.passed = nil
	r.pmu.Unlock()
	for _, p := range ps {
		fmt.Fprintf(r.w, "Y %d %d %s\n", k, p.tid, p.label)
	}
}

// RunSchedule executes one schedule inside the current synctest bubble.
func RunSchedule(sc *Schedule, w *bufio.Writer, wd *vhook.Watchdog, reached map[string]int) {
	r := &runner{w: w, wd: wd, s: vhook.New(), calls: map[int]*call{}, sid: sc.ID, minIdle: time.Duration(sc.MinIdle) * Unit}
	// labels starting with "X" are sentinels (anchors.json): yield points that exist only because the code's shape deviates
	// from the model's; labels starting with "W" are window yield points (always placed: a call has just returned and only
	// thread-local work follows until the next model step). SCHED_XPARK=0 (comparison run) makes both transparent: the run is
	// compared with the model at the model's own granularity, and every W passage is written down ("Y" lines).
	// SCHED_XPARK=w (exhibit run): W labels park until the schedule's "resume" item (asynchronous items in between) or are
	// resumed at once when the schedule does not deal with them; X labels stay transparent (the run stays in step with the model).
	// SCHED_XPARK=1: X labels, and the windows of ADDITIONAL mutex acquisitions (W<func>#<n>), park like every other label
	// (a second thread-step where the model has one: the other threads' ordinary steps are scheduled in between).
	r.exhibit = os.Getenv("SCHED_XPARK") != "0"
	r.xpark = r.exhibit && os.Getenv("SCHED_XPARK") != "w"
	r.acq = map[int]*acqState{}
	step := func(label string) {
		if strings.HasPrefix(label, "A:") {
			// a mutex acquisition found by text: part of the model step the thread is in, or an additional one (a window)
			if AcqTable == nil || r.epi {
				return
			}
			id, ok := r.s.Who()
			if !ok {
				return
			}
			if label = r.classify(id, label); label == "" {
				return
			}
		} else if !isWindow(label) && !isSentinel(label) {
			// a model label: the acquisitions that follow belong to this step
			if id, ok := r.s.Who(); ok {
				r.pmu.Lock()
				r.acq[id] = &acqState{cur: label}
				r.pmu.Unlock()
			}
		}
		if isWindow(label) && !r.exhibit {
			r.s.Count(label)
			if id, ok := r.s.Who(); ok && !r.epi {
				r.pmu.Lock()
				r.passed = append(r.passed, passage{id, label})
				r.pmu.Unlock()
			}
			return
		}
		if isSentinel(label) && !r.xpark {
			return
		}
		r.s.Step(label)
	}
	lock.VerifStep = step
	semaphore.VerifStep = step
	defer func() {
		lock.VerifStep = nil
		semaphore.VerifStep = nil
	}()
	if sc.Shards < 1 {
		sc.Shards = 1
	}
	fmt.Fprintf(w, "S %s\nC %d\nH %d\n", sc.ID, sc.MinIdle, sc.Shards)
	// the manager's own GC ticker never fires (passes are schedule items)
	r.m, r.closer = lock.NewManager(uint32(sc.Shards), 1000000*time.Hour, r.minIdle)
	r.wait("new manager")

	// items are numbered as they are executed (the harness may add "gcrun" items of its own, see below)
	k := 0
	for i, it := range sc.Items {
		r.idx = k
		fmt.Fprintf(w, "I %d %s\n", k, it.Raw)
		w.Flush()
		r.doItem(it)
		r.wait("item " + it.Raw)
		if r.exhibit {
			r.autoResume(sc.Items, i)
		} else {
			r.flushPassed(k)
		}
		k++
		if i+1 < len(sc.Items) && sc.Items[i+1].forced() {
			continue
		}
		r.observe(k - 1)
		if r.crashed {
			break
		}
	}
	// a GC pass that is still parked (the code's pass has more lock sections than the model's): further "gcrun" items until it ends
	for n := 0; n < 256 && !r.crashed && r.gcParked(); n++ {
		r.idx = k
		fmt.Fprintf(w, "I %d gcrun\n", k)
		r.note(k, "drain: a GC pass was still parked at the end of the schedule")
		w.Flush()
		r.gcAdvance()
		r.wait("drain gcrun")
		k++
		r.observe(k - 1)
	}
	// shape sentinels / additional acquisitions parking (SCHED_XPARK=1): the threads need more `run` items than the model's
	// schedule has. Further items, round robin over the parked threads, until every call returned or is blocked.
	if r.xpark {
		for n := 0; n < 400 && !r.crashed; n++ {
			moved := false
			for _, in := range r.s.Snapshot() {
				if in.State != vhook.Parked || r.crashed {
					continue
				}
				moved = true
				r.idx = k
				kind := "run"
				if in.ID >= GcTid0 {
					fmt.Fprintf(w, "I %d gcrun\n", k)
					kind = "gcrun"
				} else {
					fmt.Fprintf(w, "I %d run %d\n", k, in.ID)
				}
				w.Flush()
				r.s.Release(in.ID)
				r.wait("drain " + kind)
				k++
				r.observe(k - 1)
			}
			if !moved {
				break
			}
		}
	}
	r.idx = k
	if !r.crashed {
		r.epilogue()
	}
	r.teardown()
	for k, v := range r.s.Reached() {
		reached[k] += v
	}
	fmt.Fprintln(w, "Z")
	w.Flush()
}

// ---------------------------------------------------------------------------------------------- epilogue

func (r *runner) ev() int { k := r.idx; r.idx++; return k }

// late reports the calls that returned since the last report.
func (r *runner) late() {
	for _, id := range r.gcs {
		if in, _ := r.s.Get(id); in.State == vhook.Panicked && !r.crashed {
			r.crashed = true
			fmt.Fprintf(r.w, "E %d panic %d %s\n", r.ev(), id, hx(in.Panic))
		}
	}
	for _, tid := range r.order {
		c := r.calls[tid]
		in, _ := r.s.Get(tid)
		if in.State == vhook.Panicked && !r.crashed {
			r.crashed = true
			fmt.Fprintf(r.w, "E %d panic %d %s\n", r.ev(), tid, hx(in.Panic))
		}
		if c.done && !c.seen {
			c.seen = true
			fmt.Fprintf(r.w, "E %d late %d %d %s\n", r.ev(), tid, b2i(c.ok), errTok(c.err))
		}
	}
}

func (r *runner) ecall(op, name, key string, size int32, tag string) bool {
	var ok bool
	var err error
	if r.crashed {
		return false
	}
	k := r.ev()
	r.beat("epilogue " + tag)
	switch op {
	case "try":
		ok, err = r.m.TryLock(name, key, size)
	case "unl":
		ok, err = r.m.Unlock(name, key)
	}
	fmt.Fprintf(r.w, "E %d call %s %s %s %d %d %s %s\n", k, op, hx(name), hx(key), size, b2i(ok), errTok(err), tag)
	r.w.Flush()
	r.wait("epilogue " + tag)
	r.late()
	return ok
}

type hold struct{ name, key string }

func (r *runner) epilogue() {
	fmt.Fprintf(r.w, "E %d begin\n", r.ev())
	r.w.Flush()
	r.epi = true
	r.s.FreeRun()
	r.wait("free run")
	r.late()
	if r.crashed {
		return
	}
	if r.shut {
		r.emitTable(fmt.Sprintf("E %d tab", r.ev()))
		return
	}
	// (a) a refused / failed acquisition holds nothing: its key does not unlock
	acqKeys := map[hold]int{}
	for _, tid := range r.order {
		c := r.calls[tid]
		if c.op != "unl" {
			acqKeys[hold{c.name, c.key}]++
		}
	}
	for _, tid := range r.order {
		c := r.calls[tid]
		if c.op != "unl" && c.done && !c.ok && acqKeys[hold{c.name, c.key}] == 1 {
			r.ecall("unl", c.name, c.key, 1, "refused-key")
		}
	}
	// (b) probe: TryLock until refused, then give the probe keys back. Every mapped object, and every name on which a call of
	// the schedule was granted a hold that is still live (the object may have disappeared from the table under it).
	probe := r.table()
	for _, tid := range r.order {
		c := r.calls[tid]
		if c.op == "unl" || !c.done || !c.ok {
			continue
		}
		gone := true
		for _, l := range probe {
			if l.Name == c.name {
				gone = false
			}
		}
		for _, t2 := range r.order {
			if u := r.calls[t2]; u.op == "unl" && u.done && u.ok && u.name == c.name && u.key == c.key {
				gone = false
			}
		}
		if gone {
			probe = append(probe, lock.VerifLock{Name: c.name, Size: c.size})
		}
	}
	for _, l := range probe {
		var got []string
		for i := 0; i <= int(l.Size)+1; i++ {
			key := fmt.Sprintf("probe-%d", r.nprobe)
			r.nprobe++
			if !r.ecall("try", l.Name, key, l.Size, "probe") {
				break
			}
			got = append(got, key)
		}
		fmt.Fprintf(r.w, "E %d probe %s %d %d %d\n", r.ev(), hx(l.Name), l.Size, len(l.Keys), len(got))
		for _, k := range got {
			r.ecall("unl", l.Name, k, 1, "unprobe")
		}
	}
	// (c) every granted key that no call of the schedule unlocked unlocks exactly once; waiters are served meanwhile
	unlocked := map[hold]bool{}
	for _, tid := range r.order {
		c := r.calls[tid]
		if c.op == "unl" && c.done && c.ok {
			unlocked[hold{c.name, c.key}] = true
		}
	}
	var released []hold
	for round := 0; round < 16; round++ {
		progress := false
		for _, tid := range r.order {
			c := r.calls[tid]
			h := hold{c.name, c.key}
			if c.op != "unl" && c.done && c.ok && !unlocked[h] {
				unlocked[h] = true
				released = append(released, h)
				r.ecall("unl", c.name, c.key, 1, "release")
				progress = true
			}
		}
		if !progress {
			break
		}
	}
	for h := range unlocked {
		found := false
		for _, x := range released {
			if x == h {
				found = true
			}
		}
		if !found {
			released = append(released, h)
		}
	}
	sort.Slice(released, func(i, j int) bool {
		if released[i].name != released[j].name {
			return released[i].name < released[j].name
		}
		return released[i].key < released[j].key
	})
	for _, h := range released {
		r.ecall("unl", h.name, h.key, 1, "second-unlock")
	}
	// (d) whoever is still blocked now lost a wake-up
	for _, in := range r.s.Snapshot() {
		if in.State == vhook.Running {
			fmt.Fprintf(r.w, "E %d stuck %d\n", r.ev(), in.ID)
		}
	}
	r.emitTable(fmt.Sprintf("E %d tab", r.ev()))
	// (e) final probe: the whole capacity of every remaining object is free
	for _, l := range r.table() {
		var got []string
		for i := 0; i <= int(l.Size)+1; i++ {
			key := fmt.Sprintf("probe-%d", r.nprobe)
			r.nprobe++
			if !r.ecall("try", l.Name, key, l.Size, "final") {
				break
			}
			got = append(got, key)
		}
		fmt.Fprintf(r.w, "E %d final %s %d %d %d\n", r.ev(), hx(l.Name), l.Size, len(l.Keys), len(got))
		for _, k := range got {
			r.ecall("unl", l.Name, k, 1, "unfinal")
		}
	}
	r.w.Flush()
}

// teardown makes every goroutine of the bubble exit.
func (r *runner) teardown() {
	r.s.FreeRun()
	for _, c := range r.calls {
		c.cancel(context.Canceled)
	}
	r.wait("teardown cancel")
	if !r.shut {
		r.shut = true
		cl := r.closer
		go cl()
		r.wait("teardown close")
	}
}
