#!/usr/bin/env python3
"""Sensitivity run of the T2 sched-diff tie (layer 1): re-introduces known races into a SCRATCH worktree of /repo, one at a
time, and reports what `python3 -m lib.schedtie` says about each (violation with a replay of a real trace / correspondence
mismatch). Nothing here is needed by the checks; the scratch lives under /tmp/t2lk and is removed afterwards.

    python3 harness/sched/sensitivity.py [--tier quick] [--only i,ii,iii,iv] [--keep]
"""
import argparse
import os
import shutil
import subprocess
import sys
from pathlib import Path

VERIF = Path(__file__).resolve().parent.parent.parent
REPO = Path(os.environ.get("VERIF_REPO_BASE", "/repo"))
SCRATCH = Path("/tmp/t2lk")
WT = SCRATCH / "wt"
XSYNC = SCRATCH / "xsync"


def edit(path, old, new):
    s = path.read_text()
    if old not in s:
        raise SystemExit("mutant does not apply: %r not in %s" % (old[:60], path))
    path.write_text(s.replace(old, new, 1))


def m_gc_users():
    edit(WT / "lock/manager.go", "len(v.keys) == 0 && v.users.Load() == 0 && ", "len(v.keys) == 0 && ")


def m_release_outside():
    edit(WT / "lock/lock.go",
         "\tl.keyMtx.Lock()\n\tdefer l.keyMtx.Unlock()\n\n\tvar err error\n\tremoved := l.removeKey(key)\n",
         "\tl.keyMtx.Lock()\n\tremoved := l.removeKey(key)\n\tl.keyMtx.Unlock()\n\n\tvar err error\n")


def m_addkey_first():
    edit(WT / "lock/lock.go",
         "\t\tif l.sw.TryAcquire(1) {\n\t\t\tl.addKey(key)\n\t\t\treturn true, nil\n\t\t}\n\t\treturn false, nil\n",
         "\t\tl.addKey(key)\n\t\tif l.sw.TryAcquire(1) {\n\t\t\treturn true, nil\n\t\t}\n\t\tl.keyMtx.Lock()\n\t\tl.removeKey(key)\n\t\tl.keyMtx.Unlock()\n\t\treturn false, nil\n")


def m_no_notify_on_cancel():
    src = Path.home() / "go/pkg/mod/golang.org/x/sync@v0.19.0"
    shutil.rmtree(XSYNC, ignore_errors=True)
    shutil.copytree(src, XSYNC)
    subprocess.run(["chmod", "-R", "u+w", str(XSYNC)], timeout=60)
    edit(XSYNC / "semaphore/semaphore.go", "\t\t\ts.cur -= n\n\t\t\ts.notifyWaiters()\n", "\t\t\ts.cur -= n\n")
    with open(WT / "go.mod", "a") as fh:
        fh.write("\nreplace golang.org/x/sync => %s\n" % XSYNC)


MUTANTS = [
    ("i", "lockGc no longer checks users == 0 (F-GC re-introduced)", m_gc_users),
    ("ii", "l.sw.Release(1) moved out of the keyMtx section (F-LIN1 re-introduced)", m_release_outside),
    ("iii", "TryLock: addKey before TryAcquire", m_addkey_first),
    ("iv", "semaphore cancel path: handed unit given back without notifyWaiters", m_no_notify_on_cancel),
]


def main():
    ap = argparse.ArgumentParser()
    ap.add_argument("--tier", default="quick")
    ap.add_argument("--only", default=None)
    ap.add_argument("--keep", action="store_true")
    a = ap.parse_args()
    only = a.only.split(",") if a.only else None
    SCRATCH.mkdir(parents=True, exist_ok=True)
    subprocess.run(["git", "-C", str(REPO), "worktree", "remove", "--force", str(WT)], stdout=subprocess.DEVNULL, stderr=subprocess.DEVNULL, timeout=60)
    r = subprocess.run(["git", "-C", str(REPO), "worktree", "add", "--detach", str(WT), "HEAD"], capture_output=True, text=True, timeout=120)
    if r.returncode != 0:
        print(r.stdout, r.stderr)
        return 2
    try:
        for mid, what, fn in MUTANTS:
            if only and mid not in only:
                continue
            subprocess.run(["git", "-C", str(WT), "checkout", "-q", "."], timeout=60)
            fn()
            env = dict(os.environ, VERIF_REPO=str(WT))
            try:
                p = subprocess.run([sys.executable, "-m", "lib.schedtie", "--tier", a.tier, "--name", "T2LKSENS"], cwd=VERIF, env=env,
                                   capture_output=True, text=True, timeout=1800)
                out = p.stdout
            except subprocess.TimeoutExpired:
                out = "[timeout]"
            print("=" * 100)
            print("mutant (%s): %s" % (mid, what))
            for line in out.splitlines():
                if line.startswith(("C0", "C1", "VIOLATION", "   ", "KNOWN", "total")):
                    print("  " + line[:420])
    finally:
        if not a.keep:
            subprocess.run(["git", "-C", str(REPO), "worktree", "remove", "--force", str(WT)], stdout=subprocess.DEVNULL, stderr=subprocess.DEVNULL, timeout=60)
            shutil.rmtree(SCRATCH, ignore_errors=True)
            shutil.rmtree(VERIF / "replays" / "T2LKSENS", ignore_errors=True)
            shutil.rmtree(VERIF / ".work" / "T2LKSENS", ignore_errors=True)
    return 0


if __name__ == "__main__":
    sys.exit(main())
