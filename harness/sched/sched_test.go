package sched

import (
	"bufio"
	"encoding/json"
	"fmt"
	"io"
	"log/slog"
	"os"
	"path/filepath"
	"strconv"
	"testing"
	"testing/synctest"
	"time"

	"ldlmverif/vhook"
)

// Environment:
//
//	SCHED_IN           schedules file (`lkdriver gen` output, or corpus schedules in the same format)
//	SCHED_OUT          directory for observed.txt, progress.txt (S <sid> / D <sid> / H <info>), reached.json, stacks.txt
//	SCHED_SKIP         number of schedules of SCHED_IN to skip (the parent restarts after a crashed / hung schedule)
//	SCHED_WATCHDOG_MS  wall-clock budget of one synctest.Wait / one epilogue call (default 2000)
//	SCHED_XPARK        0 comparison run | w exhibit run | 1 shape sentinels and additional-acquisition windows park (exec.go)
//	SCHED_ACQ_TABLE    json file: model label -> mutex acquisition sites that belong to that step (anchors.json "acquisitions")
func TestSched(t *testing.T) {
	slog.SetDefault(slog.New(slog.NewTextHandler(io.Discard, nil)))
	out := os.Getenv("SCHED_OUT")
	in := os.Getenv("SCHED_IN")
	if out == "" || in == "" {
		t.Skip("SCHED_IN / SCHED_OUT not set")
	}
	os.MkdirAll(out, 0o755)
	LoadAcqTable(os.Getenv("SCHED_ACQ_TABLE"))
	f, err := os.Open(in)
	if err != nil {
		t.Fatal(err)
	}
	sc := bufio.NewScanner(f)
	sc.Buffer(make([]byte, 1<<20), 1<<26)
	scheds := ParseSchedules(sc)
	f.Close()
	skip, _ := strconv.Atoi(os.Getenv("SCHED_SKIP"))
	wdms, _ := strconv.Atoi(os.Getenv("SCHED_WATCHDOG_MS"))
	if wdms <= 0 {
		wdms = 2000
	}
	of, _ := os.OpenFile(filepath.Join(out, "observed.txt"), os.O_CREATE|os.O_WRONLY|os.O_APPEND, 0o644)
	pf, _ := os.OpenFile(filepath.Join(out, "progress.txt"), os.O_CREATE|os.O_WRONLY|os.O_APPEND, 0o644)
	defer of.Close()
	defer pf.Close()
	w := bufio.NewWriter(of)
	wd := vhook.StartWatchdog(time.Duration(wdms)*time.Millisecond, vhook.ExitOnHang(pf, filepath.Join(out, "stacks.txt")))
	defer wd.Stop()
	reached := map[string]int{}
	for i, s := range scheds {
		if i < skip {
			continue
		}
		fmt.Fprintf(pf, "S %s\n", s.ID)
		wd.Arm()
		synctest.Test(t, func(t *testing.T) {
			RunSchedule(s, w, wd, reached)
		})
		wd.Disarm()
		w.Flush()
		fmt.Fprintf(pf, "D %s\n", s.ID)
		rb, _ := json.Marshal(reached)
		os.WriteFile(filepath.Join(out, "reached.json"), rb, 0o644)
	}
}
