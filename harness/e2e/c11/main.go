// Command c11: the process-level tie (T4-binary) of property C11 (graceful shutdown).
//
// It builds nothing. checks/c11.py builds the REAL server binary (go build ./cmd/server) and the admin tool
// (./cmd/lock) from the tree under test and hands them to this driver together with a list of scenarios. Each
// scenario starts the binary as a child process on free 127.0.0.1 ports (state file, IPC socket in the scenario's
// own directory), puts clients into a situation (idle, holding, blocked in Lock, REST session holding, requests in
// flight), sends SIGINT/SIGTERM and observes
//
//	exit status, time from signal to exit, stdout/stderr (panic / fatal error / goroutine dumps),
//	the outcome of every call that was blocked or in flight at the signal,
//	the state file after exit, decoded with the tree's own store (server/session/store),
//	the next start of the binary on the same state file and the same ports: admin listing (net/rpc IPC client and
//	the ldlm-lock binary), TryLock on a restored hold (must be refused), Unlock with the original key (must succeed),
//	and the second shutdown.
//
// Output: one JSON object per scenario on stdout: everything observed plus one verdict per clause of the property.
// checks/c11.py re-evaluates the clauses from the observations; this program never decides the check's result.
//
// Children never outlive the driver: they stay in the driver's process group (which checks/c11.py kills as a
// whole), every scenario has a watchdog, and the driver kills all live children when it is told to stop.
package main

import (
	"bytes"
	"context"
	"encoding/json"
	"errors"
	"flag"
	"fmt"
	"io"
	gonet "net"
	"net/http"
	"net/http/cookiejar"
	"net/rpc"
	"net/url"
	"os"
	"os/exec"
	"os/signal"
	"path/filepath"
	"regexp"
	"sort"
	"strings"
	"sync"
	"sync/atomic"
	"syscall"
	"time"

	"google.golang.org/grpc"
	"google.golang.org/grpc/connectivity"
	"google.golang.org/grpc/credentials/insecure"

	pb "github.com/imoore76/ldlm/protos"
	cl "github.com/imoore76/ldlm/server/clientlock"
	"github.com/imoore76/ldlm/server/ipc"
	"github.com/imoore76/ldlm/server/session/store"
)

// ------------------------------------------------------------------------------------------------ scenario / result

type Scenario struct {
	ID           string  `json:"id"`
	Signal       string  `json:"signal"`     // INT | TERM
	StateFile    bool    `json:"state_file"` // --state_file on/off
	Rest         bool    `json:"rest"`       // --rest_listen_address on/off
	NoClear      bool    `json:"no_clear"`   // --no_clear_on_disconnect
	Ipc          bool    `json:"ipc"`        // --ipc_socket_file <dir>/ipc.sock or ""
	Client       string  `json:"client"`     // none idle holds blocked blocked_wt rest_hold mixed inflight
	NLocks       int     `json:"nlocks"`     // holds taken by the holding client(s)
	LockTimeouts []int32 `json:"lock_timeouts"`
	UnlockBefore int     `json:"unlock_before"` // how many of the holds are unlocked (acknowledged) before the signal
	Waiters      int     `json:"waiters"`       // blocked Lock calls
	WaitTimeout  int32   `json:"wait_timeout"`  // of the blocked calls, 0 = none
	Workers      int     `json:"workers"`       // inflight: gRPC request loops
	// further signals sent while the shutdown that the first one started is in progress (an impatient operator, a
	// supervisor that keeps signalling): each AfterUs microseconds after the FIRST signal. They must be absorbed.
	ExtraSignals []ExtraSignal `json:"extra_signals,omitempty"`
	Conns        int           `json:"conns,omitempty"` // many_idle: idle gRPC connections (the network stop takes measurable time)
	// grpc_stalled: what the raw connection to the gRPC port has sent: nothing | preface | half-preface
	Variant string `json:"variant,omitempty"`
	Preload int    `json:"preload"`  // holds of an earlier run: written to the state file with the tree's own store before the first start
	DelayUs int    `json:"delay_us"` // between "situation reached" and the signal
	LimitMs int    `json:"limit_ms"` // bound on signal -> exit (default 5000)
	// pause after the listeners are up: main() installs its signal handler only after net.Run has logged that the
	// servers are started, so a signal sent right then would meet the default disposition (default 30)
	SettleMs int `json:"settle_ms"`
}

type ExtraSignal struct {
	Signal  string `json:"signal"` // INT | TERM | QUIT
	AfterUs int    `json:"after_us"`
}

// ExtraSent: what became of one further signal
type ExtraSent struct {
	Signal    string `json:"signal"`
	AfterUs   int    `json:"after_us"`
	SentUs    int64  `json:"sent_us"`    // actual offset from the first signal
	WhileLive bool   `json:"while_live"` // the process had not exited yet when it was sent
}

type Hold struct {
	Name        string `json:"name"`
	Key         string `json:"key"`
	Size        int32  `json:"size"`
	LockTimeout int32  `json:"lock_timeout"`
	Via         string `json:"via"` // grpc-trylock grpc-lock rest
	// times in microseconds relative to the signal (negative = before); nil = did not happen
	AckedUs       int64  `json:"acked_us"`
	UnlockSentUs  *int64 `json:"unlock_sent_us,omitempty"`
	UnlockAckedUs *int64 `json:"unlock_acked_us,omitempty"`
	Unlocked      bool   `json:"unlocked"` // the Unlock was answered unlocked=true
}

type Blocked struct {
	Name         string  `json:"name"`
	WaitTimeout  int32   `json:"wait_timeout"`
	ParkedSeen   bool    `json:"parked_seen"` // the server logged the Lock request before the signal
	Returned     bool    `json:"returned"`
	ReturnedMs   float64 `json:"returned_ms_after_signal"`
	Locked       bool    `json:"locked"`
	Key          string  `json:"key,omitempty"`
	ErrCode      string  `json:"err_code,omitempty"`      // pb.Error code of the response
	ErrMessage   string  `json:"err_message,omitempty"`   // pb.Error message of the response
	TransportErr string  `json:"transport_err,omitempty"` // gRPC status of the call
}

// Stalled is a raw TCP connection that is open at the signal with a request the server cannot finish serving (or with
// none at all): a slow or stalled client. It must not keep the server from exiting.
type Stalled struct {
	Kind         string  `json:"kind"` // rest_body rest_headers rest_idle grpc_nothing grpc_preface
	Sent         string  `json:"sent"` // what the client had written when it stalled
	OpenAtSignal bool    `json:"open_at_signal"`
	Closed       bool    `json:"closed_by_server"` // EOF / reset seen by the client
	ClosedMs     float64 `json:"closed_ms_after_signal"`
	Received     string  `json:"received_after_stall,omitempty"`
	Hold         bool    `json:"answered_with_hold"` // the bytes received contain "locked":true
}

type stalledConn struct {
	obs      *Stalled
	c        gonet.Conn
	mu       sync.Mutex
	buf      bytes.Buffer
	closedAt time.Time
	done     chan struct{}
}

// openStalled dials addr, writes what, and keeps reading until the server closes the connection.
func openStalled(kind, addr, what string) (*stalledConn, error) {
	c, err := gonet.DialTimeout("tcp", addr, 2*time.Second)
	if err != nil {
		return nil, err
	}
	if what != "" {
		if _, err := io.WriteString(c, what); err != nil {
			c.Close()
			return nil, err
		}
	}
	shown := what
	if len(shown) > 220 {
		shown = shown[:220] + "..."
	}
	sc := &stalledConn{obs: &Stalled{Kind: kind, Sent: shown}, c: c, done: make(chan struct{})}
	go func() {
		defer close(sc.done)
		b := make([]byte, 4096)
		for {
			n, err := c.Read(b)
			sc.mu.Lock()
			if n > 0 && sc.buf.Len() < 1<<16 {
				sc.buf.Write(b[:n])
			}
			if err != nil {
				sc.closedAt = time.Now()
				sc.mu.Unlock()
				return
			}
			sc.mu.Unlock()
		}
	}()
	return sc, nil
}

// mark: everything received so far belongs to the time before the stall (the answer to a completed request)
func (sc *stalledConn) mark() {
	sc.mu.Lock()
	sc.buf.Reset()
	sc.mu.Unlock()
}

func (sc *stalledConn) isClosed() bool {
	select {
	case <-sc.done:
		return true
	default:
		return false
	}
}

func (sc *stalledConn) finish(signalAt time.Time, wait time.Duration) Stalled {
	select {
	case <-sc.done:
	case <-time.After(wait):
	}
	sc.mu.Lock()
	defer sc.mu.Unlock()
	o := *sc.obs
	if !sc.closedAt.IsZero() {
		o.Closed = true
		o.ClosedMs = float64(sc.closedAt.Sub(signalAt).Microseconds()) / 1000
	}
	r := sc.buf.String()
	o.Hold = strings.Contains(strings.ReplaceAll(r, " ", ""), `"locked":true`)
	if len(r) > 300 {
		r = r[:300] + "..."
	}
	o.Received = r
	sc.c.Close()
	return o
}

type ProcObs struct {
	Started    bool        `json:"started"`
	StartErr   string      `json:"start_err,omitempty"`
	Attempts   int         `json:"attempts"`
	Args       []string    `json:"args,omitempty"`
	SignalSent string      `json:"signal_sent,omitempty"`
	Exited     bool        `json:"exited"`
	ExitCode   int         `json:"exit_code"`
	KilledBy   string      `json:"killed_by,omitempty"` // the process died of a signal
	ExitMs     float64     `json:"exit_ms"`             // signal -> exit
	Hung       bool        `json:"hung"`                // still running at the watchdog; aborted by the driver
	HangDump   string      `json:"hang_dump,omitempty"` // goroutine dump obtained with SIGABRT after the hang
	DiedEarly  bool        `json:"died_early"`          // exited before the signal was sent
	Bad        []string    `json:"bad_output,omitempty"`
	OutputTail string      `json:"output_tail,omitempty"`
	SocketLeft bool        `json:"ipc_socket_left"`
	Extra      []ExtraSent `json:"extra_signals_sent,omitempty"`
	// died of the very signal that was sent and never logged that it is shutting down: the signal may have arrived
	// before main() had installed its handler (checks/c11.py repeats such a scenario with a long settle pause)
	HandlerRaceSuspect bool `json:"handler_race_suspect,omitempty"`
	PortsChanged       bool `json:"ports_changed,omitempty"`
	// "address already in use": every attempt to start lost its port to another process, or the output of the run
	// shows a bind error. Such a run is not an observation about the server (checks/c11.py: not judged).
	BindFailure bool `json:"bind_failure,omitempty"`
}

type FileEntry struct {
	Session string `json:"session"`
	Name    string `json:"name"`
	Key     string `json:"key"`
	Size    int32  `json:"size"`
}

type FileObs struct {
	Checked bool        `json:"checked"`
	Exists  bool        `json:"exists"`
	Bytes   int64       `json:"bytes"`
	Decoded bool        `json:"decoded"`
	Err     string      `json:"err,omitempty"`
	Entries []FileEntry `json:"entries"`
	Total   int         `json:"entries_total"`
	TmpLeft bool        `json:"tmp_left"`
}

type Probe struct {
	Name          string `json:"name"`
	Key           string `json:"key"`
	TryLockLocked *bool  `json:"trylock_locked"` // nil: not asked (the name still has free capacity) or no answer
	TryLockErr    string `json:"trylock_err,omitempty"`
	Unlocked      *bool  `json:"unlocked"`
	UnlockErr     string `json:"unlock_err,omitempty"`
}

type RestartObs struct {
	Attempted  bool     `json:"attempted"`
	Proc       ProcObs  `json:"proc"`
	IpcListing []string `json:"ipc_listing"`
	// the next start refused to run because the first run's IPC socket file was still there (its error text)
	SocketBlocked string   `json:"socket_blocked,omitempty"`
	IpcTotal      int      `json:"ipc_listing_total"`
	BinTotal      int      `json:"lockbin_listing_total"`
	IpcErr        string   `json:"ipc_err,omitempty"`
	BinListing    []string `json:"lockbin_listing,omitempty"`
	BinErr        string   `json:"lockbin_err,omitempty"`
	Probes        []Probe  `json:"probes"`
}

type InflightObs struct {
	Requests        int     `json:"requests"`
	Answered        int     `json:"answered"`
	TransportErrors int     `json:"transport_errors"`
	AnsweredAfter   int     `json:"answered_after_signal"`
	InFlightAtSig   int     `json:"in_flight_at_signal"`
	LoopsReturned   bool    `json:"loops_returned"`
	LastReturnMs    float64 `json:"last_return_ms_after_signal"`
	Grants          int     `json:"grants"`
	Unlocks         int     `json:"unlocks"`
}

type Result struct {
	Scenario   Scenario     `json:"scenario"`
	HarnessErr string       `json:"harness_err,omitempty"` // the driver itself failed (not an observation)
	SetupErr   string       `json:"setup_err,omitempty"`   // the situation could not be reached
	Run1       ProcObs      `json:"run1"`
	Holds      []Hold       `json:"holds"`
	Blocked    []Blocked    `json:"blocked"`
	Stalled    []Stalled    `json:"stalled"`
	Inflight   *InflightObs `json:"inflight,omitempty"`
	MustKeys   []string     `json:"must_keys"` // name/key acknowledged, live, no Unlock sent
	// holds of the earlier run (scenario.preload): only counts and the first few are written out
	Preloaded        int               `json:"preloaded"`
	PreloadNotInFile int               `json:"preloaded_missing_in_file"`
	PreloadNotListed int               `json:"preloaded_missing_in_listing"`
	MustNot          []string          `json:"must_not_keys"` // name/key whose Unlock was acknowledged
	File             FileObs           `json:"file"`
	Restart          RestartObs        `json:"restart"`
	Verdicts         map[string]string `json:"verdicts"` // clause -> pass | n/a | fail: ...
	WallMs           float64           `json:"wall_ms"`
}

// ------------------------------------------------------------------------------------------------------ processes

type syncBuf struct {
	mu sync.Mutex
	b  bytes.Buffer
}

func (s *syncBuf) Write(p []byte) (int, error) {
	s.mu.Lock()
	defer s.mu.Unlock()
	return s.b.Write(p)
}

func (s *syncBuf) String() string {
	s.mu.Lock()
	defer s.mu.Unlock()
	return s.b.String()
}

type proc struct {
	cmd    *exec.Cmd
	out    *syncBuf
	done   chan struct{}
	exitAt time.Time
}

var (
	liveMu sync.Mutex
	live   = map[*proc]bool{}
)

func startProc(bin string, args []string, dir string) (*proc, error) {
	p := &proc{out: &syncBuf{}, done: make(chan struct{})}
	p.cmd = exec.Command(bin, args...)
	p.cmd.Dir = dir
	p.cmd.Stdout = p.out
	p.cmd.Stderr = p.out
	p.cmd.Stdin = nil
	p.cmd.WaitDelay = 2 * time.Second
	if err := p.cmd.Start(); err != nil {
		return nil, err
	}
	liveMu.Lock()
	live[p] = true
	liveMu.Unlock()
	go func() {
		_ = p.cmd.Wait()
		p.exitAt = time.Now()
		liveMu.Lock()
		delete(live, p)
		liveMu.Unlock()
		close(p.done)
	}()
	return p, nil
}

func (p *proc) exited() bool {
	select {
	case <-p.done:
		return true
	default:
		return false
	}
}

func (p *proc) kill() {
	if p == nil || p.cmd.Process == nil {
		return
	}
	_ = p.cmd.Process.Kill()
	select {
	case <-p.done:
	case <-time.After(3 * time.Second):
	}
}

func killAll() {
	liveMu.Lock()
	ps := make([]*proc, 0, len(live))
	for p := range live {
		ps = append(ps, p)
	}
	liveMu.Unlock()
	for _, p := range ps {
		_ = p.cmd.Process.Kill()
	}
}

func freeAddr() (string, error) {
	l, err := gonet.Listen("tcp", "127.0.0.1:0")
	if err != nil {
		return "", err
	}
	defer l.Close()
	return l.Addr().String(), nil
}

var badRe = regexp.MustCompile(`(?i)panic|fatal error|goroutine \d+ (gp=\S+ )?(m=\S+ )?(mp=\S+ )?\[|SIGSEGV|SIGQUIT: quit|runtime error|unexpected signal|concurrent map`)

func scanBad(out string) []string {
	var bad []string
	for _, line := range strings.Split(out, "\n") {
		if badRe.MatchString(line) {
			if len(line) > 300 {
				line = line[:300]
			}
			bad = append(bad, line)
			if len(bad) >= 12 {
				break
			}
		}
	}
	return bad
}

func tail(s string, n int) string {
	if len(s) > n {
		return "..." + s[len(s)-n:]
	}
	return s
}

type serverSpec struct {
	bin                       string
	dir                       string
	grpcAddr, restAddr        string
	statePath, sock           string
	noClear                   bool
	fixedPorts                bool
	rest                      bool
	defaultLockTimeoutSeconds int
}

func (s *serverSpec) args() []string {
	a := []string{"--listen_address", s.grpcAddr, "--log_level", "info", "--ipc_socket_file", s.sock,
		"--default_lock_timeout", fmt.Sprintf("%ds", s.defaultLockTimeoutSeconds)}
	if s.rest {
		a = append(a, "--rest_listen_address", s.restAddr)
	}
	if s.statePath != "" {
		a = append(a, "--state_file", s.statePath)
	}
	if s.noClear {
		a = append(a, "--no_clear_on_disconnect")
	}
	return a
}

// startServer starts the binary and waits until it logged that its listeners are up and they accept connections.
// On "address already in use" (another process took the port between probing and binding) it retries, with new
// ports unless the ports are fixed (restart on the ports of the first run: the listeners must have been released).
const bindErr = "address already in use"

// portFree: nobody listens on addr at this moment.
func portFree(addr string) bool {
	l, err := gonet.Listen("tcp", addr)
	if err != nil {
		return false
	}
	l.Close()
	return true
}

func startServer(s *serverSpec, obs *ProcObs, settle time.Duration) *proc {
	// Other checks run on this machine at the same time and find their ports the same way (listen, close, hand the
	// number to a child), so a port can be taken between probing and binding: by a foreign process, at the first
	// start as well as at the restart, on the gRPC as well as on the REST port. The REST listener is bound in a
	// goroutine of the server AFTER "REST server started" has been logged, and a bind error there is a panic of
	// the child. Every such start is repeated on fresh ports (first attempt + 5 retries); it is never an observation.
	wantOld := s.fixedPorts && s.grpcAddr != ""
	for attempt := 1; attempt <= 6; attempt++ {
		obs.Attempts = attempt
		reuse := wantOld && attempt == 1 && portFree(s.grpcAddr) && (!s.rest || portFree(s.restAddr))
		if !reuse {
			if wantOld {
				obs.PortsChanged = true // recorded, not judged: somebody else may have taken them
			}
			g, err := freeAddr()
			if err != nil {
				obs.StartErr = "no free port: " + err.Error()
				return nil
			}
			s.grpcAddr = g
			if s.rest {
				r, err := freeAddr()
				if err != nil {
					obs.StartErr = "no free port: " + err.Error()
					return nil
				}
				s.restAddr = r
			}
		}
		if s.sock != "" && attempt > 1 {
			_ = os.Remove(s.sock) // left behind by the child of the earlier attempt, which the driver killed
		}
		args := s.args()
		obs.Args = args
		// self-test of this retry logic (C11_SELFTEST_STEAL=grpc|rest|restart-grpc|restart-rest|always): the driver itself
		// occupies the port during the first attempt (always: during every attempt), as a foreign process would
		var thief gonet.Listener
		if st := os.Getenv("C11_SELFTEST_STEAL"); st != "" && (attempt == 1 || st == "always") {
			what := strings.TrimPrefix(st, "restart-")
			if st == "always" || (strings.HasPrefix(st, "restart-") == wantOld) {
				if what == "rest" && s.rest {
					thief, _ = gonet.Listen("tcp", s.restAddr)
				} else if what != "rest" {
					thief, _ = gonet.Listen("tcp", s.grpcAddr)
				}
			}
		}
		p, err := startProc(s.bin, args, s.dir)
		if err != nil {
			obs.StartErr = "exec: " + err.Error()
			if thief != nil {
				thief.Close()
			}
			return nil
		}
		if thief != nil {
			defer thief.Close()
		}
		ready := false
		deadline := time.Now().Add(10 * time.Second)
		for time.Now().Before(deadline) {
			if p.exited() {
				break
			}
			out := p.out.String()
			if strings.Contains(out, bindErr) {
				break
			}
			if strings.Contains(out, "gRPC server started. Listening on "+s.grpcAddr) &&
				(!s.rest || strings.Contains(out, "REST server started. Listening on "+s.restAddr)) {
				ok := dialOK(s.grpcAddr) && (!s.rest || dialOK(s.restAddr))
				if ok && !p.exited() {
					ready = true
					break
				}
			}
			time.Sleep(3 * time.Millisecond)
		}
		if ready {
			// main() installs its signal handler after the listeners are announced, and the REST goroutine binds
			// after its announcement: let both happen, then look again
			time.Sleep(settle)
			if !p.exited() && !strings.Contains(p.out.String(), bindErr) {
				obs.Started = true
				obs.StartErr = ""
				obs.Bad = nil
				obs.BindFailure = false
				return p
			}
		}
		out := p.out.String()
		p.kill()
		obs.StartErr = fmt.Sprintf("server did not come up (attempt %d): %s", attempt, tail(out, 1500))
		if strings.Contains(out, bindErr) {
			obs.BindFailure = true
			time.Sleep(time.Duration(20*attempt) * time.Millisecond)
			continue
		}
		obs.BindFailure = false
		obs.Bad = scanBad(out)
		return nil
	}
	return nil
}

func dialOK(addr string) bool {
	c, err := gonet.DialTimeout("tcp", addr, 300*time.Millisecond)
	if err != nil {
		return false
	}
	c.Close()
	return true
}

func sigName(s syscall.Signal) string {
	switch s {
	case syscall.SIGTERM:
		return "TERM"
	case syscall.SIGINT:
		return "INT"
	}
	return s.String()
}

func sigOf(name string) syscall.Signal {
	switch name {
	case "TERM":
		return syscall.SIGTERM
	case "QUIT":
		return syscall.SIGQUIT
	}
	return syscall.SIGINT
}

// stop sends the signal and waits for the exit; a process that is still there after the watchdog is aborted
// (SIGABRT: the Go runtime prints all goroutines) and then killed.
func stop(p *proc, sig string, extras []ExtraSignal, limit time.Duration, obs *ProcObs) (signalAt time.Time) {
	if p.exited() {
		obs.DiedEarly = true
	}
	signalAt = time.Now()
	_ = p.cmd.Process.Signal(sigOf(sig))
	obs.SignalSent = "SIG" + sig
	extraDone := make(chan []ExtraSent, 1)
	go func() {
		var sent []ExtraSent
		for _, e := range extras {
			at := signalAt.Add(time.Duration(e.AfterUs) * time.Microsecond)
			if d := time.Until(at) - 150*time.Microsecond; d > 0 {
				select {
				case <-p.done:
				case <-time.After(d):
				}
			}
			for time.Now().Before(at) && !p.exited() { // the last stretch is spun: timers are too coarse for 200 us
			}
			live := !p.exited()
			if live {
				_ = p.cmd.Process.Signal(sigOf(e.Signal))
			}
			sent = append(sent, ExtraSent{Signal: e.Signal, AfterUs: e.AfterUs, SentUs: time.Since(signalAt).Microseconds(), WhileLive: live})
		}
		extraDone <- sent
	}()
	defer func() { obs.Extra = <-extraDone }()
	watchdog := limit + 3*time.Second
	select {
	case <-p.done:
	case <-time.After(watchdog):
		obs.Hung = true
		before := p.out.String()
		obs.Bad = scanBad(before)
		_ = p.cmd.Process.Signal(syscall.SIGABRT)
		select {
		case <-p.done:
		case <-time.After(3 * time.Second):
			p.kill()
		}
		after := p.out.String()
		if len(after) > len(before) {
			obs.HangDump = condenseDump(after[len(before):])
		}
		obs.OutputTail = tail(before, 1200)
		obs.ExitMs = float64(time.Since(signalAt).Microseconds()) / 1000
		return
	}
	finishObs(p, signalAt, obs)
	return
}

func finishObs(p *proc, signalAt time.Time, obs *ProcObs) {
	obs.Exited = true
	obs.ExitMs = float64(p.exitAt.Sub(signalAt).Microseconds()) / 1000
	st := p.cmd.ProcessState
	if st != nil {
		obs.ExitCode = st.ExitCode()
		if ws, ok := st.Sys().(syscall.WaitStatus); ok && ws.Signaled() {
			obs.KilledBy = ws.Signal().String()
		}
	} else {
		obs.ExitCode = -2
	}
	out := p.out.String()
	obs.Bad = scanBad(out)
	obs.OutputTail = tail(out, 1200)
	if strings.Contains(out, bindErr) {
		obs.BindFailure = true
	}
	if obs.KilledBy != "" && obs.SignalSent != "" && !strings.Contains(out, "Shutting down") {
		if st != nil {
			if ws, ok := st.Sys().(syscall.WaitStatus); ok && ws.Signaled() && "SIG"+sigName(ws.Signal()) == obs.SignalSent {
				obs.HandlerRaceSuspect = true
			}
		}
	}
	if len(obs.Bad) > 0 {
		// keep the head of the crash report, not only the tail of a long goroutine dump
		if i := badRe.FindStringIndex(out); i != nil {
			end := i[0] + 1800
			if end > len(out) {
				end = len(out)
			}
			obs.OutputTail = out[i[0]:end]
		}
	}
}

// condenseDump keeps the goroutines of a SIGABRT dump that are inside ldlm code.
func condenseDump(d string) string {
	var keep []string
	for _, g := range strings.Split(d, "\n\n") {
		if strings.Contains(g, "imoore76/ldlm") || strings.Contains(g, "main.main") || strings.Contains(g, "handleRawConn") {
			lines := strings.Split(g, "\n")
			if len(lines) > 14 {
				lines = lines[:14]
			}
			keep = append(keep, strings.Join(lines, "\n"))
		}
		if len(keep) >= 6 {
			break
		}
	}
	s := strings.Join(keep, "\n\n")
	if s == "" {
		s = tail(d, 1500)
	}
	if len(s) > 5000 {
		s = s[:5000]
	}
	return s
}

// ---------------------------------------------------------------------------------------------------------- clients

const callTimeout = 25 * time.Second

type grpcClient struct {
	conn *grpc.ClientConn
	c    pb.LDLMClient
}

func dialGrpc(addr string) (*grpcClient, error) {
	conn, err := grpc.NewClient(addr, grpc.WithTransportCredentials(insecure.NewCredentials()))
	if err != nil {
		return nil, err
	}
	conn.Connect()
	ctx, cancel := context.WithTimeout(context.Background(), 5*time.Second)
	defer cancel()
	for {
		st := conn.GetState()
		if st == connectivity.Ready {
			break
		}
		if !conn.WaitForStateChange(ctx, st) {
			conn.Close()
			return nil, fmt.Errorf("gRPC connection to %s not ready (%s)", addr, st)
		}
	}
	return &grpcClient{conn: conn, c: pb.NewLDLMClient(conn)}, nil
}

func (g *grpcClient) close() {
	if g != nil && g.conn != nil {
		g.conn.Close()
	}
}

func i32(v int32) *int32 {
	if v == 0 {
		return nil
	}
	return &v
}

func pbErr(e *pb.Error) (string, string) {
	if e == nil {
		return "", ""
	}
	return e.Code.String(), e.Message
}

type restClient struct {
	base string
	h    *http.Client
}

func newRest(addr string) *restClient {
	jar, _ := cookiejar.New(nil)
	return &restClient{base: "http://" + addr, h: &http.Client{Jar: jar, Timeout: 8 * time.Second,
		Transport: &http.Transport{MaxIdleConnsPerHost: 2, IdleConnTimeout: 5 * time.Second}}}
}

func (r *restClient) close() {
	if t, ok := r.h.Transport.(*http.Transport); ok {
		t.CloseIdleConnections()
	}
}

func (r *restClient) post(path string, body any) (int, map[string]any, error) {
	var rd io.Reader
	if body != nil {
		b, _ := json.Marshal(body)
		rd = bytes.NewReader(b)
	}
	req, err := http.NewRequest("POST", r.base+path, rd)
	if err != nil {
		return 0, nil, err
	}
	req.Header.Set("Content-Type", "application/json")
	resp, err := r.h.Do(req)
	if err != nil {
		return 0, nil, err
	}
	defer resp.Body.Close()
	raw, err := io.ReadAll(resp.Body)
	if err != nil {
		return resp.StatusCode, nil, err
	}
	var m map[string]any
	_ = json.Unmarshal(raw, &m)
	return resp.StatusCode, m, nil
}

func (r *restClient) session() error {
	code, _, err := r.post("/session", nil)
	if err != nil {
		return err
	}
	if code != 201 {
		return fmt.Errorf("POST /session: HTTP %d", code)
	}
	return nil
}

// tryLock -> (answered, locked, key, err)
func (r *restClient) tryLock(name string, lt int32) (bool, string, error) {
	body := map[string]any{"name": name}
	if lt > 0 {
		body["lock_timeout_seconds"] = lt
	}
	code, m, err := r.post("/v1/lock", body)
	if err != nil {
		return false, "", err
	}
	if code != 200 {
		return false, "", fmt.Errorf("POST /v1/lock: HTTP %d %v", code, m)
	}
	locked, _ := m["locked"].(bool)
	key, _ := m["key"].(string)
	return locked, key, nil
}

func (r *restClient) unlock(name, key string) (bool, error) {
	code, m, err := r.post("/v1/unlock", map[string]any{"name": name, "key": key})
	if err != nil {
		return false, err
	}
	if code != 200 {
		return false, fmt.Errorf("POST /v1/unlock: HTTP %d %v", code, m)
	}
	u, _ := m["unlocked"].(bool)
	return u, nil
}

func ipcList(sock string) ([]string, error) {
	type res struct {
		l   []string
		err error
	}
	ch := make(chan res, 1)
	go func() {
		c, err := rpc.DialHTTP("unix", sock)
		if err != nil {
			ch <- res{nil, err}
			return
		}
		defer c.Close()
		out := new(ipc.ListLocksResponse)
		err = c.Call("IPC.ListLocks", ipc.ListLocksRequest{}, out)
		ch <- res{[]string(*out), err}
	}()
	select {
	case r := <-ch:
		return r.l, r.err
	case <-time.After(5 * time.Second):
		return nil, errors.New("IPC ListLocks: no answer within 5s")
	}
}

func lockBinList(bin, sock string) ([]string, error) {
	ctx, cancel := context.WithTimeout(context.Background(), 8*time.Second)
	defer cancel()
	cmd := exec.CommandContext(ctx, bin, "-s", sock, "list")
	cmd.WaitDelay = time.Second
	out, err := cmd.CombinedOutput()
	if err != nil {
		return nil, fmt.Errorf("%v: %s", err, tail(string(out), 300))
	}
	var ls []string
	for _, l := range strings.Split(strings.TrimSpace(string(out)), "\n") {
		if l != "" && l != "No locks found" {
			ls = append(ls, l)
		}
	}
	return ls, nil
}

// readState decodes the state file with the tree's own store.
func readState(path string) (fo FileObs) {
	fo.Checked = true
	fo.Entries = []FileEntry{}
	st, err := os.Stat(path)
	if err != nil {
		fo.Err = "stat: " + err.Error()
		return
	}
	fo.Exists = true
	fo.Bytes = st.Size()
	if _, err := os.Stat(path + ".tmp"); err == nil {
		fo.TmpLeft = true
	}
	defer func() {
		if r := recover(); r != nil {
			fo.Err = fmt.Sprintf("store.Read panicked: %v", r)
		}
	}()
	s, err := store.New(path)
	if err != nil {
		fo.Err = "store.New: " + err.Error()
		return
	}
	defer s.Close()
	m, err := s.Read()
	if err != nil {
		fo.Err = "store.Read: " + err.Error()
		return
	}
	fo.Decoded = true
	for sid, ls := range m {
		for _, l := range ls {
			fo.Entries = append(fo.Entries, FileEntry{Session: sid, Name: l.Name(), Key: l.Key(), Size: l.Size()})
		}
	}
	sort.Slice(fo.Entries, func(i, j int) bool {
		if fo.Entries[i].Name != fo.Entries[j].Name {
			return fo.Entries[i].Name < fo.Entries[j].Name
		}
		return fo.Entries[i].Key < fo.Entries[j].Key
	})
	return
}

// preload writes a state file as an earlier run of the server would have left it: n holds of one session.
func preload(path string, n int, book *holdBook) (err error) {
	defer func() {
		if r := recover(); r != nil {
			err = fmt.Errorf("store.Write panicked: %v", r)
		}
	}()
	s, err := store.New(path)
	if err != nil {
		return err
	}
	defer s.Close()
	ls := make([]cl.Lock, 0, n)
	for i := 0; i < n; i++ {
		name, key := fmt.Sprintf("p%d", i), fmt.Sprintf("00000000-0000-4000-8000-%012d", i)
		ls = append(ls, cl.New(name, key, 1))
		book.add(&Hold{Name: name, Key: key, Size: 1, Via: "state-file", AckedUs: book.us()})
	}
	return s.Write(map[string][]cl.Lock{"earlier-run": ls})
}

// ------------------------------------------------------------------------------------------------------- scenario

type env struct {
	serverBin, lockBin, work string
}

type holdBook struct {
	mu    sync.Mutex
	holds []*Hold
	t0    time.Time // provisional origin; rebased onto the signal instant at the end
}

func (b *holdBook) us() int64 { return time.Since(b.t0).Microseconds() }

func (b *holdBook) add(h *Hold) *Hold {
	b.mu.Lock()
	defer b.mu.Unlock()
	b.holds = append(b.holds, h)
	return h
}

// waitLog waits until the server's log has count lines that contain all the needles.
func waitLog(p *proc, needles []string, count int, d time.Duration) bool {
	deadline := time.Now().Add(d)
	for time.Now().Before(deadline) {
		n := 0
		for _, line := range strings.Split(p.out.String(), "\n") {
			all := true
			for _, nd := range needles {
				if !strings.Contains(line, nd) {
					all = false
					break
				}
			}
			if all {
				n++
			}
		}
		if n >= count {
			return true
		}
		if p.exited() {
			return false
		}
		time.Sleep(2 * time.Millisecond)
	}
	return false
}

func runScenario(sc Scenario, e env) (res Result) {
	t0 := time.Now()
	res.Scenario = sc
	res.Verdicts = map[string]string{}
	res.Holds, res.Blocked, res.MustKeys, res.MustNot = []Hold{}, []Blocked{}, []string{}, []string{}
	res.Stalled = []Stalled{}
	var stalled []*stalledConn
	res.Restart.Probes = []Probe{}
	res.File.Entries = []FileEntry{}
	var procs []*proc
	var closers []func()
	defer func() {
		if r := recover(); r != nil {
			res.HarnessErr = fmt.Sprintf("driver panic: %v", r)
		}
		for _, c := range closers {
			c()
		}
		for _, p := range procs {
			if !p.exited() {
				p.kill()
			}
		}
		res.WallMs = float64(time.Since(t0).Microseconds()) / 1000
	}()
	limit := time.Duration(sc.LimitMs) * time.Millisecond
	if limit <= 0 {
		limit = 5 * time.Second
	}
	dir := filepath.Join(e.work, sc.ID)
	_ = os.RemoveAll(dir)
	if err := os.MkdirAll(dir, 0o755); err != nil {
		res.HarnessErr = err.Error()
		return
	}
	spec := &serverSpec{bin: e.serverBin, dir: dir, noClear: sc.NoClear, rest: sc.Rest, defaultLockTimeoutSeconds: 600}
	if sc.StateFile {
		spec.statePath = filepath.Join(dir, "state")
	}
	if sc.Ipc {
		spec.sock = filepath.Join(dir, "ipc.sock")
	}
	book := &holdBook{t0: time.Now()}
	if sc.Preload > 0 && sc.StateFile {
		if err := preload(spec.statePath, sc.Preload, book); err != nil {
			res.HarnessErr = "cannot write the initial state file: " + err.Error()
			return
		}
	}
	settle := time.Duration(sc.SettleMs) * time.Millisecond
	if settle <= 0 {
		settle = 30 * time.Millisecond
	}
	p := startServer(spec, &res.Run1, settle)
	if p == nil {
		return
	}
	procs = append(procs, p)
	var blocked []*Blocked
	var blockedWG sync.WaitGroup
	var bmu sync.Mutex
	setupFail := func(f string, a ...any) {
		if res.SetupErr == "" {
			res.SetupErr = fmt.Sprintf(f, a...)
		}
	}
	lt := func(i int) int32 {
		if i < len(sc.LockTimeouts) {
			return sc.LockTimeouts[i]
		}
		return 0
	}
	newGrpc := func() *grpcClient {
		g, err := dialGrpc(spec.grpcAddr)
		if err != nil {
			setupFail("%v", err)
			return nil
		}
		closers = append(closers, g.close)
		return g
	}
	grpcHold := func(g *grpcClient, name string, ltv int32, useLock bool) *Hold {
		ctx, cancel := context.WithTimeout(context.Background(), callTimeout)
		defer cancel()
		var r *pb.LockResponse
		var err error
		via := "grpc-trylock"
		if useLock {
			via = "grpc-lock"
			r, err = g.c.Lock(ctx, &pb.LockRequest{Name: name, LockTimeoutSeconds: i32(ltv)})
		} else {
			r, err = g.c.TryLock(ctx, &pb.TryLockRequest{Name: name, LockTimeoutSeconds: i32(ltv)})
		}
		if err != nil || r.Error != nil || !r.Locked {
			setupFail("%s %q not granted: %v %v", via, name, err, r.GetError())
			return nil
		}
		return book.add(&Hold{Name: name, Key: r.Key, Size: 1, LockTimeout: ltv, Via: via, AckedUs: book.us()})
	}
	grpcUnlock := func(g *grpcClient, h *Hold) {
		ctx, cancel := context.WithTimeout(context.Background(), callTimeout)
		defer cancel()
		s := book.us()
		r, err := g.c.Unlock(ctx, &pb.UnlockRequest{Name: h.Name, Key: h.Key})
		a := book.us()
		book.mu.Lock()
		h.UnlockSentUs = &s
		if err == nil {
			h.UnlockAckedUs = &a
			h.Unlocked = r.Unlocked && r.Error == nil
		}
		book.mu.Unlock()
		if err != nil || !r.Unlocked {
			setupFail("Unlock %q before the signal failed: %v %v", h.Name, err, r.GetError())
		}
	}
	// a Lock call that must stay blocked: the name is fully held and nobody releases it
	park := func(name string, wt int32, n int) {
		for i := 0; i < n; i++ {
			g := newGrpc()
			if g == nil {
				return
			}
			b := &Blocked{Name: name, WaitTimeout: wt}
			blocked = append(blocked, b)
			blockedWG.Add(1)
			go func() {
				defer blockedWG.Done()
				ctx, cancel := context.WithTimeout(context.Background(), callTimeout)
				defer cancel()
				r, err := g.c.Lock(ctx, &pb.LockRequest{Name: name, WaitTimeoutSeconds: i32(wt), LockTimeoutSeconds: i32(60)})
				now := time.Now()
				bmu.Lock()
				defer bmu.Unlock()
				b.Returned = true
				b.ReturnedMs = float64(now.UnixMicro()) // rebased below
				if err != nil {
					b.TransportErr = err.Error()
					return
				}
				b.Locked = r.Locked
				b.Key = r.Key
				b.ErrCode, b.ErrMessage = pbErr(r.Error)
			}()
		}
		// the server logs "Lock request" before it parks the call
		seen := waitLog(p, []string{`"msg":"Lock request"`, `"lock":"` + name + `"`}, n+countLockHolds(book, name), 3*time.Second)
		if !seen {
			// older / edited trees may log differently: fall back to a pause
			time.Sleep(150 * time.Millisecond)
		}
		bmu.Lock()
		for _, b := range blocked {
			if b.Name == name {
				b.ParkedSeen = seen
			}
		}
		bmu.Unlock()
	}

	var infl *inflightRun
	switch sc.Client {
	case "none":
	case "idle":
		newGrpc()
	case "many_idle":
		// many connected clients: the network stop has many transports to close, the shutdown takes measurable time
		g := newGrpc()
		if g == nil {
			break
		}
		for i := 0; i < sc.NLocks; i++ {
			grpcHold(g, fmt.Sprintf("h%d", i), lt(i), i%2 == 1)
		}
		n := sc.Conns
		if n <= 0 {
			n = 100
		}
		var wg sync.WaitGroup
		var cmu sync.Mutex
		for i := 0; i < n; i++ {
			wg.Add(1)
			go func() {
				defer wg.Done()
				c, err := dialGrpc(spec.grpcAddr)
				cmu.Lock()
				defer cmu.Unlock()
				if err != nil {
					setupFail("%v", err)
					return
				}
				closers = append(closers, c.close)
			}()
		}
		wg.Wait()
	case "holds", "blocked", "blocked_wt", "mixed":
		g := newGrpc()
		if g == nil {
			break
		}
		var hs []*Hold
		for i := 0; i < sc.NLocks; i++ {
			if h := grpcHold(g, fmt.Sprintf("h%d", i), lt(i), i%2 == 1); h != nil {
				hs = append(hs, h)
			}
		}
		// the holds that are given back before the signal are extra ones: the last UnlockBefore of the list
		for i := 0; i < sc.UnlockBefore && i < len(hs); i++ {
			grpcUnlock(g, hs[len(hs)-1-i])
		}
		if sc.Client == "mixed" && sc.Rest {
			r := newRest(spec.restAddr)
			closers = append(closers, r.close)
			if err := r.session(); err != nil {
				setupFail("%v", err)
			} else if locked, key, err := r.tryLock("r0", 45); err != nil || !locked {
				setupFail("REST TryLock r0 not granted: %v", err)
			} else {
				book.add(&Hold{Name: "r0", Key: key, Size: 1, LockTimeout: 45, Via: "rest", AckedUs: book.us()})
			}
		}
		if sc.Client != "holds" && len(hs) > 0 {
			wt := int32(0)
			if sc.Client == "blocked_wt" || (sc.Client == "mixed" && sc.WaitTimeout > 0) {
				wt = sc.WaitTimeout
			}
			n := sc.Waiters
			if n <= 0 {
				n = 1
			}
			park(hs[0].Name, wt, n)
		}
	case "rest_hold":
		if !sc.Rest {
			setupFail("rest_hold needs REST")
			break
		}
		r := newRest(spec.restAddr)
		closers = append(closers, r.close)
		if err := r.session(); err != nil {
			setupFail("%v", err)
			break
		}
		var hs []*Hold
		for i := 0; i < sc.NLocks; i++ {
			name := fmt.Sprintf("r%d", i)
			locked, key, err := r.tryLock(name, lt(i))
			if err != nil || !locked {
				setupFail("REST TryLock %s not granted: %v", name, err)
				continue
			}
			hs = append(hs, book.add(&Hold{Name: name, Key: key, Size: 1, LockTimeout: lt(i), Via: "rest", AckedUs: book.us()}))
		}
		for i := 0; i < sc.UnlockBefore && i < len(hs); i++ {
			h := hs[len(hs)-1-i]
			s := book.us()
			u, err := r.unlock(h.Name, h.Key)
			a := book.us()
			h.UnlockSentUs = &s
			if err == nil {
				h.UnlockAckedUs = &a
				h.Unlocked = u
			}
			if err != nil || !u {
				setupFail("REST Unlock %s failed: %v", h.Name, err)
			}
		}
	case "rest_stalled_body", "rest_stalled_headers", "rest_idle_keepalive":
		if !sc.Rest {
			setupFail("%s needs REST", sc.Client)
			break
		}
		// a REST session that holds a lock; the stalled request belongs to the same session
		r := newRest(spec.restAddr)
		closers = append(closers, r.close)
		if err := r.session(); err != nil {
			setupFail("%v", err)
			break
		}
		for i := 0; i < sc.NLocks; i++ {
			name := fmt.Sprintf("r%d", i)
			locked, key, err := r.tryLock(name, lt(i))
			if err != nil || !locked {
				setupFail("REST TryLock %s not granted: %v", name, err)
				continue
			}
			book.add(&Hold{Name: name, Key: key, Size: 1, LockTimeout: lt(i), Via: "rest", AckedUs: book.us()})
		}
		r.close() // its keep-alive connection is not the one under test
		cookie := ""
		if u, err := url.Parse(r.base); err == nil {
			for _, c := range r.h.Jar.Cookies(u) {
				cookie = c.Name + "=" + c.Value
			}
		}
		if cookie == "" {
			setupFail("no session cookie")
			break
		}
		var st *stalledConn
		var err error
		switch sc.Client {
		case "rest_stalled_body": // headers complete, Content-Length 64, 8 bytes of body, then nothing
			st, err = openStalled("rest_body", spec.restAddr, "POST /v1/lock HTTP/1.1\r\nHost: "+spec.restAddr+"\r\nCookie: "+cookie+
				"\r\nContent-Type: application/json\r\nContent-Length: 64\r\n\r\n{\"name\":")
		case "rest_stalled_headers": // request line and part of the headers, then nothing
			st, err = openStalled("rest_headers", spec.restAddr, "POST /v1/lock HTTP/1.1\r\nHost: "+spec.restAddr+"\r\nCook")
		default: // a completed request on a keep-alive connection that then sits idle
			body := `{"name":"idle-probe"}`
			st, err = openStalled("rest_idle", spec.restAddr, "POST /v1/lock HTTP/1.1\r\nHost: "+spec.restAddr+"\r\nCookie: "+cookie+
				"\r\nContent-Type: application/json\r\nContent-Length: "+fmt.Sprint(len(body))+"\r\n\r\n"+body)
			if err == nil {
				ok := false
				for i := 0; i < 500 && !ok; i++ {
					time.Sleep(4 * time.Millisecond)
					st.mu.Lock()
					got := st.buf.String()
					st.mu.Unlock()
					if i := strings.Index(got, "\r\n\r\n"); i >= 0 && strings.Contains(got[i:], "}") {
						ok = true
						var m struct {
							Locked bool   `json:"locked"`
							Key    string `json:"key"`
						}
						if j := strings.Index(got[i:], "{"); j >= 0 {
							_ = json.Unmarshal([]byte(strings.TrimSpace(got[i+j:])), &m)
						}
						if m.Locked {
							book.add(&Hold{Name: "idle-probe", Key: m.Key, Size: 1, Via: "rest", AckedUs: book.us()})
						} else {
							setupFail("the request on the keep-alive connection was not granted: %s", tail(got, 200))
						}
					}
				}
				if !ok {
					setupFail("no answer on the keep-alive connection")
				}
				st.mark()
			}
		}
		if err != nil {
			setupFail("raw connection to the REST port: %v", err)
			break
		}
		stalled = append(stalled, st)
		time.Sleep(60 * time.Millisecond) // the server has accepted the connection and is reading
	case "grpc_stalled":
		g := newGrpc()
		if g == nil {
			break
		}
		for i := 0; i < sc.NLocks; i++ {
			grpcHold(g, fmt.Sprintf("h%d", i), lt(i), i%2 == 1)
		}
		what := ""
		switch sc.Variant {
		case "preface":
			what = "PRI * HTTP/2.0\r\n\r\nSM\r\n\r\n"
		case "half-preface":
			what = "PRI * HTTP/2.0\r\n"
		}
		kind := "grpc_nothing"
		if what != "" {
			kind = "grpc_" + sc.Variant
		}
		st, err := openStalled(kind, spec.grpcAddr, what)
		if err != nil {
			setupFail("raw connection to the gRPC port: %v", err)
			break
		}
		stalled = append(stalled, st)
		time.Sleep(60 * time.Millisecond)
	case "inflight":
		infl = startInflight(sc, spec, book, setupFail)
		closers = append(closers, infl.closeAll)
	default:
		setupFail("unknown client situation %q", sc.Client)
	}

	if sc.DelayUs > 0 {
		time.Sleep(time.Duration(sc.DelayUs) * time.Microsecond)
	}

	for _, st := range stalled {
		st.obs.OpenAtSignal = !st.isClosed()
		if !st.obs.OpenAtSignal {
			setupFail("the server closed the stalled %s connection before the signal", st.obs.Kind)
		}
	}
	// ---- the signal
	if infl != nil {
		infl.atSignal.Store(infl.inflight.Load())
		infl.signalAt.Store(time.Now().UnixMicro())
	}
	signalAt := stop(p, sc.Signal, sc.ExtraSignals, limit, &res.Run1)
	if spec.sock != "" {
		if _, err := os.Lstat(spec.sock); err == nil {
			res.Run1.SocketLeft = true
		}
	}

	// ---- calls that were blocked / in flight must come back
	waitUntil := signalAt.Add(limit + 4*time.Second)
	doneCh := make(chan struct{})
	go func() { blockedWG.Wait(); close(doneCh) }()
	select {
	case <-doneCh:
	case <-time.After(time.Until(waitUntil)):
	}
	bmu.Lock()
	for _, b := range blocked {
		if b.Returned {
			b.ReturnedMs = (b.ReturnedMs - float64(signalAt.UnixMicro())) / 1000
		}
		res.Blocked = append(res.Blocked, *b)
	}
	bmu.Unlock()
	if infl != nil {
		io := infl.finish(signalAt, waitUntil)
		res.Inflight = &io
	}
	for _, st := range stalled {
		res.Stalled = append(res.Stalled, st.finish(signalAt, time.Until(signalAt.Add(limit+1500*time.Millisecond))))
	}
	for _, c := range closers {
		c()
	}
	closers = nil

	// ---- bookkeeping relative to the signal
	shift := signalAt.Sub(book.t0).Microseconds()
	book.mu.Lock()
	for _, h := range book.holds {
		h.AckedUs -= shift
		if h.UnlockSentUs != nil {
			v := *h.UnlockSentUs - shift
			h.UnlockSentUs = &v
		}
		if h.UnlockAckedUs != nil {
			v := *h.UnlockAckedUs - shift
			h.UnlockAckedUs = &v
		}
		res.Holds = append(res.Holds, *h)
	}
	book.mu.Unlock()
	var must, mustNot []Hold
	for _, h := range res.Holds {
		switch {
		case h.UnlockSentUs == nil:
			must = append(must, h)
			res.MustKeys = append(res.MustKeys, h.Name+"/"+h.Key)
		case h.UnlockAckedUs != nil && h.Unlocked:
			mustNot = append(mustNot, h)
			res.MustNot = append(res.MustNot, h.Name+"/"+h.Key)
		}
	}

	// ---- state file
	if sc.StateFile {
		res.File = readState(spec.statePath)
	}

	// ---- next start, same state file, same ports
	if res.Run1.Exited || res.Run1.Hung {
		res.Restart.Attempted = true
		spec.fixedPorts = true
		if spec.sock != "" && res.Run1.Hung {
			_ = os.Remove(spec.sock) // the driver killed the hung first run: the file is the driver's doing
		}
		p2 := startServer(spec, &res.Restart.Proc, settle)
		if p2 == nil && spec.sock != "" && strings.Contains(res.Restart.Proc.StartErr, "socket file already exists") {
			// the first run left its IPC socket file behind and the next start refuses to run: recorded (restart_up);
			// the file is then removed so that what the next start restores can still be looked at
			res.Restart.SocketBlocked = tail(res.Restart.Proc.StartErr, 500)
			_ = os.Remove(spec.sock)
			res.Restart.Proc = ProcObs{}
			p2 = startServer(spec, &res.Restart.Proc, settle)
		}
		if p2 != nil {
			procs = append(procs, p2)
			if spec.sock != "" {
				l, err := ipcList(spec.sock)
				res.Restart.IpcListing = l
				if err != nil {
					res.Restart.IpcErr = err.Error()
				}
				if e.lockBin != "" {
					l, err := lockBinList(e.lockBin, spec.sock)
					res.Restart.BinListing = l
					if err != nil {
						res.Restart.BinErr = err.Error()
					}
				}
			}
			if sc.StateFile && len(must) > 0 {
				probeRestored(spec, must, &res)
			} else if g, err := dialGrpc(spec.grpcAddr); err == nil {
				// no holds to look at: still leave a connected client for the second shutdown
				defer g.close()
			}
			stop(p2, sc.Signal, sc.ExtraSignals, limit, &res.Restart.Proc)
			if spec.sock != "" {
				if _, err := os.Lstat(spec.sock); err == nil {
					res.Restart.Proc.SocketLeft = true
				}
			}
		}
	}
	judge(&res, must, mustNot, limit)
	trimPreload(&res)
	return
}

const preloadKeyPrefix = "00000000-0000-4000-8000-"

// trimPreload drops the bulk of the earlier run's holds from the record (they are summarised by counts).
func trimPreload(res *Result) {
	if res.Scenario.Preload <= 0 {
		res.File.Total = len(res.File.Entries)
		res.Restart.IpcTotal, res.Restart.BinTotal = len(res.Restart.IpcListing), len(res.Restart.BinListing)
		return
	}
	keepN := func(n *int) bool { *n++; return *n <= 2 }
	var n1, n2, n3, n4, n5 int
	holds := res.Holds[:0:0]
	for _, h := range res.Holds {
		if h.Via != "state-file" || keepN(&n1) {
			holds = append(holds, h)
		}
	}
	res.Holds = holds
	mk := res.MustKeys[:0:0]
	for _, k := range res.MustKeys {
		if !strings.Contains(k, "/"+preloadKeyPrefix) || keepN(&n2) {
			mk = append(mk, k)
		}
	}
	res.MustKeys = mk
	res.File.Total = len(res.File.Entries)
	es := res.File.Entries[:0:0]
	for _, e := range res.File.Entries {
		if !strings.HasPrefix(e.Key, preloadKeyPrefix) || keepN(&n3) {
			es = append(es, e)
		}
	}
	res.File.Entries = es
	res.Restart.IpcTotal, res.Restart.BinTotal = len(res.Restart.IpcListing), len(res.Restart.BinListing)
	ls := res.Restart.IpcListing[:0:0]
	for _, l := range res.Restart.IpcListing {
		if !strings.Contains(l, "Key: "+preloadKeyPrefix) || keepN(&n4) {
			ls = append(ls, l)
		}
	}
	res.Restart.IpcListing = ls
	ls = res.Restart.BinListing[:0:0]
	for _, l := range res.Restart.BinListing {
		if !strings.Contains(l, "Key: "+preloadKeyPrefix) || keepN(&n5) {
			ls = append(ls, l)
		}
	}
	res.Restart.BinListing = ls
}

func countLockHolds(b *holdBook, name string) int {
	b.mu.Lock()
	defer b.mu.Unlock()
	n := 0
	for _, h := range b.holds {
		if h.Name == name && h.Via == "grpc-lock" {
			n++
		}
	}
	return n
}

func probeRestored(spec *serverSpec, must []Hold, res *Result) {
	g, err := dialGrpc(spec.grpcAddr)
	if err != nil {
		res.Restart.Proc.StartErr = "restarted server accepts no gRPC client: " + err.Error()
		return
	}
	defer g.close()
	perName := map[string]int32{}
	for _, h := range must {
		perName[h.Name]++
	}
	ordered := make([]Hold, 0, len(must))
	for _, h := range must {
		if h.Via != "state-file" {
			ordered = append(ordered, h)
		}
	}
	for _, h := range must {
		if h.Via == "state-file" {
			ordered = append(ordered, h)
		}
	}
	n := 0
	for _, h := range ordered {
		if n >= 10 {
			break
		}
		n++
		pr := Probe{Name: h.Name, Key: h.Key}
		if perName[h.Name] >= h.Size { // every slot of the name is one of the restored holds
			ctx, cancel := context.WithTimeout(context.Background(), 8*time.Second)
			r, err := g.c.TryLock(ctx, &pb.TryLockRequest{Name: h.Name, Size: sizePtr(h.Size)})
			cancel()
			if err != nil {
				pr.TryLockErr = "transport: " + err.Error()
			} else {
				l := r.Locked
				pr.TryLockLocked = &l
				if r.Error != nil {
					pr.TryLockErr = r.Error.Code.String() + ": " + r.Error.Message
				}
				if r.Locked { // give it back so that it does not disturb the Unlock probe's meaning
					ctx, cancel := context.WithTimeout(context.Background(), 8*time.Second)
					_, _ = g.c.Unlock(ctx, &pb.UnlockRequest{Name: h.Name, Key: r.Key})
					cancel()
				}
			}
		}
		res.Restart.Probes = append(res.Restart.Probes, pr)
	}
	for i := range res.Restart.Probes {
		pr := &res.Restart.Probes[i]
		ctx, cancel := context.WithTimeout(context.Background(), 8*time.Second)
		r, err := g.c.Unlock(ctx, &pb.UnlockRequest{Name: pr.Name, Key: pr.Key})
		cancel()
		if err != nil {
			pr.UnlockErr = "transport: " + err.Error()
			continue
		}
		u := r.Unlocked
		pr.Unlocked = &u
		if r.Error != nil {
			pr.UnlockErr = r.Error.Code.String() + ": " + r.Error.Message
		}
	}
}

func sizePtr(s int32) *int32 {
	if s <= 1 {
		return nil
	}
	return &s
}

// ------------------------------------------------------------------------------------------------ requests in flight

type inflightRun struct {
	wg        sync.WaitGroup
	stopFlag  atomic.Bool
	signalAt  atomic.Int64 // unix micro, 0 = not yet
	requests  atomic.Int64
	answered  atomic.Int64
	terrs     atomic.Int64
	after     atomic.Int64
	inflight  atomic.Int64
	atSignal  atomic.Int64
	grants    atomic.Int64
	unlocks   atomic.Int64
	lastRet   atomic.Int64
	closers   []func()
	closeOnce sync.Once
}

func (r *inflightRun) closeAll() {
	r.closeOnce.Do(func() {
		r.stopFlag.Store(true)
		for _, c := range r.closers {
			c()
		}
	})
}

func (r *inflightRun) begin() {
	r.requests.Add(1)
	r.inflight.Add(1)
}

// end -> false when the loop should stop
func (r *inflightRun) end(err error) bool {
	r.inflight.Add(-1)
	now := time.Now().UnixMicro()
	r.lastRet.Store(now)
	if err != nil {
		r.terrs.Add(1)
		return false
	}
	r.answered.Add(1)
	if s := r.signalAt.Load(); s != 0 && now > s {
		r.after.Add(1)
	}
	return !r.stopFlag.Load()
}

func startInflight(sc Scenario, spec *serverSpec, book *holdBook, setupFail func(string, ...any)) *inflightRun {
	run := &inflightRun{}
	workers := sc.Workers
	if workers <= 0 {
		workers = 8
	}
	var ready sync.WaitGroup
	start := make(chan struct{})
	for w := 0; w < workers; w++ {
		g, err := dialGrpc(spec.grpcAddr)
		if err != nil {
			setupFail("%v", err)
			continue
		}
		run.closers = append(run.closers, g.close)
		run.wg.Add(1)
		ready.Add(1)
		go func(w int) {
			defer run.wg.Done()
			ready.Done()
			<-start
			contended := w%4 == 3
			for j := 0; ; j++ {
				ctx, cancel := context.WithTimeout(context.Background(), callTimeout)
				var r *pb.LockResponse
				var err error
				var name, via string
				var ltv int32 = 60
				if j%5 == 4 {
					ltv = 0
				}
				run.begin()
				if contended {
					// a shared name: some of these calls are parked in Lock when the signal arrives
					name, via = "shared", "grpc-lock"
					r, err = g.c.Lock(ctx, &pb.LockRequest{Name: name, WaitTimeoutSeconds: i32(2), LockTimeoutSeconds: i32(ltv)})
				} else {
					name, via = fmt.Sprintf("f%d_%d", w, j), "grpc-trylock"
					r, err = g.c.TryLock(ctx, &pb.TryLockRequest{Name: name, LockTimeoutSeconds: i32(ltv)})
				}
				cancel()
				var h *Hold
				if err == nil && r.Locked && r.Error == nil {
					run.grants.Add(1)
					h = book.add(&Hold{Name: name, Key: r.Key, Size: 1, LockTimeout: ltv, Via: via, AckedUs: book.us()})
				}
				if !run.end(err) {
					return
				}
				if h != nil && (contended || j%2 == 0) {
					ctx, cancel := context.WithTimeout(context.Background(), callTimeout)
					s := book.us()
					book.mu.Lock()
					h.UnlockSentUs = &s
					book.mu.Unlock()
					run.begin()
					u, err := g.c.Unlock(ctx, &pb.UnlockRequest{Name: h.Name, Key: h.Key})
					cancel()
					a := book.us()
					if err == nil {
						book.mu.Lock()
						h.UnlockAckedUs = &a
						h.Unlocked = u.Unlocked && u.Error == nil
						book.mu.Unlock()
						if h.Unlocked {
							run.unlocks.Add(1)
						}
					}
					if !run.end(err) {
						return
					}
				}
			}
		}(w)
	}
	if sc.Rest {
		for w := 0; w < 2; w++ {
			rc := newRest(spec.restAddr)
			run.closers = append(run.closers, rc.close)
			run.wg.Add(1)
			ready.Add(1)
			go func(w int) {
				defer run.wg.Done()
				ready.Done()
				<-start
				for j := 0; ; j++ {
					if j%3 == 0 { // a new session (the REST layer's own timer map is written)
						run.begin()
						err := rc.session()
						if !run.end(err) {
							return
						}
					}
					name := fmt.Sprintf("q%d_%d", w, j)
					run.begin()
					locked, key, err := rc.tryLock(name, 60)
					var h *Hold
					if err == nil && locked {
						run.grants.Add(1)
						h = book.add(&Hold{Name: name, Key: key, Size: 1, LockTimeout: 60, Via: "rest", AckedUs: book.us()})
					}
					if !run.end(err) {
						return
					}
					if h != nil && j%2 == 0 {
						s := book.us()
						book.mu.Lock()
						h.UnlockSentUs = &s
						book.mu.Unlock()
						run.begin()
						u, err := rc.unlock(h.Name, h.Key)
						a := book.us()
						if err == nil {
							book.mu.Lock()
							h.UnlockAckedUs = &a
							h.Unlocked = u
							book.mu.Unlock()
							if u {
								run.unlocks.Add(1)
							}
						}
						if !run.end(err) {
							return
						}
					}
				}
			}(w)
		}
	}
	ready.Wait()
	close(start)
	time.Sleep(25 * time.Millisecond) // let the loops get going; the scenario's own delay follows
	return run
}

func (r *inflightRun) finish(signalAt, waitUntil time.Time) InflightObs {
	done := make(chan struct{})
	go func() { r.wg.Wait(); close(done) }()
	returned := false
	select {
	case <-done:
		returned = true
	case <-time.After(time.Until(waitUntil)):
	}
	r.closeAll()
	if !returned {
		select {
		case <-done:
		case <-time.After(2 * time.Second):
		}
	}
	return InflightObs{
		Requests: int(r.requests.Load()), Answered: int(r.answered.Load()), TransportErrors: int(r.terrs.Load()),
		AnsweredAfter: int(r.after.Load()), InFlightAtSig: int(r.atSignal.Load()), LoopsReturned: returned,
		LastReturnMs: float64(r.lastRet.Load()-signalAt.UnixMicro()) / 1000,
		Grants:       int(r.grants.Load()), Unlocks: int(r.unlocks.Load()),
	}
}

// ------------------------------------------------------------------------------------------------------ the oracle

func judge(res *Result, must, mustNot []Hold, limit time.Duration) {
	v := res.Verdicts
	sc := res.Scenario
	fail := func(k, f string, a ...any) {
		msg := "fail: " + fmt.Sprintf(f, a...)
		if old, ok := v[k]; ok && strings.HasPrefix(old, "fail") {
			v[k] = old + "; " + msg[6:]
		} else {
			v[k] = msg
		}
	}
	pass := func(k string) {
		if _, ok := v[k]; !ok {
			v[k] = "pass"
		}
	}
	if res.HarnessErr != "" || !res.Run1.Started || res.Run1.BindFailure || res.Restart.Proc.BindFailure {
		for _, k := range []string{"exit0", "prompt", "nopanic", "socket_gone", "blocked_error", "no_hang", "file_keeps", "file_drops_unlocked", "restart_up", "restart_lists", "restart_refuses", "restart_unlock"} {
			v[k] = "n/a"
		}
		return
	}
	procClauses := func(tag string, o *ProcObs) {
		switch {
		case o.Hung:
			fail("exit0", "%s: still running %.0f ms after SIG%s; aborted by the driver", tag, o.ExitMs, sc.Signal)
			fail("prompt", "%s: no exit within %.0f ms of the signal", tag, o.ExitMs)
		case o.DiedEarly:
			fail("exit0", "%s: the server had died before the signal (exit %d %s)", tag, o.ExitCode, o.KilledBy)
		case o.KilledBy != "" || o.ExitCode != 0:
			fail("exit0", "%s: exit status %d %s after SIG%s", tag, o.ExitCode, o.KilledBy, sc.Signal)
		default:
			pass("exit0")
		}
		if !o.Hung {
			if o.ExitMs >= float64(limit.Milliseconds()) {
				fail("prompt", "%s: %.0f ms from SIG%s to exit (limit %d ms)", tag, o.ExitMs, sc.Signal, limit.Milliseconds())
			} else {
				pass("prompt")
			}
		}
		if len(o.Bad) > 0 {
			fail("nopanic", "%s: output has %q", tag, o.Bad[0])
		} else {
			pass("nopanic")
		}
		if !sc.Ipc {
			v["socket_gone"] = "n/a"
		} else if o.SocketLeft && !o.Hung {
			fail("socket_gone", "%s: the IPC socket file is still there after the exit (status %d %s)", tag, o.ExitCode, o.KilledBy)
		} else if !o.Hung {
			pass("socket_gone")
		}
	}
	procClauses("first run", &res.Run1)

	if len(res.Blocked) == 0 && len(res.Stalled) == 0 {
		v["blocked_error"] = "n/a"
	}
	for _, b := range res.Blocked {
		switch {
		case !b.Returned:
			fail("blocked_error", "Lock(%q) blocked at the signal never returned", b.Name)
			fail("no_hang", "Lock(%q) still pending %d ms after the signal", b.Name, limit.Milliseconds()+4000)
		case b.Locked:
			fail("blocked_error", "Lock(%q) blocked at the signal came back locked=true (key %s) although the lock was never released", b.Name, b.Key)
		case b.TransportErr == "" && b.ErrCode == "":
			fail("blocked_error", "Lock(%q) blocked at the signal came back locked=false without any error", b.Name)
		default:
			pass("blocked_error")
		}
		if b.Returned && b.ReturnedMs >= float64(limit.Milliseconds()) {
			fail("no_hang", "Lock(%q) returned only %.0f ms after the signal", b.Name, b.ReturnedMs)
		}
	}
	if res.Inflight != nil {
		if !res.Inflight.LoopsReturned {
			fail("no_hang", "requests in flight at the signal were still pending %d ms later", limit.Milliseconds()+4000)
		} else if res.Inflight.LastReturnMs >= float64(limit.Milliseconds()) {
			fail("no_hang", "a request in flight at the signal returned only %.0f ms later", res.Inflight.LastReturnMs)
		}
	}
	for _, st := range res.Stalled {
		if st.Hold {
			fail("blocked_error", "the stalled %s request was answered with a hold: %s", st.Kind, st.Received)
		} else if len(res.Blocked) == 0 {
			pass("blocked_error")
		}
		if !st.Closed {
			fail("no_hang", "the stalled %s connection was still open %d ms after the signal", st.Kind, limit.Milliseconds()+1500)
		} else if st.ClosedMs >= float64(limit.Milliseconds()) {
			fail("no_hang", "the stalled %s connection was closed only %.0f ms after the signal", st.Kind, st.ClosedMs)
		}
	}
	if len(res.Blocked) == 0 && res.Inflight == nil && len(res.Stalled) == 0 {
		v["no_hang"] = "n/a"
	} else {
		pass("no_hang")
	}

	// state file
	if !sc.StateFile {
		v["file_keeps"], v["file_drops_unlocked"] = "n/a", "n/a"
		v["restart_lists"], v["restart_refuses"], v["restart_unlock"] = "n/a", "n/a", "n/a"
	} else {
		inFile := map[string]int32{}
		for _, e := range res.File.Entries {
			inFile[e.Name+"/"+e.Key] = e.Size
		}
		if !res.File.Decoded && (len(must) > 0 || res.File.Bytes > 0 || !res.File.Exists) {
			fail("file_keeps", "state file after exit does not decode: %s", res.File.Err)
		}
		missing := 0
		for _, h := range must {
			if h.Via == "state-file" {
				res.Preloaded++
			}
			if _, ok := inFile[h.Name+"/"+h.Key]; !ok && res.File.Decoded {
				if h.Via == "state-file" {
					res.PreloadNotInFile++
				}
				if missing == 0 {
					fail("file_keeps", "hold %s (key %s, via %s, acknowledged %d us relative to the signal) is not in the state file after exit (%d entries)", h.Name, h.Key, h.Via, h.AckedUs, len(res.File.Entries))
				}
				missing++
			}
		}
		if missing > 1 {
			fail("file_keeps", "%d holds missing in all", missing)
		}
		pass("file_keeps")
		for _, h := range mustNot {
			if _, ok := inFile[h.Name+"/"+h.Key]; ok {
				fail("file_drops_unlocked", "hold %s (key %s) was unlocked (acknowledged %d us relative to the signal) but is in the state file", h.Name, h.Key, *h.UnlockAckedUs)
				break
			}
		}
		pass("file_drops_unlocked")
	}

	// next start
	rs := &res.Restart
	if !rs.Attempted {
		v["restart_up"] = "n/a"
	} else if rs.SocketBlocked != "" && !rs.Proc.Started {
		fail("restart_up", "the next start refuses to run because the first run left its IPC socket file behind: %s", tail(rs.SocketBlocked, 300))
	} else if !rs.Proc.Started {
		fail("restart_up", "the next start on the same state file and ports failed: %s", tail(rs.Proc.StartErr, 400))
		for _, k := range []string{"restart_lists", "restart_refuses", "restart_unlock"} {
			if v[k] == "" {
				v[k] = "n/a"
			}
		}
	} else {
		if rs.SocketBlocked != "" {
			fail("restart_up", "the next start refuses to run because the first run left its IPC socket file behind: %s", tail(rs.SocketBlocked, 300))
		}
		pass("restart_up")
		procClauses("second run", &rs.Proc)
		if sc.StateFile {
			if !sc.Ipc || len(must) == 0 {
				v["restart_lists"] = "n/a"
			} else {
				for src, lst := range map[string][]string{"ipc": rs.IpcListing, "ldlm-lock": rs.BinListing} {
					if src == "ldlm-lock" && rs.BinListing == nil && rs.BinErr == "" {
						continue
					}
					errText := rs.IpcErr
					if src == "ldlm-lock" {
						errText = rs.BinErr
					}
					if errText != "" {
						fail("restart_lists", "%s listing failed: %s", src, errText)
						continue
					}
					have := make(map[string]bool, len(lst))
					for _, l := range lst {
						have[l] = true
					}
					missing := 0
					for _, h := range must {
						want := fmt.Sprintf("{Name: %s, Key: %s, Size: %d}", h.Name, h.Key, h.Size)
						if !have[want] {
							if h.Via == "state-file" && src == "ipc" {
								res.PreloadNotListed++
							}
							if missing == 0 {
								fail("restart_lists", "%s listing of the restarted server lacks %s (%d lines)", src, want, len(lst))
							}
							missing++
						}
					}
				}
				pass("restart_lists")
			}
			if len(must) == 0 {
				v["restart_refuses"], v["restart_unlock"] = "n/a", "n/a"
			} else {
				asked := 0
				for _, pr := range rs.Probes {
					if pr.TryLockLocked != nil || pr.TryLockErr != "" {
						asked++
						if pr.TryLockLocked == nil {
							fail("restart_refuses", "TryLock(%q) on the restarted server: %s", pr.Name, pr.TryLockErr)
						} else if *pr.TryLockLocked {
							fail("restart_refuses", "TryLock(%q) on the restarted server was GRANTED although the hold with key %s was live at the shutdown", pr.Name, pr.Key)
						}
					}
					if pr.Unlocked == nil || !*pr.Unlocked {
						fail("restart_unlock", "Unlock(%q, original key %s) on the restarted server failed: %s", pr.Name, pr.Key, pr.UnlockErr)
					}
				}
				if len(rs.Probes) == 0 {
					fail("restart_unlock", "restored holds could not be probed: %s", rs.Proc.StartErr)
				}
				if asked == 0 {
					if _, ok := v["restart_refuses"]; !ok {
						v["restart_refuses"] = "n/a"
					}
				}
				pass("restart_refuses")
				pass("restart_unlock")
			}
		}
	}
}

// ------------------------------------------------------------------------------------------------------------- main

func main() {
	serverBin := flag.String("server", "", "the ldlm-server binary built from the tree under test")
	lockBin := flag.String("lockbin", "", "the ldlm-lock binary (optional)")
	work := flag.String("work", "", "directory for the scenarios' files")
	scFile := flag.String("scenarios", "", "JSON list of scenarios (default: stdin)")
	jobs := flag.Int("jobs", 6, "scenarios run at the same time")
	flag.Parse()
	if *serverBin == "" || *work == "" {
		fmt.Fprintln(os.Stderr, "usage: c11 -server BIN -work DIR [-lockbin BIN] [-scenarios FILE] [-jobs N]")
		os.Exit(2)
	}
	var raw []byte
	var err error
	if *scFile != "" {
		raw, err = os.ReadFile(*scFile)
	} else {
		raw, err = io.ReadAll(os.Stdin)
	}
	if err != nil {
		fmt.Fprintln(os.Stderr, "cannot read scenarios:", err)
		os.Exit(2)
	}
	var scs []Scenario
	if err := json.Unmarshal(raw, &scs); err != nil {
		fmt.Fprintln(os.Stderr, "cannot parse scenarios:", err)
		os.Exit(2)
	}
	_ = os.MkdirAll(*work, 0o755)
	e := env{serverBin: *serverBin, lockBin: *lockBin, work: *work}

	sigc := make(chan os.Signal, 2)
	signal.Notify(sigc, syscall.SIGINT, syscall.SIGTERM, syscall.SIGHUP)
	go func() {
		<-sigc
		killAll()
		os.Exit(3)
	}()

	var outMu sync.Mutex
	var nStarted, nFinished atomic.Int64
	enc := json.NewEncoder(os.Stdout)
	ch := make(chan Scenario)
	var wg sync.WaitGroup
	for i := 0; i < *jobs; i++ {
		wg.Add(1)
		go func() {
			defer wg.Done()
			for sc := range ch {
				if nFinished.Load() >= 6 && nStarted.Load() == 0 {
					// the binary does not come up at all: do not spend 10 s of waiting on every remaining scenario
					outMu.Lock()
					_ = enc.Encode(Result{Scenario: sc, Verdicts: map[string]string{},
						Run1: ProcObs{StartErr: "skipped: the server did not start in any of the first scenarios"}})
					outMu.Unlock()
					continue
				}
				done := make(chan Result, 1)
				go func() { done <- runScenario(sc, e) }()
				var r Result
				select {
				case r = <-done:
				case <-time.After(90 * time.Second):
					r = Result{Scenario: sc, HarnessErr: "scenario watchdog: the driver did not finish within 90s", Verdicts: map[string]string{}}
				}
				if r.Run1.Started {
					nStarted.Add(1)
				}
				nFinished.Add(1)
				outMu.Lock()
				_ = enc.Encode(r)
				outMu.Unlock()
			}
		}()
	}
	for _, sc := range scs {
		ch <- sc
	}
	close(ch)
	wg.Wait()
	killAll()
	fmt.Println(`{"meta":true,"done":true,"scenarios":` + fmt.Sprint(len(scs)) + `}`)
}
