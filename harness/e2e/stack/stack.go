// Package stack starts the real ldlm stack in this process the way cmd/server/main.go does:
// server.New, then net.Run with the gRPC listener and the REST gateway, on free 127.0.0.1 ports.
// Real time, real sockets. Used by the end-to-end ties (T4 of /verif/DESIGN.md).
package stack

import (
	"fmt"
	"log/slog"
	gonet "net"
	"time"

	ldlmlog "github.com/imoore76/ldlm/log"
	ldlmnet "github.com/imoore76/ldlm/net"
	ldlmgrpc "github.com/imoore76/ldlm/net/grpc"
	"github.com/imoore76/ldlm/net/rest"
	"github.com/imoore76/ldlm/server"
	"github.com/imoore76/ldlm/server/ipc"
	"github.com/imoore76/ldlm/server/session"
)

type Stack struct {
	LS       *server.LockServer
	GrpcAddr string
	RestAddr string
	closers  []func()
}

type Options struct {
	StateFile           string
	NoClearOnDisconnect bool
	Password            string
	RestSessionTimeout  time.Duration // 0: the default of the struct tag (10m)
	DefaultLockTimeout  time.Duration // 0: 10m
	Verbose             bool
}

func freePort() (string, error) {
	l, err := gonet.Listen("tcp", "127.0.0.1:0")
	if err != nil {
		return "", err
	}
	defer l.Close()
	return l.Addr().String(), nil
}

// Start brings the stack up and waits until both listeners accept connections.
func Start(o Options) (*Stack, error) {
	if !o.Verbose {
		ldlmlog.SetLevel(slog.LevelError)
	}
	g, err := freePort()
	if err != nil {
		return nil, err
	}
	r, err := freePort()
	if err != nil {
		return nil, err
	}
	if o.RestSessionTimeout == 0 {
		o.RestSessionTimeout = 10 * time.Minute
	}
	if o.DefaultLockTimeout == 0 {
		o.DefaultLockTimeout = 10 * time.Minute
	}
	// the defaults of the struct tags of server/types.go, net/grpc/types.go, net/rest/types.go
	sc := &server.LockServerConfig{
		Shards:              16,
		LockGcInterval:      30 * time.Minute,
		LockGcMinIdle:       5 * time.Minute,
		DefaultLockTimeout:  o.DefaultLockTimeout,
		NoClearOnDisconnect: o.NoClearOnDisconnect,
		IPCConfig:           ipc.IPCConfig{IPCSocketFile: ""},
		SessionConfig:       session.SessionConfig{StateFile: o.StateFile},
	}
	ls, lsClose, err := server.New(sc)
	if err != nil {
		if lsClose != nil {
			lsClose()
		}
		return nil, fmt.Errorf("server.New: %w", err)
	}
	nc := &ldlmnet.NetConfig{
		GrpcConfig: ldlmgrpc.GrpcConfig{KeepaliveInterval: 60 * time.Second, KeepaliveTimeout: 10 * time.Second, ListenAddress: g},
		RestConfig: rest.RestConfig{RestListenAddress: r, RestSessionTimeout: o.RestSessionTimeout},
	}
	nc.SecurityConfig.Password = o.Password
	netClose, err := ldlmnet.Run(ls, nc)
	if err != nil {
		lsClose()
		return nil, fmt.Errorf("net.Run: %w", err)
	}
	s := &Stack{LS: ls, GrpcAddr: g, RestAddr: r}
	// the closer order of cmd/server/main.go
	prepare := func() {
		// cmd/server/main.go calls PrepareShutdown first; older trees do not have it
		if p, ok := any(ls).(interface{ PrepareShutdown() }); ok {
			p.PrepareShutdown()
		}
	}
	s.closers = []func(){prepare, netClose, lsClose}
	for _, a := range []string{g, r} {
		ok := false
		for i := 0; i < 200; i++ {
			c, err := gonet.DialTimeout("tcp", a, 200*time.Millisecond)
			if err == nil {
				c.Close()
				ok = true
				break
			}
			time.Sleep(10 * time.Millisecond)
		}
		if !ok {
			s.Close()
			return nil, fmt.Errorf("listener %s did not come up", a)
		}
	}
	return s, nil
}

func (s *Stack) Close() {
	for _, c := range s.closers {
		func() {
			defer func() { _ = recover() }()
			c()
		}()
	}
	s.closers = nil
}
