// Command c18: the process-level tie (T4-cli) of property C18 (the admin tool's list / unlock commands against a
// running server).
//
// It builds nothing and decides nothing. lib/clitie.py builds the REAL binaries (go build ./cmd/server ./cmd/lock)
// from the tree under test and hands them to this driver together with a list of scenarios. A scenario is a script of
// steps; the driver
//
//	starts ldlm-server as a child process on a free 127.0.0.1 port with a state file and an IPC socket in the
//	scenario's own directory,
//	runs 2-3 raw gRPC clients (one connection = one session each) through the script: TryLock / Lock (holds of several
//	sessions on 1-3 names, counting locks, leased holds), Lock calls that stay blocked on a full lock, Renew, Unlock,
//	a shutdown + restart of the server on the same state file (holds of a previous run),
//	runs the real admin tool as a child process where the script says so: `ldlm-lock list`,
//	`ldlm-lock unlock <name> <key>`, `ldlm-lock unlock <name>` (socket path by -s, by --socket= or by the environment),
//	and records exit status, stdout and stderr; names that kong would read as flags are passed after `--`
//	(`ldlm-lock unlock -- <name> [<key>]`) where the script says so,
//	asks the server's IPC receiver directly (net/rpc over the same unix socket, IPC.ListLocks) right before and right
//	after every run of the tool: the server's own table of holds before / after the command,
//	copies the state file where the script says so and decodes the copy with the tree's own store
//	(server/session/store),
//	collects the server's own log lines about lease timers that fired.
//
// Output: one JSON object per scenario on stdout: one observation per step, with monotonic timestamps (microseconds
// since the scenario's origin). lib/clitie.py evaluates the clauses of the property from these observations.
//
// Children never outlive the driver: they stay in the driver's process group (which lib/clitie.py kills as a whole),
// every CLI call has a timeout, every scenario has a watchdog, and the driver kills all live children when it is told
// to stop.
package main

import (
	"bytes"
	"context"
	"encoding/json"
	"flag"
	"fmt"
	"io"
	gonet "net"
	"net/rpc"
	"os"
	"os/exec"
	"os/signal"
	"path/filepath"
	"regexp"
	"sort"
	"strings"
	"sync"
	"sync/atomic"
	"syscall"
	"time"

	"google.golang.org/grpc"
	"google.golang.org/grpc/connectivity"
	"google.golang.org/grpc/credentials/insecure"

	co "github.com/imoore76/ldlm/constants"
	pb "github.com/imoore76/ldlm/protos"
	"github.com/imoore76/ldlm/server/session/store"
)

// ------------------------------------------------------------------------------------------------ scenario / result

type LockSpec struct {
	Name string `json:"name"`
	Size int32  `json:"size"`
}

type Step struct {
	Op      string   `json:"op"`                // see runStep
	C       int      `json:"c,omitempty"`       // client index
	ID      string   `json:"id,omitempty"`      // name given to the hold / blocked call this step creates
	Target  string   `json:"target,omitempty"`  // hold the step refers to
	Targets []string `json:"targets,omitempty"` // renew: holds
	Name    string   `json:"name,omitempty"`    // lock name (acquire, park, raw unlock, await)
	Key     string   `json:"key,omitempty"`     // cli_unlock raw: literal key, or "@key:<hold id>"
	Lease   int32    `json:"lease,omitempty"`   // lock_timeout_seconds (0 = none)
	Wait    int32    `json:"wait,omitempty"`    // park: wait_timeout_seconds (0 = none)
	Via     string   `json:"via,omitempty"`     // acquire: trylock | lock ; cli: short | long | env
	By      string   `json:"by,omitempty"`      // cli_unlock: key | name | raw
	Ms      int      `json:"ms,omitempty"`      // sleep / await bound
	Ref     int      `json:"ref,omitempty"`     // sleep_since: index of the step whose acknowledgement is the origin
	Count   int      `json:"count,omitempty"`   // await: number of returned calls to wait for
	Role    string   `json:"role,omitempty"`    // for the oracle and the coverage only
	Sep     bool     `json:"sep,omitempty"`     // cli_unlock: `unlock -- <name> [<key>]` (names that look like flags)
	KeyPre  string   `json:"key_pre,omitempty"` // cli_unlock raw: text put in front of / behind the (resolved) key
	KeyPost string   `json:"key_post,omitempty"`
}

type Scenario struct {
	ID                 string     `json:"id"`
	Kind               string     `json:"kind"`
	Locks              []LockSpec `json:"locks"`
	Clients            int        `json:"clients"`
	NoClear            bool       `json:"no_clear"`
	DefaultLockTimeout int        `json:"default_lock_timeout"` // seconds; lease of the holds restored from the state file
	Steps              []Step     `json:"steps"`
}

type ProcObs struct {
	Started    bool     `json:"started"`
	StartErr   string   `json:"start_err,omitempty"`
	Attempts   int      `json:"attempts"`
	Args       []string `json:"args,omitempty"`
	Exited     bool     `json:"exited"`
	ExitCode   int      `json:"exit_code"`
	KilledBy   string   `json:"killed_by,omitempty"`
	ExitMs     float64  `json:"exit_ms"`
	Hung       bool     `json:"hung"`
	Bad        []string `json:"bad_output,omitempty"`
	OutputTail string   `json:"output_tail,omitempty"`
	SocketLeft bool     `json:"ipc_socket_left"`
	// "address already in use": every attempt to start (a fresh port each time) lost its port to another process; other
	// checks start servers on this machine at the same time. Not an observation about the server (lib/clitie.py).
	BindFailure bool `json:"bind_failure,omitempty"`
}

type FileEntry struct {
	Session string `json:"session"`
	Name    string `json:"name"`
	Key     string `json:"key"`
	Size    int32  `json:"size"`
}

type FileObs struct {
	Exists  bool        `json:"exists"`
	Bytes   int64       `json:"bytes"`
	Decoded bool        `json:"decoded"`
	Err     string      `json:"err,omitempty"`
	Entries []FileEntry `json:"entries"`
}

type WaiterObs struct {
	ID           string `json:"id"`
	Name         string `json:"name"`
	C            int    `json:"c"`
	Lease        int32  `json:"lease"`
	InvUs        int64  `json:"inv_us"`
	ParkedSeen   bool   `json:"parked_seen"`
	Returned     bool   `json:"returned"`
	AckUs        int64  `json:"ack_us"`
	Locked       bool   `json:"locked"`
	Key          string `json:"key,omitempty"`
	ErrCode      string `json:"err_code,omitempty"`
	ErrMsg       string `json:"err_msg,omitempty"`
	TransportErr string `json:"transport_err,omitempty"`
}

type CallObs struct { // one Renew / Unlock / TryLock / Lock answer
	ID           string `json:"id,omitempty"`
	Name         string `json:"name"`
	Key          string `json:"key,omitempty"`
	InvUs        int64  `json:"inv_us"`
	AckUs        int64  `json:"ack_us"`
	Locked       *bool  `json:"locked,omitempty"`
	Unlocked     *bool  `json:"unlocked,omitempty"`
	ErrCode      string `json:"err_code,omitempty"`
	ErrMsg       string `json:"err_msg,omitempty"`
	TransportErr string `json:"transport_err,omitempty"`
}

type CliObs struct {
	Args     []string `json:"args"`
	EnvSock  bool     `json:"env_sock,omitempty"`
	Exit     int      `json:"exit"`
	KilledBy string   `json:"killed_by,omitempty"`
	TimedOut bool     `json:"timed_out,omitempty"`
	ExecErr  string   `json:"exec_err,omitempty"`
	Stdout   string   `json:"stdout"`
	Stderr   string   `json:"stderr"`
	Name     string   `json:"name,omitempty"` // unlock: what was passed
	Key      string   `json:"key,omitempty"`
	Sep      bool     `json:"sep,omitempty"` // unlock: the positional arguments came after `--`
}

// IpcObs is the server's own listing, asked for by the driver over the IPC socket (not through the tool).
type IpcObs struct {
	Entries []string `json:"entries"`
	Err     string   `json:"err,omitempty"`
	AtUs    int64    `json:"at_us"`
}

type Obs struct {
	I       int         `json:"i"`
	Op      string      `json:"op"`
	InvUs   int64       `json:"inv_us"`
	AckUs   int64       `json:"ack_us"`
	Skipped string      `json:"skipped,omitempty"` // the step could not be carried out (e.g. its target was never granted)
	Call    *CallObs    `json:"call,omitempty"`
	Calls   []CallObs   `json:"calls,omitempty"`
	Cli     *CliObs     `json:"cli,omitempty"`
	IpcPre  *IpcObs     `json:"ipc_before,omitempty"` // cli_unlock / cli_list: IPC.ListLocks right before the tool ran
	IpcPost *IpcObs     `json:"ipc_after,omitempty"`  // ... and right after it returned
	File    *FileObs    `json:"file,omitempty"`
	Waiters []WaiterObs `json:"waiters,omitempty"`
	Stop    *ProcObs    `json:"stop,omitempty"`
	Start   *ProcObs    `json:"start,omitempty"`
}

type TimerFired struct {
	Run  int    `json:"run"` // 0 = first server process, 1 = after the first restart, ...
	Name string `json:"name"`
	Key  string `json:"key"`
}

type Result struct {
	Scenario    Scenario     `json:"scenario"`
	HarnessErr  string       `json:"harness_err,omitempty"`
	Start       ProcObs      `json:"start"`
	Obs         []Obs        `json:"obs"`
	TimersFired []TimerFired `json:"timers_fired"`
	LogParsed   bool         `json:"log_parsed"` // the server's log was JSON lines with msg/lock/key fields (timers_fired is meaningful)
	Bad         []string     `json:"bad_output,omitempty"`
	OutputTail  string       `json:"output_tail,omitempty"`
	EnvVar      string       `json:"env_var"`
	WallMs      float64      `json:"wall_ms"`
}

// ------------------------------------------------------------------------------------------------------ processes

type syncBuf struct {
	mu sync.Mutex
	b  bytes.Buffer
}

func (s *syncBuf) Write(p []byte) (int, error) {
	s.mu.Lock()
	defer s.mu.Unlock()
	return s.b.Write(p)
}

func (s *syncBuf) String() string {
	s.mu.Lock()
	defer s.mu.Unlock()
	return s.b.String()
}

type proc struct {
	cmd    *exec.Cmd
	out    *syncBuf
	done   chan struct{}
	exitAt time.Time
}

var (
	liveMu sync.Mutex
	live   = map[*exec.Cmd]bool{}
)

func track(c *exec.Cmd, on bool) {
	liveMu.Lock()
	if on {
		live[c] = true
	} else {
		delete(live, c)
	}
	liveMu.Unlock()
}

func killAll() {
	liveMu.Lock()
	cs := make([]*exec.Cmd, 0, len(live))
	for c := range live {
		cs = append(cs, c)
	}
	liveMu.Unlock()
	for _, c := range cs {
		if c.Process != nil {
			_ = c.Process.Kill()
		}
	}
}

func startProc(bin string, args []string, dir string) (*proc, error) {
	p := &proc{out: &syncBuf{}, done: make(chan struct{})}
	p.cmd = exec.Command(bin, args...)
	p.cmd.Dir = dir
	p.cmd.Stdout = p.out
	p.cmd.Stderr = p.out
	p.cmd.Stdin = nil
	p.cmd.Env = cleanEnv(dir)
	p.cmd.WaitDelay = 2 * time.Second
	if err := p.cmd.Start(); err != nil {
		return nil, err
	}
	track(p.cmd, true)
	go func() {
		_ = p.cmd.Wait()
		p.exitAt = time.Now()
		track(p.cmd, false)
		close(p.done)
	}()
	return p, nil
}

func (p *proc) exited() bool {
	select {
	case <-p.done:
		return true
	default:
		return false
	}
}

func (p *proc) kill() {
	if p == nil || p.cmd.Process == nil {
		return
	}
	_ = p.cmd.Process.Kill()
	select {
	case <-p.done:
	case <-time.After(3 * time.Second):
	}
}

// cleanEnv is the environment of every child: no LDLM_* variable of the caller leaks into the server or the tool.
func cleanEnv(dir string) []string {
	var env []string
	for _, kv := range os.Environ() {
		if strings.HasPrefix(kv, co.ConfigEnvPrefix) || strings.HasPrefix(kv, "TMPDIR=") {
			continue
		}
		env = append(env, kv)
	}
	return append(env, "TMPDIR="+dir)
}

func freeAddr() (string, error) {
	l, err := gonet.Listen("tcp", "127.0.0.1:0")
	if err != nil {
		return "", err
	}
	defer l.Close()
	return l.Addr().String(), nil
}

var badRe = regexp.MustCompile(`(?i)panic|fatal error|goroutine \d+ \[|SIGSEGV|runtime error|unexpected signal|concurrent map`)

func scanBad(out string) []string {
	var bad []string
	for _, line := range strings.Split(out, "\n") {
		if badRe.MatchString(line) {
			if len(line) > 300 {
				line = line[:300]
			}
			bad = append(bad, line)
			if len(bad) >= 8 {
				break
			}
		}
	}
	return bad
}

func tail(s string, n int) string {
	if len(s) > n {
		return "..." + s[len(s)-n:]
	}
	return s
}

type serverSpec struct {
	bin, dir, grpcAddr, statePath, sock string
	noClear                             bool
	defaultLockTimeout                  int
}

func (s *serverSpec) args() []string {
	a := []string{"--listen_address", s.grpcAddr, "--log_level", "info", "--ipc_socket_file", s.sock,
		"--state_file", s.statePath, "--default_lock_timeout", fmt.Sprintf("%ds", s.defaultLockTimeout)}
	if s.noClear {
		a = append(a, "--no_clear_on_disconnect")
	}
	return a
}

func dialOK(addr string) bool {
	c, err := gonet.DialTimeout("tcp", addr, 300*time.Millisecond)
	if err != nil {
		return false
	}
	c.Close()
	return true
}

// startServer starts the binary on a port found free a moment ago (":0" probe) and waits until it logged that its
// listener is up and the port accepts connections; "address already in use" (somebody took the port in between) is
// retried with another port.
func startServer(s *serverSpec, obs *ProcObs) *proc {
	for attempt := 1; attempt <= 6; attempt++ {
		obs.Attempts = attempt
		g, err := freeAddr()
		if err != nil {
			obs.StartErr = "no free port: " + err.Error()
			return nil
		}
		s.grpcAddr = g
		args := s.args()
		obs.Args = args
		p, err := startProc(s.bin, args, s.dir)
		if err != nil {
			obs.StartErr = "exec: " + err.Error()
			return nil
		}
		ready := false
		deadline := time.Now().Add(10 * time.Second)
		for time.Now().Before(deadline) {
			if p.exited() {
				break
			}
			if strings.Contains(p.out.String(), "address already in use") {
				break
			}
			if strings.Contains(p.out.String(), "gRPC server started. Listening on "+s.grpcAddr) && dialOK(s.grpcAddr) && !p.exited() {
				ready = true
				break
			}
			time.Sleep(3 * time.Millisecond)
		}
		if ready {
			// nothing of an earlier attempt that lost its port stays in the record
			obs.Started, obs.StartErr, obs.BindFailure, obs.Bad = true, "", false, nil
			return p
		}
		out := p.out.String()
		p.kill()
		obs.StartErr = fmt.Sprintf("server did not come up (attempt %d): %s", attempt, tail(out, 1500))
		obs.Bad = scanBad(out)
		if strings.Contains(out, "address already in use") {
			obs.BindFailure = true
			time.Sleep(time.Duration(20*attempt) * time.Millisecond)
			continue
		}
		obs.BindFailure = false
		return nil
	}
	return nil
}

// stopServer sends SIGTERM and waits for the exit (killed after 8 s).
func stopServer(p *proc, obs *ProcObs) {
	at := time.Now()
	_ = p.cmd.Process.Signal(syscall.SIGTERM)
	select {
	case <-p.done:
	case <-time.After(8 * time.Second):
		obs.Hung = true
		p.kill()
	}
	obs.Exited = p.exited()
	obs.ExitMs = float64(time.Since(at).Microseconds()) / 1000
	if st := p.cmd.ProcessState; st != nil {
		obs.ExitCode = st.ExitCode()
		if ws, ok := st.Sys().(syscall.WaitStatus); ok && ws.Signaled() {
			obs.KilledBy = ws.Signal().String()
		}
	} else {
		obs.ExitCode = -2
	}
	out := p.out.String()
	obs.Bad = scanBad(out)
	obs.OutputTail = tail(out, 800)
}

// ---------------------------------------------------------------------------------------------------------- clients

const callTimeout = 6 * time.Second

type grpcClient struct {
	conn *grpc.ClientConn
	c    pb.LDLMClient
}

func dialGrpc(addr string) (*grpcClient, error) {
	conn, err := grpc.NewClient(addr, grpc.WithTransportCredentials(insecure.NewCredentials()))
	if err != nil {
		return nil, err
	}
	conn.Connect()
	ctx, cancel := context.WithTimeout(context.Background(), 5*time.Second)
	defer cancel()
	for {
		st := conn.GetState()
		if st == connectivity.Ready {
			break
		}
		if !conn.WaitForStateChange(ctx, st) {
			conn.Close()
			return nil, fmt.Errorf("gRPC connection to %s not ready (%s)", addr, st)
		}
	}
	return &grpcClient{conn: conn, c: pb.NewLDLMClient(conn)}, nil
}

func (g *grpcClient) close() {
	if g != nil && g.conn != nil {
		g.conn.Close()
	}
}

func i32(v int32) *int32 {
	if v == 0 {
		return nil
	}
	return &v
}

func sizePtr(s int32) *int32 {
	if s <= 1 {
		return nil
	}
	return &s
}

func pbErr(e *pb.Error) (string, string) {
	if e == nil {
		return "", ""
	}
	return e.Code.String(), e.Message
}

// readState copies the state file (the server replaces it by rename, so a copy is one whole image) and decodes the
// copy with the tree's own store.
func readState(path, snap string) (fo *FileObs) {
	fo = &FileObs{Entries: []FileEntry{}}
	raw, err := os.ReadFile(path)
	if err != nil {
		fo.Err = "read: " + err.Error()
		return
	}
	fo.Exists = true
	fo.Bytes = int64(len(raw))
	if err := os.WriteFile(snap, raw, 0o644); err != nil {
		fo.Err = "copy: " + err.Error()
		return
	}
	defer os.Remove(snap)
	defer func() {
		if r := recover(); r != nil {
			fo.Err = fmt.Sprintf("store.Read panicked: %v", r)
		}
	}()
	s, err := store.New(snap)
	if err != nil {
		fo.Err = "store.New: " + err.Error()
		return
	}
	defer s.Close()
	m, err := s.Read()
	if err != nil {
		fo.Err = "store.Read: " + err.Error()
		return
	}
	fo.Decoded = true
	for sid, ls := range m {
		for _, l := range ls {
			fo.Entries = append(fo.Entries, FileEntry{Session: sid, Name: l.Name(), Key: l.Key(), Size: l.Size()})
		}
	}
	sort.Slice(fo.Entries, func(i, j int) bool {
		if fo.Entries[i].Name != fo.Entries[j].Name {
			return fo.Entries[i].Name < fo.Entries[j].Name
		}
		return fo.Entries[i].Key < fo.Entries[j].Key
	})
	return
}

// ------------------------------------------------------------------------------------------------------- scenario

type env struct {
	serverBin, lockBin, work string
}

type hold struct {
	name, key string
	size      int32
}

type waiter struct {
	mu     sync.Mutex
	o      WaiterObs
	cancel context.CancelFunc
}

type run struct {
	sc      Scenario
	e       env
	t0      time.Time
	dir     string
	spec    *serverSpec
	p       *proc
	logs    []*syncBuf // one per server process
	clients []*grpcClient
	sizes   map[string]int32
	holds   map[string]*hold
	waiters []*waiter
	acks    map[int]int64
	nSnap   int
}

func (r *run) us() int64 { return time.Since(r.t0).Microseconds() }

func (r *run) connect() error {
	for _, g := range r.clients {
		g.close()
	}
	r.clients = nil
	for i := 0; i < r.sc.Clients; i++ {
		g, err := dialGrpc(r.spec.grpcAddr)
		if err != nil {
			return err
		}
		r.clients = append(r.clients, g)
	}
	return nil
}

func (r *run) client(i int) *grpcClient {
	if len(r.clients) == 0 {
		return nil
	}
	if i < 0 || i >= len(r.clients) {
		i = 0
	}
	return r.clients[i]
}

func countLines(out string, needles ...string) int {
	n := 0
	for _, line := range strings.Split(out, "\n") {
		all := true
		for _, nd := range needles {
			if !strings.Contains(line, nd) {
				all = false
				break
			}
		}
		if all {
			n++
		}
	}
	return n
}

func jsonStr(s string) string {
	b, _ := json.Marshal(s)
	return string(b)
}

// runCLI runs the admin tool. via: short = `-s SOCK <cmd...>`, long = `<cmd...> --socket=SOCK` (`--socket=SOCK <cmd...>` when the
// words contain `--`), env = LDLM_IPC_SOCKET_FILE.
func (r *run) runCLI(via string, words ...string) *CliObs {
	o := &CliObs{}
	var args []string
	envv := cleanEnv(r.dir)
	switch via {
	case "long":
		sep := false
		for _, w := range words {
			sep = sep || w == "--"
		}
		if sep { // everything behind `--` is positional: the flag goes in front
			args = append([]string{"--socket=" + r.spec.sock}, words...)
		} else {
			args = append(append(args, words...), "--socket="+r.spec.sock)
		}
	case "env":
		args = append(args, words...)
		envv = append(envv, co.ConfigEnvPrefix+"IPC_SOCKET_FILE="+r.spec.sock)
		o.EnvSock = true
	default:
		args = append([]string{"-s", r.spec.sock}, words...)
	}
	o.Args = args
	ctx, cancel := context.WithTimeout(context.Background(), 8*time.Second)
	defer cancel()
	cmd := exec.CommandContext(ctx, r.e.lockBin, args...)
	cmd.Dir = r.dir
	cmd.Env = envv
	cmd.Stdin = nil
	cmd.WaitDelay = time.Second
	var so, se bytes.Buffer
	cmd.Stdout, cmd.Stderr = &so, &se
	if err := cmd.Start(); err != nil {
		o.ExecErr = err.Error()
		o.Exit = -1
		return o
	}
	track(cmd, true)
	err := cmd.Wait()
	track(cmd, false)
	if ctx.Err() != nil {
		o.TimedOut = true
	}
	if st := cmd.ProcessState; st != nil {
		o.Exit = st.ExitCode()
		if ws, ok := st.Sys().(syscall.WaitStatus); ok && ws.Signaled() {
			o.KilledBy = ws.Signal().String()
		}
	} else if err != nil {
		o.ExecErr = err.Error()
		o.Exit = -1
	}
	o.Stdout, o.Stderr = tail(so.String(), 60000), tail(se.String(), 4000)
	return o
}

// ipcList asks the server's IPC receiver for its listing: one `{Name: .., Key: .., Size: ..}` string per hold. The
// request and response types are spelled out here (gob matches them structurally with server/ipc's), so the driver
// does not depend on the package's Go types.
func (r *run) ipcList() *IpcObs {
	o := &IpcObs{Entries: []string{}}
	defer func() { o.AtUs = r.us() }()
	type dialed struct {
		c   *rpc.Client
		err error
	}
	dch := make(chan dialed, 1)
	go func() {
		c, err := rpc.DialHTTP("unix", r.spec.sock)
		dch <- dialed{c, err}
	}()
	var c *rpc.Client
	select {
	case d := <-dch:
		if d.err != nil {
			o.Err = "dial: " + d.err.Error()
			return o
		}
		c = d.c
	case <-time.After(3 * time.Second):
		o.Err = "dial: no answer within 3s"
		return o
	}
	defer c.Close()
	var out []string
	call := c.Go("IPC.ListLocks", struct{}{}, &out, make(chan *rpc.Call, 1))
	select {
	case <-call.Done:
		if call.Error != nil {
			o.Err = "IPC.ListLocks: " + call.Error.Error()
			return o
		}
	case <-time.After(3 * time.Second):
		o.Err = "IPC.ListLocks: no answer within 3s"
		return o
	}
	if out != nil {
		o.Entries = out
	}
	return o
}

func (r *run) waiterSnapshot(name string) []WaiterObs {
	var ws []WaiterObs
	for _, w := range r.waiters {
		w.mu.Lock()
		if name == "" || w.o.Name == name {
			ws = append(ws, w.o)
		}
		w.mu.Unlock()
	}
	if ws == nil {
		ws = []WaiterObs{}
	}
	return ws
}

func (r *run) returnedWaiters(name string) int {
	n := 0
	for _, w := range r.waiters {
		w.mu.Lock()
		if w.o.Name == name && w.o.Returned {
			n++
		}
		w.mu.Unlock()
	}
	return n
}

func (r *run) step(i int, st Step) (o Obs) {
	o = Obs{I: i, Op: st.Op}
	o.InvUs = r.us()
	defer func() {
		if o.AckUs == 0 {
			o.AckUs = r.us()
		}
		r.acks[i] = o.AckUs
	}()
	switch st.Op {
	case "acquire": // TryLock or Lock by client C; granted -> hold ID
		g := r.client(st.C)
		if g == nil {
			o.Skipped = "no client"
			return
		}
		size, ok := r.sizes[st.Name]
		if !ok {
			size = 1
		}
		ctx, cancel := context.WithTimeout(context.Background(), callTimeout)
		defer cancel()
		var resp *pb.LockResponse
		var err error
		c := &CallObs{ID: st.ID, Name: st.Name}
		c.InvUs = r.us()
		if st.Via == "lock" {
			resp, err = g.c.Lock(ctx, &pb.LockRequest{Name: st.Name, Size: sizePtr(size), LockTimeoutSeconds: i32(st.Lease), WaitTimeoutSeconds: i32(2)})
		} else {
			resp, err = g.c.TryLock(ctx, &pb.TryLockRequest{Name: st.Name, Size: sizePtr(size), LockTimeoutSeconds: i32(st.Lease)})
		}
		c.AckUs = r.us()
		o.InvUs, o.AckUs = c.InvUs, c.AckUs
		if err != nil {
			c.TransportErr = err.Error()
		} else {
			l := resp.Locked
			c.Locked = &l
			c.Key = resp.Key
			c.ErrCode, c.ErrMsg = pbErr(resp.Error)
			if resp.Locked && st.ID != "" {
				r.holds[st.ID] = &hold{name: st.Name, key: resp.Key, size: size}
			}
		}
		o.Call = c
	case "park": // a Lock call by client C that is expected to stay blocked
		g := r.client(st.C)
		if g == nil {
			o.Skipped = "no client"
			return
		}
		size, ok := r.sizes[st.Name]
		if !ok {
			size = 1
		}
		log := r.logs[len(r.logs)-1]
		before := countLines(log.String(), `"msg":"Lock request"`, `"lock":`+jsonStr(st.Name))
		ctx, cancel := context.WithTimeout(context.Background(), 60*time.Second)
		w := &waiter{cancel: cancel}
		w.o = WaiterObs{ID: st.ID, Name: st.Name, C: st.C, Lease: st.Lease, InvUs: r.us()}
		r.waiters = append(r.waiters, w)
		go func() {
			defer cancel()
			resp, err := g.c.Lock(ctx, &pb.LockRequest{Name: st.Name, Size: sizePtr(size), LockTimeoutSeconds: i32(st.Lease), WaitTimeoutSeconds: i32(st.Wait)})
			at := r.us()
			w.mu.Lock()
			defer w.mu.Unlock()
			w.o.Returned = true
			w.o.AckUs = at
			if err != nil {
				w.o.TransportErr = err.Error()
				return
			}
			w.o.Locked = resp.Locked
			w.o.Key = resp.Key
			w.o.ErrCode, w.o.ErrMsg = pbErr(resp.Error)
		}()
		// the server logs "Lock request" before it parks the call
		seen := false
		deadline := time.Now().Add(2 * time.Second)
		for time.Now().Before(deadline) {
			if countLines(log.String(), `"msg":"Lock request"`, `"lock":`+jsonStr(st.Name)) > before {
				seen = true
				break
			}
			time.Sleep(2 * time.Millisecond)
		}
		time.Sleep(30 * time.Millisecond) // from the log line to the semaphore's queue
		w.mu.Lock()
		w.o.ParkedSeen = seen
		w.mu.Unlock()
		o.Waiters = r.waiterSnapshot(st.Name)
	case "await": // until Count blocked calls on Name have returned, at most Ms
		deadline := time.Now().Add(time.Duration(st.Ms) * time.Millisecond)
		for time.Now().Before(deadline) && r.returnedWaiters(st.Name) < st.Count {
			time.Sleep(2 * time.Millisecond)
		}
		o.AckUs = r.us()
		o.Waiters = r.waiterSnapshot(st.Name)
		for _, w := range o.Waiters {
			if w.Returned && w.Locked && w.ID != "" {
				r.holds[w.ID] = &hold{name: w.Name, key: w.Key, size: r.sizes[w.Name]}
			}
		}
	case "waiters": // the state of the blocked calls on Name after Ms more
		time.Sleep(time.Duration(st.Ms) * time.Millisecond)
		o.AckUs = r.us()
		o.Waiters = r.waiterSnapshot(st.Name)
		for _, w := range o.Waiters {
			if w.Returned && w.Locked && w.ID != "" {
				r.holds[w.ID] = &hold{name: w.Name, key: w.Key, size: r.sizes[w.Name]}
			}
		}
	case "unlock": // client C's Unlock with the name and key of hold Target (its own or another session's)
		g := r.client(st.C)
		h := r.holds[st.Target]
		if g == nil || h == nil {
			o.Skipped = "hold " + st.Target + " was never granted"
			return
		}
		ctx, cancel := context.WithTimeout(context.Background(), callTimeout)
		defer cancel()
		c := &CallObs{ID: st.Target, Name: h.name, Key: h.key, InvUs: r.us()}
		resp, err := g.c.Unlock(ctx, &pb.UnlockRequest{Name: h.name, Key: h.key})
		c.AckUs = r.us()
		o.InvUs, o.AckUs = c.InvUs, c.AckUs
		if err != nil {
			c.TransportErr = err.Error()
		} else {
			u := resp.Unlocked
			c.Unlocked = &u
			c.ErrCode, c.ErrMsg = pbErr(resp.Error)
		}
		o.Call = c
	case "renew": // client C's Renew of every hold in Targets with lease Lease
		g := r.client(st.C)
		if g == nil {
			o.Skipped = "no client"
			return
		}
		o.Calls = []CallObs{}
		for _, id := range st.Targets {
			h := r.holds[id]
			if h == nil {
				continue
			}
			ctx, cancel := context.WithTimeout(context.Background(), callTimeout)
			c := CallObs{ID: id, Name: h.name, Key: h.key, InvUs: r.us()}
			resp, err := g.c.Renew(ctx, &pb.RenewRequest{Name: h.name, Key: h.key, LockTimeoutSeconds: st.Lease})
			cancel()
			c.AckUs = r.us()
			if err != nil {
				c.TransportErr = err.Error()
			} else {
				l := resp.Locked
				c.Locked = &l
				c.ErrCode, c.ErrMsg = pbErr(resp.Error)
			}
			o.Calls = append(o.Calls, c)
		}
	case "cli_list":
		o.IpcPre = r.ipcList()
		o.InvUs = r.us()
		o.Cli = r.runCLI(st.Via, "list")
		o.AckUs = r.us()
		o.IpcPost = r.ipcList()
	case "cli_unlock":
		var name, key string
		switch st.By {
		case "key", "name":
			h := r.holds[st.Target]
			if h == nil {
				o.Skipped = "hold " + st.Target + " was never granted"
				return
			}
			name = h.name
			if st.By == "key" {
				key = h.key
			}
		default: // raw
			name, key = st.Name, st.Key
			if strings.HasPrefix(key, "@key:") {
				h := r.holds[key[5:]]
				if h == nil {
					o.Skipped = "hold " + key[5:] + " was never granted"
					return
				}
				key = h.key
			}
			if key != "" {
				key = st.KeyPre + key + st.KeyPost
			}
		}
		words := []string{"unlock"}
		if st.Sep {
			words = append(words, "--")
		}
		words = append(words, name)
		if key != "" {
			words = append(words, key)
		}
		o.IpcPre = r.ipcList()
		o.InvUs = r.us()
		o.Cli = r.runCLI(st.Via, words...)
		o.AckUs = r.us()
		o.IpcPost = r.ipcList()
		o.Cli.Name, o.Cli.Key, o.Cli.Sep = name, key, st.Sep
	case "read_state":
		r.nSnap++
		o.File = readState(r.spec.statePath, filepath.Join(r.dir, fmt.Sprintf("state.copy%d", r.nSnap)))
	case "sleep":
		time.Sleep(time.Duration(st.Ms) * time.Millisecond)
	case "sleep_since": // until Ms after the acknowledgement of step Ref
		at, ok := r.acks[st.Ref]
		if !ok {
			o.Skipped = "no such step"
			return
		}
		if d := time.Duration(at+int64(st.Ms)*1000-r.us()) * time.Microsecond; d > 0 {
			if d > 15*time.Second {
				d = 15 * time.Second
			}
			time.Sleep(d)
		}
	case "restart": // SIGTERM, wait for the exit, start the binary again on the same state file; all clients reconnect
		stop, start := &ProcObs{}, &ProcObs{}
		o.Stop, o.Start = stop, start
		stopServer(r.p, stop)
		for _, g := range r.clients {
			g.close()
		}
		r.clients = nil
		if _, err := os.Lstat(r.spec.sock); err == nil {
			stop.SocketLeft = true
			_ = os.Remove(r.spec.sock) // the restart is judged on the state file
		}
		o.InvUs = r.us() // the restored holds' leases start somewhere after this instant
		p := startServer(r.spec, start)
		if p == nil {
			r.p = nil
			return
		}
		r.p = p
		r.logs = append(r.logs, p.out)
		if err := r.connect(); err != nil {
			start.StartErr = "clients cannot reconnect: " + err.Error()
			start.Started = false
		}
	default:
		o.Skipped = "unknown op " + st.Op
	}
	return
}

func runScenario(sc Scenario, e env) (res Result) {
	t0 := time.Now()
	res.Scenario = sc
	res.Obs = []Obs{}
	res.TimersFired = []TimerFired{}
	res.EnvVar = co.ConfigEnvPrefix + "IPC_SOCKET_FILE"
	r := &run{sc: sc, e: e, t0: t0, sizes: map[string]int32{}, holds: map[string]*hold{}, acks: map[int]int64{}}
	defer func() {
		if x := recover(); x != nil {
			res.HarnessErr = fmt.Sprintf("driver panic: %v", x)
		}
		for _, w := range r.waiters {
			w.cancel()
		}
		for _, g := range r.clients {
			g.close()
		}
		if r.p != nil && !r.p.exited() {
			r.p.kill()
		}
		// what the server processes logged about lease timers
		parsed := false
		for k, lb := range r.logs {
			out := lb.String()
			for _, line := range strings.Split(out, "\n") {
				if !strings.HasPrefix(line, "{") {
					continue
				}
				var m map[string]any
				if json.Unmarshal([]byte(line), &m) != nil {
					continue
				}
				msg, _ := m["msg"].(string)
				if msg == "Unlock request" || msg == "TryLock request" || msg == "Lock request" {
					if _, ok := m["lock"].(string); ok {
						parsed = true
					}
				}
				if msg == "Lock timer timeout" {
					n, _ := m["lock"].(string)
					ky, _ := m["key"].(string)
					res.TimersFired = append(res.TimersFired, TimerFired{Run: k, Name: n, Key: ky})
				}
			}
			res.Bad = append(res.Bad, scanBad(out)...)
			if k == len(r.logs)-1 {
				res.OutputTail = tail(out, 2500)
			}
		}
		res.LogParsed = parsed
		res.WallMs = float64(time.Since(t0).Microseconds()) / 1000
	}()
	for _, l := range sc.Locks {
		r.sizes[l.Name] = l.Size
	}
	r.dir = filepath.Join(e.work, sc.ID)
	_ = os.RemoveAll(r.dir)
	if err := os.MkdirAll(r.dir, 0o755); err != nil {
		res.HarnessErr = err.Error()
		return
	}
	dlt := sc.DefaultLockTimeout
	if dlt <= 0 {
		dlt = 600
	}
	r.spec = &serverSpec{bin: e.serverBin, dir: r.dir, statePath: filepath.Join(r.dir, "state"), sock: filepath.Join(r.dir, "ipc.sock"),
		noClear: sc.NoClear, defaultLockTimeout: dlt}
	if len(r.spec.sock) > 100 {
		res.HarnessErr = "socket path too long for a unix socket: " + r.spec.sock
		return
	}
	r.p = startServer(r.spec, &res.Start)
	if r.p == nil {
		return
	}
	r.logs = append(r.logs, r.p.out)
	if sc.Clients <= 0 {
		r.sc.Clients = 2
	}
	if err := r.connect(); err != nil {
		res.HarnessErr = "clients cannot connect: " + err.Error()
		return
	}
	for i, st := range sc.Steps {
		if r.p == nil || r.p.exited() {
			res.Obs = append(res.Obs, Obs{I: i, Op: st.Op, InvUs: r.us(), AckUs: r.us(), Skipped: "the server process is gone"})
			continue
		}
		res.Obs = append(res.Obs, r.step(i, st))
	}
	// blocked calls that are still blocked: their final state
	if len(r.waiters) > 0 {
		res.Obs = append(res.Obs, Obs{I: len(sc.Steps), Op: "final_waiters", InvUs: r.us(), AckUs: r.us(), Waiters: r.waiterSnapshot("")})
	}
	return
}

// ------------------------------------------------------------------------------------------------------------- main

func main() {
	serverBin := flag.String("server", "", "the ldlm-server binary built from the tree under test")
	lockBin := flag.String("lockbin", "", "the ldlm-lock binary built from the tree under test")
	work := flag.String("work", "", "directory for the scenarios' files")
	scFile := flag.String("scenarios", "", "JSON list of scenarios (default: stdin)")
	jobs := flag.Int("jobs", 8, "scenarios run at the same time")
	flag.Parse()
	if *serverBin == "" || *lockBin == "" || *work == "" {
		fmt.Fprintln(os.Stderr, "usage: c18 -server BIN -lockbin BIN -work DIR [-scenarios FILE] [-jobs N]")
		os.Exit(2)
	}
	var raw []byte
	var err error
	if *scFile != "" {
		raw, err = os.ReadFile(*scFile)
	} else {
		raw, err = io.ReadAll(os.Stdin)
	}
	if err != nil {
		fmt.Fprintln(os.Stderr, "cannot read scenarios:", err)
		os.Exit(2)
	}
	var scs []Scenario
	if err := json.Unmarshal(raw, &scs); err != nil {
		fmt.Fprintln(os.Stderr, "cannot parse scenarios:", err)
		os.Exit(2)
	}
	_ = os.MkdirAll(*work, 0o755)
	e := env{serverBin: *serverBin, lockBin: *lockBin, work: *work}

	sigc := make(chan os.Signal, 2)
	signal.Notify(sigc, syscall.SIGINT, syscall.SIGTERM, syscall.SIGHUP)
	go func() {
		<-sigc
		killAll()
		os.Exit(3)
	}()

	var outMu sync.Mutex
	var nStarted, nFinished atomic.Int64
	enc := json.NewEncoder(os.Stdout)
	ch := make(chan Scenario)
	var wg sync.WaitGroup
	for i := 0; i < *jobs; i++ {
		wg.Add(1)
		go func() {
			defer wg.Done()
			for sc := range ch {
				if nFinished.Load() >= 6 && nStarted.Load() == 0 {
					// the binary does not come up at all: do not spend 10 s of waiting on every remaining scenario
					outMu.Lock()
					_ = enc.Encode(Result{Scenario: sc, Obs: []Obs{}, Start: ProcObs{StartErr: "skipped: the server did not start in any of the first scenarios"}})
					outMu.Unlock()
					continue
				}
				done := make(chan Result, 1)
				go func() { done <- runScenario(sc, e) }()
				var r Result
				select {
				case r = <-done:
				case <-time.After(75 * time.Second):
					r = Result{Scenario: sc, Obs: []Obs{}, HarnessErr: "scenario watchdog: the driver did not finish within 75s"}
				}
				if r.Start.Started {
					nStarted.Add(1)
				}
				nFinished.Add(1)
				outMu.Lock()
				_ = enc.Encode(r)
				outMu.Unlock()
			}
		}()
	}
	for _, sc := range scs {
		ch <- sc
	}
	close(ch)
	wg.Wait()
	killAll()
	fmt.Println(`{"meta":true,"done":true,"scenarios":` + fmt.Sprint(len(scs)) + `}`)
}
