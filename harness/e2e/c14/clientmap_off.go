//go:build !clientmap

package main

import pb "github.com/imoore76/ldlm/protos"

const haveClientMap = false

func clientMap(e *pb.Error) error { return nil }
