// Command c14: the end-to-end tie (T4) of property C14.
//
// Starts the real stack (e2e/stack) and sends every error-producing request of every RPC, in every
// state that triggers it, plus successful requests and plain refusals, through
//
//	direct     the LockServer's own methods (which Go error VARIABLE comes back, by identity)
//	grpc       a raw pb client over a real gRPC connection
//	clientmap  the pb.Error of each grpc answer fed to the client package's real mapper (build tag clientmap)
//	rest       a net/http client with the session cookie against the REST gateway
//	client     client.Client over a real connection (errors.Is against the exported variables)
//
// and prints one JSON object per observation on stdout. It does not judge: every observation is tagged
// with the condition its state + request is an instance of ("" = must succeed, "refusal" = plain refusal,
// "other:<var>" = an error outside the six conditions); checks/c14.py evaluates the property.
package main

import (
	"bytes"
	"context"
	"encoding/json"
	"errors"
	"flag"
	"fmt"
	"io"
	"net/http"
	"net/http/cookiejar"
	"os"
	"sort"
	"strings"
	"sync"
	"time"

	"google.golang.org/grpc"
	"google.golang.org/grpc/credentials/insecure"
	"google.golang.org/grpc/status"

	"github.com/imoore76/ldlm/client"
	"github.com/imoore76/ldlm/lock"
	pb "github.com/imoore76/ldlm/protos"
	"github.com/imoore76/ldlm/server"
	"github.com/imoore76/ldlm/timermap"

	"ldlmverif/e2e/stack"
)

// ------------------------------------------------------------------------------ observations

type Step struct {
	ID         string         `json:"id"`
	Rpc        string         `json:"rpc"`
	Request    map[string]any `json:"request"`
	Answer     string         `json:"answer"`
	AsExpected bool           `json:"as_expected"`
}

type Obs struct {
	Seq       int            `json:"seq"`
	ID        string         `json:"id"`
	Transport string         `json:"transport"`
	Rpc       string         `json:"rpc"`
	State     string         `json:"state"`
	Cond      string         `json:"cond"`
	Request   map[string]any `json:"request"`
	History   []Step         `json:"history"` // earlier requests of this transport on the same lock name
	// SetupOK: every earlier request on this lock name was answered the way the scenario needs (grants
	// granted, refusals refused, errors errors) — i.e. the state this request is issued in is the intended one.
	SetupOK   bool   `json:"setup_ok"`
	SetupFail string `json:"setup_fail,omitempty"`

	TransportErr string `json:"transport_err,omitempty"` // the call itself failed (gRPC status, HTTP error)
	Flag         *bool  `json:"flag"`                    // locked / unlocked as reported
	HasError     bool   `json:"has_error"`
	CodeNum      *int64 `json:"code_num,omitempty"`
	CodeName     string `json:"code_name,omitempty"`
	Message      string `json:"message,omitempty"`
	Key          string `json:"key,omitempty"`

	HTTPStatus int    `json:"http_status,omitempty"`
	Body       string `json:"body,omitempty"`

	SrvVar string `json:"srv_var,omitempty"` // direct: the variable the returned error IS ("" = nil)

	ClientNil   *bool    `json:"client_nil,omitempty"`
	ClientIs    []string `json:"client_is,omitempty"`     // exported client variables the returned error matches
	ClientSrvIs []string `json:"client_srv_is,omitempty"` // server-side variables it matches
	ClientErr   string   `json:"client_err,omitempty"`

	ElapsedMs int64 `json:"elapsed_ms"`

	derived *Obs
}

const callTimeout = 8 * time.Second

var serverVars = []struct {
	name string
	v    error
}{
	{"server.ErrEmptyName", server.ErrEmptyName},
	{"server.ErrLockWaitTimeout", server.ErrLockWaitTimeout},
	{"server.ErrLockDoesNotExistOrInvalidKey", server.ErrLockDoesNotExistOrInvalidKey},
	{"server.ErrSessionDoesNotExist", server.ErrSessionDoesNotExist},
	{"server.ErrInvalidLockTimeout", server.ErrInvalidLockTimeout},
	{"server.ErrInvalidWaitTimeout", server.ErrInvalidWaitTimeout},
	{"lock.ErrInvalidLockKey", lock.ErrInvalidLockKey},
	{"lock.ErrLockNotLocked", lock.ErrLockNotLocked},
	{"lock.ErrLockDoesNotExist", lock.ErrLockDoesNotExist},
	{"lock.ErrManagerShutdown", lock.ErrManagerShutdown},
	{"lock.ErrLockSizeMismatch", lock.ErrLockSizeMismatch},
	{"lock.ErrInvalidLockSize", lock.ErrInvalidLockSize},
	{"timermap.ErrTimerDoesNotExist", timermap.ErrTimerDoesNotExist},
	{"context.Canceled", context.Canceled},
	{"context.DeadlineExceeded", context.DeadlineExceeded},
}

var clientVars = []struct {
	name string
	v    error
}{
	{"ErrLockDoesNotExist", client.ErrLockDoesNotExist},
	{"ErrInvalidLockKey", client.ErrInvalidLockKey},
	{"ErrLockWaitTimeout", client.ErrLockWaitTimeout},
	{"ErrLockNotLocked", client.ErrLockNotLocked},
	{"ErrLockDoesNotExistOrInvalidKey", client.ErrLockDoesNotExistOrInvalidKey},
	{"ErrInvalidLockSize", client.ErrInvalidLockSize},
	{"ErrLockSizeMismatch", client.ErrLockSizeMismatch},
}

// identity of an error value, as the server-side mapper sees it (interface ==)
func identify(e error) string {
	if e == nil {
		return ""
	}
	for _, sv := range serverVars {
		if e == sv.v {
			return sv.name
		}
	}
	return "other:" + e.Error()
}

func describeClientErr(o *Obs, e error) {
	isNil := e == nil
	o.ClientNil = &isNil
	if isNil {
		return
	}
	o.ClientErr = e.Error()
	o.ClientIs, o.ClientSrvIs = []string{}, []string{}
	for _, cv := range clientVars {
		if errors.Is(e, cv.v) {
			o.ClientIs = append(o.ClientIs, cv.name)
		}
	}
	for _, sv := range serverVars {
		if errors.Is(e, sv.v) {
			o.ClientSrvIs = append(o.ClientSrvIs, sv.name)
		}
	}
}

func p32(v int32) *int32 { return &v }

func reqMap(name string, key *string, size, lockTO, waitTO *int32) map[string]any {
	m := map[string]any{"name": name}
	if key != nil {
		m["key"] = *key
	}
	if size != nil {
		m["size"] = *size
	}
	if lockTO != nil {
		m["lock_timeout_seconds"] = *lockTO
	}
	if waitTO != nil {
		m["wait_timeout_seconds"] = *waitTO
	}
	return m
}

func fillPbError(o *Obs, e *pb.Error) {
	if e == nil {
		return
	}
	o.HasError = true
	n := int64(e.Code)
	o.CodeNum = &n
	o.CodeName = e.Code.String()
	o.Message = e.Message
}

// ---------------------------------------------------------------------------------- transports

type api interface {
	name() string
	can(rpc string, size, lockTO, waitTO *int32) bool
	lock(name string, size, lockTO, waitTO *int32) *Obs
	tryLock(name string, size, lockTO *int32) *Obs
	unlock(name, key string) *Obs
	renew(name, key string, lockTO int32) *Obs
}

// --- direct

type direct struct {
	ls  *server.LockServer
	ctx context.Context
}

func (d *direct) name() string                            { return "direct" }
func (d *direct) can(string, *int32, *int32, *int32) bool { return true }
func (d *direct) fromLock(o *Obs, lk *server.Lock, err error) *Obs {
	f := false
	if lk != nil {
		f = lk.Locked
		o.Key = lk.Key
	}
	o.Flag = &f
	o.HasError = err != nil
	o.SrvVar = identify(err)
	if err != nil {
		o.Message = err.Error()
	}
	return o
}
func (d *direct) lock(name string, size, lockTO, waitTO *int32) *Obs {
	ctx, cancel := context.WithTimeout(d.ctx, callTimeout) // a Lock that never returns must not hang the harness
	defer cancel()
	lk, err := d.ls.Lock(ctx, name, size, lockTO, waitTO)
	return d.fromLock(&Obs{}, lk, err)
}
func (d *direct) tryLock(name string, size, lockTO *int32) *Obs {
	lk, err := d.ls.TryLock(d.ctx, name, size, lockTO)
	return d.fromLock(&Obs{}, lk, err)
}
func (d *direct) unlock(name, key string) *Obs {
	u, err := d.ls.Unlock(d.ctx, name, key)
	o := &Obs{Flag: &u, HasError: err != nil, SrvVar: identify(err)}
	if err != nil {
		o.Message = err.Error()
	}
	return o
}
func (d *direct) renew(name, key string, lockTO int32) *Obs {
	lk, err := d.ls.Renew(d.ctx, name, key, lockTO)
	return d.fromLock(&Obs{}, lk, err)
}

// --- raw gRPC (+ clientmap)

type rawGrpc struct {
	c   pb.LDLMClient
	mu  sync.Mutex
	cm  []*Obs // clientmap observations derived from the answers
	ctx context.Context
}

func (g *rawGrpc) name() string                            { return "grpc" }
func (g *rawGrpc) can(string, *int32, *int32, *int32) bool { return true }
func (g *rawGrpc) cctx() (context.Context, context.CancelFunc) {
	return context.WithTimeout(g.ctx, callTimeout)
}
func (g *rawGrpc) fromLock(r *pb.LockResponse, err error) *Obs {
	o := &Obs{}
	if err != nil {
		o.TransportErr = err.Error()
		return o
	}
	f := r.Locked
	o.Flag = &f
	o.Key = r.Key
	fillPbError(o, r.Error)
	g.derive(o, r.Error)
	return o
}

// derive: what the client package's mapper makes of exactly this answer's Error.
func (g *rawGrpc) derive(o *Obs, e *pb.Error) {
	if !haveClientMap {
		return
	}
	d := &Obs{Transport: "clientmap", Flag: o.Flag, HasError: o.HasError, CodeNum: o.CodeNum, CodeName: o.CodeName, Message: o.Message}
	describeClientErr(d, clientMap(e))
	o.derived = d
}
func (g *rawGrpc) lock(name string, size, lockTO, waitTO *int32) *Obs {
	ctx, cancel := g.cctx()
	defer cancel()
	r, err := g.c.Lock(ctx, &pb.LockRequest{Name: name, Size: size, LockTimeoutSeconds: lockTO, WaitTimeoutSeconds: waitTO})
	return g.fromLock(r, err)
}
func (g *rawGrpc) tryLock(name string, size, lockTO *int32) *Obs {
	ctx, cancel := g.cctx()
	defer cancel()
	r, err := g.c.TryLock(ctx, &pb.TryLockRequest{Name: name, Size: size, LockTimeoutSeconds: lockTO})
	return g.fromLock(r, err)
}
func (g *rawGrpc) unlock(name, key string) *Obs {
	ctx, cancel := g.cctx()
	defer cancel()
	r, err := g.c.Unlock(ctx, &pb.UnlockRequest{Name: name, Key: key})
	o := &Obs{}
	if err != nil {
		o.TransportErr = err.Error()
		return o
	}
	f := r.Unlocked
	o.Flag = &f
	fillPbError(o, r.Error)
	g.derive(o, r.Error)
	return o
}
func (g *rawGrpc) renew(name, key string, lockTO int32) *Obs {
	ctx, cancel := g.cctx()
	defer cancel()
	r, err := g.c.Renew(ctx, &pb.RenewRequest{Name: name, Key: key, LockTimeoutSeconds: lockTO})
	return g.fromLock(r, err)
}

// --- REST

type restT struct {
	base string
	hc   *http.Client
}

func (r *restT) name() string { return "rest" }
func (r *restT) can(rpc string, _, _, _ *int32) bool {
	return rpc != "Lock" // .api_config.yaml exposes TryLock (/v1/lock), Unlock, Renew
}
func (r *restT) post(path string, body map[string]any, flagField string) *Obs {
	o := &Obs{}
	b, _ := json.Marshal(body)
	resp, err := r.hc.Post(r.base+path, "application/json", bytes.NewReader(b))
	if err != nil {
		o.TransportErr = err.Error()
		return o
	}
	defer resp.Body.Close()
	raw, _ := io.ReadAll(io.LimitReader(resp.Body, 1<<20))
	o.HTTPStatus = resp.StatusCode
	o.Body = string(raw)
	var m map[string]any
	if err := json.Unmarshal(raw, &m); err != nil {
		o.TransportErr = "response body is not a JSON object: " + err.Error()
		return o
	}
	if resp.StatusCode != 200 {
		o.TransportErr = fmt.Sprintf("HTTP status %d", resp.StatusCode)
		return o
	}
	f, _ := m[flagField].(bool)
	o.Flag = &f
	if k, ok := m["key"].(string); ok {
		o.Key = k
	}
	if e, ok := m["error"].(map[string]any); ok && e != nil {
		o.HasError = true
		switch c := e["code"].(type) {
		case string:
			o.CodeName = c
		case float64:
			n := int64(c)
			o.CodeNum = &n
		case nil:
			// protojson omits a zero enum unless EmitUnpopulated: the zero value
			n := int64(0)
			o.CodeNum = &n
		}
		if s, ok := e["message"].(string); ok {
			o.Message = s
		}
	}
	return o
}
func (r *restT) lock(string, *int32, *int32, *int32) *Obs { return nil }
func (r *restT) tryLock(name string, size, lockTO *int32) *Obs {
	return r.post("/v1/lock", reqMap(name, nil, size, lockTO, nil), "locked")
}
func (r *restT) unlock(name, key string) *Obs {
	return r.post("/v1/unlock", reqMap(name, &key, nil, nil, nil), "unlocked")
}
func (r *restT) renew(name, key string, lockTO int32) *Obs {
	return r.post("/v1/renew", reqMap(name, &key, nil, &lockTO, nil), "locked")
}

// --- client.Client

type goClient struct{ c *client.Client }

func (g *goClient) name() string { return "client" }

// client.Client only transmits size / timeouts that are > 0 (client.go: `if o.Size > 0 { req.Size = &o.Size }`),
// so a request with a zero or negative value cannot be expressed through it.
func (g *goClient) can(rpc string, size, lockTO, waitTO *int32) bool {
	for _, v := range []*int32{size, lockTO, waitTO} {
		if v != nil && *v <= 0 && rpc != "Renew" {
			return false
		}
	}
	return true
}
func opts(size, lockTO, waitTO *int32) *client.LockOptions {
	o := &client.LockOptions{}
	if size != nil {
		o.Size = *size
	}
	if lockTO != nil {
		o.LockTimeoutSeconds = *lockTO
	}
	if waitTO != nil {
		o.WaitTimeoutSeconds = *waitTO
	}
	return o
}
func (g *goClient) fromLock(lk *client.Lock, err error) *Obs {
	o := &Obs{}
	if _, isStatus := status.FromError(err); err != nil && isStatus {
		o.TransportErr = err.Error()
		return o
	}
	f := false
	if lk != nil {
		f = lk.Locked
		o.Key = lk.Key
	}
	o.Flag = &f
	o.HasError = err != nil
	describeClientErr(o, err)
	return o
}
func (g *goClient) lock(name string, size, lockTO, waitTO *int32) *Obs {
	return g.fromLock(g.c.Lock(name, opts(size, lockTO, waitTO)))
}
func (g *goClient) tryLock(name string, size, lockTO *int32) *Obs {
	return g.fromLock(g.c.TryLock(name, opts(size, lockTO, nil)))
}
func (g *goClient) unlock(name, key string) *Obs {
	u, err := g.c.Unlock(name, key)
	o := &Obs{}
	if _, isStatus := status.FromError(err); err != nil && isStatus {
		o.TransportErr = err.Error()
		return o
	}
	o.Flag = &u
	o.HasError = err != nil
	describeClientErr(o, err)
	return o
}
func (g *goClient) renew(name, key string, lockTO int32) *Obs {
	return g.fromLock(g.c.Renew(name, key, lockTO))
}

// ------------------------------------------------------------------------------- the scenarios

type runner struct {
	t    api
	pfx  string
	out  []*Obs
	hist map[string][]Step
	only string
}

func (r *runner) n(s string) string {
	if s == "" {
		return ""
	}
	return r.pfx + "-" + s
}

func answer(o *Obs) string {
	if o.TransportErr != "" {
		return "transport error: " + o.TransportErr
	}
	s := "flag=?"
	if o.Flag != nil {
		s = fmt.Sprintf("flag=%v", *o.Flag)
	}
	switch {
	case o.SrvVar != "":
		s += " error=" + o.SrvVar
	case o.CodeName != "":
		s += " error.code=" + o.CodeName
	case o.CodeNum != nil:
		s += fmt.Sprintf(" error.code=%d", *o.CodeNum)
	case o.ClientNil != nil && !*o.ClientNil:
		s += " error=" + strings.Join(o.ClientIs, "|") + " (" + o.ClientErr + ")"
	case o.HasError:
		s += " error"
	}
	if o.Key != "" {
		s += " key=" + o.Key
	}
	return s
}

func asExpected(o *Obs, cond string) bool {
	if o.TransportErr != "" || o.Flag == nil {
		return false
	}
	switch cond {
	case ok:
		return !o.HasError && *o.Flag
	case refusal:
		return !o.HasError && !*o.Flag
	}
	return o.HasError
}

// rec completes and records one observation; returns it (nil when the transport cannot express it).
func (r *runner) rec(id, rpc, state, cond, lockName string, req map[string]any, f func() *Obs) *Obs {
	t0 := time.Now()
	o := f()
	if o == nil {
		return nil
	}
	o.ElapsedMs = time.Since(t0).Milliseconds()
	o.ID, o.Transport, o.Rpc, o.State, o.Cond, o.Request = id, r.t.name(), rpc, state, cond, req
	o.History = append([]Step{}, r.hist[lockName]...)
	o.SetupOK = true
	for _, h := range o.History {
		if !h.AsExpected && o.SetupOK {
			o.SetupOK = false
			o.SetupFail = h.ID + " was answered " + h.Answer
		}
	}
	r.hist[lockName] = append(r.hist[lockName], Step{ID: id, Rpc: rpc, Request: req, Answer: answer(o), AsExpected: asExpected(o, cond)})
	r.out = append(r.out, o)
	if d := o.derived; d != nil {
		d.ID, d.Rpc, d.State, d.Cond, d.Request, d.History, d.ElapsedMs = id, rpc, state, cond, req, o.History, o.ElapsedMs
		d.SetupOK, d.SetupFail = o.SetupOK, o.SetupFail
		r.out = append(r.out, d)
	}
	return o
}

func (r *runner) lock(id, state, cond, name string, size, lockTO, waitTO *int32) *Obs {
	if !r.t.can("Lock", size, lockTO, waitTO) {
		return nil
	}
	return r.rec(id, "Lock", state, cond, name, reqMap(name, nil, size, lockTO, waitTO), func() *Obs { return r.t.lock(name, size, lockTO, waitTO) })
}
func (r *runner) tryLock(id, state, cond, name string, size, lockTO *int32) *Obs {
	if !r.t.can("TryLock", size, lockTO, nil) {
		return nil
	}
	return r.rec(id, "TryLock", state, cond, name, reqMap(name, nil, size, lockTO, nil), func() *Obs { return r.t.tryLock(name, size, lockTO) })
}
func (r *runner) unlock(id, state, cond, name, key string) *Obs {
	return r.rec(id, "Unlock", state, cond, name, reqMap(name, &key, nil, nil, nil), func() *Obs { return r.t.unlock(name, key) })
}
func (r *runner) renew(id, state, cond, name, key string, lockTO int32) *Obs {
	return r.rec(id, "Renew", state, cond, name, reqMap(name, &key, nil, &lockTO, nil), func() *Obs { return r.t.renew(name, key, lockTO) })
}

// grant: a Lock that must be granted; transports without Lock (REST) use TryLock to reach the same state.
func (r *runner) grant(id, state, name string, size, lockTO, waitTO *int32) *Obs {
	if r.t.can("Lock", size, lockTO, waitTO) {
		return r.lock(id, state, ok, name, size, lockTO, waitTO)
	}
	return r.tryLock(id, state+" (TryLock: this transport has no Lock)", ok, name, size, lockTO)
}

func keyOf(o *Obs) string {
	if o == nil {
		return "no-key-because-the-grant-failed"
	}
	return o.Key
}

const (
	cDoesNotExist = "CLockDoesNotExist"
	cInvalidKey   = "CInvalidKey"
	cWaitTimeout  = "CWaitTimeout"
	cRenew        = "CRenewDoesNotExistOrInvalidKey"
	cSizeMismatch = "CSizeMismatch"
	cInvalidSize  = "CInvalidSize"
	ok            = ""
	refusal       = "refusal"
)

func (r *runner) run() {
	var wg sync.WaitGroup
	var mu sync.Mutex
	// the slow groups (1 s wait timeout, 1 s lease) run next to each other on their own lock names;
	// observations are appended under mu and carry their own history per lock name.
	group := func(f func(r *runner)) {
		wg.Add(1)
		go func() {
			defer wg.Done()
			sub := &runner{t: r.t, pfx: r.pfx, hist: map[string][]Step{}}
			f(sub)
			mu.Lock()
			r.out = append(r.out, sub.out...)
			mu.Unlock()
		}()
	}

	// --- nothing exists
	group(func(r *runner) {
		r.unlock("unlock-unknown-name", "no lock of that name has ever been requested", cDoesNotExist, r.n("never"), "some-key")
		r.renew("renew-unknown-name", "no lock of that name has ever been requested", cRenew, r.n("never"), "some-key", 10)
		r.lock("lock-size-0", "fresh name", cInvalidSize, r.n("sz0"), p32(0), nil, nil)
		r.lock("lock-size-negative", "fresh name", cInvalidSize, r.n("szneg"), p32(-1), nil, nil)
		r.tryLock("trylock-size-0", "fresh name", cInvalidSize, r.n("tsz0"), p32(0), nil)
		r.tryLock("trylock-size-negative", "fresh name", cInvalidSize, r.n("tszneg"), p32(-7), nil)
		r.lock("lock-empty-name", "any", "other:server.ErrEmptyName", "", nil, nil, nil)
		r.tryLock("trylock-empty-name", "any", "other:server.ErrEmptyName", "", nil, nil)
		r.lock("lock-negative-lock-timeout", "fresh name", "other:server.ErrInvalidLockTimeout", r.n("nlt"), nil, p32(-1), nil)
		r.tryLock("trylock-negative-lock-timeout", "fresh name", "other:server.ErrInvalidLockTimeout", r.n("tnlt"), nil, p32(-1))
		r.lock("lock-negative-wait-timeout", "fresh name", "other:server.ErrInvalidWaitTimeout", r.n("nwt"), nil, nil, p32(-1))
		r.renew("renew-timeout-0", "any", "other:server.ErrInvalidLockTimeout", r.n("never"), "some-key", 0)
		r.renew("renew-timeout-negative", "any", "other:server.ErrInvalidLockTimeout", r.n("never"), "some-key", -5)
	})

	// --- a size-1 lock held with a lease
	group(func(r *runner) {
		A := r.n("A")
		g := r.tryLock("trylock-grant", "fresh name", ok, A, nil, p32(60))
		K := keyOf(g)
		r.unlock("unlock-wrong-key", "held under another key", cInvalidKey, A, "not-the-key")
		r.renew("renew-wrong-key", "held (with a lease) under another key", cRenew, A, "not-the-key", 10)
		r.renew("renew-grant", "held with a lease under this key", ok, A, K, 30)
		r.tryLock("trylock-size-mismatch", "exists with size 1", cSizeMismatch, A, p32(2), nil)
		r.lock("lock-size-mismatch", "exists with size 1", cSizeMismatch, A, p32(2), nil, nil)
		r.tryLock("trylock-refusal", "size 1, held", refusal, A, nil, nil)
		r.tryLock("trylock-size-0-existing", "exists with size 1, held", cInvalidSize, A, p32(0), nil)
		r.lock("lock-size-negative-existing", "exists with size 1, held", cInvalidSize, A, p32(-1), nil, nil)
		r.lock("lock-wait-timeout", "size 1, held for the whole wait of 1 s", cWaitTimeout, A, nil, nil, p32(1))
		r.unlock("unlock-grant", "held under this key", ok, A, K)
		r.renew("renew-after-unlock", "unlocked a moment ago", cRenew, A, K, 10)
		r.unlock("unlock-twice", "name still known, key already released", cInvalidKey, A, K)
	})

	// --- held without a lease (granted by Lock), and a size-2 lock
	group(func(r *runner) {
		B := r.n("B")
		g := r.grant("lock-grant", "fresh name", B, nil, nil, nil)
		r.renew("renew-no-lease", "held without a lease: no timer to renew", cRenew, B, keyOf(g), 10)
		r.unlock("unlock-grant-b", "held under this key", ok, B, keyOf(g))

		C := r.n("C")
		c1 := r.tryLock("trylock-grant-size2", "fresh name, size 2", ok, C, p32(2), nil)
		c2 := r.grant("lock-grant-size2", "size 2, one unit held", C, p32(2), p32(60), p32(1))
		r.tryLock("trylock-refusal-size2", "size 2, both units held", refusal, C, p32(2), nil)
		r.tryLock("trylock-size-negative-existing-full", "exists with size 2, both units held", cInvalidSize, C, p32(-3), nil)
		r.lock("lock-size-0-existing-full", "exists with size 2, both units held", cInvalidSize, C, p32(0), nil, p32(1))
		r.tryLock("trylock-size-mismatch-default", "exists with size 2, request without size (= 1)", cSizeMismatch, C, nil, nil)
		r.lock("lock-size-mismatch-3", "exists with size 2", cSizeMismatch, C, p32(3), nil, p32(1))
		r.lock("lock-wait-timeout-size2", "size 2, both units held for the whole wait of 1 s", cWaitTimeout, C, p32(2), nil, p32(1))
		r.unlock("unlock-cross-key", "key of another lock name", cInvalidKey, C, "key-of-nothing")
		r.unlock("unlock-grant-c1", "held under this key", ok, C, keyOf(c1))
		r.unlock("unlock-grant-c2", "held under this key", ok, C, keyOf(c2))
	})

	// --- lease expiry
	group(func(r *runner) {
		E := r.n("E")
		g := r.tryLock("trylock-grant-lease1", "fresh name, lease of 1 s", ok, E, nil, p32(1))
		time.Sleep(1500 * time.Millisecond)
		r.renew("renew-after-expiry", "lease expired 0.5 s ago", cRenew, E, keyOf(g), 10)
		r.unlock("unlock-after-expiry", "lease expired 0.5 s ago: name known, key released", cInvalidKey, E, keyOf(g))
		r.tryLock("trylock-grant-after-expiry", "free again after expiry", ok, E, nil, nil)
	})
	wg.Wait()
}

// ---------------------------------------------------------------------------------------- main

func main() {
	verbose := flag.Bool("v", false, "keep the server's log on stderr")
	flag.Parse()
	// Whatever happens, end: the check must never hang on us.
	go func() {
		time.Sleep(90 * time.Second)
		fmt.Fprintln(os.Stderr, "c14: watchdog: still running after 90 s")
		os.Exit(3)
	}()

	st, err := stack.Start(stack.Options{Verbose: *verbose})
	if err != nil {
		fmt.Fprintln(os.Stderr, "c14: cannot start the stack:", err)
		os.Exit(2)
	}
	defer st.Close()

	var transports []api
	var notes []string

	_, dctx := st.LS.CreateSession(context.Background(), map[string]any{"remote_address": "direct"})
	transports = append(transports, &direct{ls: st.LS, ctx: dctx})

	conn, err := grpc.NewClient(st.GrpcAddr, grpc.WithTransportCredentials(insecure.NewCredentials()))
	if err != nil {
		notes = append(notes, "grpc.NewClient: "+err.Error())
	} else {
		defer conn.Close()
		transports = append(transports, &rawGrpc{c: pb.NewLDLMClient(conn), ctx: context.Background()})
	}

	jar, _ := cookiejar.New(nil)
	hc := &http.Client{Jar: jar, Timeout: callTimeout}
	base := "http://" + st.RestAddr
	if resp, err := hc.Post(base+"/session", "application/json", nil); err != nil {
		notes = append(notes, "POST /session: "+err.Error())
	} else {
		io.Copy(io.Discard, resp.Body)
		resp.Body.Close()
		if resp.StatusCode != http.StatusCreated {
			notes = append(notes, fmt.Sprintf("POST /session: status %d", resp.StatusCode))
		} else {
			transports = append(transports, &restT{base: base, hc: hc})
		}
	}

	cctx, ccancel := context.WithTimeout(context.Background(), 40*time.Second)
	defer ccancel()
	gc, err := client.New(cctx, client.Config{Address: st.GrpcAddr, NoAutoRenew: true})
	if err != nil {
		notes = append(notes, "client.New: "+err.Error())
	} else {
		defer gc.Close()
		transports = append(transports, &goClient{c: gc})
	}

	var wg sync.WaitGroup
	runners := make([]*runner, len(transports))
	for i, t := range transports {
		runners[i] = &runner{t: t, pfx: t.name(), hist: map[string][]Step{}}
		wg.Add(1)
		go func(r *runner) {
			defer wg.Done()
			defer func() {
				if p := recover(); p != nil {
					r.out = append(r.out, &Obs{ID: "panic", Transport: r.t.name(), TransportErr: fmt.Sprint("harness panic: ", p)})
				}
			}()
			r.run()
		}(runners[i])
	}
	wg.Wait()

	enc := json.NewEncoder(os.Stdout)
	seq := 0
	for _, r := range runners {
		sort.SliceStable(r.out, func(i, j int) bool {
			if r.out[i].ID != r.out[j].ID {
				return r.out[i].ID < r.out[j].ID
			}
			return r.out[i].Transport < r.out[j].Transport
		})
		for _, o := range r.out {
			seq++
			o.Seq = seq
			enc.Encode(o)
		}
	}
	enc.Encode(map[string]any{"meta": true, "observations": seq, "notes": notes, "clientmap": haveClientMap,
		"transports": func() []string {
			s := []string{}
			for _, t := range transports {
				s = append(s, t.name())
			}
			return s
		}()})
}
