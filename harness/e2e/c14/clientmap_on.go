//go:build clientmap

package main

import (
	"github.com/imoore76/ldlm/client"
	pb "github.com/imoore76/ldlm/protos"
)

// Built with an overlay that adds client/verif_export.go (build tag verif) to the tree under test:
// the client package's own, unexported mapper, applied to a real answer of the real server.
const haveClientMap = true

func clientMap(e *pb.Error) error { return client.VerifErrorOf(e) }
