#!/usr/bin/env python3
"""Sensitivity run of the T4-kill tie (lib/killtie.py): re-introduces defects into a SCRATCH worktree of /repo, one at a time,
and reports what `python3 -m lib.killtie` (VERIF_REPO = the worktree) says about each. Nothing here is needed by the checks; the
scratch lives under /tmp/c09kill and is removed afterwards.

    python3 harness/e2e/c09/sensitivity.py [--tier quick|thorough] [--seed N] [--only i,ii,iii,r,w] [--keep]

  i    store.Write rewrites the state file in place (Truncate(0); Seek; Write; Sync) instead of temp file + rename
  ii   server.TryLock / Lock persist the grant after the response path: go l.sessionMgr.AddLock(...)
  iii  server.Unlock acknowledges before the entry is removed: go l.sessionMgr.RemoveLock(...)
  r    harmless refactor (store.Write through a helper, Unlock's branches reshaped): must stay quiet
  w    the window of the recorded finding F-OVER widened (2 ms pause between release and RemoveLock in Unlock and in the lease
       callback; behaviour otherwise unchanged): must be reported as KNOWN-FINDING F-OVER, not as a violation
"""
import argparse
import os
import shutil
import subprocess
import sys
from pathlib import Path

VERIF = Path(__file__).resolve().parent.parent.parent.parent
REPO = Path(os.environ.get("VERIF_REPO_BASE", "/repo"))
SCRATCH = Path("/tmp/c09kill")
WT = SCRATCH / "wt"
SAVED = SCRATCH / "pristine"


def edit(rel, old, new, count=1):
    path = WT / rel
    s = path.read_text()
    if s.count(old) < count:
        raise SystemExit("mutant does not apply: %r occurs %d times in %s (wanted %d)" % (old[:60], s.count(old), path, count))
    keep = SAVED / rel
    if not keep.exists():
        keep.parent.mkdir(parents=True, exist_ok=True)
        shutil.copy(path, keep)
    path.write_text(s.replace(old, new, count))


def restore():
    if SAVED.exists():
        for f in SAVED.rglob("*"):
            if f.is_file():
                shutil.copy(f, WT / f.relative_to(SAVED))
        shutil.rmtree(SAVED)


def m_write_in_place():
    s = (WT / "server/session/store/store.go").read_text()
    a = s.index("\ttmp, err := os.OpenFile(l.path+\".tmp\"")
    b = s.index("\tl.fh = tmp\n\treturn nil\n") + len("\tl.fh = tmp\n\treturn nil\n")
    edit("server/session/store/store.go", s[a:b],
         "\tl.fh.Truncate(0)\n\tl.fh.Seek(0, io.SeekStart)\n\tif _, err := l.fh.Write(d); err != nil {\n\t\tpanic(err)\n\t}\n\tl.fh.Sync()\n\treturn nil\n")


def m_addlock_async():
    edit("server/server.go", "\t\tl.sessionMgr.AddLock(name, key, *size, sessionId)\n", "\t\tgo l.sessionMgr.AddLock(name, key, *size, sessionId)\n", count=2)


def m_removelock_async():
    edit("server/server.go",
         "\tif unlocked {\n\t\t// Remove from lock map and lock timer\n\t\tl.sessionMgr.RemoveLock(name, key, sessionId)\n",
         "\tif unlocked {\n\t\t// Remove from lock map and lock timer\n\t\tgo l.sessionMgr.RemoveLock(name, key, sessionId)\n")


def m_refactor():
    s = (WT / "server/session/store/store.go").read_text()
    a = s.index("\ttmp, err := os.OpenFile(l.path+\".tmp\"")
    b = s.index("\tl.fh = tmp\n\treturn nil\n") + len("\tl.fh = tmp\n\treturn nil\n")
    edit("server/session/store/store.go", s[a:b],
         "\tnext := l.replace(d)\n\tl.fh.Close()\n\tl.fh = next\n\treturn nil\n}\n\n"
         "// replace writes data to a temporary file, renames it over the state file and returns it\n"
         "func (l *store) replace(data []byte) *os.File {\n"
         "\tname := l.path + \".tmp\"\n"
         "\tf, err := os.OpenFile(name, os.O_RDWR|os.O_CREATE|os.O_TRUNC, 0644)\n\tif err != nil {\n\t\tpanic(err)\n\t}\n"
         "\tfor len(data) > 0 {\n\t\tn, err := f.Write(data)\n\t\tif err != nil {\n\t\t\tpanic(err)\n\t\t}\n\t\tdata = data[n:]\n\t}\n"
         "\tf.Sync()\n\tif err := os.Rename(name, l.path); err != nil {\n\t\tpanic(err)\n\t}\n\treturn f\n")
    edit("server/server.go",
         "\tif stopped := l.lockTimerMgr.Remove(timerKey(name, key)); stopped {\n\t\t// It was stopped before firing or did not exist. Unlock the lock.\n\t\tunlocked, err = l.lockMgr.Unlock(name, key)\n\t} else {\n"
         "\t\t// The timer was not stopped before firing, so it has already unlocked the lock.\n\t\tunlocked = true\n\t}\n\n"
         "\tif unlocked {\n\t\t// Remove from lock map and lock timer\n\t\tl.sessionMgr.RemoveLock(name, key, sessionId)\n\t}\n",
         "\tunlocked = true\n\tif l.lockTimerMgr.Remove(timerKey(name, key)) {\n\t\tunlocked, err = l.lockMgr.Unlock(name, key)\n\t}\n"
         "\tswitch {\n\tcase !unlocked:\n\tdefault:\n\t\tl.sessionMgr.RemoveLock(name, key, sessionId)\n\t}\n")


def m_widen_fover():
    edit("server/server.go",
         "\tif unlocked {\n\t\t// Remove from lock map and lock timer\n\t\tl.sessionMgr.RemoveLock(name, key, sessionId)\n",
         "\tif unlocked {\n\t\ttime.Sleep(2 * time.Millisecond)\n\t\tl.sessionMgr.RemoveLock(name, key, sessionId)\n")
    edit("server/server.go", "\t\t}()\n\t\tl.sessionMgr.RemoveLock(name, key, sessionId)\n",
         "\t\t}()\n\t\ttime.Sleep(2 * time.Millisecond)\n\t\tl.sessionMgr.RemoveLock(name, key, sessionId)\n")


MUTANTS = [
    ("i", "store.Write rewrites the state file in place (F-TRUNC re-introduced)", m_write_in_place, "violation"),
    ("ii", "TryLock/Lock: go sessionMgr.AddLock(...) — the grant is acknowledged before it is persisted", m_addlock_async, "violation"),
    ("iii", "Unlock: go sessionMgr.RemoveLock(...) — the release is acknowledged before the entry is removed", m_removelock_async, "violation"),
    ("r", "harmless refactor of store.Write and server.Unlock", m_refactor, "quiet"),
    ("w", "F-OVER's window widened by 2 ms (behaviour unchanged)", m_widen_fover, "known"),
]


def main():
    ap = argparse.ArgumentParser()
    ap.add_argument("--tier", default="quick")
    ap.add_argument("--seed", default="1")
    ap.add_argument("--only", default="")
    ap.add_argument("--keep", action="store_true")
    a = ap.parse_args()
    only = set(x for x in a.only.split(",") if x)
    shutil.rmtree(SCRATCH, ignore_errors=True)
    subprocess.run(["git", "-C", str(REPO), "worktree", "prune"], check=False)
    SCRATCH.mkdir(parents=True)
    subprocess.run(["git", "-C", str(REPO), "worktree", "add", "--detach", str(WT)], check=True, stdout=subprocess.DEVNULL, stderr=subprocess.DEVNULL)
    # the worktree starts from HEAD; carry over uncommitted edits of the base tree (normally none)
    summary = []
    try:
        for mid, what, fn, expect in MUTANTS:
            if only and mid not in only:
                continue
            restore()
            fn()
            env = dict(os.environ, VERIF_REPO=str(WT))
            p = subprocess.run([sys.executable, "-m", "lib.killtie", "--tier", a.tier, "--seed", a.seed], cwd=str(VERIF), env=env,
                               stdout=subprocess.PIPE, stderr=subprocess.STDOUT, text=True, timeout=3600)
            out = p.stdout
            viol = [l for l in out.splitlines() if l.startswith("VIOLATION")]
            texts = [out.splitlines()[i + 1].strip() for i, l in enumerate(out.splitlines()) if l.startswith("VIOLATION") and i + 1 < len(out.splitlines())]
            known = [l for l in out.splitlines() if l.startswith("KNOWN-FINDING")]
            got = "violation" if viol else ("known" if known else "quiet")
            nfail = [l for l in out.splitlines() if '"kills_failing"' in l]
            print("=== mutant %s: %s\n    expected %s, got %s (exit %d)%s" % (mid, what, expect, got, p.returncode, "   " + nfail[0].strip() if nfail else ""))
            for v, t in zip(viol, texts):
                print("    " + v[:200])
                print("      " + t[:900])
            for k in known:
                print("    " + k[:700])
            print("    " + out.strip().splitlines()[-1])
            ok = (got == expect) or (expect == "known" and not viol and known) or (expect == "quiet" and not viol)
            summary.append((mid, expect, got, ok))
    finally:
        restore()
        if not a.keep:
            subprocess.run(["git", "-C", str(REPO), "worktree", "remove", "--force", str(WT)], check=False)
            subprocess.run(["git", "-C", str(REPO), "worktree", "prune"], check=False)
            shutil.rmtree(SCRATCH, ignore_errors=True)
    print("\nsummary: " + "; ".join("%s: expected %s, got %s%s" % (m, e, g, "" if ok else "  <-- MISSED") for m, e, g, ok in summary))
    return 0 if all(ok for _, _, _, ok in summary) else 1


if __name__ == "__main__":
    sys.exit(main())
