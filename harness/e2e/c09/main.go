// Command c09: the process-level tie (T4-kill) of property C09 (a kill at any instant leaves a loadable,
// acknowledged-consistent state file).
//
// It builds nothing and decides nothing. lib/killtie.py builds the REAL server binary (go build ./cmd/server) from the
// tree under test and hands it to this driver together with a list of scenarios. Each scenario
//
//	starts the binary as a child process on a free 127.0.0.1 port with a state file and an IPC socket in the
//	scenario's own directory (optionally on a state file that already carries the holds of an earlier run),
//	runs 2-4 raw gRPC clients (one connection = one session each) through a seeded random workload of TryLock / Lock
//	with wait timeout / Unlock / Renew / reconnect on 1-3 lock names of sizes 1-3 (or an unlock+trylock ping-pong on one
//	lock, or leased holds expiring under contention), every client logging each ACKNOWLEDGED grant and release and each
//	call that never got an answer with monotonic timestamps (microseconds since the scenario's origin),
//	sends SIGKILL at a seeded instant (a point in time, or right after the n-th acknowledged grant / release / leased
//	grant plus a delay), with one clock reading immediately before and one immediately after the kill,
//	copies the state file the dead process left and decodes it with the tree's own store (server/session/store),
//	starts the binary again on that file (fresh port, stale socket removed), takes the admin listing through the IPC
//	socket, probes every fully restored lock with TryLock (must be refused) and every restored hold a client knows
//	with Unlock under its original key (must succeed), and kills the second process.
//
// Output: one JSON object per scenario on stdout with everything observed. lib/killtie.py evaluates the clauses of the
// property from these observations.
//
// Children never outlive the driver: they stay in the driver's process group (which lib/killtie.py kills as a whole),
// every scenario has a watchdog, and the driver kills all live children when it is told to stop.
package main

import (
	"bytes"
	"context"
	"crypto/sha256"
	"encoding/hex"
	"encoding/json"
	"errors"
	"flag"
	"fmt"
	"io"
	"math/rand"
	gonet "net"
	"net/rpc"
	"os"
	"os/exec"
	"os/signal"
	"path/filepath"
	"regexp"
	"sort"
	"strconv"
	"strings"
	"sync"
	"sync/atomic"
	"syscall"
	"time"

	"google.golang.org/grpc"
	"google.golang.org/grpc/connectivity"
	"google.golang.org/grpc/credentials/insecure"

	pb "github.com/imoore76/ldlm/protos"
	cl "github.com/imoore76/ldlm/server/clientlock"
	"github.com/imoore76/ldlm/server/ipc"
	"github.com/imoore76/ldlm/server/session/store"
)

// ------------------------------------------------------------------------------------------------ scenario / result

type LockSpec struct {
	Name string `json:"name"`
	Size int32  `json:"size"`
}

type KillSpec struct {
	Kind    string `json:"kind"`     // time | after_ack | on_change
	AtUs    int64  `json:"at_us"`    // time: microseconds after the start of the workload
	AckKind string `json:"ack_kind"` // after_ack: grant | release | leased_grant | any
	AckN    int64  `json:"ack_n"`    // after_ack: the n-th such acknowledgement (1-based) triggers the kill; on_change: the n-th observed change
	DelayUs int64  `json:"delay_us"` // after_ack / on_change: pause between the trigger and the kill
	// on_change: the driver polls stat(state file) in a tight loop and counts the changes of (size, inode, mtime) it sees:
	// the kill lands where the file is being replaced / rewritten
}

type Scenario struct {
	ID         string     `json:"id"`
	Seed       int64      `json:"seed"`
	Mode       string     `json:"mode"` // mix | pingpong | expiry
	Clients    int        `json:"clients"`
	Locks      []LockSpec `json:"locks"`
	NoClear    bool       `json:"no_clear"`    // --no_clear_on_disconnect
	Leases     []int32    `json:"leases"`      // lock timeouts (seconds) the clients draw from; 0 = none
	PReconnect float64    `json:"p_reconnect"` // mix: probability of a reconnect step
	Lockers    int        `json:"lockers"`     // pingpong / expiry: how many of the contending clients use blocking Lock
	Writers    int        `json:"writers"`     // pingpong: the last `writers` clients take and give back units of locks[1] instead (they keep the state file busy)
	Preload    int        `json:"preload"`     // holds of an earlier run written to the state file before the first start
	Kill       KillSpec   `json:"kill"`
	MaxMs      int        `json:"max_ms"` // the kill is sent at the latest this long after the start of the workload
}

// Op is one call of a client. Refused TryLock / Lock calls that were answered are only counted.
type Op struct {
	C     int    `json:"c"`    // client
	Conn  int    `json:"conn"` // connection (= session) generation of the client
	Op    string `json:"op"`   // trylock lock unlock renew reconnect
	Name  string `json:"name,omitempty"`
	Key   string `json:"key,omitempty"`
	Size  int32  `json:"size,omitempty"`
	Lease int32  `json:"lease,omitempty"`
	Wait  int32  `json:"wait,omitempty"`
	InvUs int64  `json:"inv_us"`
	AckUs int64  `json:"ack_us"` // -1: no answer (in flight at the kill)
	OK    bool   `json:"ok"`     // locked / unlocked / reconnected
	Err   string `json:"err,omitempty"`
	TErr  string `json:"terr,omitempty"`
}

type ProcObs struct {
	Started    bool     `json:"started"`
	StartErr   string   `json:"start_err,omitempty"`
	Attempts   int      `json:"attempts"`
	Args       []string `json:"args,omitempty"`
	Exited     bool     `json:"exited"`
	ExitCode   int      `json:"exit_code"`
	KilledBy   string   `json:"killed_by,omitempty"`
	DiedEarly  bool     `json:"died_early"` // exited before the driver's kill
	Bad        []string `json:"bad_output,omitempty"`
	OutputTail string   `json:"output_tail,omitempty"`
	// "address already in use": every attempt to start lost its port to another process (other checks start servers on
	// this machine at the same time and find their ports the same way). Not an observation about the server: the
	// oracle (lib/killtie.py) does not judge such a kill.
	BindFailure bool `json:"bind_failure,omitempty"`
}

type FileEntry struct {
	Session string `json:"session"`
	Name    string `json:"name"`
	Key     string `json:"key"`
	Size    int32  `json:"size"`
}

type FileObs struct {
	Checked bool        `json:"checked"`
	Exists  bool        `json:"exists"`
	Bytes   int64       `json:"bytes"`
	Sha     string      `json:"sha256,omitempty"`
	Hex     string      `json:"hex,omitempty"` // the image itself when it is small
	Decoded bool        `json:"decoded"`
	Err     string      `json:"err,omitempty"`
	Entries []FileEntry `json:"entries"` // without the holds of the earlier run
	Total   int         `json:"entries_total"`
	TmpLeft bool        `json:"tmp_left"`
	TmpSize int64       `json:"tmp_bytes"`
	// holds of the earlier run (scenario.preload)
	PreloadPresent int      `json:"preload_present"`
	PreloadMissing []string `json:"preload_missing,omitempty"` // first few
}

type FullProbe struct {
	Name   string `json:"name"`
	Listed int    `json:"listed"`
	Size   int32  `json:"size"`
	Locked *bool  `json:"locked"` // nil: no answer
	Err    string `json:"err,omitempty"`
}

type UnlockProbe struct {
	Name     string `json:"name"`
	Key      string `json:"key"`
	Unlocked *bool  `json:"unlocked"`
	Err      string `json:"err,omitempty"`
}

type RestartObs struct {
	Attempted      bool          `json:"attempted"`
	Proc           ProcObs       `json:"proc"`
	StartMs        float64       `json:"start_ms"`
	Listing        []FileEntry   `json:"listing"` // parsed admin listing, without the holds of the earlier run
	ListingTotal   int           `json:"listing_total"`
	ListingBad     []string      `json:"listing_unparsed,omitempty"`
	PreloadListed  int           `json:"preload_listed"`
	PreloadMissing []string      `json:"preload_not_listed,omitempty"`
	IpcErr         string        `json:"ipc_err,omitempty"`
	LoadErrors     []string      `json:"load_errors,omitempty"` // "Error locking loaded locks" lines of the second run
	Full           []FullProbe   `json:"full_probes"`
	Unlocks        []UnlockProbe `json:"unlock_probes"`
	AliveAfter     bool          `json:"alive_after_probes"`
}

type Counters struct {
	Requests   int64 `json:"requests"`
	Grants     int64 `json:"grants"`
	Leased     int64 `json:"leased_grants"`
	Releases   int64 `json:"releases"`
	Renews     int64 `json:"renews"`
	Reconnects int64 `json:"reconnects"`
	Refused    int64 `json:"refused"`
	NoAnswer   int64 `json:"no_answer"`
}

type Result struct {
	Scenario        Scenario   `json:"scenario"`
	HarnessErr      string     `json:"harness_err,omitempty"`
	SetupErr        string     `json:"setup_err,omitempty"`
	Run1            ProcObs    `json:"run1"`
	WorkloadStartUs int64      `json:"workload_start_us"`
	TriggerUs       int64      `json:"trigger_us"`   // -1: the awaited acknowledgement / change never came (kill at max_ms)
	TriggerSize     int64      `json:"trigger_size"` // on_change: size of the state file as seen at the trigger
	KillBeforeUs    int64      `json:"kill_before_us"`
	KillAfterUs     int64      `json:"kill_after_us"`
	ExitUs          int64      `json:"exit_us"`
	ClientsReturned bool       `json:"clients_returned"`
	Ops             []Op       `json:"ops"`
	Counters        Counters   `json:"counters"`
	Preloaded       int        `json:"preloaded"`
	File            FileObs    `json:"file"`
	Restart         RestartObs `json:"restart"`
	WallMs          float64    `json:"wall_ms"`
}

// ------------------------------------------------------------------------------------------------------ processes

type syncBuf struct {
	mu sync.Mutex
	b  bytes.Buffer
}

func (s *syncBuf) Write(p []byte) (int, error) {
	s.mu.Lock()
	defer s.mu.Unlock()
	return s.b.Write(p)
}

func (s *syncBuf) String() string {
	s.mu.Lock()
	defer s.mu.Unlock()
	return s.b.String()
}

type proc struct {
	cmd    *exec.Cmd
	out    *syncBuf
	done   chan struct{}
	exitAt time.Time
}

var (
	liveMu sync.Mutex
	live   = map[*proc]bool{}
)

func startProc(bin string, args []string, dir string) (*proc, error) {
	p := &proc{out: &syncBuf{}, done: make(chan struct{})}
	p.cmd = exec.Command(bin, args...)
	p.cmd.Dir = dir
	p.cmd.Stdout = p.out
	p.cmd.Stderr = p.out
	p.cmd.Stdin = nil
	p.cmd.WaitDelay = 2 * time.Second
	if err := p.cmd.Start(); err != nil {
		return nil, err
	}
	liveMu.Lock()
	live[p] = true
	liveMu.Unlock()
	go func() {
		_ = p.cmd.Wait()
		p.exitAt = time.Now()
		liveMu.Lock()
		delete(live, p)
		liveMu.Unlock()
		close(p.done)
	}()
	return p, nil
}

func (p *proc) exited() bool {
	select {
	case <-p.done:
		return true
	default:
		return false
	}
}

func (p *proc) kill() {
	if p == nil || p.cmd.Process == nil {
		return
	}
	_ = p.cmd.Process.Kill()
	select {
	case <-p.done:
	case <-time.After(3 * time.Second):
	}
}

func killAll() {
	liveMu.Lock()
	ps := make([]*proc, 0, len(live))
	for p := range live {
		ps = append(ps, p)
	}
	liveMu.Unlock()
	for _, p := range ps {
		_ = p.cmd.Process.Kill()
	}
}

func freeAddr() (string, error) {
	l, err := gonet.Listen("tcp", "127.0.0.1:0")
	if err != nil {
		return "", err
	}
	defer l.Close()
	return l.Addr().String(), nil
}

var badRe = regexp.MustCompile(`(?i)panic|fatal error|goroutine \d+ \[|SIGSEGV|runtime error|unexpected signal|concurrent map`)

func scanBad(out string) []string {
	var bad []string
	for _, line := range strings.Split(out, "\n") {
		if badRe.MatchString(line) {
			if len(line) > 300 {
				line = line[:300]
			}
			bad = append(bad, line)
			if len(bad) >= 12 {
				break
			}
		}
	}
	return bad
}

func tail(s string, n int) string {
	if len(s) > n {
		return "..." + s[len(s)-n:]
	}
	return s
}

type serverSpec struct {
	bin, dir, grpcAddr, statePath, sock string
	noClear                             bool
}

func (s *serverSpec) args() []string {
	a := []string{"--listen_address", s.grpcAddr, "--log_level", "info", "--ipc_socket_file", s.sock,
		"--default_lock_timeout", "600s", "--state_file", s.statePath}
	if s.noClear {
		a = append(a, "--no_clear_on_disconnect")
	}
	return a
}

// startServer starts the binary and waits until it logged that its listener is up and it accepts connections. On
// "address already in use" (another process took the port between probing and binding) it retries on a new port
// (first attempt + 5 retries; every start, the restart included, takes a fresh port).
func startServer(s *serverSpec, obs *ProcObs) *proc {
	for attempt := 1; attempt <= 6; attempt++ {
		obs.Attempts = attempt
		g, err := freeAddr()
		if err != nil {
			obs.StartErr = "no free port: " + err.Error()
			return nil
		}
		s.grpcAddr = g
		args := s.args()
		obs.Args = args
		p, err := startProc(s.bin, args, s.dir)
		if err != nil {
			obs.StartErr = "exec: " + err.Error()
			return nil
		}
		ready := false
		deadline := time.Now().Add(15 * time.Second)
		for time.Now().Before(deadline) {
			if p.exited() {
				break
			}
			if strings.Contains(p.out.String(), "address already in use") {
				break
			}
			if strings.Contains(p.out.String(), "gRPC server started. Listening on "+s.grpcAddr) && dialOK(s.grpcAddr) && !p.exited() {
				ready = true
				break
			}
			time.Sleep(3 * time.Millisecond)
		}
		if ready {
			// nothing of an earlier attempt that lost its port stays in the record
			obs.Started, obs.StartErr, obs.BindFailure = true, "", false
			obs.Exited, obs.ExitCode, obs.KilledBy, obs.Bad, obs.OutputTail = false, 0, "", nil, ""
			return p
		}
		exitedItself := p.exited()
		out := p.out.String()
		p.kill()
		obs.Bad = scanBad(out)
		obs.OutputTail = tail(out, 1500)
		if exitedItself {
			obs.Exited = true
			if st := p.cmd.ProcessState; st != nil {
				obs.ExitCode = st.ExitCode()
				if ws, ok := st.Sys().(syscall.WaitStatus); ok && ws.Signaled() {
					obs.KilledBy = ws.Signal().String()
				}
			}
			obs.StartErr = fmt.Sprintf("the server exited during start-up (attempt %d, exit status %d %s): %s", attempt, obs.ExitCode, obs.KilledBy, tail(out, 1200))
		} else {
			obs.StartErr = fmt.Sprintf("the server did not come up within 15 s (attempt %d): %s", attempt, tail(out, 1200))
		}
		if strings.Contains(out, "address already in use") {
			obs.BindFailure = true
			time.Sleep(time.Duration(20*attempt) * time.Millisecond)
			continue
		}
		obs.BindFailure = false
		return nil
	}
	return nil
}

func dialOK(addr string) bool {
	c, err := gonet.DialTimeout("tcp", addr, 300*time.Millisecond)
	if err != nil {
		return false
	}
	c.Close()
	return true
}

func finishObs(p *proc, obs *ProcObs) {
	obs.Exited = true
	st := p.cmd.ProcessState
	if st != nil {
		obs.ExitCode = st.ExitCode()
		if ws, ok := st.Sys().(syscall.WaitStatus); ok && ws.Signaled() {
			obs.KilledBy = ws.Signal().String()
		}
	} else {
		obs.ExitCode = -2
	}
	out := p.out.String()
	obs.Bad = scanBad(out)
	obs.OutputTail = tail(out, 1500)
	if len(obs.Bad) > 0 {
		if i := badRe.FindStringIndex(out); i != nil {
			end := i[0] + 1800
			if end > len(out) {
				end = len(out)
			}
			obs.OutputTail = out[i[0]:end]
		}
	}
}

// ---------------------------------------------------------------------------------------------------------- clients

const callTimeout = 10 * time.Second

type grpcClient struct {
	conn *grpc.ClientConn
	c    pb.LDLMClient
}

func dialGrpc(addr string) (*grpcClient, error) { return dialGrpcT(addr, 5*time.Second) }

func dialGrpcT(addr string, d time.Duration) (*grpcClient, error) {
	conn, err := grpc.NewClient(addr, grpc.WithTransportCredentials(insecure.NewCredentials()))
	if err != nil {
		return nil, err
	}
	conn.Connect()
	ctx, cancel := context.WithTimeout(context.Background(), d)
	defer cancel()
	for {
		st := conn.GetState()
		if st == connectivity.Ready {
			break
		}
		if !conn.WaitForStateChange(ctx, st) {
			conn.Close()
			return nil, fmt.Errorf("gRPC connection to %s not ready (%s)", addr, st)
		}
	}
	return &grpcClient{conn: conn, c: pb.NewLDLMClient(conn)}, nil
}

func (g *grpcClient) close() {
	if g != nil && g.conn != nil {
		g.conn.Close()
	}
}

func i32(v int32) *int32 {
	if v == 0 {
		return nil
	}
	return &v
}

func sizePtr(s int32) *int32 {
	if s <= 1 {
		return nil
	}
	return &s
}

func pbErr(e *pb.Error) string {
	if e == nil {
		return ""
	}
	return e.Code.String() + ": " + e.Message
}

func ipcList(sock string) ([]string, error) {
	type res struct {
		l   []string
		err error
	}
	ch := make(chan res, 1)
	go func() {
		c, err := rpc.DialHTTP("unix", sock)
		if err != nil {
			ch <- res{nil, err}
			return
		}
		defer c.Close()
		out := new(ipc.ListLocksResponse)
		err = c.Call("IPC.ListLocks", ipc.ListLocksRequest{}, out)
		ch <- res{[]string(*out), err}
	}()
	select {
	case r := <-ch:
		return r.l, r.err
	case <-time.After(8 * time.Second):
		return nil, errors.New("IPC ListLocks: no answer within 8s")
	}
}

const preloadKeyPrefix = "00000000-0000-4000-8000-"

func preloadName(i int) string { return fmt.Sprintf("p%d", i) }
func preloadKey(i int) string  { return fmt.Sprintf("%s%012d", preloadKeyPrefix, i) }

// readState decodes a copy of the state file with the tree's own store.
func readState(path string, nPreload int) (fo FileObs) {
	fo.Checked = true
	fo.Entries = []FileEntry{}
	if st, err := os.Stat(path + ".tmp"); err == nil {
		fo.TmpLeft = true
		fo.TmpSize = st.Size()
	}
	raw, err := os.ReadFile(path)
	if err != nil {
		fo.Err = "read: " + err.Error()
		return
	}
	fo.Exists = true
	fo.Bytes = int64(len(raw))
	h := sha256.Sum256(raw)
	fo.Sha = hex.EncodeToString(h[:])
	if len(raw) <= 1536 {
		fo.Hex = hex.EncodeToString(raw)
	}
	img := path + ".img"
	if err := os.WriteFile(img, raw, 0o644); err != nil {
		fo.Err = "copy: " + err.Error()
		return
	}
	defer func() {
		if r := recover(); r != nil {
			fo.Err = fmt.Sprintf("store.Read panicked: %v", r)
		}
	}()
	s, err := store.New(img)
	if err != nil {
		fo.Err = "store.New: " + err.Error()
		return
	}
	defer s.Close()
	m, err := s.Read()
	if err != nil {
		fo.Err = "store.Read: " + err.Error()
		return
	}
	fo.Decoded = true
	pre := map[string]bool{}
	for sid, ls := range m {
		for _, l := range ls {
			fo.Total++
			if strings.HasPrefix(l.Key(), preloadKeyPrefix) {
				pre[l.Name()+"/"+l.Key()] = true
				continue
			}
			fo.Entries = append(fo.Entries, FileEntry{Session: sid, Name: l.Name(), Key: l.Key(), Size: l.Size()})
		}
	}
	sortEntries(fo.Entries)
	for i := 0; i < nPreload; i++ {
		if pre[preloadName(i)+"/"+preloadKey(i)] {
			fo.PreloadPresent++
		} else if len(fo.PreloadMissing) < 5 {
			fo.PreloadMissing = append(fo.PreloadMissing, preloadName(i)+"/"+preloadKey(i))
		}
	}
	return
}

func sortEntries(es []FileEntry) {
	sort.Slice(es, func(i, j int) bool {
		if es[i].Name != es[j].Name {
			return es[i].Name < es[j].Name
		}
		return es[i].Key < es[j].Key
	})
}

// preload writes a state file as an earlier run of the server would have left it: n holds of one session.
func preload(path string, n int) (err error) {
	defer func() {
		if r := recover(); r != nil {
			err = fmt.Errorf("store.Write panicked: %v", r)
		}
	}()
	s, err := store.New(path)
	if err != nil {
		return err
	}
	defer s.Close()
	ls := make([]cl.Lock, 0, n)
	for i := 0; i < n; i++ {
		ls = append(ls, cl.New(preloadName(i), preloadKey(i), 1))
	}
	return s.Write(map[string][]cl.Lock{"earlier-run": ls})
}

// ------------------------------------------------------------------------------------------------------- workload

type held struct {
	name, key   string
	size, lease int32
	expectUs    int64 // client-side estimate of the lease's end (0 = no lease)
}

type runState struct {
	sc       Scenario
	t0       time.Time
	addr     string
	stop     atomic.Bool
	trigger  chan struct{}
	trigOnce sync.Once
	trigUs   atomic.Int64
	nGrant   atomic.Int64
	nLeased  atomic.Int64
	nRelease atomic.Int64
	nAny     atomic.Int64
	requests atomic.Int64
	renews   atomic.Int64
	reconn   atomic.Int64
	refused  atomic.Int64
	setupMu  sync.Mutex
	setupErr string
}

func (r *runState) us() int64 { return time.Since(r.t0).Microseconds() }

func (r *runState) setupFail(f string, a ...any) {
	r.setupMu.Lock()
	if r.setupErr == "" {
		r.setupErr = fmt.Sprintf(f, a...)
	}
	r.setupMu.Unlock()
}

func (r *runState) fire() {
	r.trigOnce.Do(func() {
		r.trigUs.Store(r.us())
		close(r.trigger)
	})
}

// acked counts an acknowledged grant / release and fires the kill trigger on the awaited one.
func (r *runState) acked(kind string, leased bool) {
	k := r.sc.Kill
	hit := func(n int64, want string) {
		if k.Kind == "after_ack" && k.AckKind == want && n == k.AckN {
			r.fire()
		}
	}
	if kind == "grant" {
		hit(r.nGrant.Add(1), "grant")
		if leased {
			hit(r.nLeased.Add(1), "leased_grant")
		}
	} else {
		hit(r.nRelease.Add(1), "release")
	}
	hit(r.nAny.Add(1), "any")
}

type client struct {
	idx   int
	run   *runState
	rng   *rand.Rand
	g     *grpcClient
	conn  int
	holds []*held
	mu    sync.Mutex
	ops   []*Op
}

func (c *client) closeConn() {
	c.mu.Lock()
	g := c.g
	c.mu.Unlock()
	g.close()
}

func (c *client) begin(o Op) *Op {
	o.C, o.Conn, o.AckUs = c.idx, c.conn, -1
	p := &o
	c.mu.Lock()
	c.ops = append(c.ops, p)
	c.mu.Unlock()
	c.run.requests.Add(1)
	p.InvUs = c.run.us()
	return p
}

// drop forgets the most recent op (an answered, refused acquisition: counted only)
func (c *client) drop(p *Op) {
	c.mu.Lock()
	if n := len(c.ops); n > 0 && c.ops[n-1] == p {
		c.ops = c.ops[:n-1]
	}
	c.mu.Unlock()
	c.run.refused.Add(1)
}

func (c *client) set(p *Op, f func(*Op)) {
	c.mu.Lock()
	f(p)
	c.mu.Unlock()
}

// acquire -> the hold, or nil (refused / error / no answer). alive=false: the connection is gone
func (c *client) acquire(name string, size, lease int32, useLock bool, wait int32) (h *held, alive bool) {
	ctx, cancel := context.WithTimeout(context.Background(), callTimeout)
	defer cancel()
	var r *pb.LockResponse
	var err error
	var p *Op
	if useLock {
		p = c.begin(Op{Op: "lock", Name: name, Size: size, Lease: lease, Wait: wait})
		r, err = c.g.c.Lock(ctx, &pb.LockRequest{Name: name, Size: sizePtr(size), LockTimeoutSeconds: i32(lease), WaitTimeoutSeconds: i32(wait)})
	} else {
		p = c.begin(Op{Op: "trylock", Name: name, Size: size, Lease: lease})
		r, err = c.g.c.TryLock(ctx, &pb.TryLockRequest{Name: name, Size: sizePtr(size), LockTimeoutSeconds: i32(lease)})
	}
	ack := c.run.us()
	if err != nil {
		c.set(p, func(p *Op) { p.TErr = err.Error() })
		return nil, false
	}
	if r.Locked && r.Error == nil {
		c.set(p, func(p *Op) { p.AckUs, p.OK, p.Key = ack, true, r.Key })
		c.run.acked("grant", lease > 0)
		h = &held{name: name, key: r.Key, size: size, lease: lease}
		if lease > 0 {
			h.expectUs = ack + int64(lease)*1_000_000
		}
		c.holds = append(c.holds, h)
		return h, true
	}
	if r.Error != nil && r.Error.Code != pb.ErrorCode_LockWaitTimeout {
		// neither granted nor plainly refused: kept in the log
		c.set(p, func(p *Op) { p.AckUs, p.Err = ack, pbErr(r.Error) })
		return nil, true
	}
	c.drop(p)
	return nil, true
}

func (c *client) forget(h *held) {
	for i, x := range c.holds {
		if x == h {
			c.holds = append(c.holds[:i], c.holds[i+1:]...)
			return
		}
	}
}

func (c *client) unlock(h *held) (alive bool) {
	ctx, cancel := context.WithTimeout(context.Background(), callTimeout)
	defer cancel()
	p := c.begin(Op{Op: "unlock", Name: h.name, Key: h.key, Size: h.size})
	r, err := c.g.c.Unlock(ctx, &pb.UnlockRequest{Name: h.name, Key: h.key})
	ack := c.run.us()
	c.forget(h)
	if err != nil {
		c.set(p, func(p *Op) { p.TErr = err.Error() })
		return false
	}
	ok := r.Unlocked && r.Error == nil
	c.set(p, func(p *Op) { p.AckUs, p.OK, p.Err = ack, ok, pbErr(r.Error) })
	if ok {
		c.run.acked("release", false)
	}
	return true
}

func (c *client) renew(h *held, d int32) (alive bool) {
	ctx, cancel := context.WithTimeout(context.Background(), callTimeout)
	defer cancel()
	p := c.begin(Op{Op: "renew", Name: h.name, Key: h.key, Lease: d})
	r, err := c.g.c.Renew(ctx, &pb.RenewRequest{Name: h.name, Key: h.key, LockTimeoutSeconds: d})
	ack := c.run.us()
	c.run.renews.Add(1)
	if err != nil {
		c.set(p, func(p *Op) { p.TErr = err.Error() })
		return false
	}
	ok := r.Locked && r.Error == nil
	c.set(p, func(p *Op) { p.AckUs, p.OK, p.Err = ack, ok, pbErr(r.Error) })
	if ok {
		h.lease, h.expectUs = d, ack+int64(d)*1_000_000
	} else {
		c.forget(h)
	}
	return true
}

func (c *client) reconnect() (alive bool) {
	p := c.begin(Op{Op: "reconnect"})
	c.g.close()
	g, err := dialGrpcT(c.run.addr, 1500*time.Millisecond)
	ack := c.run.us()
	c.run.reconn.Add(1)
	if err != nil {
		c.set(p, func(p *Op) { p.TErr = err.Error() })
		return false
	}
	c.mu.Lock()
	p.AckUs, p.OK = ack, true
	c.g = g
	c.mu.Unlock()
	c.conn++
	if !c.run.sc.NoClear {
		c.holds = nil // the session's end releases them
	}
	return true
}

// pause sleeps d microseconds (short pauses are spun for precision); false when the run is over
func (c *client) pause(us int64) bool {
	if us > 0 {
		spin(time.Duration(us) * time.Microsecond)
	}
	return !c.run.stop.Load()
}

func spin(d time.Duration) {
	if d <= 0 {
		return
	}
	end := time.Now().Add(d)
	if d > 400*time.Microsecond {
		time.Sleep(d - 200*time.Microsecond)
	}
	for time.Now().Before(end) {
		// busy wait
	}
}

// pruneExpired drops holds whose lease ended a while ago from the client's own view
func (c *client) pruneExpired() {
	now := c.run.us()
	hs := c.holds[:0]
	for _, h := range c.holds {
		if h.expectUs != 0 && now > h.expectUs+30_000 {
			continue
		}
		hs = append(hs, h)
	}
	c.holds = hs
}

func (c *client) mixLoop() {
	sc := c.run.sc
	for !c.run.stop.Load() {
		c.pruneExpired()
		r := c.rng.Float64()
		var leased []*held
		for _, h := range c.holds {
			if h.lease > 0 {
				leased = append(leased, h)
			}
		}
		alive := true
		switch {
		case len(c.holds) > 0 && (r < 0.40 || len(c.holds) >= 3):
			alive = c.unlock(c.holds[c.rng.Intn(len(c.holds))])
		case len(leased) > 0 && r < 0.52:
			alive = c.renew(leased[c.rng.Intn(len(leased))], int32(1+c.rng.Intn(2)))
		case r >= 0.52 && r < 0.52+sc.PReconnect:
			alive = c.reconnect()
		default:
			l := sc.Locks[c.rng.Intn(len(sc.Locks))]
			lease := int32(0)
			if len(sc.Leases) > 0 {
				lease = sc.Leases[c.rng.Intn(len(sc.Leases))]
			}
			mine := false // a client never parks on a lock it holds a unit of itself (it would sit out its own wait timeout)
			for _, h := range c.holds {
				mine = mine || h.name == l.Name
			}
			if !mine && c.rng.Float64() < 0.25 {
				_, alive = c.acquire(l.Name, l.Size, lease, true, 1)
			} else {
				_, alive = c.acquire(l.Name, l.Size, lease, false, 0)
			}
		}
		if !alive {
			return
		}
		if c.rng.Intn(3) == 0 {
			if !c.pause(int64(c.rng.Intn(1500))) {
				return
			}
		}
	}
}

// pingpongLoop: give the unit back and ask for it again at once, against the other clients doing the same
func (c *client) pingpongLoop() {
	sc := c.run.sc
	l := sc.Locks[0]
	useLock := c.idx < sc.Lockers
	if len(sc.Locks) > 1 && c.idx >= sc.Clients-sc.Writers {
		l, useLock = sc.Locks[1], false
	}
	for !c.run.stop.Load() {
		if len(c.holds) > 0 {
			if !c.unlock(c.holds[0]) {
				return
			}
		}
		h, alive := c.acquire(l.Name, l.Size, 0, useLock, 1)
		if !alive {
			return
		}
		if h == nil {
			if !c.pause(int64(20 + c.rng.Intn(100))) {
				return
			}
		} else if !c.pause(int64(c.rng.Intn(300))) {
			return
		}
	}
}

// expiryLoop: the first size(l) clients take leased holds and let them run out; the others grab whatever comes free
func (c *client) expiryLoop() {
	sc := c.run.sc
	l := sc.Locks[0]
	lease := int32(1)
	if len(sc.Leases) > 0 && sc.Leases[0] > 0 {
		lease = sc.Leases[0]
	}
	holder := c.idx < int(l.Size)
	useLock := !holder && c.idx-int(l.Size) < sc.Lockers
	for !c.run.stop.Load() {
		if holder {
			h, alive := c.acquire(l.Name, l.Size, lease, false, 0)
			if !alive {
				return
			}
			if h == nil {
				if !c.pause(int64(100 + c.rng.Intn(200))) {
					return
				}
				continue
			}
			// let it run out
			for c.run.us() < h.expectUs+150_000 {
				if !c.pause(2000) {
					return
				}
			}
			c.forget(h)
			continue
		}
		h, alive := c.acquire(l.Name, l.Size, 0, useLock, 2)
		if !alive {
			return
		}
		if h == nil {
			if !c.pause(int64(40 + c.rng.Intn(160))) {
				return
			}
			continue
		}
		if !c.pause(int64(500+c.rng.Intn(4000))) || !c.unlock(h) {
			return
		}
	}
}

// ------------------------------------------------------------------------------------------------------- scenario

type env struct {
	serverBin, work string
}

var listRe = regexp.MustCompile(`^\{Name: (.*), Key: ([^,]*), Size: (-?\d+)\}$`)

func runScenario(sc Scenario, e env) (res Result) {
	wall0 := time.Now()
	res.Scenario = sc
	res.Ops = []Op{}
	res.File.Entries = []FileEntry{}
	res.Restart.Listing, res.Restart.Full, res.Restart.Unlocks = []FileEntry{}, []FullProbe{}, []UnlockProbe{}
	res.TriggerUs = -1
	var procs []*proc
	var clients []*client
	defer func() {
		if r := recover(); r != nil {
			res.HarnessErr = fmt.Sprintf("driver panic: %v", r)
		}
		for _, c := range clients {
			c.closeConn()
		}
		for _, p := range procs {
			if !p.exited() {
				p.kill()
			}
		}
		res.WallMs = float64(time.Since(wall0).Microseconds()) / 1000
	}()
	if sc.Clients < 1 || len(sc.Locks) == 0 {
		res.HarnessErr = "scenario has no clients or no locks"
		return
	}
	dir := filepath.Join(e.work, sc.ID)
	_ = os.RemoveAll(dir)
	if err := os.MkdirAll(dir, 0o755); err != nil {
		res.HarnessErr = err.Error()
		return
	}
	spec := &serverSpec{bin: e.serverBin, dir: dir, noClear: sc.NoClear, statePath: filepath.Join(dir, "state"), sock: filepath.Join(dir, "ipc.sock")}
	if sc.Preload > 0 {
		if err := preload(spec.statePath, sc.Preload); err != nil {
			res.HarnessErr = "cannot write the initial state file: " + err.Error()
			return
		}
		res.Preloaded = sc.Preload
	}
	p := startServer(spec, &res.Run1)
	if p == nil {
		return
	}
	procs = append(procs, p)

	run := &runState{sc: sc, t0: time.Now(), addr: spec.grpcAddr, trigger: make(chan struct{})}
	for i := 0; i < sc.Clients; i++ {
		g, err := dialGrpc(spec.grpcAddr)
		if err != nil {
			res.SetupErr = err.Error()
			return
		}
		c := &client{idx: i, run: run, rng: rand.New(rand.NewSource(sc.Seed*7919 + int64(i)*104729 + 1)), g: g}
		clients = append(clients, c)
	}

	// ---- the workload
	var wg sync.WaitGroup
	start := make(chan struct{})
	for _, c := range clients {
		wg.Add(1)
		go func(c *client) {
			defer wg.Done()
			defer func() {
				if r := recover(); r != nil {
					run.setupFail("client %d panicked: %v", c.idx, r)
				}
			}()
			<-start
			switch sc.Mode {
			case "pingpong":
				c.pingpongLoop()
			case "expiry":
				c.expiryLoop()
			default:
				c.mixLoop()
			}
		}(c)
	}
	res.WorkloadStartUs = run.us()
	w0 := time.Now()
	close(start)

	// ---- the kill
	maxD := time.Duration(sc.MaxMs) * time.Millisecond
	if maxD <= 0 {
		maxD = 3 * time.Second
	}
	switch sc.Kill.Kind {
	case "on_change":
		var last [3]int64
		var seen int64 = -1 // the first look is not a change
		deadline := w0.Add(maxD)
		for !p.exited() && time.Now().Before(deadline) {
			var st syscall.Stat_t
			if syscall.Stat(spec.statePath, &st) != nil {
				continue
			}
			cur := [3]int64{st.Size, int64(st.Ino), st.Mtim.Nano()}
			if cur != last {
				last = cur
				seen++
				if seen >= sc.Kill.AckN && seen > 0 {
					res.TriggerSize = st.Size
					run.fire()
					break
				}
			}
		}
		spin(time.Duration(sc.Kill.DelayUs) * time.Microsecond)
	case "after_ack":
		select {
		case <-run.trigger:
			spin(time.Duration(sc.Kill.DelayUs) * time.Microsecond)
		case <-p.done:
		case <-time.After(maxD):
		}
	default:
		d := time.Duration(sc.Kill.AtUs) * time.Microsecond
		if d > maxD {
			d = maxD
		}
		select {
		case <-p.done:
		case <-time.After(d - time.Since(w0) - 300*time.Microsecond):
			spin(d - time.Since(w0))
		}
	}
	if p.exited() {
		res.Run1.DiedEarly = true
	}
	kb := run.us()
	_ = p.cmd.Process.Kill()
	ka := run.us()
	res.KillBeforeUs, res.KillAfterUs = kb, ka
	select {
	case <-run.trigger:
		res.TriggerUs = run.trigUs.Load()
	default:
	}
	select {
	case <-p.done:
		res.ExitUs = p.exitAt.Sub(run.t0).Microseconds()
		finishObs(p, &res.Run1)
	case <-time.After(5 * time.Second):
		res.HarnessErr = "the server process was still there 5 s after SIGKILL"
		return
	}
	run.stop.Store(true)

	// ---- the clients' calls come back (transport errors)
	doneCh := make(chan struct{})
	go func() { wg.Wait(); close(doneCh) }()
	select {
	case <-doneCh:
		res.ClientsReturned = true
	case <-time.After(3 * time.Second):
	}
	for _, c := range clients {
		c.closeConn()
	}
	if !res.ClientsReturned {
		select {
		case <-doneCh:
			res.ClientsReturned = true
		case <-time.After(3 * time.Second):
		}
	}
	for _, c := range clients {
		c.mu.Lock()
		for _, o := range c.ops {
			res.Ops = append(res.Ops, *o)
		}
		c.mu.Unlock()
	}
	sort.SliceStable(res.Ops, func(i, j int) bool { return res.Ops[i].InvUs < res.Ops[j].InvUs })
	noAns := int64(0)
	for _, o := range res.Ops {
		if o.AckUs < 0 {
			noAns++
		}
	}
	res.Counters = Counters{Requests: run.requests.Load(), Grants: run.nGrant.Load(), Leased: run.nLeased.Load(), Releases: run.nRelease.Load(),
		Renews: run.renews.Load(), Reconnects: run.reconn.Load(), Refused: run.refused.Load(), NoAnswer: noAns}
	run.setupMu.Lock()
	res.SetupErr = run.setupErr
	run.setupMu.Unlock()

	// ---- the image the dead process left
	res.File = readState(spec.statePath, sc.Preload)

	// ---- a new server on it
	res.Restart.Attempted = true
	_ = os.Remove(spec.sock) // the killed process leaves its socket; the restart is judged on the state file
	ts := time.Now()
	p2 := startServer(spec, &res.Restart.Proc)
	res.Restart.StartMs = float64(time.Since(ts).Microseconds()) / 1000
	if p2 == nil {
		return
	}
	procs = append(procs, p2)
	lines, err := ipcList(spec.sock)
	if err != nil {
		res.Restart.IpcErr = err.Error()
	}
	preListed := map[string]bool{}
	perName := map[string]int{}
	listed := map[string]bool{}
	for _, ln := range lines {
		m := listRe.FindStringSubmatch(ln)
		if m == nil {
			if len(res.Restart.ListingBad) < 5 {
				res.Restart.ListingBad = append(res.Restart.ListingBad, ln)
			}
			continue
		}
		res.Restart.ListingTotal++
		if strings.HasPrefix(m[2], preloadKeyPrefix) {
			preListed[m[1]+"/"+m[2]] = true
			continue
		}
		sz, _ := strconv.Atoi(m[3])
		res.Restart.Listing = append(res.Restart.Listing, FileEntry{Name: m[1], Key: m[2], Size: int32(sz)})
		perName[m[1]]++
		listed[m[1]+"/"+m[2]] = true
	}
	sortEntries(res.Restart.Listing)
	for i := 0; i < sc.Preload; i++ {
		if preListed[preloadName(i)+"/"+preloadKey(i)] {
			res.Restart.PreloadListed++
		} else if len(res.Restart.PreloadMissing) < 5 {
			res.Restart.PreloadMissing = append(res.Restart.PreloadMissing, preloadName(i)+"/"+preloadKey(i))
		}
	}
	for _, ln := range strings.Split(p2.out.String(), "\n") {
		if strings.Contains(ln, "Error locking loaded locks") && len(res.Restart.LoadErrors) < 8 {
			res.Restart.LoadErrors = append(res.Restart.LoadErrors, tail(ln, 300))
		}
	}
	if err == nil {
		probeRestored(spec, sc, perName, listed, &res)
	}
	time.Sleep(5 * time.Millisecond)
	res.Restart.AliveAfter = !p2.exited()
	_ = p2.cmd.Process.Kill()
	select {
	case <-p2.done:
	case <-time.After(3 * time.Second):
	}
	finishObs(p2, &res.Restart.Proc)
	if res.Restart.AliveAfter {
		// it was killed by the driver: not an exit of its own
		res.Restart.Proc.Exited, res.Restart.Proc.ExitCode, res.Restart.Proc.KilledBy = false, 0, ""
	}
	return
}

func probeRestored(spec *serverSpec, sc Scenario, perName map[string]int, listed map[string]bool, res *Result) {
	g, err := dialGrpc(spec.grpcAddr)
	if err != nil {
		res.Restart.IpcErr = "the restarted server accepts no gRPC client: " + err.Error()
		return
	}
	defer g.close()
	// a TryLock on every fully restored lock must be refused
	for _, l := range sc.Locks {
		if perName[l.Name] < int(l.Size) {
			continue
		}
		fp := FullProbe{Name: l.Name, Listed: perName[l.Name], Size: l.Size}
		ctx, cancel := context.WithTimeout(context.Background(), 8*time.Second)
		r, err := g.c.TryLock(ctx, &pb.TryLockRequest{Name: l.Name, Size: sizePtr(l.Size)})
		cancel()
		if err != nil {
			fp.Err = "transport: " + err.Error()
		} else {
			v := r.Locked
			fp.Locked = &v
			fp.Err = pbErr(r.Error)
			if r.Locked {
				ctx, cancel := context.WithTimeout(context.Background(), 8*time.Second)
				_, _ = g.c.Unlock(ctx, &pb.UnlockRequest{Name: l.Name, Key: r.Key})
				cancel()
			}
		}
		res.Restart.Full = append(res.Restart.Full, fp)
	}
	if sc.Preload > 0 {
		fp := FullProbe{Name: preloadName(0), Listed: 1, Size: 1}
		ctx, cancel := context.WithTimeout(context.Background(), 8*time.Second)
		r, err := g.c.TryLock(ctx, &pb.TryLockRequest{Name: preloadName(0)})
		cancel()
		if err != nil {
			fp.Err = "transport: " + err.Error()
		} else {
			v := r.Locked
			fp.Locked = &v
			fp.Err = pbErr(r.Error)
		}
		res.Restart.Full = append(res.Restart.Full, fp)
	}
	// Unlock with the original key of every restored hold a client was told about (latest grants first)
	n := 0
	for i := len(res.Ops) - 1; i >= 0 && n < 16; i-- {
		o := res.Ops[i]
		if (o.Op != "trylock" && o.Op != "lock") || !o.OK || o.AckUs < 0 || !listed[o.Name+"/"+o.Key] {
			continue
		}
		n++
		up := UnlockProbe{Name: o.Name, Key: o.Key}
		ctx, cancel := context.WithTimeout(context.Background(), 8*time.Second)
		r, err := g.c.Unlock(ctx, &pb.UnlockRequest{Name: o.Name, Key: o.Key})
		cancel()
		if err != nil {
			up.Err = "transport: " + err.Error()
		} else {
			v := r.Unlocked
			up.Unlocked = &v
			up.Err = pbErr(r.Error)
		}
		res.Restart.Unlocks = append(res.Restart.Unlocks, up)
	}
	if sc.Preload > 0 {
		up := UnlockProbe{Name: preloadName(1 % sc.Preload), Key: preloadKey(1 % sc.Preload)}
		ctx, cancel := context.WithTimeout(context.Background(), 8*time.Second)
		r, err := g.c.Unlock(ctx, &pb.UnlockRequest{Name: up.Name, Key: up.Key})
		cancel()
		if err != nil {
			up.Err = "transport: " + err.Error()
		} else {
			v := r.Unlocked
			up.Unlocked = &v
			up.Err = pbErr(r.Error)
		}
		res.Restart.Unlocks = append(res.Restart.Unlocks, up)
	}
}

// ------------------------------------------------------------------------------------------------------------- main

func main() {
	serverBin := flag.String("server", "", "the ldlm-server binary built from the tree under test")
	work := flag.String("work", "", "directory for the scenarios' files")
	scFile := flag.String("scenarios", "", "JSON list of scenarios (default: stdin)")
	jobs := flag.Int("jobs", 8, "scenarios run at the same time")
	flag.Parse()
	if *serverBin == "" || *work == "" {
		fmt.Fprintln(os.Stderr, "usage: c09 -server BIN -work DIR [-scenarios FILE] [-jobs N]")
		os.Exit(2)
	}
	var raw []byte
	var err error
	if *scFile != "" {
		raw, err = os.ReadFile(*scFile)
	} else {
		raw, err = io.ReadAll(os.Stdin)
	}
	if err != nil {
		fmt.Fprintln(os.Stderr, "cannot read scenarios:", err)
		os.Exit(2)
	}
	var scs []Scenario
	if err := json.Unmarshal(raw, &scs); err != nil {
		fmt.Fprintln(os.Stderr, "cannot parse scenarios:", err)
		os.Exit(2)
	}
	_ = os.MkdirAll(*work, 0o755)
	e := env{serverBin: *serverBin, work: *work}

	sigc := make(chan os.Signal, 2)
	signal.Notify(sigc, syscall.SIGINT, syscall.SIGTERM, syscall.SIGHUP)
	go func() {
		<-sigc
		killAll()
		os.Exit(3)
	}()

	var outMu sync.Mutex
	var nStarted, nFinished atomic.Int64
	enc := json.NewEncoder(os.Stdout)
	ch := make(chan Scenario)
	var wg sync.WaitGroup
	for i := 0; i < *jobs; i++ {
		wg.Add(1)
		go func() {
			defer wg.Done()
			for sc := range ch {
				if nFinished.Load() >= 6 && nStarted.Load() == 0 {
					// the binary does not come up at all: do not spend the start-up wait on every remaining scenario
					outMu.Lock()
					_ = enc.Encode(Result{Scenario: sc, Ops: []Op{}, Run1: ProcObs{StartErr: "skipped: the server did not start in any of the first scenarios"}})
					outMu.Unlock()
					continue
				}
				done := make(chan Result, 1)
				go func() { done <- runScenario(sc, e) }()
				var r Result
				select {
				case r = <-done:
				case <-time.After(75 * time.Second):
					r = Result{Scenario: sc, Ops: []Op{}, HarnessErr: "scenario watchdog: the driver did not finish within 75s"}
				}
				if r.Run1.Started {
					nStarted.Add(1)
				}
				nFinished.Add(1)
				outMu.Lock()
				_ = enc.Encode(r)
				outMu.Unlock()
			}
		}()
	}
	for _, sc := range scs {
		ch <- sc
	}
	close(ch)
	wg.Wait()
	killAll()
	fmt.Println(`{"meta":true,"done":true,"scenarios":` + fmt.Sprint(len(scs)) + `}`)
}
