// gen2coq — translator T3 of /verif/DESIGN.md §4.3.
//
// Reads the CURRENT source tree of imoore76/ldlm with go/parser and extracts, as data,
//   - the ErrorCode enum (protos/*.pb.go const block, cross-read from ldlm.proto),
//   - the server-side error mapper (the `switch e { case pkg.ErrX: errCode = pb.ErrorCode_Y }`
//     of the function the gRPC Service methods use for their `Error:` field),
//   - the client-side mapper (the `switch err.Code { case pb.ErrorCode_Y: return ErrX }` of the
//     function client.Client's methods use for their returned error) and the client's exported
//     `Err* = pkg.Err*` re-exports,
//   - constants, struct-tag defaults and the REST route table.
//
// Rule of the translator: a shape it does not fully understand is never guessed at. It is
// reported as a reason, the corresponding `*_recognised` flag of the generated file becomes
// `false` and the table is replaced by a degenerate one, so that nothing can be proved from it.
package main

import (
	"fmt"
	"go/ast"
	"go/parser"
	"go/token"
	"os"
	"path/filepath"
	"regexp"
	"sort"
	"strconv"
	"strings"
	"time"
)

// ---------------------------------------------------------------------------------- result

type EnumVal struct {
	Name string `json:"name"`
	Num  int64  `json:"num"`
}

type ErrCtor struct {
	Ctor   string `json:"ctor"`
	GoName string `json:"go_name"`
}

type SrvCase struct {
	Pos     string   `json:"pos"`
	Errs    []string `json:"errs"` // Go names, e.g. "lock.ErrInvalidLockKey"; "default" for the default clause
	Code    string   `json:"code"` // enum value name
	Default bool     `json:"default,omitempty"`
}

type SrvRow struct {
	Ctor   string `json:"ctor"`
	GoName string `json:"go_name"`
	Code   string `json:"code"`
	Pos    string `json:"pos"` // clause that decided it, "" = no case matched (default)
}

type CliRow struct {
	Code string `json:"code"`
	Kind string `json:"kind"` // "var" (exported client variable), "direct" (pkg.ErrX returned directly), "anon"
	Var  string `json:"var"`  // client variable name for kind var
	Ctor string `json:"ctor"` // resolved err constructor ("" for anon)
	Go   string `json:"go"`   // resolved Go name of the value ("fresh" for a client-local errors.New)
	Pos  string `json:"pos"`  // clause
	How  string `json:"how"`  // printed return expression
}

type Export struct {
	Var    string `json:"var"`
	Target string `json:"target"` // "lock.ErrX", "fresh" (errors.New in package client), "?" (anything else)
	Ctor   string `json:"ctor"`   // err constructor, "EOther" for fresh, "" when unknown
	Pos    string `json:"pos"`
}

type Route struct {
	Method string `json:"method"`
	Path   string `json:"path"`
	Rpc    string `json:"rpc"`
}

type Const struct {
	Name    string `json:"name"`    // Coq identifier
	Type    string `json:"type"`    // Z | string | bool
	Val     string `json:"val"`     // rendered Coq term
	Comment string `json:"comment"` // provenance
}

type Result struct {
	Repo string `json:"repo"`

	ErrCtors []ErrCtor `json:"err_ctors"`

	Enum      []EnumVal `json:"enum"`       // pb.go const block
	ProtoEnum []EnumVal `json:"proto_enum"` // ldlm.proto
	NameMap   []EnumVal `json:"name_map"`   // pb.go ErrorCode_name

	SrvFunc     string    `json:"srv_func"`
	SrvShape    string    `json:"srv_shape"` // "switch" | "map" ("" when not recognised)
	SrvFuncPos  string    `json:"srv_func_pos"`
	SrvInitial  string    `json:"srv_initial"`
	SrvDefault  string    `json:"srv_default"` // code of an error matching no case
	SrvCases    []SrvCase `json:"srv_cases"`
	SrvRows     []SrvRow  `json:"srv_rows"`
	CliFunc     string    `json:"cli_func"`
	CliFuncPos  string    `json:"cli_func_pos"`
	CliRows     []CliRow  `json:"cli_rows"`
	CliFallback string    `json:"cli_fallback"` // how a code outside the switch is answered
	Exports     []Export  `json:"client_exports"`

	EnumReasons  []string `json:"enum_reasons"`
	SrvReasons   []string `json:"srv_reasons"`
	CliReasons   []string `json:"cli_reasons"`
	ConstReasons []string `json:"const_reasons"`
	RouteReasons []string `json:"route_reasons"`

	Consts        []Const `json:"consts"`
	RoutesGw      []Route `json:"routes_gw"`
	RoutesYaml    []Route `json:"routes_yaml"`
	RestRegisters string  `json:"rest_registers"` // which Register* function net/rest uses

	// cmd/server main(): the shutdown steps after the wait for a signal, in order (closer.go); nil + reasons when not recognised
	CloserOrder   []string `json:"closer_order"`
	CloserReasons []string `json:"closer_reasons"`

	// atomic.go: effects and guards of the session manager's and the timer map's methods (Gen/Atomic.v)
	Atomic *Atomic `json:"atomic"`
}

func (r *Result) EnumOK() bool  { return len(r.EnumReasons) == 0 && len(r.Enum) > 0 }
func (r *Result) SrvOK() bool   { return r.EnumOK() && len(r.SrvReasons) == 0 }
func (r *Result) CliOK() bool   { return r.EnumOK() && len(r.CliReasons) == 0 }
func (r *Result) ConstOK() bool { return len(r.ConstReasons) == 0 }
func (r *Result) RouteOK() bool { return len(r.RouteReasons) == 0 }

// ------------------------------------------------------------------------------- translator

type tr struct {
	repo   string
	module string
	fset   *token.FileSet
	res    *Result
	pkgs   map[string][]*ast.File // dir (relative) -> parsed non-test files
	perr   map[string]error
	ctorOf map[string]string // Go name -> err constructor
}

const identRe = `^[A-Za-z_][A-Za-z0-9_]*$`

var identRx = regexp.MustCompile(identRe)

func Translate(repo, errV string) *Result {
	t := &tr{repo: repo, fset: token.NewFileSet(), res: &Result{Repo: repo}, pkgs: map[string][]*ast.File{},
		perr: map[string]error{}, ctorOf: map[string]string{}}
	t.module = "github.com/imoore76/ldlm"
	if b, err := os.ReadFile(filepath.Join(repo, "go.mod")); err == nil {
		if m := regexp.MustCompile(`(?m)^module\s+(\S+)`).FindSubmatch(b); m != nil {
			t.module = string(m[1])
		}
	}
	t.step(&t.res.EnumReasons, "Model/Err.v", func() { t.readErrV(errV) })
	t.step(&t.res.EnumReasons, "enum", t.readEnum)
	t.step(&t.res.SrvReasons, "server mapper", t.readSrvMapper)
	t.step(&t.res.CliReasons, "client mapper", t.readCliMapper)
	t.step(&t.res.ConstReasons, "constants", t.readConsts)
	t.step(&t.res.RouteReasons, "routes", t.readRoutes)
	t.step(&t.res.CloserReasons, "cmd/server main", t.readCloserOrder)
	if len(t.res.CloserReasons) > 0 {
		t.res.CloserOrder = nil
	}
	var atomicPanic []string
	t.step(&atomicPanic, "atomicity", t.readAtomic)
	if t.res.Atomic == nil {
		t.res.Atomic = &Atomic{}
	}
	t.res.Atomic.Reasons = append(t.res.Atomic.Reasons, atomicPanic...)
	return t.res
}

// step runs f; a panic inside the translator becomes a reason, never a crash.
func (t *tr) step(reasons *[]string, what string, f func()) {
	defer func() {
		if r := recover(); r != nil {
			*reasons = append(*reasons, fmt.Sprintf("translator failed while reading %s: %v", what, r))
		}
	}()
	f()
}

func (t *tr) pos(n ast.Node) string {
	p := t.fset.Position(n.Pos())
	rel, err := filepath.Rel(t.repo, p.Filename)
	if err != nil {
		rel = p.Filename
	}
	return fmt.Sprintf("%s:%d", rel, p.Line)
}

// files parses the non-test Go files of a directory relative to the repo (cached).
func (t *tr) files(dir string) ([]*ast.File, error) {
	if fs, ok := t.pkgs[dir]; ok {
		return fs, t.perr[dir]
	}
	var out []*ast.File
	var firstErr error
	ents, err := os.ReadDir(filepath.Join(t.repo, dir))
	if err != nil {
		firstErr = err
	}
	names := []string{}
	for _, e := range ents {
		n := e.Name()
		if e.IsDir() || !strings.HasSuffix(n, ".go") || strings.HasSuffix(n, "_test.go") {
			continue
		}
		names = append(names, n)
	}
	sort.Strings(names)
	for _, n := range names {
		f, err := parser.ParseFile(t.fset, filepath.Join(t.repo, dir, n), nil, parser.SkipObjectResolution)
		if err != nil {
			if firstErr == nil {
				firstErr = err
			}
			continue
		}
		// files excluded by a build constraint mentioning the verif tag are ours, not the tree's
		out = append(out, f)
	}
	t.pkgs[dir] = out
	t.perr[dir] = firstErr
	return out, firstErr
}

// imports maps the local name of every import of a file to its import path.
func imports(f *ast.File) map[string]string {
	m := map[string]string{}
	for _, im := range f.Imports {
		p, err := strconv.Unquote(im.Path.Value)
		if err != nil {
			continue
		}
		name := p[strings.LastIndex(p, "/")+1:]
		if im.Name != nil {
			name = im.Name.Name
		}
		m[name] = p
	}
	return m
}

// shortPkg turns an import path into the "<pkg>" used by err_go_name: the last path element.
func shortPkg(path string) string { return path[strings.LastIndex(path, "/")+1:] }

func (t *tr) isProtos(path string) bool { return path == t.module+"/protos" }

// moduleDir returns the repo-relative directory of an import path inside the module, or "".
func (t *tr) moduleDir(path string) string {
	if strings.HasPrefix(path, t.module+"/") {
		return strings.TrimPrefix(path, t.module+"/")
	}
	return ""
}

// ------------------------------------------------------------------------------- Model/Err.v

func (t *tr) readErrV(path string) {
	b, err := os.ReadFile(path)
	if err != nil {
		t.res.EnumReasons = append(t.res.EnumReasons, "cannot read "+path+": "+err.Error())
		return
	}
	s := string(b)
	i := strings.Index(s, "Definition err_go_name")
	if i < 0 {
		t.res.EnumReasons = append(t.res.EnumReasons, "Model/Err.v has no err_go_name")
		return
	}
	s = s[i:]
	if j := strings.Index(s, "end"); j >= 0 {
		s = s[:j]
	}
	for _, m := range regexp.MustCompile(`\|\s*([A-Za-z0-9_']+)\s*=>\s*"([^"]*)"`).FindAllStringSubmatch(s, -1) {
		t.res.ErrCtors = append(t.res.ErrCtors, ErrCtor{Ctor: m[1], GoName: m[2]})
		t.ctorOf[m[2]] = m[1]
	}
	if len(t.res.ErrCtors) == 0 {
		t.res.EnumReasons = append(t.res.EnumReasons, "Model/Err.v: err_go_name has no rows")
	}
}

// -------------------------------------------------------------------------------------- enum

func (t *tr) readEnum() {
	R := &t.res.EnumReasons
	files, err := t.files("protos")
	if err != nil {
		*R = append(*R, "protos: "+err.Error())
	}
	seen := map[string]bool{}
	for _, f := range files {
		for _, d := range f.Decls {
			gd, ok := d.(*ast.GenDecl)
			if !ok {
				continue
			}
			if gd.Tok == token.CONST {
				for _, sp := range gd.Specs {
					vs := sp.(*ast.ValueSpec)
					id, ok := vs.Type.(*ast.Ident)
					if !ok || id.Name != "ErrorCode" {
						continue
					}
					if len(vs.Names) != 1 || len(vs.Values) != 1 {
						*R = append(*R, t.pos(vs)+": ErrorCode constant not of the form `Name ErrorCode = <int>`")
						continue
					}
					n, ok := intLit(vs.Values[0])
					name := vs.Names[0].Name
					if !ok || !strings.HasPrefix(name, "ErrorCode_") || !identRx.MatchString(name) {
						*R = append(*R, t.pos(vs)+": ErrorCode constant "+name+" is not an integer literal")
						continue
					}
					name = strings.TrimPrefix(name, "ErrorCode_")
					if seen[name] {
						*R = append(*R, "duplicate enum constant "+name)
						continue
					}
					seen[name] = true
					t.res.Enum = append(t.res.Enum, EnumVal{name, n})
				}
			}
			if gd.Tok == token.VAR {
				for _, sp := range gd.Specs {
					vs := sp.(*ast.ValueSpec)
					if len(vs.Names) == 1 && vs.Names[0].Name == "ErrorCode_name" && len(vs.Values) == 1 {
						if cl, ok := vs.Values[0].(*ast.CompositeLit); ok {
							for _, el := range cl.Elts {
								kv, ok := el.(*ast.KeyValueExpr)
								if !ok {
									continue
								}
								n, ok1 := intLit(kv.Key)
								s, ok2 := strLit(kv.Value)
								if ok1 && ok2 {
									t.res.NameMap = append(t.res.NameMap, EnumVal{s, n})
								}
							}
						}
					}
				}
			}
		}
	}
	if len(t.res.Enum) == 0 {
		*R = append(*R, "no `ErrorCode_X ErrorCode = n` constants found under protos/")
	}
	// ldlm.proto
	if b, err := os.ReadFile(filepath.Join(t.repo, "ldlm.proto")); err != nil {
		*R = append(*R, "ldlm.proto: "+err.Error())
	} else {
		src := regexp.MustCompile(`//[^\n]*`).ReplaceAllString(string(b), "")
		m := regexp.MustCompile(`(?s)enum\s+ErrorCode\s*\{(.*?)\}`).FindStringSubmatch(src)
		if m == nil {
			*R = append(*R, "ldlm.proto: enum ErrorCode not found")
		} else {
			for _, e := range regexp.MustCompile(`([A-Za-z_][A-Za-z0-9_]*)\s*=\s*(-?\d+)\s*(?:\[[^\]]*\])?\s*;`).FindAllStringSubmatch(m[1], -1) {
				n, _ := strconv.ParseInt(e[2], 10, 64)
				t.res.ProtoEnum = append(t.res.ProtoEnum, EnumVal{e[1], n})
			}
		}
	}
}

func intLit(e ast.Expr) (int64, bool) {
	neg := false
	if u, ok := e.(*ast.UnaryExpr); ok && u.Op == token.SUB {
		neg = true
		e = u.X
	}
	if p, ok := e.(*ast.ParenExpr); ok {
		return intLit(p.X)
	}
	bl, ok := e.(*ast.BasicLit)
	if !ok || bl.Kind != token.INT {
		return 0, false
	}
	n, err := strconv.ParseInt(bl.Value, 0, 64)
	if err != nil {
		return 0, false
	}
	if neg {
		n = -n
	}
	return n, true
}

func strLit(e ast.Expr) (string, bool) {
	bl, ok := e.(*ast.BasicLit)
	if !ok || bl.Kind != token.STRING {
		return "", false
	}
	s, err := strconv.Unquote(bl.Value)
	return s, err == nil
}

func (t *tr) enumHas(name string) bool {
	for _, e := range t.res.Enum {
		if e.Name == name {
			return true
		}
	}
	return false
}

// enumSel recognises `<protos alias>.ErrorCode_X` and returns X.
func (t *tr) enumSel(e ast.Expr, imp map[string]string) (string, bool) {
	se, ok := e.(*ast.SelectorExpr)
	if !ok {
		return "", false
	}
	x, ok := se.X.(*ast.Ident)
	if !ok || !t.isProtos(imp[x.Name]) || !strings.HasPrefix(se.Sel.Name, "ErrorCode_") {
		return "", false
	}
	n := strings.TrimPrefix(se.Sel.Name, "ErrorCode_")
	return n, t.enumHas(n)
}

// --------------------------------------------------------------------------- helper: lookups

func findFunc(files []*ast.File, recv, name string) (*ast.FuncDecl, *ast.File) {
	for _, f := range files {
		for _, d := range f.Decls {
			fd, ok := d.(*ast.FuncDecl)
			if !ok || fd.Name.Name != name || fd.Body == nil {
				continue
			}
			if recv == "" && fd.Recv == nil {
				return fd, f
			}
			if recv != "" && fd.Recv != nil && len(fd.Recv.List) == 1 {
				ty := fd.Recv.List[0].Type
				if st, ok := ty.(*ast.StarExpr); ok {
					ty = st.X
				}
				if id, ok := ty.(*ast.Ident); ok && id.Name == recv {
					return fd, f
				}
			}
		}
	}
	return nil, nil
}

// pkgVar finds the package-level `var name = value` among files.
func pkgVar(files []*ast.File, name string) (ast.Expr, *ast.File, *ast.ValueSpec, bool) {
	for _, f := range files {
		for _, d := range f.Decls {
			gd, ok := d.(*ast.GenDecl)
			if !ok || gd.Tok != token.VAR {
				continue
			}
			for _, sp := range gd.Specs {
				vs := sp.(*ast.ValueSpec)
				for i, n := range vs.Names {
					if n.Name == name {
						if len(vs.Values) == len(vs.Names) {
							return vs.Values[i], f, vs, true
						}
						return nil, f, vs, true
					}
				}
			}
		}
	}
	return nil, nil, nil, false
}

// isErrorsNew recognises errors.New("literal").
func isErrorsNew(e ast.Expr, imp map[string]string) bool {
	c, ok := e.(*ast.CallExpr)
	if !ok || len(c.Args) != 1 {
		return false
	}
	se, ok := c.Fun.(*ast.SelectorExpr)
	if !ok || se.Sel.Name != "New" {
		return false
	}
	x, ok := se.X.(*ast.Ident)
	return ok && imp[x.Name] == "errors"
}

// nilCheck recognises `if p == nil { return nil }` (no init, no else).
func nilCheck(s ast.Stmt, p string) bool {
	is, ok := s.(*ast.IfStmt)
	if !ok || is.Init != nil || is.Else != nil || len(is.Body.List) != 1 {
		return false
	}
	be, ok := is.Cond.(*ast.BinaryExpr)
	if !ok || be.Op != token.EQL {
		return false
	}
	a, aok := be.X.(*ast.Ident)
	b, bok := be.Y.(*ast.Ident)
	if !aok || !bok || !((a.Name == p && b.Name == "nil") || (a.Name == "nil" && b.Name == p)) {
		return false
	}
	rs, ok := is.Body.List[0].(*ast.ReturnStmt)
	if !ok || len(rs.Results) != 1 {
		return false
	}
	id, ok := rs.Results[0].(*ast.Ident)
	return ok && id.Name == "nil"
}

func oneParam(fd *ast.FuncDecl) (string, bool) {
	if fd.Type.Params == nil || len(fd.Type.Params.List) != 1 || len(fd.Type.Params.List[0].Names) != 1 {
		return "", false
	}
	if fd.Type.Results == nil || len(fd.Type.Results.List) != 1 || len(fd.Type.Results.List[0].Names) > 1 {
		return "", false
	}
	if len(fd.Type.Results.List[0].Names) == 1 {
		return "", false // named result: bare returns possible, not handled
	}
	return fd.Type.Params.List[0].Names[0].Name, true
}

// errGoName turns a case expression into "<pkg>.<Var>" (selector through an import) or
// "<thispkg>.<Var>" (bare identifier).
func errGoName(e ast.Expr, imp map[string]string, thisPkg string) (goName, impPath string, ok bool) {
	switch x := e.(type) {
	case *ast.SelectorExpr:
		id, ok := x.X.(*ast.Ident)
		if !ok {
			return "", "", false
		}
		p, ok := imp[id.Name]
		if !ok {
			return "", "", false
		}
		return shortPkg(p) + "." + x.Sel.Name, p, true
	case *ast.Ident:
		if x.Name == "nil" || x.Name == "true" || x.Name == "false" {
			return "", "", false
		}
		return thisPkg + "." + x.Name, "", true
	case *ast.ParenExpr:
		return errGoName(x.X, imp, thisPkg)
	}
	return "", "", false
}

// mapperUsedBy looks at the methods `recv.M` for M in methods and returns the name of the function
// whose call is (a) the value of the `Error:` field of a returned composite literal (server side,
// field != "") or (b) the last result of a return statement (client side, field == "").
// Returns "" and a reason when the methods do not agree.
func mapperUsedBy(files []*ast.File, recv string, methods []string, field string) (string, string) {
	found := map[string][]string{}
	for _, m := range methods {
		fd, _ := findFunc(files, recv, m)
		if fd == nil {
			continue
		}
		ast.Inspect(fd.Body, func(n ast.Node) bool {
			if _, ok := n.(*ast.FuncLit); ok {
				return false
			}
			rs, ok := n.(*ast.ReturnStmt)
			if !ok || len(rs.Results) == 0 {
				return true
			}
			var cand ast.Expr
			if field == "" {
				cand = rs.Results[len(rs.Results)-1]
			} else {
				e := rs.Results[0]
				if u, ok := e.(*ast.UnaryExpr); ok && u.Op == token.AND {
					e = u.X
				}
				if cl, ok := e.(*ast.CompositeLit); ok {
					for _, el := range cl.Elts {
						if kv, ok := el.(*ast.KeyValueExpr); ok {
							if k, ok := kv.Key.(*ast.Ident); ok && k.Name == field {
								cand = kv.Value
							}
						}
					}
				}
			}
			if c, ok := cand.(*ast.CallExpr); ok && len(c.Args) == 1 {
				if id, ok := c.Fun.(*ast.Ident); ok {
					found[id.Name] = append(found[id.Name], m)
				}
			}
			return true
		})
	}
	delete(found, "new")
	if len(found) == 1 {
		for k, ms := range found {
			set := map[string]bool{}
			for _, m := range ms {
				set[m] = true
			}
			if len(set) == len(methods) {
				return k, ""
			}
			return k, fmt.Sprintf("only %d of the %d methods %v of %s use %s for their error", len(set), len(methods), methods, recv, k)
		}
	}
	if len(found) == 0 {
		return "", fmt.Sprintf("cannot see which function the methods %v of %s use to convert errors", methods, recv)
	}
	ks := []string{}
	for k := range found {
		ks = append(ks, k)
	}
	sort.Strings(ks)
	return "", fmt.Sprintf("the methods of %s use different error converters: %v", recv, ks)
}

// ---------------------------------------------------------------------------- server mapper

var rpcMethods = []string{"Lock", "TryLock", "Unlock", "Renew"}

func (t *tr) readSrvMapper() {
	R := &t.res.SrvReasons
	files, err := t.files("net/grpc")
	if err != nil {
		*R = append(*R, "net/grpc: "+err.Error())
	}
	if len(files) == 0 {
		*R = append(*R, "net/grpc: no Go files")
		return
	}
	name, why := mapperUsedBy(files, "Service", rpcMethods, "Error")
	if why != "" {
		*R = append(*R, why)
	}
	if name == "" {
		return
	}
	t.res.SrvFunc = name
	fd, file := findFunc(files, "", name)
	if fd == nil {
		*R = append(*R, "function "+name+" not found in net/grpc")
		return
	}
	t.res.SrvFuncPos = t.pos(fd)
	imp := imports(file)
	p, ok := oneParam(fd)
	if !ok {
		*R = append(*R, t.pos(fd)+": expected `func "+name+"(e error) *pb.Error`")
		return
	}
	st := fd.Body.List
	if len(st) >= 3 && nilCheck(st[0], p) && isMapLookup(st[1], p) {
		// the other table shape: a lookup in a package-level map literal keyed by the error values
		t.readSrvMapShape(files, fd, imp, p, st)
		return
	}
	if len(st) != 4 {
		*R = append(*R, fmt.Sprintf("%s: body has %d statements, expected 4 (nil check; code variable; switch; return)", t.pos(fd), len(st)))
		return
	}
	if !nilCheck(st[0], p) {
		*R = append(*R, t.pos(st[0])+": expected `if "+p+" == nil { return nil }`")
		return
	}
	// code variable
	var cv, initial string
	switch d := st[1].(type) {
	case *ast.DeclStmt:
		gd, ok := d.Decl.(*ast.GenDecl)
		if ok && gd.Tok == token.VAR && len(gd.Specs) == 1 {
			vs := gd.Specs[0].(*ast.ValueSpec)
			if len(vs.Names) == 1 && len(vs.Values) == 1 {
				if c, ok := t.enumSel(vs.Values[0], imp); ok {
					cv, initial = vs.Names[0].Name, c
				}
			} else if len(vs.Names) == 1 && len(vs.Values) == 0 {
				// zero value of pb.ErrorCode
				if se, ok := vs.Type.(*ast.SelectorExpr); ok && se.Sel.Name == "ErrorCode" {
					if x, ok := se.X.(*ast.Ident); ok && t.isProtos(imp[x.Name]) {
						for _, e := range t.res.Enum {
							if e.Num == 0 {
								cv, initial = vs.Names[0].Name, e.Name
							}
						}
					}
				}
			}
		}
	case *ast.AssignStmt:
		if d.Tok == token.DEFINE && len(d.Lhs) == 1 && len(d.Rhs) == 1 {
			if id, ok := d.Lhs[0].(*ast.Ident); ok {
				if c, ok := t.enumSel(d.Rhs[0], imp); ok {
					cv, initial = id.Name, c
				}
			}
		}
	}
	if cv == "" {
		*R = append(*R, t.pos(st[1])+": expected the declaration of the code variable with a constant ErrorCode")
		return
	}
	t.res.SrvInitial = initial
	// return &pb.Error{Code: cv, ...}
	okRet := t.retUsesVar(st[3], cv, imp)
	if !okRet {
		*R = append(*R, t.pos(st[3])+": expected `return &pb.Error{Code: "+cv+", ...}`")
		return
	}
	sw, ok := st[2].(*ast.SwitchStmt)
	if !ok || sw.Init != nil {
		*R = append(*R, t.pos(st[2])+": expected `switch "+p+" { ... }` (an if/errors.Is chain is not a table)")
		return
	}
	if id, ok := sw.Tag.(*ast.Ident); !ok || id.Name != p {
		*R = append(*R, t.pos(st[2])+": the switch is not on the error value "+p+" itself")
		return
	}
	deflt := initial
	var rows []srvRowT
	bad := false
	for _, c := range sw.Body.List {
		cc := c.(*ast.CaseClause)
		code := initial // an empty body leaves the variable alone
		switch len(cc.Body) {
		case 0:
		case 1:
			as, ok := cc.Body[0].(*ast.AssignStmt)
			good := false
			if ok && as.Tok == token.ASSIGN && len(as.Lhs) == 1 && len(as.Rhs) == 1 {
				if id, ok := as.Lhs[0].(*ast.Ident); ok && id.Name == cv {
					if cd, ok := t.enumSel(as.Rhs[0], imp); ok {
						code, good = cd, true
					}
				}
			}
			if !good {
				*R = append(*R, t.pos(cc.Body[0])+": case body is not `"+cv+" = pb.ErrorCode_X`")
				bad = true
				continue
			}
		default:
			*R = append(*R, t.pos(cc)+": case body has more than one statement")
			bad = true
			continue
		}
		sc := SrvCase{Pos: t.pos(cc), Code: code}
		if cc.List == nil {
			deflt = code
			sc.Default = true
			sc.Errs = []string{"default"}
			t.res.SrvCases = append(t.res.SrvCases, sc)
			continue
		}
		for _, e := range cc.List {
			gn, ipath, ok := errGoName(e, imp, "grpc")
			if !ok {
				*R = append(*R, t.pos(e)+": case expression is not an error variable")
				bad = true
				continue
			}
			sc.Errs = append(sc.Errs, gn)
			if _, known := t.ctorOf[gn]; !known {
				*R = append(*R, t.pos(e)+": case on "+gn+", which has no constructor in Model/Err.v")
				bad = true
				continue
			}
			_ = ipath
			rows = append(rows, srvRowT{gn, code, t.pos(cc)})
		}
		t.res.SrvCases = append(t.res.SrvCases, sc)
	}
	t.res.SrvShape = "switch"
	t.finishSrv(rows, deflt, bad)
}

// srvRowT: one (error variable, code) pair of the server-side table, with the clause that decides it.
type srvRowT struct {
	goName, code, pos string
}

// finishSrv: the identity check of the error variables, then one row per constructor of Model/Err.v.
func (t *tr) finishSrv(rows []srvRowT, deflt string, bad bool) {
	R := &t.res.SrvReasons
	// identity: every module-defined error variable of Model/Err.v must be its own errors.New value
	for _, ec := range t.res.ErrCtors {
		if why := t.checkErrVarFresh(ec.GoName); why != "" {
			referenced := false
			for _, r := range rows {
				if r.goName == ec.GoName {
					referenced = true
				}
			}
			if referenced || !strings.HasPrefix(why, "missing:") {
				*R = append(*R, why)
				bad = true
			}
		}
	}
	if bad {
		return
	}
	t.res.SrvDefault = deflt
	for _, ec := range t.res.ErrCtors {
		r := SrvRow{Ctor: ec.Ctor, GoName: ec.GoName, Code: deflt}
		for _, x := range rows { // first matching clause wins, as in Go
			if x.goName == ec.GoName {
				r.Code, r.Pos = x.code, x.pos
				break
			}
		}
		t.res.SrvRows = append(t.res.SrvRows, r)
	}
}

// retUsesVar recognises `return &pb.Error{Code: cv, ...}` (fields in any order, Code given exactly once, by the variable).
func (t *tr) retUsesVar(s ast.Stmt, cv string, imp map[string]string) bool {
	rs, ok := s.(*ast.ReturnStmt)
	if !ok || len(rs.Results) != 1 {
		return false
	}
	u, ok := rs.Results[0].(*ast.UnaryExpr)
	if !ok || u.Op != token.AND {
		return false
	}
	cl, ok := u.X.(*ast.CompositeLit)
	if !ok {
		return false
	}
	se, ok := cl.Type.(*ast.SelectorExpr)
	if !ok || se.Sel.Name != "Error" {
		return false
	}
	x, ok := se.X.(*ast.Ident)
	if !ok || !t.isProtos(imp[x.Name]) {
		return false
	}
	n := 0
	for _, el := range cl.Elts {
		kv, ok := el.(*ast.KeyValueExpr)
		if !ok {
			return false
		}
		if k, ok := kv.Key.(*ast.Ident); ok && k.Name == "Code" {
			if v, ok := kv.Value.(*ast.Ident); ok && v.Name == cv {
				n++
			} else {
				return false
			}
		}
	}
	return n == 1
}

// isMapLookup recognises `c := M[p]` and `c, ok := M[p]` (M and p identifiers).
func isMapLookup(s ast.Stmt, p string) bool {
	as, ok := s.(*ast.AssignStmt)
	if !ok || as.Tok != token.DEFINE || len(as.Rhs) != 1 || len(as.Lhs) < 1 || len(as.Lhs) > 2 {
		return false
	}
	ix, ok := as.Rhs[0].(*ast.IndexExpr)
	if !ok {
		return false
	}
	_, ok1 := ix.X.(*ast.Ident)
	id, ok2 := ix.Index.(*ast.Ident)
	return ok1 && ok2 && id.Name == p
}

// readSrvMapShape reads the server-side table when it is written as
//
//	var M = map[error]pb.ErrorCode{pkg.ErrX: pb.ErrorCode_Y, ...}      (package level, referenced nowhere else)
//	func f(e error) *pb.Error {
//		if e == nil { return nil }
//		c, ok := M[e]                          (or `c := M[e]`: a missing key gives the enum's zero value)
//		if !ok { c = pb.ErrorCode_Z }
//		return &pb.Error{Code: c, ...}
//	}
//
// A map lookup compares keys with ==, as `switch e { case pkg.ErrX: }` does, so on every error value of Model/Err.v the two
// shapes are the same function (they differ only on values of an unhashable dynamic type: the lookup panics, the switch
// does not match; no constructor of Model/Err.v is such a value). Anything that could change the map after its literal
// (any other mention of M in the package), a repeated key or a non-constant value makes the shape unrecognised.
func (t *tr) readSrvMapShape(files []*ast.File, fd *ast.FuncDecl, imp map[string]string, p string, st []ast.Stmt) {
	R := &t.res.SrvReasons
	as := st[1].(*ast.AssignStmt)
	ix := as.Rhs[0].(*ast.IndexExpr)
	mname := ix.X.(*ast.Ident).Name
	cvId, ok := as.Lhs[0].(*ast.Ident)
	if !ok || cvId.Name == "_" || cvId.Name == mname || p == mname {
		*R = append(*R, t.pos(st[1])+": expected `code[, ok] := <table>["+p+"]`")
		return
	}
	cv := cvId.Name
	deflt := ""
	var ret ast.Stmt
	switch {
	case len(as.Lhs) == 2 && len(st) == 4:
		okId, isId := as.Lhs[1].(*ast.Ident)
		is, isIf := st[2].(*ast.IfStmt)
		good := false
		if isId && isIf && okId.Name != "_" && is.Init == nil && is.Else == nil && len(is.Body.List) == 1 {
			if u, ok := is.Cond.(*ast.UnaryExpr); ok && u.Op == token.NOT {
				if c, ok := u.X.(*ast.Ident); ok && c.Name == okId.Name {
					if a2, ok := is.Body.List[0].(*ast.AssignStmt); ok && a2.Tok == token.ASSIGN && len(a2.Lhs) == 1 && len(a2.Rhs) == 1 {
						if l, ok := a2.Lhs[0].(*ast.Ident); ok && l.Name == cv {
							if cd, ok := t.enumSel(a2.Rhs[0], imp); ok {
								deflt, good = cd, true
							}
						}
					}
				}
			}
		}
		if !good {
			*R = append(*R, t.pos(st[2])+": expected `if !ok { "+cv+" = pb.ErrorCode_X }` after the lookup")
			return
		}
		ret = st[3]
	case len(as.Lhs) == 1 && len(st) == 3:
		for _, e := range t.res.Enum {
			if e.Num == 0 {
				deflt = e.Name
			}
		}
		if deflt == "" {
			*R = append(*R, t.pos(st[1])+": a missing key gives the zero ErrorCode, and the enum has no value 0")
			return
		}
		ret = st[2]
	default:
		*R = append(*R, fmt.Sprintf("%s: body has %d statements, expected nil check; lookup; [if !ok {...}]; return", t.pos(fd), len(st)))
		return
	}
	if !t.retUsesVar(ret, cv, imp) {
		*R = append(*R, t.pos(ret)+": expected `return &pb.Error{Code: "+cv+", ...}`")
		return
	}
	// the table
	val, mfile, vs, found := pkgVar(files, mname)
	if !found || val == nil {
		*R = append(*R, t.pos(st[1])+": "+mname+" is not a package-level variable with an initial value")
		return
	}
	cl, ok := val.(*ast.CompositeLit)
	mt, isMap := ast.Expr(nil), false
	if ok {
		mt = cl.Type
	}
	if m, ok := mt.(*ast.MapType); ok {
		mimp := imports(mfile)
		if k, ok := m.Key.(*ast.Ident); ok && k.Name == "error" {
			if se, ok := m.Value.(*ast.SelectorExpr); ok && se.Sel.Name == "ErrorCode" {
				if x, ok := se.X.(*ast.Ident); ok && t.isProtos(mimp[x.Name]) {
					isMap = true
				}
			}
		}
	}
	if !isMap {
		*R = append(*R, t.pos(vs)+": "+mname+" is not a `map[error]pb.ErrorCode{...}` literal")
		return
	}
	// nothing else may mention the table: it could be changed after its literal
	uses := 0
	for _, f := range files {
		ast.Inspect(f, func(n ast.Node) bool {
			if id, ok := n.(*ast.Ident); ok && id.Name == mname {
				uses++
			}
			return true
		})
	}
	if uses != 2 {
		*R = append(*R, fmt.Sprintf("%s: %s is mentioned %d times in the package besides its declaration and the lookup (it may be modified)", t.pos(vs), mname, uses-2))
		return
	}
	mimp := imports(mfile)
	var rows []srvRowT
	seen := map[string]bool{}
	bad := false
	for _, el := range cl.Elts {
		kv, ok := el.(*ast.KeyValueExpr)
		if !ok {
			*R = append(*R, t.pos(el)+": table element is not `key: value`")
			bad = true
			continue
		}
		gn, _, ok := errGoName(kv.Key, mimp, "grpc")
		if !ok {
			*R = append(*R, t.pos(kv.Key)+": table key is not an error variable")
			bad = true
			continue
		}
		code, ok := t.enumSel(kv.Value, mimp)
		if !ok {
			*R = append(*R, t.pos(kv.Value)+": table value is not `pb.ErrorCode_X`")
			bad = true
			continue
		}
		if seen[gn] {
			*R = append(*R, t.pos(kv.Key)+": key "+gn+" is repeated in the table")
			bad = true
			continue
		}
		seen[gn] = true
		if _, known := t.ctorOf[gn]; !known {
			*R = append(*R, t.pos(kv.Key)+": key "+gn+" has no constructor in Model/Err.v")
			bad = true
			continue
		}
		t.res.SrvCases = append(t.res.SrvCases, SrvCase{Pos: t.pos(kv), Errs: []string{gn}, Code: code})
		rows = append(rows, srvRowT{gn, code, t.pos(kv)})
	}
	t.res.SrvInitial = deflt
	t.res.SrvShape = "map"
	t.finishSrv(rows, deflt, bad)
}

// checkErrVarFresh: "" when goName ("pkg.Var") is a package-level variable of a module package
// defined as errors.New(...), or lives outside the module (context.*), or is not a variable name.
func (t *tr) checkErrVarFresh(goName string) string {
	i := strings.Index(goName, ".")
	if i < 0 {
		return ""
	}
	pkg, v := goName[:i], goName[i+1:]
	dir := map[string]string{"server": "server", "lock": "lock", "timermap": "timermap"}[pkg]
	if dir == "" {
		return ""
	}
	files, _ := t.files(dir)
	val, f, _, ok := pkgVar(files, v)
	if !ok {
		return "missing: " + goName + " is not a package-level variable of " + dir + "/"
	}
	if val == nil || !isErrorsNew(val, imports(f)) {
		return goName + " is not defined as errors.New(\"...\"): distinct constructors of Model/Err.v would no longer be distinct values"
	}
	return ""
}

// ---------------------------------------------------------------------------- client mapper

func exprString(fset *token.FileSet, e ast.Expr) string {
	switch x := e.(type) {
	case *ast.Ident:
		return x.Name
	case *ast.SelectorExpr:
		return exprString(fset, x.X) + "." + x.Sel.Name
	case *ast.CallExpr:
		return exprString(fset, x.Fun) + "(...)"
	case *ast.BasicLit:
		return x.Value
	}
	return fmt.Sprintf("%T", e)
}

func (t *tr) readCliMapper() {
	R := &t.res.CliReasons
	files, err := t.files("client")
	if err != nil {
		*R = append(*R, "client: "+err.Error())
	}
	if len(files) == 0 {
		*R = append(*R, "client: no Go files")
		return
	}
	// exported re-exports
	for _, f := range files {
		imp := imports(f)
		for _, d := range f.Decls {
			gd, ok := d.(*ast.GenDecl)
			if !ok || gd.Tok != token.VAR {
				continue
			}
			for _, sp := range gd.Specs {
				vs := sp.(*ast.ValueSpec)
				for i, n := range vs.Names {
					if !strings.HasPrefix(n.Name, "Err") {
						continue
					}
					ex := Export{Var: n.Name, Target: "?", Pos: t.pos(vs)}
					if len(vs.Values) == len(vs.Names) {
						v := vs.Values[i]
						if gn, ipath, ok := errGoName(v, imp, "client"); ok && ipath != "" {
							ex.Target = gn
							ex.Ctor = t.ctorOf[gn]
							if why := t.checkErrVarFresh(gn); why != "" {
								ex.Ctor = ""
								ex.Target = gn + " (" + why + ")"
							}
						} else if isErrorsNew(v, imp) {
							ex.Target, ex.Ctor = "fresh", "EOther"
						}
					}
					t.res.Exports = append(t.res.Exports, ex)
				}
			}
		}
	}
	exportOf := func(v string) *Export {
		for i := range t.res.Exports {
			if t.res.Exports[i].Var == v {
				return &t.res.Exports[i]
			}
		}
		return nil
	}

	name, why := mapperUsedBy(files, "Client", rpcMethods, "")
	if why != "" {
		*R = append(*R, why)
	}
	if name == "" {
		return
	}
	t.res.CliFunc = name
	fd, file := findFunc(files, "", name)
	if fd == nil {
		*R = append(*R, "function "+name+" not found in client/")
		return
	}
	t.res.CliFuncPos = t.pos(fd)
	imp := imports(file)
	p, ok := oneParam(fd)
	if !ok {
		*R = append(*R, t.pos(fd)+": expected `func "+name+"(err *pb.Error) error`")
		return
	}
	st := fd.Body.List
	if len(st) < 2 || len(st) > 3 {
		*R = append(*R, fmt.Sprintf("%s: body has %d statements, expected nil check; switch; [return]", t.pos(fd), len(st)))
		return
	}
	if !nilCheck(st[0], p) {
		*R = append(*R, t.pos(st[0])+": expected `if "+p+" == nil { return nil }`")
		return
	}
	sw, ok := st[1].(*ast.SwitchStmt)
	if !ok || sw.Init != nil {
		*R = append(*R, t.pos(st[1])+": expected `switch "+p+".Code { ... }`")
		return
	}
	tagOK := false
	switch tg := sw.Tag.(type) {
	case *ast.SelectorExpr:
		if x, ok := tg.X.(*ast.Ident); ok && x.Name == p && tg.Sel.Name == "Code" {
			tagOK = true
		}
	case *ast.CallExpr:
		if se, ok := tg.Fun.(*ast.SelectorExpr); ok && len(tg.Args) == 0 && se.Sel.Name == "GetCode" {
			if x, ok := se.X.(*ast.Ident); ok && x.Name == p {
				tagOK = true
			}
		}
	}
	if !tagOK {
		*R = append(*R, t.pos(st[1])+": the switch is not on "+p+".Code")
		return
	}

	// classify a returned expression
	type ret struct {
		kind, v, ctor, gon, how string
	}
	classify := func(e ast.Expr) (ret, string) {
		how := exprString(t.fset, e)
		switch x := e.(type) {
		case *ast.Ident:
			if x.Name == "nil" {
				return ret{}, "returns nil (no error) for an error code"
			}
			ex := exportOf(x.Name)
			if ex == nil {
				if _, _, _, isVar := pkgVar(files, x.Name); isVar {
					return ret{}, "returns " + x.Name + ", a package variable that is not one of the Err* variables"
				}
				return ret{}, "returns " + x.Name + ", which is not a package-level variable of client/"
			}
			if ex.Ctor == "" {
				return ret{}, "returns " + x.Name + " whose definition (" + ex.Target + ") is not understood"
			}
			return ret{"var", x.Name, ex.Ctor, ex.Target, how}, ""
		case *ast.SelectorExpr:
			gn, ipath, ok := errGoName(x, imp, "client")
			if !ok || ipath == "" {
				return ret{}, "returns " + how + ", not understood"
			}
			c, known := t.ctorOf[gn]
			if !known {
				return ret{}, "returns " + gn + ", which has no constructor in Model/Err.v"
			}
			if why := t.checkErrVarFresh(gn); why != "" {
				return ret{}, why
			}
			return ret{"direct", "", c, gn, how}, ""
		case *ast.CallExpr:
			if isErrorsNew(x, imp) {
				return ret{"anon", "", "", "", how}, ""
			}
			// errors.New(<non literal>) e.g. errors.New(err.Message)
			if se, ok := x.Fun.(*ast.SelectorExpr); ok {
				if id, ok := se.X.(*ast.Ident); ok {
					if imp[id.Name] == "errors" && se.Sel.Name == "New" {
						return ret{"anon", "", "", "", how}, ""
					}
					if imp[id.Name] == "fmt" && se.Sel.Name == "Errorf" && len(x.Args) >= 1 {
						if f, ok := strLit(x.Args[0]); ok && !strings.Contains(f, "%w") {
							return ret{"anon", "", "", "", how}, ""
						}
						return ret{}, "returns fmt.Errorf with a %w or non-literal format (may wrap a known error)"
					}
				}
			}
			return ret{}, "returns the result of a call that is not errors.New / fmt.Errorf"
		}
		return ret{}, "returns an expression that is not understood"
	}

	var fallback *ret
	if len(st) == 3 {
		rs, ok := st[2].(*ast.ReturnStmt)
		if !ok || len(rs.Results) != 1 {
			*R = append(*R, t.pos(st[2])+": expected a final `return <error>`")
			return
		}
		r, why := classify(rs.Results[0])
		if why != "" {
			*R = append(*R, t.pos(st[2])+": final return "+why)
			return
		}
		fallback = &r
	}
	type crow struct {
		code string
		r    ret
		pos  string
	}
	var rows []crow
	var deflt *ret
	bad := false
	for _, c := range sw.Body.List {
		cc := c.(*ast.CaseClause)
		var r ret
		switch len(cc.Body) {
		case 0:
			if fallback == nil {
				*R = append(*R, t.pos(cc)+": empty case and no final return")
				bad = true
				continue
			}
			r = *fallback
		case 1:
			rs, ok := cc.Body[0].(*ast.ReturnStmt)
			if !ok || len(rs.Results) != 1 {
				*R = append(*R, t.pos(cc.Body[0])+": case body is not a single `return <error>`")
				bad = true
				continue
			}
			var why string
			r, why = classify(rs.Results[0])
			if why != "" {
				*R = append(*R, t.pos(cc.Body[0])+": "+why)
				bad = true
				continue
			}
		default:
			*R = append(*R, t.pos(cc)+": case body has more than one statement")
			bad = true
			continue
		}
		if cc.List == nil {
			rr := r
			deflt = &rr
			continue
		}
		for _, e := range cc.List {
			cd, ok := t.enumSel(e, imp)
			if !ok {
				*R = append(*R, t.pos(e)+": case expression is not a pb.ErrorCode_X constant of the enum")
				bad = true
				continue
			}
			rows = append(rows, crow{cd, r, t.pos(cc)})
		}
	}
	if deflt == nil {
		deflt = fallback
	}
	if deflt == nil {
		*R = append(*R, t.pos(sw)+": neither a default clause nor a final return")
		bad = true
	}
	if bad {
		return
	}
	t.res.CliFallback = deflt.kind + ":" + deflt.how
	for _, e := range t.res.Enum {
		r, pos := *deflt, ""
		for _, x := range rows {
			if x.code == e.Name {
				r, pos = x.r, x.pos
				break
			}
		}
		t.res.CliRows = append(t.res.CliRows, CliRow{Code: e.Name, Kind: r.kind, Var: r.v, Ctor: r.ctor, Go: r.gon, Pos: pos, How: r.how})
	}
}

// -------------------------------------------------------------------------------- constants

func (t *tr) addConst(name, typ, val, comment string) {
	t.res.Consts = append(t.res.Consts, Const{name, typ, val, comment})
}

func zLit(n int64) string {
	if n < 0 {
		return fmt.Sprintf("(%d)", n)
	}
	return fmt.Sprintf("%d", n)
}

func coqString(s string) (string, bool) {
	for _, c := range []byte(s) {
		if c < 0x20 || c > 0x7e {
			return `""`, false
		}
	}
	return `"` + strings.ReplaceAll(s, `"`, `""`) + `"`, true
}

// constInt evaluates `int32(10)`, `10`, `-3`.
func constInt(e ast.Expr) (int64, bool) {
	return constIntIn(nil, e, 0)
}

// pkgConst finds the package-level `const name = value` among files.
func pkgConst(files []*ast.File, name string) (ast.Expr, bool) {
	for _, f := range files {
		for _, d := range f.Decls {
			gd, ok := d.(*ast.GenDecl)
			if !ok || gd.Tok != token.CONST {
				continue
			}
			for _, sp := range gd.Specs {
				vs := sp.(*ast.ValueSpec)
				for i, n := range vs.Names {
					if n.Name == name {
						if len(vs.Values) == len(vs.Names) {
							return vs.Values[i], true
						}
						return nil, false // iota-style implicit repetition: not handled
					}
				}
			}
		}
	}
	return nil, false
}

// constIntIn evaluates an integer constant expression: literals, conversions to an integer type, parentheses, unary minus,
// + - * of such expressions, and the names of package-level constants of `files` defined the same way (iota and implicit
// repetition are not handled). The result must fit an int64 at every step; anything else is "not a constant we can read".
func constIntIn(files []*ast.File, e ast.Expr, depth int) (int64, bool) {
	if depth > 8 {
		return 0, false
	}
	if n, ok := intLit(e); ok {
		return n, true
	}
	switch x := e.(type) {
	case *ast.ParenExpr:
		return constIntIn(files, x.X, depth+1)
	case *ast.UnaryExpr:
		if x.Op == token.SUB {
			n, ok := constIntIn(files, x.X, depth+1)
			if !ok || n == -1<<63 {
				return 0, false
			}
			return -n, true
		}
		if x.Op == token.ADD {
			return constIntIn(files, x.X, depth+1)
		}
	case *ast.CallExpr:
		if len(x.Args) == 1 {
			if id, ok := x.Fun.(*ast.Ident); ok {
				switch id.Name {
				case "int", "int8", "int16", "int32", "int64", "uint", "uint8", "uint16", "uint32", "uint64":
					n, ok := constIntIn(files, x.Args[0], depth+1)
					if !ok || !fitsIntType(id.Name, n) {
						return 0, false // a conversion that does not fit does not compile (constant) or wraps (variable): not ours to guess
					}
					return n, true
				}
			}
		}
	case *ast.Ident:
		if files == nil || x.Name == "iota" {
			return 0, false
		}
		if _, _, _, isVar := pkgVar(files, x.Name); isVar {
			return 0, false // a variable, not a constant
		}
		if v, ok := pkgConst(files, x.Name); ok && v != nil {
			return constIntIn(files, v, depth+1)
		}
	case *ast.BinaryExpr:
		a, ok1 := constIntIn(files, x.X, depth+1)
		b, ok2 := constIntIn(files, x.Y, depth+1)
		if !ok1 || !ok2 {
			return 0, false
		}
		const lim = int64(1) << 31 // keep every intermediate far from int64 overflow
		if a > lim || a < -lim || b > lim || b < -lim {
			return 0, false
		}
		switch x.Op {
		case token.ADD:
			return a + b, true
		case token.SUB:
			return a - b, true
		case token.MUL:
			return a * b, true
		}
	}
	return 0, false
}

func fitsIntType(ty string, n int64) bool {
	switch ty {
	case "int8":
		return n >= -1<<7 && n < 1<<7
	case "int16":
		return n >= -1<<15 && n < 1<<15
	case "int32":
		return n >= -1<<31 && n < 1<<31
	case "uint8":
		return n >= 0 && n < 1<<8
	case "uint16":
		return n >= 0 && n < 1<<16
	case "uint32":
		return n >= 0 && n < 1<<32
	case "uint", "uint64":
		return n >= 0
	}
	return true
}

func (t *tr) readConsts() {
	R := &t.res.ConstReasons
	// --- client variables and the renewer's interval
	cf, err := t.files("client")
	if err != nil {
		*R = append(*R, "client: "+err.Error())
	}
	for _, v := range []string{"MinRenewSeconds", "RetryDelaySeconds"} {
		val, _, vs, ok := pkgVar(cf, v)
		n, isInt := int64(0), false
		if ok && val != nil {
			n, isInt = constIntIn(cf, val, 0)
		}
		if !isInt {
			*R = append(*R, "client."+v+": not a package variable with an integer literal value")
			t.addConst("client_"+v, "Z", "0", "NOT RECOGNISED")
			continue
		}
		t.addConst("client_"+v, "Z", zLit(n), noLine(t.pos(vs)))
	}
	thr, sub, okF := t.renewFormula(cf)
	if !okF {
		*R = append(*R, "client renewer.Start: interval computation not of the form `if T <= a { i = MinRenewSeconds } else { i = max(T-b, MinRenewSeconds) }`")
	}
	t.addConst("renew_threshold", "Z", zLit(thr), "client renewer.Start: `lockTimeoutSeconds <= a`")
	t.addConst("renew_subtract", "Z", zLit(sub), "client renewer.Start: `max(lockTimeoutSeconds - b, MinRenewSeconds)`")
	t.addConst("renew_formula_recognised", "bool", fmt.Sprint(okF), "")

	// --- rest constants
	rf, err := t.files("net/rest")
	if err != nil {
		*R = append(*R, "net/rest: "+err.Error())
	}
	for _, cn := range []string{"sessionCookieName", "sessionPath"} {
		s, pos, ok := pkgConstString(t, rf, cn)
		cs, printable := coqString(s)
		if !ok || !printable {
			*R = append(*R, "rest."+cn+": not a string constant")
			t.addConst("rest_"+cn, "string", `""`, "NOT RECOGNISED")
			continue
		}
		t.addConst("rest_"+cn, "string", cs, noLine(pos))
	}

	// --- struct tag defaults
	type fld struct{ dir, typ, field, coq, kind string }
	for _, f := range []fld{
		{"server", "LockServerConfig", "Shards", "cfg_Shards", "int"},
		{"server", "LockServerConfig", "LockGcInterval", "cfg_LockGcInterval_ns", "dur"},
		{"server", "LockServerConfig", "LockGcMinIdle", "cfg_LockGcMinIdle_ns", "dur"},
		{"server", "LockServerConfig", "DefaultLockTimeout", "cfg_DefaultLockTimeout_ns", "dur"},
		{"server", "LockServerConfig", "NoClearOnDisconnect", "cfg_NoClearOnDisconnect", "bool"},
		{"server/session", "SessionConfig", "StateFile", "cfg_StateFile", "string"},
		{"net/grpc", "GrpcConfig", "KeepaliveInterval", "cfg_KeepaliveInterval_ns", "dur"},
		{"net/grpc", "GrpcConfig", "KeepaliveTimeout", "cfg_KeepaliveTimeout_ns", "dur"},
		{"net/grpc", "GrpcConfig", "ListenAddress", "cfg_ListenAddress", "string"},
		{"net/rest", "RestConfig", "RestListenAddress", "cfg_RestListenAddress", "string"},
		{"net/rest", "RestConfig", "RestSessionTimeout", "cfg_RestSessionTimeout_ns", "dur"},
	} {
		files, _ := t.files(f.dir)
		def, pos, ok := structTagDefault(t, files, f.typ, f.field)
		typ, val := "Z", "0"
		switch f.kind {
		case "string":
			typ, val = "string", `""`
		case "bool":
			typ, val = "bool", "false"
		}
		if ok {
			switch f.kind {
			case "int":
				n, err := strconv.ParseInt(def, 10, 64)
				ok = err == nil
				val = zLit(n)
			case "dur":
				d, err := time.ParseDuration(def)
				ok = err == nil
				val = zLit(int64(d))
			case "bool":
				b, err := strconv.ParseBool(def)
				ok = err == nil
				val = fmt.Sprint(b)
			case "string":
				val, ok = coqString(def)
			}
		}
		if !ok {
			*R = append(*R, fmt.Sprintf("%s.%s.%s: no usable `default:\"...\"` struct tag", f.dir, f.typ, f.field))
			t.addConst(f.coq, typ, map[string]string{"Z": "0", "string": `""`, "bool": "false"}[typ], "NOT RECOGNISED")
			continue
		}
		t.addConst(f.coq, typ, val, fmt.Sprintf("%s %s.%s  default:%q", noLine(pos), f.typ, f.field, def))
	}
}

func pkgConstString(t *tr, files []*ast.File, name string) (string, string, bool) {
	for _, f := range files {
		for _, d := range f.Decls {
			gd, ok := d.(*ast.GenDecl)
			if !ok || (gd.Tok != token.CONST && gd.Tok != token.VAR) {
				continue
			}
			for _, sp := range gd.Specs {
				vs := sp.(*ast.ValueSpec)
				for i, n := range vs.Names {
					if n.Name == name && len(vs.Values) == len(vs.Names) {
						if s, ok := strLit(vs.Values[i]); ok {
							return s, t.pos(vs), true
						}
					}
				}
			}
		}
	}
	return "", "", false
}

func structTagDefault(t *tr, files []*ast.File, typ, field string) (string, string, bool) {
	for _, f := range files {
		for _, d := range f.Decls {
			gd, ok := d.(*ast.GenDecl)
			if !ok || gd.Tok != token.TYPE {
				continue
			}
			for _, sp := range gd.Specs {
				ts := sp.(*ast.TypeSpec)
				st, ok := ts.Type.(*ast.StructType)
				if !ok || ts.Name.Name != typ {
					continue
				}
				for _, fl := range st.Fields.List {
					for _, n := range fl.Names {
						if n.Name != field || fl.Tag == nil {
							continue
						}
						tag, err := strconv.Unquote(fl.Tag.Value)
						if err != nil {
							return "", "", false
						}
						v, ok := lookupTag(tag, "default")
						return v, t.pos(fl), ok
					}
				}
			}
		}
	}
	return "", "", false
}

// lookupTag is reflect.StructTag.Lookup without importing reflect's conventions loosely.
func lookupTag(tag, key string) (string, bool) {
	for tag != "" {
		i := 0
		for i < len(tag) && tag[i] == ' ' {
			i++
		}
		tag = tag[i:]
		if tag == "" {
			break
		}
		i = 0
		for i < len(tag) && tag[i] > ' ' && tag[i] != ':' && tag[i] != '"' && tag[i] != 0x7f {
			i++
		}
		if i == 0 || i+1 >= len(tag) || tag[i] != ':' || tag[i+1] != '"' {
			break
		}
		name := tag[:i]
		tag = tag[i+1:]
		i = 1
		for i < len(tag) && tag[i] != '"' {
			if tag[i] == '\\' {
				i++
			}
			i++
		}
		if i >= len(tag) {
			break
		}
		q := tag[:i+1]
		tag = tag[i+1:]
		if name == key {
			v, err := strconv.Unquote(q)
			if err != nil {
				return "", false
			}
			return v, true
		}
	}
	return "", false
}

// renewFormula reads the renewal interval of renewer.Start, written in Start itself
//
//	if r.lockTimeoutSeconds <= A { interval = MinRenewSeconds } else { interval = max(r.lockTimeoutSeconds-B, MinRenewSeconds) }
//
// or in ONE package-level helper `func h(t int32) int32` that Start calls exactly once, with r.lockTimeoutSeconds as its
// argument, and whose whole body is one of
//
//	if t <= A { return MinRenewSeconds }; return max(t-B, MinRenewSeconds)
//	if t <= A { return MinRenewSeconds } else { return max(t-B, MinRenewSeconds) }
//	var i int32; if t <= A { i = MinRenewSeconds } else { i = max(t-B, MinRenewSeconds) }; return i
func (t *tr) renewFormula(files []*ast.File) (thr, sub int64, ok bool) {
	fd, _ := findFunc(files, "renewer", "Start")
	if fd == nil {
		return 0, 0, false
	}
	isField := func(e ast.Expr) bool {
		se, ok := e.(*ast.SelectorExpr)
		return ok && se.Sel.Name == "lockTimeoutSeconds"
	}
	for _, s := range fd.Body.List {
		if a, b, ok := ifAssignFormula(s, isField); ok {
			return a, b, true
		}
	}
	// through a helper
	type cand struct {
		name string
		a, b int64
	}
	var all, found []cand
	calls := map[string]int{}
	ast.Inspect(fd.Body, func(n ast.Node) bool {
		c, ok := n.(*ast.CallExpr)
		if !ok {
			return true
		}
		id, ok := c.Fun.(*ast.Ident)
		if !ok {
			return true
		}
		calls[id.Name]++
		if len(c.Args) != 1 || !isField(c.Args[0]) {
			return true
		}
		h, _ := findFunc(files, "", id.Name)
		if h == nil {
			return true
		}
		p, ok := oneParam(h)
		if !ok {
			return true
		}
		isP := func(e ast.Expr) bool {
			x, ok := e.(*ast.Ident)
			return ok && x.Name == p
		}
		if a, b, ok := helperFormula(h.Body.List, isP); ok {
			all = append(all, cand{id.Name, a, b})
		}
		return true
	})
	for _, c := range all {
		if calls[c.name] == 1 { // called once in Start: there is one interval
			found = append(found, c)
		}
	}
	if len(found) == 1 {
		return found[0].a, found[0].b, true
	}
	return 0, 0, false
}

// leqConst recognises `<T> <= A`.
func leqConst(e ast.Expr, isT func(ast.Expr) bool) (int64, bool) {
	be, ok := e.(*ast.BinaryExpr)
	if !ok || be.Op != token.LEQ || !isT(be.X) {
		return 0, false
	}
	return intLit(be.Y)
}

func isMinRenew(e ast.Expr) bool {
	id, ok := e.(*ast.Ident)
	return ok && id.Name == "MinRenewSeconds"
}

// maxFormula recognises `max(<T>-B, MinRenewSeconds)`.
func maxFormula(e ast.Expr, isT func(ast.Expr) bool) (int64, bool) {
	call, ok := e.(*ast.CallExpr)
	if !ok || len(call.Args) != 2 {
		return 0, false
	}
	if id, ok := call.Fun.(*ast.Ident); !ok || id.Name != "max" {
		return 0, false
	}
	diff, ok := call.Args[0].(*ast.BinaryExpr)
	if !ok || diff.Op != token.SUB || !isT(diff.X) || !isMinRenew(call.Args[1]) {
		return 0, false
	}
	return intLit(diff.Y)
}

// ifAssignFormula recognises `if <T> <= A { v = MinRenewSeconds } else { v = max(<T>-B, MinRenewSeconds) }`.
func ifAssignFormula(s ast.Stmt, isT func(ast.Expr) bool) (a, b int64, ok bool) {
	is, isIf := s.(*ast.IfStmt)
	if !isIf || is.Init != nil || is.Else == nil {
		return 0, 0, false
	}
	a, ok = leqConst(is.Cond, isT)
	if !ok {
		return 0, 0, false
	}
	eb, isBlk := is.Else.(*ast.BlockStmt)
	if !isBlk || len(is.Body.List) != 1 || len(eb.List) != 1 {
		return 0, 0, false
	}
	thenAs, ok1 := is.Body.List[0].(*ast.AssignStmt)
	elseAs, ok2 := eb.List[0].(*ast.AssignStmt)
	if !ok1 || !ok2 || len(thenAs.Rhs) != 1 || len(elseAs.Rhs) != 1 || len(thenAs.Lhs) != 1 || len(elseAs.Lhs) != 1 {
		return 0, 0, false
	}
	l1, ok1 := thenAs.Lhs[0].(*ast.Ident)
	l2, ok2 := elseAs.Lhs[0].(*ast.Ident)
	if !ok1 || !ok2 || l1.Name != l2.Name || !isMinRenew(thenAs.Rhs[0]) {
		return 0, 0, false
	}
	b, ok = maxFormula(elseAs.Rhs[0], isT)
	return a, b, ok
}

func retExpr(s ast.Stmt) (ast.Expr, bool) {
	rs, ok := s.(*ast.ReturnStmt)
	if !ok || len(rs.Results) != 1 {
		return nil, false
	}
	return rs.Results[0], true
}

// helperFormula recognises the three bodies listed at renewFormula.
func helperFormula(st []ast.Stmt, isT func(ast.Expr) bool) (a, b int64, ok bool) {
	switch len(st) {
	case 1, 2:
		is, isIf := st[0].(*ast.IfStmt)
		if !isIf || is.Init != nil || len(is.Body.List) != 1 {
			return 0, 0, false
		}
		a, ok = leqConst(is.Cond, isT)
		if !ok {
			return 0, 0, false
		}
		if r, ok := retExpr(is.Body.List[0]); !ok || !isMinRenew(r) {
			return 0, 0, false
		}
		var last ast.Stmt
		if len(st) == 2 && is.Else == nil {
			last = st[1]
		} else if len(st) == 1 && is.Else != nil {
			eb, isBlk := is.Else.(*ast.BlockStmt)
			if !isBlk || len(eb.List) != 1 {
				return 0, 0, false
			}
			last = eb.List[0]
		} else {
			return 0, 0, false
		}
		r, ok := retExpr(last)
		if !ok {
			return 0, 0, false
		}
		b, ok = maxFormula(r, isT)
		return a, b, ok
	case 3:
		ds, isDecl := st[0].(*ast.DeclStmt)
		if !isDecl {
			return 0, 0, false
		}
		gd, isGen := ds.Decl.(*ast.GenDecl)
		if !isGen || gd.Tok != token.VAR || len(gd.Specs) != 1 {
			return 0, 0, false
		}
		vs := gd.Specs[0].(*ast.ValueSpec)
		if len(vs.Names) != 1 || len(vs.Values) != 0 {
			return 0, 0, false
		}
		a, b, ok = ifAssignFormula(st[1], isT)
		if !ok {
			return 0, 0, false
		}
		lhs := st[1].(*ast.IfStmt).Body.List[0].(*ast.AssignStmt).Lhs[0].(*ast.Ident).Name
		r, okR := retExpr(st[2])
		id, isId := r.(*ast.Ident)
		if !okR || !isId || id.Name != lhs || lhs != vs.Names[0].Name {
			return 0, 0, false
		}
		return a, b, true
	}
	return 0, 0, false
}

// ----------------------------------------------------------------------------------- routes

func (t *tr) readRoutes() {
	R := &t.res.RouteReasons
	// which registration does net/rest use?
	rf, _ := t.files("net/rest")
	for _, f := range rf {
		imp := imports(f)
		ast.Inspect(f, func(n ast.Node) bool {
			if c, ok := n.(*ast.CallExpr); ok {
				if se, ok := c.Fun.(*ast.SelectorExpr); ok && strings.HasPrefix(se.Sel.Name, "RegisterLDLMHandler") {
					if x, ok := se.X.(*ast.Ident); ok && t.isProtos(imp[x.Name]) {
						if t.res.RestRegisters != "" && t.res.RestRegisters != se.Sel.Name {
							*R = append(*R, "net/rest registers the gateway in more than one way")
						}
						t.res.RestRegisters = se.Sel.Name
					}
				}
			}
			return true
		})
	}
	if t.res.RestRegisters != "RegisterLDLMHandlerServer" {
		*R = append(*R, "net/rest does not register the gateway with pb.RegisterLDLMHandlerServer (in-process call of the Service); found "+strconv.Quote(t.res.RestRegisters))
	}
	pf, err := t.files("protos")
	if err != nil {
		*R = append(*R, "protos: "+err.Error())
	}
	// pattern variables
	patterns := map[string]string{}
	for _, f := range pf {
		for _, d := range f.Decls {
			gd, ok := d.(*ast.GenDecl)
			if !ok || gd.Tok != token.VAR {
				continue
			}
			for _, sp := range gd.Specs {
				vs := sp.(*ast.ValueSpec)
				if len(vs.Names) != 1 || len(vs.Values) != 1 || !strings.HasPrefix(vs.Names[0].Name, "pattern_") {
					continue
				}
				if p, ok := patternPath(vs.Values[0]); ok {
					patterns[vs.Names[0].Name] = p
				} else {
					*R = append(*R, t.pos(vs)+": route pattern is not a literal path")
				}
			}
		}
	}
	reg, _ := findFunc(pf, "", "RegisterLDLMHandlerServer")
	if reg == nil {
		*R = append(*R, "protos: RegisterLDLMHandlerServer not found")
	} else {
		for _, s := range reg.Body.List {
			es, ok := s.(*ast.ExprStmt)
			if !ok {
				continue
			}
			c, ok := es.X.(*ast.CallExpr)
			if !ok {
				continue
			}
			se, ok := c.Fun.(*ast.SelectorExpr)
			if !ok || se.Sel.Name != "Handle" {
				continue
			}
			if len(c.Args) != 3 {
				*R = append(*R, t.pos(c)+": mux.Handle with an unexpected argument list")
				continue
			}
			method := ""
			if ms, ok := c.Args[0].(*ast.SelectorExpr); ok && strings.HasPrefix(ms.Sel.Name, "Method") {
				method = strings.ToUpper(strings.TrimPrefix(ms.Sel.Name, "Method"))
			} else if s, ok := strLit(c.Args[0]); ok {
				method = s
			}
			pid, _ := c.Args[1].(*ast.Ident)
			fl, _ := c.Args[2].(*ast.FuncLit)
			if method == "" || pid == nil || fl == nil || patterns[pid.Name] == "" {
				*R = append(*R, t.pos(c)+": mux.Handle call not understood")
				continue
			}
			// which local_request_* is called, and which server method that one calls
			rpcs := map[string]bool{}
			annotated := map[string]bool{}
			ast.Inspect(fl.Body, func(n ast.Node) bool {
				cc, ok := n.(*ast.CallExpr)
				if !ok {
					return true
				}
				if id, ok := cc.Fun.(*ast.Ident); ok && strings.HasPrefix(id.Name, "local_request_") {
					if lf, _ := findFunc(pf, "", id.Name); lf != nil && lf.Type.Params != nil && len(lf.Type.Params.List) >= 3 && len(lf.Type.Params.List[2].Names) == 1 {
						srvParam := lf.Type.Params.List[2].Names[0].Name
						ast.Inspect(lf.Body, func(m ast.Node) bool {
							if c2, ok := m.(*ast.CallExpr); ok {
								if s2, ok := c2.Fun.(*ast.SelectorExpr); ok {
									if x, ok := s2.X.(*ast.Ident); ok && x.Name == srvParam {
										rpcs[s2.Sel.Name] = true
									}
								}
							}
							return true
						})
					}
				}
				if s2, ok := cc.Fun.(*ast.SelectorExpr); ok && strings.HasPrefix(s2.Sel.Name, "AnnotateIncomingContext") {
					for _, a := range cc.Args {
						if s, ok := strLit(a); ok && strings.HasPrefix(s, "/ldlm.LDLM/") {
							annotated[strings.TrimPrefix(s, "/ldlm.LDLM/")] = true
						}
					}
				}
				return true
			})
			if len(rpcs) != 1 {
				*R = append(*R, t.pos(c)+": cannot tell which Service method this route calls")
				continue
			}
			for rpc := range rpcs {
				if len(annotated) != 1 || !annotated[rpc] {
					*R = append(*R, t.pos(c)+": route calls "+rpc+" but is annotated as a different RPC")
				}
				t.res.RoutesGw = append(t.res.RoutesGw, Route{method, patterns[pid.Name], rpc})
			}
		}
	}
	// .api_config.yaml (line oriented: the file is a flat list of rules)
	if b, err := os.ReadFile(filepath.Join(t.repo, ".api_config.yaml")); err != nil {
		*R = append(*R, ".api_config.yaml: "+err.Error())
	} else {
		var cur *Route
		flush := func() {
			if cur != nil {
				if cur.Method == "" || cur.Path == "" || cur.Rpc == "" {
					*R = append(*R, ".api_config.yaml: incomplete rule")
				} else {
					t.res.RoutesYaml = append(t.res.RoutesYaml, *cur)
				}
			}
			cur = nil
		}
		selRe := regexp.MustCompile(`^\s*-\s*selector:\s*['"]?([A-Za-z0-9_.]+)['"]?\s*$`)
		verbRe := regexp.MustCompile(`^\s*(get|put|post|delete|patch):\s*['"]?([^'"\s]+)['"]?\s*$`)
		for _, ln := range strings.Split(string(b), "\n") {
			if i := strings.Index(ln, "#"); i >= 0 {
				ln = ln[:i]
			}
			if m := selRe.FindStringSubmatch(ln); m != nil {
				flush()
				sel := m[1]
				if !strings.HasPrefix(sel, "ldlm.LDLM.") {
					*R = append(*R, ".api_config.yaml: selector "+sel+" is not an ldlm.LDLM method")
				}
				cur = &Route{Rpc: strings.TrimPrefix(sel, "ldlm.LDLM.")}
				continue
			}
			if m := verbRe.FindStringSubmatch(ln); m != nil && cur != nil {
				if cur.Method != "" {
					*R = append(*R, ".api_config.yaml: rule with two verbs")
				}
				cur.Method, cur.Path = strings.ToUpper(m[1]), m[2]
				continue
			}
			if strings.Contains(ln, "additional_bindings") || strings.Contains(ln, "custom:") {
				*R = append(*R, ".api_config.yaml: additional_bindings/custom are not handled")
			}
		}
		flush()
	}
	for _, r := range append(append([]Route{}, t.res.RoutesGw...), t.res.RoutesYaml...) {
		for _, s := range []string{r.Method, r.Path, r.Rpc} {
			if _, ok := coqString(s); !ok {
				*R = append(*R, "route with a non-printable component")
			}
		}
	}
}

// patternPath recognises runtime.MustPattern(runtime.NewPattern(1, []int{2,0,2,1}, []string{"v1","lock"}, ""))
// where every op is OpLitPush (2) of successive pool entries and the verb is empty.
func patternPath(e ast.Expr) (string, bool) {
	c, ok := e.(*ast.CallExpr)
	if !ok || len(c.Args) != 1 {
		return "", false
	}
	in, ok := c.Args[0].(*ast.CallExpr)
	if !ok || len(in.Args) != 4 {
		return "", false
	}
	if se, ok := in.Fun.(*ast.SelectorExpr); !ok || se.Sel.Name != "NewPattern" {
		return "", false
	}
	ops, ok1 := in.Args[1].(*ast.CompositeLit)
	pool, ok2 := in.Args[2].(*ast.CompositeLit)
	verb, ok3 := strLit(in.Args[3])
	if !ok1 || !ok2 || !ok3 || verb != "" || len(ops.Elts)%2 != 0 {
		return "", false
	}
	var ps []string
	for _, p := range pool.Elts {
		s, ok := strLit(p)
		if !ok {
			return "", false
		}
		ps = append(ps, s)
	}
	path := ""
	for i := 0; i < len(ops.Elts); i += 2 {
		op, ok1 := intLit(ops.Elts[i])
		idx, ok2 := intLit(ops.Elts[i+1])
		if !ok1 || !ok2 || op != 2 || idx < 0 || int(idx) >= len(ps) {
			return "", false
		}
		path += "/" + ps[idx]
	}
	return path, path != ""
}
