// Command gen2coq: see translate.go.
//
//	gen2coq -repo <tree under test> -errv <coq/Model/Err.v> -out <dir>
//
// writes <dir>/ErrTables.v, <dir>/Consts.v, <dir>/Atomic.v and <dir>/summary.json. It exits 0 whenever the files were
// written — also when shapes were not recognised (the files then say so).
package main

import (
	"encoding/json"
	"flag"
	"fmt"
	"os"
	"path/filepath"
	"strings"
)

func main() {
	repo := flag.String("repo", "/repo", "source tree to read")
	errv := flag.String("errv", "/verif/coq/Model/Err.v", "Model/Err.v (err_go_name gives the Go name of each constructor)")
	out := flag.String("out", "", "output directory")
	flag.Parse()
	if *out == "" {
		fmt.Fprintln(os.Stderr, "gen2coq: -out is required")
		os.Exit(2)
	}
	abs, err := filepath.Abs(*repo)
	if err == nil {
		*repo = abs
	}
	res := Translate(*repo, *errv)
	et, cs := safeRender(res)
	at := safeRenderAtomic(res)
	if err := os.MkdirAll(*out, 0o755); err != nil {
		fmt.Fprintln(os.Stderr, "gen2coq:", err)
		os.Exit(2)
	}
	js, _ := json.MarshalIndent(res, "", " ")
	for name, text := range map[string]string{"ErrTables.v": et, "Consts.v": cs, "Atomic.v": at, "summary.json": string(js)} {
		if err := os.WriteFile(filepath.Join(*out, name), []byte(text), 0o644); err != nil {
			fmt.Fprintln(os.Stderr, "gen2coq:", err)
			os.Exit(2)
		}
	}
	fmt.Printf("gen2coq: enum=%v srv=%v cli=%v consts=%v routes=%v\n", res.EnumOK(), res.SrvOK(), res.CliOK(), res.ConstOK(), res.RouteOK())
	fmt.Printf("gen2coq: closer order %v %v\n", res.CloserOrder, res.CloserReasons)
	fmt.Printf("gen2coq: atomic=%v\n", res.AtomicOK())
	if res.Atomic != nil {
		for _, r := range res.Atomic.Reasons {
			fmt.Println("  not recognised: atomic: " + strings.ReplaceAll(r, "\n", " "))
		}
	}
	for _, r := range append(append(append(append(append([]string{}, res.EnumReasons...), res.SrvReasons...), res.CliReasons...), res.ConstReasons...), res.RouteReasons...) {
		fmt.Println("  not recognised: " + strings.ReplaceAll(r, "\n", " "))
	}
}

// safeRender never panics: a failure of the renderer yields the degenerate files.
func safeRender(res *Result) (et, cs string) {
	defer func() {
		if r := recover(); r != nil {
			deg := &Result{Repo: res.Repo, ErrCtors: res.ErrCtors,
				EnumReasons:  []string{fmt.Sprintf("renderer failed: %v", r)},
				ConstReasons: []string{fmt.Sprintf("renderer failed: %v", r)},
				RouteReasons: []string{fmt.Sprintf("renderer failed: %v", r)}}
			et, cs = RenderErrTables(deg), RenderConsts(deg)
		}
	}()
	return RenderErrTables(res), RenderConsts(res)
}

// safeRenderAtomic never panics: a failure of the renderer yields the degenerate file.
func safeRenderAtomic(res *Result) (at string) {
	defer func() {
		if r := recover(); r != nil {
			at = RenderAtomic(&Result{Repo: res.Repo, Atomic: &Atomic{Reasons: []string{fmt.Sprintf("renderer failed: %v", r)}}})
		}
	}()
	return RenderAtomic(res)
}
