package main

// Self-test of the atomicity analysis (atomic.go). Two kinds of cases:
//
//   - fixtures: small synthetic packages written by the test, one per shape the analysis claims to classify (defer form, explicit
//     unlock on every path, helpers that rely on the caller's lock, helpers called from a locked and an unlocked site, shadowed
//     receiver, aliases, AfterFunc callbacks through a method) or to reject (lock on one path only, return with the lock held, ...);
//   - mutants of the tree under test (GEN2COQ_REPO, default /repo): Save moved after Unlock, Stop before Lock, RLock instead of
//     Lock around a write, the two seeded shapes — the corresponding effect's guard must flip and nothing else may change; harmless
//     reshapes must leave every guard as it was. A mutant whose edit does not apply to the tree (the tree was itself edited) is
//     skipped and counted.
//
// Run: go test -run 'TestAtomic' .   (prints ATOMIC_SELFTEST_RESULT {...})

import (
	"encoding/json"
	"fmt"
	"go/ast"
	"go/token"
	"os"
	"path/filepath"
	"strings"
	"testing"
)

func writeTree(t *testing.T, files map[string]string) string {
	dir := t.TempDir()
	for rel, text := range files {
		p := filepath.Join(dir, rel)
		os.MkdirAll(filepath.Dir(p), 0o755)
		if err := os.WriteFile(p, []byte(text), 0o644); err != nil {
			t.Fatal(err)
		}
	}
	return dir
}

func atomicOf(repo string) *Atomic {
	x := &tr{repo: repo, fset: token.NewFileSet(), res: &Result{Repo: repo}, pkgs: map[string][]*ast.File{}, perr: map[string]error{}, ctorOf: map[string]string{}}
	x.module = "example.com/x"
	x.readAtomic()
	return x.res.Atomic
}

func method(ty AtomicType, name string) *AtomicMethod {
	for i := range ty.Methods {
		if ty.Methods[i].Name == name {
			return &ty.Methods[i]
		}
	}
	for i := range ty.Callbacks {
		if ty.Callbacks[i].Name == name {
			return &ty.Callbacks[i]
		}
	}
	return nil
}

// sig renders a method as "Kind@Guard/section ..." (callee names included).
func sig(m *AtomicMethod) string {
	if m == nil {
		return "<no such method>"
	}
	out := []string{}
	for _, e := range m.Effects {
		k := e.Kind
		if e.Callee != "" {
			k += ":" + e.Callee
		}
		out = append(out, fmt.Sprintf("%s@%s/%d", k, e.Guard, e.Section))
	}
	return strings.Join(out, " ")
}

const fixtureStore = `package store
import "os"
type store struct { fh *os.File; path string }
func (l *store) Write(m map[string][]int) error {
	tmp, _ := os.OpenFile(l.path+".tmp", os.O_RDWR, 0644)
	tmp.Write(nil)
	tmp.Sync()
	os.Rename(tmp.Name(), l.path)
	l.fh.Close()
	l.fh = tmp
	return nil
}
`

const fixtureTimermap = `package timermap
import ("sync"; "time")
type TimerMap struct { timers map[string]*time.Timer; timersMtx sync.RWMutex }
func New() *TimerMap { return &TimerMap{timers: map[string]*time.Timer{}} }
func (m *TimerMap) Add(key string, onTimeout func(), d time.Duration) {
	m.timersMtx.Lock()
	defer m.timersMtx.Unlock()
	m.timers[key] = time.AfterFunc(d, func() { onTimeout(); m.Remove(key) })
}
func (m *TimerMap) Remove(key string) bool {
	m.timersMtx.Lock()
	defer m.timersMtx.Unlock()
	t, ok := m.timers[key]
	if !ok { return true }
	s := t.Stop()
	delete(m.timers, key)
	return s
}
`

func sessionFixture(methods string) map[string]string {
	return map[string]string{
		"server/session/session.go": `package session
import ("sync"; "maps")
type storer interface { Write(map[string][]int) error }
type sessionManager struct { sessionLocks map[string][]int; sessionLocksMtx sync.RWMutex; store storer }
func NewManager() *sessionManager { return &sessionManager{sessionLocks: map[string][]int{}} }
var _ = maps.Clone[map[string][]int]
` + methods,
		"server/session/store/store.go": fixtureStore,
		"timermap/timermap.go":          fixtureTimermap,
	}
}

type fixtureCase struct {
	name    string
	methods string
	want    map[string]string // method -> sig
	helpers []string
	reasons []string // substrings, one per expected reason; nil = recognised
}

func fixtureCases() []fixtureCase {
	const save = "func (l *sessionManager) Save() error { return l.store.Write(l.sessionLocks) }\n"
	return []fixtureCase{
		{name: "defer form", methods: save + `
func (l *sessionManager) AddLock(sid string) {
	l.sessionLocksMtx.Lock()
	defer l.sessionLocksMtx.Unlock()
	l.sessionLocks[sid] = append(l.sessionLocks[sid], 1)
	if err := l.Save(); err != nil { panic(err) }
}`, want: map[string]string{"AddLock": "MapRead@WLock/1 MapWrite@WLock/1 Save:Save@WLock/1 MapRead@WLock/1 StoreWrite@WLock/1"}, helpers: []string{"Save"}},

		{name: "explicit unlock on every path", methods: save + `
func (l *sessionManager) DestroySessionIfEmpty(sid string) bool {
	l.sessionLocksMtx.Lock()
	locks, ok := l.sessionLocks[sid]
	if !ok {
		l.sessionLocksMtx.Unlock()
		return true
	}
	if len(locks) > 0 {
		l.sessionLocksMtx.Unlock()
		return false
	} else {
		delete(l.sessionLocks, sid)
		l.Save()
	}
	l.sessionLocksMtx.Unlock()
	return true
}`, want: map[string]string{"DestroySessionIfEmpty": "MapRead@WLock/1 MapDelete@WLock/1 Save:Save@WLock/1 MapRead@WLock/1 StoreWrite@WLock/1"}},

		{name: "save after unlock", methods: save + `
func (l *sessionManager) AddLock(sid string) {
	l.sessionLocksMtx.Lock()
	l.sessionLocks[sid] = append(l.sessionLocks[sid], 1)
	l.sessionLocksMtx.Unlock()
	l.Save()
}`, want: map[string]string{"AddLock": "MapRead@WLock/1 MapWrite@WLock/1 Save:Save@NoLock/0 MapRead@NoLock/0 StoreWrite@NoLock/0"}},

		{name: "helper called from a locked and an unlocked site", methods: save + `
func (l *sessionManager) put(sid string) { l.sessionLocks[sid] = nil }
func (l *sessionManager) A(sid string) {
	l.sessionLocksMtx.Lock()
	l.put(sid)
	l.sessionLocksMtx.Unlock()
	l.put(sid)
}`, want: map[string]string{"A": "Call:put@WLock/1 MapWrite@WLock/1 Call:put@NoLock/0 MapWrite@NoLock/0"}, helpers: []string{"put"}},

		{name: "helper that locks for itself, two critical sections", methods: save + `
func (l *sessionManager) get(sid string) []int {
	l.sessionLocksMtx.RLock()
	defer l.sessionLocksMtx.RUnlock()
	return l.sessionLocks[sid]
}
func (l *sessionManager) A(sid string) {
	x := l.get(sid)
	l.sessionLocksMtx.Lock()
	defer l.sessionLocksMtx.Unlock()
	l.sessionLocks[sid] = x
}`, want: map[string]string{"A": "Call:get@NoLock/0 MapRead@RLock/1 MapWrite@WLock/2"}},

		{name: "shadowed receiver, alias of the map, store alias", methods: `
func (l *sessionManager) RemoveLock(name string) {
	l.sessionLocksMtx.Lock()
	defer l.sessionLocksMtx.Unlock()
	m := l.sessionLocks
	for sid, locks := range m {
		for _, l := range locks { _ = l }
		m[sid] = nil
	}
	st := l.store
	st.Write(m)
}`, want: map[string]string{"RemoveLock": "MapRead@WLock/1 MapRange@WLock/1 MapWrite@WLock/1 MapRead@WLock/1 StoreWrite@WLock/1"}},

		{name: "rlock around a write", methods: `
func (l *sessionManager) CreateSession(sid string) {
	l.sessionLocksMtx.RLock()
	defer l.sessionLocksMtx.RUnlock()
	if l.sessionLocks[sid] == nil { l.sessionLocks[sid] = []int{} }
}`, want: map[string]string{"CreateSession": "MapRead@RLock/1 MapWrite@RLock/1"}},

		{name: "package function handed the map", methods: `
func drop(m map[string][]int, sid string) { delete(m, sid) }
func (l *sessionManager) DestroySession(sid string) {
	l.sessionLocksMtx.Lock()
	drop(l.sessionLocks, sid)
	l.sessionLocksMtx.Unlock()
}`, want: map[string]string{"DestroySession": "MapRead@WLock/1 Call:drop@WLock/1 MapDelete@WLock/1"}},

		{name: "deferred closure unlock, switch, loop", methods: `
func (l *sessionManager) A(sid string, k int) {
	l.sessionLocksMtx.Lock()
	defer func() { l.sessionLocksMtx.Unlock() }()
	switch k {
	case 1:
		delete(l.sessionLocks, sid)
	default:
		for i := 0; i < k; i++ {
			if i == 3 { continue }
			l.sessionLocks[sid] = nil
		}
	}
}`, want: map[string]string{"A": "MapDelete@WLock/1 MapWrite@WLock/1"}},

		{name: "local name of the mutex, deferred closure", methods: `
func (l *sessionManager) A(sid string) {
	mu := &l.sessionLocksMtx
	mu.Lock()
	defer func() { mu.Unlock() }()
	locks := l.sessionLocks
	for k := range locks { delete(locks, k) }
}`, want: map[string]string{"A": "MapRead@WLock/1 MapRange@WLock/1 MapDelete@WLock/1"}},

		{name: "lock on one path only", methods: `
func (l *sessionManager) A(sid string, c bool) {
	if c { l.sessionLocksMtx.Lock() }
	l.sessionLocks[sid] = nil
	if c { l.sessionLocksMtx.Unlock() }
}`, reasons: []string{"the lock state differs between the paths after the if"}},

		{name: "return with the lock held", methods: `
func (l *sessionManager) A(sid string) bool {
	l.sessionLocksMtx.Lock()
	if l.sessionLocks[sid] == nil { return false }
	l.sessionLocksMtx.Unlock()
	return true
}`, reasons: []string{"leaves with WLock held"}},

		{name: "goroutine; closure handed to a function of the package", methods: `
func run(f func()) { f() }
func (l *sessionManager) A(sid string) {
	l.sessionLocksMtx.Lock()
	defer l.sessionLocksMtx.Unlock()
	go func() { delete(l.sessionLocks, sid) }()
	run(func() { l.sessionLocks[sid] = nil })
}`, want: map[string]string{"A": "Call:run@WLock/1 MapWrite@WLock/1", "A$go": "MapDelete@NoLock/0"}},

		{name: "closure with effects escapes into an unknown callee", methods: `
func (l *sessionManager) A(sid string, o interface{ Do(func()) }) {
	l.sessionLocksMtx.Lock()
	defer l.sessionLocksMtx.Unlock()
	o.Do(func() { l.sessionLocks[sid] = nil })
}`, reasons: []string{"closure with effects passed to o.Do"}},

		{name: "trylock, goto", methods: `
func (l *sessionManager) A(sid string) {
	if l.sessionLocksMtx.TryLock() { l.sessionLocksMtx.Unlock() }
}`, reasons: []string{"inside an expression"}},
	}
}

func TestAtomicFixtures(t *testing.T) {
	for _, c := range fixtureCases() {
		a := atomicOf(writeTree(t, sessionFixture(c.methods)))
		for m, want := range c.want {
			if got := sig(method(a.Session, m)); got != want {
				t.Errorf("%s: %s = %q, want %q", c.name, m, got, want)
			}
		}
		if c.helpers != nil && strings.Join(a.Session.Helpers, ",") != strings.Join(c.helpers, ",") {
			t.Errorf("%s: helpers %v, want %v", c.name, a.Session.Helpers, c.helpers)
		}
		if c.reasons == nil && len(a.Reasons) > 0 {
			t.Errorf("%s: not recognised: %v", c.name, a.Reasons)
		}
		for _, r := range c.reasons {
			found := false
			for _, x := range a.Reasons {
				found = found || strings.Contains(x, r)
			}
			if !found {
				t.Errorf("%s: reason %q missing from %v", c.name, r, a.Reasons)
			}
		}
		// the timer map and the store of the fixture are the reference shapes
		if got, want := sig(method(a.Timermap, "Add$callback")), "UserCallback@NoLock/0 Call:Remove@NoLock/0 MapRead@WLock/1 TimerStop@WLock/1 MapDelete@WLock/1"; got != want {
			t.Errorf("%s: Add$callback = %q, want %q", c.name, got, want)
		}
		if got := strings.Join(a.StoreWrite, " "); got != "os.OpenFile File.Write File.Sync os.Rename File.Close" {
			t.Errorf("%s: store shape %q", c.name, got)
		}
		// and the rendering names every constructor it uses
		txt := RenderAtomic(&Result{Atomic: a})
		for _, s := range []string{"Inductive lkguard", "Definition session_methods", "Definition timermap_callbacks", "Definition store_write_shape", fmt.Sprintf("atomic_recognised : bool := %v", len(a.Reasons) == 0)} {
			if !strings.Contains(txt, s) {
				t.Errorf("%s: rendering lacks %q", c.name, s)
			}
		}
	}
}

// ---------------------------------------------------------------------------- mutants of the tree under test

type atomicMutant struct {
	name  string
	edits []edit            // textual, first occurrence; every `old` must be present
	ty    string            // "session" | "timermap"
	flips map[string]string // method -> the sig it must have afterwards ("" key: none)
	why   string            // a reason the analysis must give (the mutant is then not recognised); "" = must be recognised
	same  bool              // every method's guards as in the baseline (effect lists may be reshaped)
}

const sessGo, tmGo = "server/session/session.go", "timermap/timermap.go"

func atomicMutants() []atomicMutant {
	return []atomicMutant{
		{name: "Save moved after Unlock (AddLock)", ty: "session", edits: []edit{{sessGo,
			"\tl.sessionLocksMtx.Lock()\n\tdefer l.sessionLocksMtx.Unlock()\n\n\tl.sessionLocks[sessionId] = append(l.sessionLocks[sessionId], cl.New(name, key, size))\n",
			"\tl.sessionLocksMtx.Lock()\n\tl.sessionLocks[sessionId] = append(l.sessionLocks[sessionId], cl.New(name, key, size))\n\tl.sessionLocksMtx.Unlock()\n"}},
			flips: map[string]string{"AddLock": "MapRead@WLock/1 MapWrite@WLock/1 Save:Save@NoLock/0 MapRead@NoLock/0 StoreWrite@NoLock/0"}},
		{name: "RLock instead of Lock around a write (CreateSession)", ty: "session", edits: []edit{{sessGo,
			"func (l *sessionManager) CreateSession(sessionId string) {\n\tl.sessionLocksMtx.Lock()\n\tdefer l.sessionLocksMtx.Unlock()\n",
			"func (l *sessionManager) CreateSession(sessionId string) {\n\tl.sessionLocksMtx.RLock()\n\tdefer l.sessionLocksMtx.RUnlock()\n"}},
			flips: map[string]string{"CreateSession": "MapRead@RLock/1 MapWrite@RLock/1"}},
		{name: "Save takes a read lock and writes outside it (seeded C09d shape)", ty: "session", edits: []edit{
			{sessGo, "\treturn l.store.Write(l.sessionLocks)\n", "\tl.sessionLocksMtx.RLock()\n\tlocks := maps.Clone(l.sessionLocks)\n\tst := l.store\n\tl.sessionLocksMtx.RUnlock()\n\treturn st.Write(locks)\n"},
			{sessGo, "\tl.sessionLocksMtx.Lock()\n\tdefer l.sessionLocksMtx.Unlock()\n\n\tl.sessionLocks[sessionId] = append(l.sessionLocks[sessionId], cl.New(name, key, size))\n",
				"\tl.sessionLocksMtx.Lock()\n\tl.sessionLocks[sessionId] = append(l.sessionLocks[sessionId], cl.New(name, key, size))\n\tl.sessionLocksMtx.Unlock()\n"}},
			// RemoveLock, DestroySession, DestroySessionIfEmpty still call Save with the write lock held: a self-deadlock, reported
			why:   "RLock() while WLock is held",
			flips: map[string]string{"AddLock": "MapRead@WLock/1 MapWrite@WLock/1 Save:Save@NoLock/0 MapRead@RLock/2 StoreWrite@NoLock/0", "Save": "MapRead@RLock/1 StoreWrite@NoLock/0",
				"RemoveLock": "MapRange@WLock/1 MapWrite@WLock/1 Save:Save@WLock/1 MapRead@RLock/2 StoreWrite@NoLock/0",
				"DestroySession": "MapRead@WLock/1 MapDelete@WLock/1 Save:Save@WLock/1 MapRead@RLock/2 StoreWrite@NoLock/0",
				"DestroySessionIfEmpty": "MapRead@WLock/1 MapDelete@WLock/1 Save:Save@WLock/1 MapRead@RLock/2 StoreWrite@NoLock/0"}},
		{name: "Stop before Lock (Reset)", ty: "timermap", edits: []edit{{tmGo,
			"\tm.timersMtx.Lock()\n\tdefer m.timersMtx.Unlock()\n\n\tt, ok := m.timers[key]\n\tif ok {\n\t\tif t.Stop() {",
			"\tm.timersMtx.RLock()\n\tt, ok := m.timers[key]\n\tm.timersMtx.RUnlock()\n\tif ok {\n\t\tstopped := t.Stop()\n\t\tm.timersMtx.Lock()\n\t\tdefer m.timersMtx.Unlock()\n\t\tif stopped {"}},
			flips: map[string]string{"Reset": "MapRead@RLock/1 TimerStop@NoLock/0 TimerReset@WLock/2"}},
		{name: "Stop outside the lock (Remove)", ty: "timermap", edits: []edit{{tmGo,
			"\tm.timersMtx.Lock()\n\tdefer m.timersMtx.Unlock()\n\n\tstopped := true\n\tif _, ok := m.timers[key]; ok {\n\t\tstopped = m.timers[key].Stop()\n",
			"\tm.timersMtx.RLock()\n\tt, ok := m.timers[key]\n\tm.timersMtx.RUnlock()\n\tstopped := true\n\tif ok {\n\t\tstopped = t.Stop()\n\t}\n\tm.timersMtx.Lock()\n\tdefer m.timersMtx.Unlock()\n\tif ok {\n"}},
			flips: map[string]string{"Remove": "MapRead@RLock/1 TimerStop@NoLock/0 MapDelete@WLock/2",
				"Add$callback": "UserCallback@NoLock/0 Call:Remove@NoLock/0 MapRead@RLock/1 TimerStop@NoLock/0 MapDelete@WLock/2"}},
		{name: "callback holds the lock while it calls the user function", ty: "timermap", edits: []edit{{tmGo,
			"\t\t\tonTimeout()\n\t\t\tm.Remove(key)\n", "\t\t\tm.timersMtx.RLock()\n\t\t\tonTimeout()\n\t\t\tm.timersMtx.RUnlock()\n\t\t\tm.Remove(key)\n"}},
			flips: map[string]string{"Add$callback": "UserCallback@RLock/1 Call:Remove@NoLock/0 MapRead@WLock/2 MapRead@WLock/2 TimerStop@WLock/2 MapDelete@WLock/2"}},
		{name: "harmless: explicit unlock instead of defer (CreateSession)", ty: "session", same: true, edits: []edit{{sessGo,
			"\tl.sessionLocksMtx.Lock()\n\tdefer l.sessionLocksMtx.Unlock()\n\n\tif l.sessionLocks[sessionId] == nil {\n\t\tl.sessionLocks[sessionId] = []cl.Lock{}\n\t}\n",
			"\tl.sessionLocksMtx.Lock()\n\tif l.sessionLocks[sessionId] == nil {\n\t\tl.sessionLocks[sessionId] = []cl.Lock{}\n\t}\n\tl.sessionLocksMtx.Unlock()\n"}}},
		{name: "harmless: the mutation extracted into a helper that relies on the caller's lock", ty: "session", same: true, edits: []edit{{sessGo,
			"\tl.sessionLocks[sessionId] = append(l.sessionLocks[sessionId], cl.New(name, key, size))\n\n\tif err := l.Save(); err != nil {\n\t\tpanic(err)\n\t}\n}\n",
			"\tl.addLocked(sessionId, cl.New(name, key, size))\n}\n\n// caller holds sessionLocksMtx\nfunc (l *sessionManager) addLocked(sessionId string, lk cl.Lock) {\n\tl.sessionLocks[sessionId] = append(l.sessionLocks[sessionId], lk)\n\tif err := l.Save(); err != nil {\n\t\tpanic(err)\n\t}\n}\n"}}},
		{name: "harmless: receiver renamed (timermap)", ty: "timermap", same: true, edits: []edit{
			{"all:" + tmGo, "(m *TimerMap)", "(tm *TimerMap)"}, {"all:" + tmGo, "m.timers", "tm.timers"}, {"all:" + tmGo, "m.Remove(key)", "tm.Remove(key)"}}},
	}
}

// guardsOnly: the effects that matter for the lemmas, without reads (their number changes with harmless reshapes) and without
// the markers of calls (Call, Save: the callee's effects follow them inlined).
func guardsOnly(m AtomicMethod) string {
	out := []string{}
	for _, e := range m.Effects {
		if e.Kind == "MapRead" || e.Kind == "Call" || e.Kind == "Save" {
			continue
		}
		out = append(out, fmt.Sprintf("%s@%s", e.Kind, e.Guard))
	}
	return strings.Join(out, " ")
}

func TestAtomicMutants(t *testing.T) {
	repo := env("GEN2COQ_REPO", "/repo")
	baseDir := filepath.Join(t.TempDir(), "base")
	copyTree(t, repo, baseDir)
	copyStore := func(dst string) {
		ms, _ := filepath.Glob(filepath.Join(repo, storeDir, "*.go"))
		for _, m := range ms {
			if b, err := os.ReadFile(m); err == nil && !strings.HasSuffix(m, "_test.go") {
				os.MkdirAll(filepath.Join(dst, storeDir), 0o755)
				os.WriteFile(filepath.Join(dst, storeDir, filepath.Base(m)), b, 0o644)
			}
		}
	}
	copyStore(baseDir)
	base := atomicOf(baseDir)

	type outcome struct {
		Name   string `json:"name"`
		Result string `json:"result"`
		Why    string `json:"why,omitempty"`
	}
	var outs []outcome
	defer func() {
		n := map[string]int{}
		for _, o := range outs {
			n[o.Result]++
		}
		js, _ := json.Marshal(map[string]any{"mutants": len(outs), "ok": n["ok"], "skipped": n["skipped"], "failed": n["FAILED"], "outcomes": outs})
		fmt.Println("ATOMIC_SELFTEST_RESULT " + string(js))
	}()
	if len(base.Reasons) > 0 {
		for _, m := range atomicMutants() {
			outs = append(outs, outcome{m.name, "skipped", "the tree under test is not recognised"})
		}
		t.Skip("baseline not recognised: ", base.Reasons)
	}
	pick := func(a *Atomic, ty string) AtomicType {
		if ty == "timermap" {
			return a.Timermap
		}
		return a.Session
	}
	for i, m := range atomicMutants() {
		dir := filepath.Join(t.TempDir(), fmt.Sprintf("a%02d", i))
		copyTree(t, baseDir, dir)
		copyStore(dir)
		applied := true
		for _, e := range m.edits {
			all := strings.HasPrefix(e.file, "all:")
			p := filepath.Join(dir, strings.TrimPrefix(e.file, "all:"))
			b, err := os.ReadFile(p)
			if err != nil || !strings.Contains(string(b), e.old) {
				applied = false
				break
			}
			n := 1
			if all {
				n = -1
			}
			os.WriteFile(p, []byte(strings.Replace(string(b), e.old, e.new, n)), 0o644)
		}
		if !applied {
			outs = append(outs, outcome{m.name, "skipped", "edit does not apply to this tree"})
			continue
		}
		got := atomicOf(dir)
		var err error
		if m.why == "" && len(got.Reasons) > 0 {
			err = fmt.Errorf("not recognised: %v", got.Reasons)
		}
		if m.why != "" && !strings.Contains(strings.Join(got.Reasons, "\n"), m.why) {
			err = fmt.Errorf("reason %q missing from %v", m.why, got.Reasons)
		}
		bt, gt := pick(base, m.ty), pick(got, m.ty)
		for name, want := range m.flips {
			if s := sig(method(gt, name)); err == nil && s != want {
				err = fmt.Errorf("%s = %q, want %q", name, s, want)
			}
		}
		// everything that is not said to flip keeps its guards
		for _, list := range [][]AtomicMethod{bt.Methods, bt.Callbacks} {
			for _, bm := range list {
				if _, flips := m.flips[bm.Name]; flips || err != nil {
					continue
				}
				gm := method(gt, bm.Name)
				if gm == nil {
					err = fmt.Errorf("method %s disappeared", bm.Name)
				} else if guardsOnly(*gm) != guardsOnly(bm) {
					err = fmt.Errorf("%s changed: %q, was %q", bm.Name, guardsOnly(*gm), guardsOnly(bm))
				}
			}
		}
		if err == nil && !m.same && RenderAtomic(&Result{Atomic: got}) == RenderAtomic(&Result{Atomic: base}) {
			err = fmt.Errorf("the generated file did not change")
		}
		if err != nil {
			outs = append(outs, outcome{m.name, "FAILED", err.Error()})
			t.Errorf("%s: %v", m.name, err)
		} else {
			outs = append(outs, outcome{m.name, "ok", ""})
		}
	}
}

// A tree without the packages still yields a compilable degenerate file that says so.
func TestAtomicBrokenTree(t *testing.T) {
	a := atomicOf(t.TempDir())
	if len(a.Reasons) == 0 {
		t.Errorf("empty tree recognised")
	}
	txt := RenderAtomic(&Result{Atomic: a})
	if !strings.Contains(txt, "atomic_recognised : bool := false") || !strings.Contains(txt, "Definition session_methods : list (string * list eff) := [].") {
		t.Errorf("empty tree: not degenerate:\n%s", txt)
	}
	dir := writeTree(t, sessionFixture("func (l *sessionManager) A( {{{\n"))
	a = atomicOf(dir)
	if len(a.Reasons) == 0 {
		t.Errorf("syntax error recognised")
	}
}
