package main

// Translator self-test (DESIGN.md 7.4): gen2coq is run on mutated copies of the sources it reads and the
// extracted tables must change exactly as the mutation says — or the shape must be reported as not
// recognised. Harmless refactors must leave the generated files byte-identical.
//
//	GEN2COQ_REPO   tree to copy from (default /repo)
//	GEN2COQ_ERRV   Model/Err.v       (default /verif/coq/Model/Err.v)
//
// The mutations are textual edits of the reference shapes; when the tree under test is itself edited
// so that an edit does not apply (or its baseline is not the reference table) that case is skipped and
// counted — the self-test is about the translator, not about the tree.

import (
	"encoding/json"
	"fmt"
	"os"
	"path/filepath"
	"reflect"
	"regexp"
	"strings"
	"testing"
)

func env(k, d string) string {
	if v := os.Getenv(k); v != "" {
		return v
	}
	return d
}

var copyGlobs = []string{"go.mod", "ldlm.proto", ".api_config.yaml", "client/*.go", "net/grpc/*.go", "net/rest/*.go",
	"protos/*.go", "server/*.go", "server/session/*.go", "lock/*.go", "timermap/*.go"}

func copyTree(t *testing.T, src, dst string) {
	for _, g := range copyGlobs {
		ms, _ := filepath.Glob(filepath.Join(src, g))
		for _, m := range ms {
			if strings.HasSuffix(m, "_test.go") {
				continue
			}
			rel, _ := filepath.Rel(src, m)
			b, err := os.ReadFile(m)
			if err != nil {
				continue
			}
			os.MkdirAll(filepath.Dir(filepath.Join(dst, rel)), 0o755)
			if err := os.WriteFile(filepath.Join(dst, rel), b, 0o644); err != nil {
				t.Fatal(err)
			}
		}
	}
}

// identifiers of the reference shapes that mutation texts mention
var refIdents = []string{"errCode", "lockErrToProtoBuffErr", "rpcErrorToError", "r.lockTimeoutSeconds"}

// file may be prefixed with "all:" (replace every occurrence, default: the first) or "re:" (old is a regular expression)
type edit struct{ file, old, new string }

type mutant struct {
	name     string
	needs    []edit // (file, old): texts of the reference shape the baseline must contain for the case to apply
	edits    []edit
	harmless bool // generated files must be byte-identical to the baseline
	check    func(base, got *Result) error
}

func srvRow(r *Result, ctor string) string {
	for _, x := range r.SrvRows {
		if x.Ctor == ctor {
			return x.Code
		}
	}
	return "<no row>"
}

func cliRow(r *Result, code string) CliRow {
	for _, x := range r.CliRows {
		if x.Code == code {
			return x
		}
	}
	return CliRow{Kind: "<no row>"}
}

// srvDiff: the server table equals the baseline except for exactly the given rows.
func srvDiff(want map[string]string) func(base, got *Result) error {
	return func(base, got *Result) error {
		if !got.SrvOK() {
			return fmt.Errorf("server table not recognised: %v", got.SrvReasons)
		}
		for _, b := range base.SrvRows {
			w, changed := want[b.Ctor]
			if !changed {
				w = b.Code
			}
			if g := srvRow(got, b.Ctor); g != w {
				return fmt.Errorf("srv_code %s = %s, want %s", b.Ctor, g, w)
			}
		}
		return nil
	}
}

func cliDiff(want map[string][2]string) func(base, got *Result) error { // code -> (var, ctor)
	return func(base, got *Result) error {
		if !got.CliOK() {
			return fmt.Errorf("client table not recognised: %v", got.CliReasons)
		}
		for _, b := range base.CliRows {
			w, changed := want[b.Code]
			if !changed {
				w = [2]string{b.Var, b.Ctor}
			}
			g := cliRow(got, b.Code)
			if g.Var != w[0] || g.Ctor != w[1] {
				return fmt.Errorf("client row %s = (%q,%q), want (%q,%q)", b.Code, g.Var, g.Ctor, w[0], w[1])
			}
		}
		return nil
	}
}

func srvUnrecognised(base, got *Result) error {
	if got.SrvOK() {
		return fmt.Errorf("server table was accepted")
	}
	if !strings.Contains(RenderErrTables(got), "Definition srv_table_recognised : bool := false.") {
		return fmt.Errorf("flag not false in the rendered file")
	}
	if strings.Contains(RenderErrTables(got), "=> Code_InvalidLockKey\n  | ELock") {
		return fmt.Errorf("a table was rendered although the shape was not recognised")
	}
	return nil
}

func cliUnrecognised(base, got *Result) error {
	if got.CliOK() {
		return fmt.Errorf("client table was accepted")
	}
	if !strings.Contains(RenderErrTables(got), "Definition cli_table_recognised : bool := false.") {
		return fmt.Errorf("flag not false in the rendered file")
	}
	return nil
}

func constIs(name, val string) func(base, got *Result) error {
	return func(base, got *Result) error {
		for _, c := range got.Consts {
			if c.Name == name {
				if c.Val != val {
					return fmt.Errorf("%s = %s, want %s", name, c.Val, val)
				}
				return nil
			}
		}
		return fmt.Errorf("%s missing", name)
	}
}

const (
	grpcGo   = "net/grpc/grpc.go"
	clientGo = "client/client.go"
)

var referenceSrv = map[string]string{
	"ESrvEmptyName": "Unknown", "ESrvLockWaitTimeout": "LockWaitTimeout", "ESrvDoesNotExistOrInvalidKey": "LockDoesNotExistOrInvalidKey",
	"ESrvSessionDoesNotExist": "Unknown", "ESrvInvalidLockTimeout": "Unknown", "ESrvInvalidWaitTimeout": "Unknown",
	"ELockInvalidLockKey": "InvalidLockKey", "ELockNotLocked": "NotLocked", "ELockDoesNotExist": "LockDoesNotExist",
	"ELockManagerShutdown": "Unknown", "ELockSizeMismatch": "LockSizeMismatch", "ELockInvalidLockSize": "InvalidLockSize",
	"ETimerDoesNotExist": "LockDoesNotExistOrInvalidKey", "ECtxCanceled": "Unknown", "ECtxDeadlineExceeded": "Unknown", "EOther": "Unknown",
}

var referenceCli = map[string][2]string{
	"Unknown": {"", ""}, "LockDoesNotExist": {"ErrLockDoesNotExist", "ELockDoesNotExist"},
	"InvalidLockKey": {"ErrInvalidLockKey", "ELockInvalidLockKey"}, "LockWaitTimeout": {"ErrLockWaitTimeout", "ESrvLockWaitTimeout"},
	"NotLocked": {"ErrLockNotLocked", "ELockNotLocked"}, "LockDoesNotExistOrInvalidKey": {"ErrLockDoesNotExistOrInvalidKey", "ESrvDoesNotExistOrInvalidKey"},
	"LockSizeMismatch": {"ErrLockSizeMismatch", "ELockSizeMismatch"}, "InvalidLockSize": {"ErrInvalidLockSize", "ELockInvalidLockSize"},
}

const ifChain = `	if errors.Is(e, server.ErrLockWaitTimeout) {
		errCode = pb.ErrorCode_LockWaitTimeout
	} else if errors.Is(e, lock.ErrInvalidLockKey) {
		errCode = pb.ErrorCode_InvalidLockKey
	}
`

const mapShape = `// errorCodes maps the errors returned by the lock server to their protobuf error codes
var errorCodes = map[error]pb.ErrorCode{
	server.ErrLockWaitTimeout:              pb.ErrorCode_LockWaitTimeout,
	lock.ErrInvalidLockKey:                 pb.ErrorCode_InvalidLockKey,
	lock.ErrLockDoesNotExist:               pb.ErrorCode_LockDoesNotExist,
	lock.ErrLockNotLocked:                  pb.ErrorCode_NotLocked,
	timermap.ErrTimerDoesNotExist:          pb.ErrorCode_LockDoesNotExistOrInvalidKey,
	server.ErrLockDoesNotExistOrInvalidKey: pb.ErrorCode_LockDoesNotExistOrInvalidKey,
	lock.ErrInvalidLockSize:                pb.ErrorCode_InvalidLockSize,
	lock.ErrLockSizeMismatch:               pb.ErrorCode_LockSizeMismatch,
}

func lockErrToProtoBuffErr(e error) *pb.Error {
	if e == nil {
		return nil
	}

	errCode, ok := errorCodes[e]
	if !ok {
		errCode = pb.ErrorCode_Unknown
	}
	return &pb.Error{
		Code:    errCode,
		Message: e.Error(),
	}
}
`

const mapShapeRx = `(?s)// lockErrToProtoBuffErr converts an error to a protobuf error\nfunc lockErrToProtoBuffErr.*$`

const renewHelper = `func renewInterval(lockTimeoutSeconds int32) int32 {
	if lockTimeoutSeconds <= 30 {
		return MinRenewSeconds
	}
	return max(lockTimeoutSeconds-30, MinRenewSeconds)
}

func (r *renewer) Start() {
	interval := renewInterval(r.lockTimeoutSeconds)
	go func() {`

const renewStartRx = `(?s)func \(r \*renewer\) Start\(\) \{.*?\n\tgo func\(\) \{`

func constsUnrecognised(base, got *Result) error {
	if got.ConstOK() {
		return fmt.Errorf("constants were accepted")
	}
	return nil
}

func mutants() []mutant {
	allDefault := func(code string) map[string]string {
		m := map[string]string{}
		for k, v := range referenceSrv {
			if v == "Unknown" {
				m[k] = code
			}
		}
		return m
	}
	return []mutant{
		// ------------------------------------------------------------ server-side switch
		{name: "srv: swap the codes of two cases", edits: []edit{
			{grpcGo, "errCode = pb.ErrorCode_InvalidLockKey", "errCode = pb.ErrorCode_@@"},
			{grpcGo, "errCode = pb.ErrorCode_LockDoesNotExist\n", "errCode = pb.ErrorCode_InvalidLockKey\n"},
			{grpcGo, "errCode = pb.ErrorCode_@@", "errCode = pb.ErrorCode_LockDoesNotExist"}},
			check: srvDiff(map[string]string{"ELockInvalidLockKey": "LockDoesNotExist", "ELockDoesNotExist": "InvalidLockKey"})},
		{name: "srv: delete the InvalidLockSize case", edits: []edit{
			{grpcGo, "\tcase lock.ErrInvalidLockSize:\n\t\terrCode = pb.ErrorCode_InvalidLockSize\n", ""}},
			check: srvDiff(map[string]string{"ELockInvalidLockSize": "Unknown"})},
		{name: "srv: revert 830c22a (mapper does not know server.ErrLockDoesNotExistOrInvalidKey)", edits: []edit{
			{grpcGo, "case timermap.ErrTimerDoesNotExist, server.ErrLockDoesNotExistOrInvalidKey:", "case timermap.ErrTimerDoesNotExist:"}},
			check: srvDiff(map[string]string{"ESrvDoesNotExistOrInvalidKey": "Unknown"})},
		{name: "srv: a case moved under another", edits: []edit{
			{grpcGo, "\tcase lock.ErrInvalidLockKey:\n\t\terrCode = pb.ErrorCode_InvalidLockKey\n\tcase lock.ErrLockDoesNotExist:", "\tcase lock.ErrInvalidLockKey, lock.ErrLockDoesNotExist:"}},
			check: srvDiff(map[string]string{"ELockInvalidLockKey": "LockDoesNotExist"})},
		{name: "srv: extra case", edits: []edit{
			{grpcGo, "\tcase lock.ErrInvalidLockSize:", "\tcase server.ErrEmptyName:\n\t\terrCode = pb.ErrorCode_InvalidLockSize\n\tcase lock.ErrInvalidLockSize:"}},
			check: srvDiff(map[string]string{"ESrvEmptyName": "InvalidLockSize"})},
		{name: "srv: different initial value", edits: []edit{
			{grpcGo, "var errCode pb.ErrorCode = pb.ErrorCode_Unknown", "var errCode pb.ErrorCode = pb.ErrorCode_NotLocked"}},
			check: srvDiff(allDefault("NotLocked"))},
		{name: "srv: default clause", edits: []edit{
			{grpcGo, "\tcase lock.ErrInvalidLockSize:", "\tdefault:\n\t\terrCode = pb.ErrorCode_LockWaitTimeout\n\tcase lock.ErrInvalidLockSize:"}},
			check: srvDiff(allDefault("LockWaitTimeout"))},
		{name: "srv: duplicate case, first wins", edits: []edit{
			{grpcGo, "\tcase server.ErrLockWaitTimeout:", "\tcase lock.ErrLockSizeMismatch:\n\t\terrCode = pb.ErrorCode_NotLocked\n\tcase server.ErrLockWaitTimeout:"}},
			check: srvDiff(map[string]string{"ELockSizeMismatch": "NotLocked"})},
		{name: "srv: empty case body keeps the initial value", edits: []edit{
			{grpcGo, "\tcase lock.ErrLockNotLocked:\n\t\terrCode = pb.ErrorCode_NotLocked\n", "\tcase lock.ErrLockNotLocked:\n"}},
			check: srvDiff(map[string]string{"ELockNotLocked": "Unknown"})},
		{name: "srv: errors.Is chain instead of the switch", edits: []edit{
			{"re:" + grpcGo, `(?s)\tswitch e \{.*?\n\t\}\n`, ifChain}},
			check: srvUnrecognised},
		{name: "srv: fallthrough", edits: []edit{
			{grpcGo, "\t\terrCode = pb.ErrorCode_InvalidLockKey\n", "\t\terrCode = pb.ErrorCode_InvalidLockKey\n\t\tfallthrough\n"}},
			check: srvUnrecognised},
		{name: "srv: two statements in a case", edits: []edit{
			{grpcGo, "\t\terrCode = pb.ErrorCode_InvalidLockKey\n", "\t\terrCode = pb.ErrorCode_InvalidLockKey\n\t\terrCode = pb.ErrorCode_NotLocked\n"}},
			check: srvUnrecognised},
		{name: "srv: switch on another expression", edits: []edit{
			{grpcGo, "\tswitch e {", "\tswitch errors.Unwrap(e) {"}},
			check: srvUnrecognised},
		{name: "srv: code computed from a non-constant", edits: []edit{
			{grpcGo, "\t\terrCode = pb.ErrorCode_InvalidLockKey\n", "\t\terrCode = pb.ErrorCode(len(e.Error()))\n"}},
			check: srvUnrecognised},
		{name: "srv: return ignores the variable", edits: []edit{
			{grpcGo, "\t\tCode:    errCode,", "\t\tCode:    pb.ErrorCode_Unknown,"}},
			check: srvUnrecognised},
		{name: "srv: nil check removed", edits: []edit{
			{grpcGo, "\tif e == nil {\n\t\treturn nil\n\t}\n\n\tvar errCode", "\tvar errCode"}},
			check: srvUnrecognised},
		{name: "srv: one Service method bypasses the mapper", edits: []edit{
			{grpcGo, "\t\tUnlocked: unlocked,\n\t\tError:    lockErrToProtoBuffErr(err),", "\t\tUnlocked: unlocked,\n\t\tError:    nil,"}},
			check: srvUnrecognised},
		{name: "srv: error variable turned into an alias", edits: []edit{
			{"server/server.go", `ErrLockDoesNotExistOrInvalidKey = errors.New("lock does not exist or invalid key")`, `ErrLockDoesNotExistOrInvalidKey = timermap.ErrTimerDoesNotExist`}},
			check: srvUnrecognised},
		{name: "srv: rename parameter, variable and function (harmless)", harmless: true, edits: []edit{
			{grpcGo, "func lockErrToProtoBuffErr(e error) *pb.Error {\n\tif e == nil {", "func toPbErr(lockErr error) *pb.Error {\n\tif lockErr == nil {"},
			{grpcGo, "\tswitch e {", "\tswitch lockErr {"},
			{grpcGo, "\t\tMessage: e.Error(),", "\t\tMessage: lockErr.Error(),"},
			{"all:" + grpcGo, "lockErrToProtoBuffErr(err)", "toPbErr(err)"},
			{"all:" + grpcGo, "errCode", "c"}},
			check: func(base, got *Result) error {
				if got.SrvFunc != "toPbErr" {
					return fmt.Errorf("mapper found as %q", got.SrvFunc)
				}
				return srvDiff(nil)(base, got)
			}},
		{name: "srv: reorder two cases (harmless)", harmless: true, edits: []edit{
			{grpcGo, "\tcase lock.ErrInvalidLockSize:\n\t\terrCode = pb.ErrorCode_InvalidLockSize\n\tcase lock.ErrLockSizeMismatch:\n\t\terrCode = pb.ErrorCode_LockSizeMismatch\n",
				"\tcase lock.ErrLockSizeMismatch:\n\t\terrCode = pb.ErrorCode_LockSizeMismatch\n\tcase lock.ErrInvalidLockSize:\n\t\terrCode = pb.ErrorCode_InvalidLockSize\n"}},
			check: srvDiff(nil)},
		{name: "srv: shifted lines and comments (harmless)", harmless: true, edits: []edit{
			{grpcGo, "\tswitch e {", "\t// which code?\n\n\tswitch e { // by identity"}},
			check: srvDiff(nil)},

		// ------------------------------------------------------------ server-side table written as a map literal
		{name: "srv: table as a map literal + lookup (harmless)", harmless: true, needs: []edit{{grpcGo, "\tswitch e {", ""}}, edits: []edit{
			{"re:" + grpcGo, mapShapeRx, mapShape}},
			check: func(base, got *Result) error {
				if got.SrvShape != "map" {
					return fmt.Errorf("shape read as %q", got.SrvShape)
				}
				return srvDiff(nil)(base, got)
			}},
		{name: "srv: map literal, lookup without ok (zero value = Unknown) (harmless)", harmless: true, needs: []edit{{grpcGo, "\tswitch e {", ""}}, edits: []edit{
			{"re:" + grpcGo, mapShapeRx, strings.Replace(mapShape, "\terrCode, ok := errorCodes[e]\n\tif !ok {\n\t\terrCode = pb.ErrorCode_Unknown\n\t}\n", "\terrCode := errorCodes[e]\n", 1)}},
			check: srvDiff(nil)},
		{name: "srv: map literal, one value changed", needs: []edit{{grpcGo, "\tswitch e {", ""}}, edits: []edit{
			{"re:" + grpcGo, mapShapeRx, strings.Replace(mapShape, "lock.ErrLockNotLocked:                  pb.ErrorCode_NotLocked,", "lock.ErrLockNotLocked:                  pb.ErrorCode_InvalidLockKey,", 1)}},
			check: srvDiff(map[string]string{"ELockNotLocked": "InvalidLockKey"})},
		{name: "srv: map literal, entry dropped", needs: []edit{{grpcGo, "\tswitch e {", ""}}, edits: []edit{
			{"re:" + grpcGo, mapShapeRx, strings.Replace(mapShape, "\tserver.ErrLockDoesNotExistOrInvalidKey: pb.ErrorCode_LockDoesNotExistOrInvalidKey,\n", "", 1)}},
			check: srvDiff(map[string]string{"ESrvDoesNotExistOrInvalidKey": "Unknown"})},
		{name: "srv: map literal, other default", needs: []edit{{grpcGo, "\tswitch e {", ""}}, edits: []edit{
			{"re:" + grpcGo, mapShapeRx, strings.Replace(mapShape, "\t\terrCode = pb.ErrorCode_Unknown\n", "\t\terrCode = pb.ErrorCode_NotLocked\n", 1)}},
			check: srvDiff(allDefault("NotLocked"))},
		{name: "srv: map literal changed in init()", needs: []edit{{grpcGo, "\tswitch e {", ""}}, edits: []edit{
			{"re:" + grpcGo, mapShapeRx, mapShape + "\nfunc init() {\n\tdelete(errorCodes, lock.ErrLockNotLocked)\n}\n"}},
			check: srvUnrecognised},
		{name: "srv: map literal with a repeated key", needs: []edit{{grpcGo, "\tswitch e {", ""}}, edits: []edit{
			{"re:" + grpcGo, mapShapeRx, strings.Replace(mapShape, "\tlock.ErrLockSizeMismatch:               pb.ErrorCode_LockSizeMismatch,\n", "\tlock.ErrLockSizeMismatch:               pb.ErrorCode_LockSizeMismatch,\n\tlock.ErrInvalidLockKey:                 pb.ErrorCode_NotLocked,\n", 1)}},
			check: srvUnrecognised},
		{name: "srv: map lookup on something else than the error", needs: []edit{{grpcGo, "\tswitch e {", ""}}, edits: []edit{
			{"re:" + grpcGo, mapShapeRx, strings.Replace(mapShape, "errorCodes[e]", "errorCodes[errors.Unwrap(e)]", 1)}},
			check: srvUnrecognised},
		{name: "srv: map built by a function call", needs: []edit{{grpcGo, "\tswitch e {", ""}}, edits: []edit{
			{"re:" + grpcGo, mapShapeRx, strings.Replace(strings.Replace(mapShape, "var errorCodes = map[error]pb.ErrorCode{", "var errorCodes = mk(map[error]pb.ErrorCode{", 1), "\tlock.ErrLockSizeMismatch:               pb.ErrorCode_LockSizeMismatch,\n}", "\tlock.ErrLockSizeMismatch:               pb.ErrorCode_LockSizeMismatch,\n})\n\nfunc mk(m map[error]pb.ErrorCode) map[error]pb.ErrorCode { return m }", 1)}},
			check: srvUnrecognised},

		// ------------------------------------------------------------ client-side switch
		{name: "cli: swap two returns", edits: []edit{
			{clientGo, "\t\treturn ErrLockDoesNotExist\n", "\t\treturn @@\n"},
			{clientGo, "\t\treturn ErrInvalidLockKey\n", "\t\treturn ErrLockDoesNotExist\n"},
			{clientGo, "\t\treturn @@\n", "\t\treturn ErrInvalidLockKey\n"}},
			check: cliDiff(map[string][2]string{"LockDoesNotExist": {"ErrInvalidLockKey", "ELockInvalidLockKey"}, "InvalidLockKey": {"ErrLockDoesNotExist", "ELockDoesNotExist"}})},
		{name: "cli: delete the InvalidLockSize case", edits: []edit{
			{clientGo, "\tcase pb.ErrorCode_InvalidLockSize:\n\t\treturn ErrInvalidLockSize\n", ""}},
			check: cliDiff(map[string][2]string{"InvalidLockSize": {"", ""}})},
		{name: "cli: exported variable is a fresh errors.New", edits: []edit{
			{clientGo, "= lock.ErrLockSizeMismatch\n", "= errors.New(\"lock size mismatch\")\n"}},
			check: cliDiff(map[string][2]string{"LockSizeMismatch": {"ErrLockSizeMismatch", "EOther"}})},
		{name: "cli: exported variable re-exports another value", edits: []edit{
			{clientGo, "= lock.ErrInvalidLockKey\n", "= lock.ErrLockDoesNotExist\n"}},
			check: cliDiff(map[string][2]string{"InvalidLockKey": {"ErrInvalidLockKey", "ELockDoesNotExist"}})},
		{name: "cli: case moved under another", edits: []edit{
			{clientGo, "\tcase pb.ErrorCode_LockSizeMismatch:\n\t\treturn ErrLockSizeMismatch\n\tcase pb.ErrorCode_InvalidLockSize:", "\tcase pb.ErrorCode_LockSizeMismatch, pb.ErrorCode_InvalidLockSize:"}},
			check: cliDiff(map[string][2]string{"LockSizeMismatch": {"ErrInvalidLockSize", "ELockInvalidLockSize"}})},
		{name: "cli: a case returns the package variable directly", edits: []edit{
			{clientGo, "\t\treturn ErrLockNotLocked\n\tcase pb.ErrorCode_LockDoesNotExistOrInvalidKey:", "\t\treturn lock.ErrLockNotLocked\n\tcase pb.ErrorCode_LockDoesNotExistOrInvalidKey:"}},
			check: cliDiff(map[string][2]string{"NotLocked": {"", "ELockNotLocked"}})},
		{name: "cli: default clause returning a variable instead of the Unknown case", edits: []edit{
			{clientGo, "\tcase pb.ErrorCode_Unknown:\n\t\treturn errors.New(err.Message)\n", "\tdefault:\n\t\treturn ErrLockNotLocked\n"}},
			check: func(base, got *Result) error {
				if !strings.HasPrefix(got.CliFallback, "var:") {
					return fmt.Errorf("fallback = %q", got.CliFallback)
				}
				return cliDiff(map[string][2]string{"Unknown": {"ErrLockNotLocked", "ELockNotLocked"}})(base, got)
			}},
		{name: "cli: a case returns nil", edits: []edit{
			{clientGo, "\t\treturn ErrInvalidLockKey\n", "\t\treturn nil\n"}},
			check: cliUnrecognised},
		{name: "cli: a case wraps with %w", edits: []edit{
			{clientGo, "\t\treturn ErrInvalidLockKey\n", "\t\treturn fmt.Errorf(\"rpc: %w\", ErrInvalidLockKey)\n"}},
			check: cliUnrecognised},
		{name: "cli: if chain instead of the switch", edits: []edit{
			{clientGo, "\tswitch err.Code {", "\tif err.Code == pb.ErrorCode_LockDoesNotExist {\n\t\treturn ErrLockDoesNotExist\n\t}\n\tswitch err.Code {"}},
			check: cliUnrecognised},
		{name: "cli: switch on something else", edits: []edit{
			{clientGo, "\tswitch err.Code {", "\tswitch err.Code + 1 {"}},
			check: cliUnrecognised},
		{name: "cli: two statements in a case", edits: []edit{
			{clientGo, "\t\treturn ErrInvalidLockKey\n", "\t\terr.Code = 0\n\t\treturn ErrInvalidLockKey\n"}},
			check: cliUnrecognised},
		{name: "cli: one Client method bypasses the mapper", edits: []edit{
			{clientGo, "\treturn r.Unlocked, rpcErrorToError(r.Error)", "\treturn r.Unlocked, nil"}},
			check: cliUnrecognised},
		{name: "cli: rename parameter and function, reorder cases (harmless)", harmless: true, edits: []edit{
			{clientGo, "func rpcErrorToError(err *pb.Error) error {\n\tif err == nil {", "func toError(pe *pb.Error) error {\n\tif pe == nil {"},
			{clientGo, "\tswitch err.Code {", "\tswitch pe.Code {"},
			{clientGo, "errors.New(err.Message)", "errors.New(pe.Message)"},
			{clientGo, "err.Code, err.Message)", "pe.Code, pe.Message)"},
			{"all:" + clientGo, "rpcErrorToError(", "toError("},
			{clientGo, "\tcase pb.ErrorCode_LockSizeMismatch:\n\t\treturn ErrLockSizeMismatch\n\tcase pb.ErrorCode_InvalidLockSize:\n\t\treturn ErrInvalidLockSize\n",
				"\tcase pb.ErrorCode_InvalidLockSize:\n\t\treturn ErrInvalidLockSize\n\tcase pb.ErrorCode_LockSizeMismatch:\n\t\treturn ErrLockSizeMismatch\n"}},
			check: cliDiff(nil)},

		// ------------------------------------------------------------ enum
		{name: "enum: renumbered consistently in .pb.go and .proto", edits: []edit{
			{"protos/ldlm.pb.go", "ErrorCode_LockSizeMismatch             ErrorCode = 6", "ErrorCode_LockSizeMismatch             ErrorCode = 7"},
			{"protos/ldlm.pb.go", "ErrorCode_InvalidLockSize              ErrorCode = 7", "ErrorCode_InvalidLockSize              ErrorCode = 6"},
			{"protos/ldlm.pb.go", "6: \"LockSizeMismatch\"", "7: \"LockSizeMismatch\""},
			{"protos/ldlm.pb.go", "7: \"InvalidLockSize\"", "6: \"InvalidLockSize\""},
			{"ldlm.proto", "LockSizeMismatch = 6;", "LockSizeMismatch = 7;"},
			{"ldlm.proto", "InvalidLockSize = 7;", "InvalidLockSize = 6;"}},
			check: func(base, got *Result) error {
				if !got.EnumOK() || !got.SrvOK() || !got.CliOK() {
					return fmt.Errorf("not recognised")
				}
				for _, e := range got.Enum {
					if (e.Name == "LockSizeMismatch" && e.Num != 7) || (e.Name == "InvalidLockSize" && e.Num != 6) {
						return fmt.Errorf("%s = %d", e.Name, e.Num)
					}
				}
				if !reflect.DeepEqual(got.Enum, got.ProtoEnum) {
					return fmt.Errorf("proto and pb.go read differently")
				}
				return srvDiff(nil)(base, got)
			}},
		{name: "enum: renumbered in .pb.go only", edits: []edit{
			{"protos/ldlm.pb.go", "ErrorCode_LockSizeMismatch             ErrorCode = 6", "ErrorCode_LockSizeMismatch             ErrorCode = 9"}},
			check: func(base, got *Result) error {
				if reflect.DeepEqual(got.Enum, got.ProtoEnum) {
					return fmt.Errorf("the disagreement between .pb.go and .proto is not visible in the output")
				}
				return nil
			}},
		{name: "enum: value removed", edits: []edit{
			{"protos/ldlm.pb.go", "\tErrorCode_NotLocked                    ErrorCode = 4\n", ""}},
			check: func(base, got *Result) error {
				// the switches mention a constant that is no longer in the enum
				if got.SrvOK() || got.CliOK() {
					return fmt.Errorf("tables accepted although they use a removed enum value")
				}
				return nil
			}},

		// ------------------------------------------------------------ constants and routes
		{name: "const: MinRenewSeconds", edits: []edit{{clientGo, "MinRenewSeconds = int32(10)", "MinRenewSeconds = int32(12)"}},
			check: constIs("client_MinRenewSeconds", "12")},
		{name: "const: RetryDelaySeconds", edits: []edit{{clientGo, "RetryDelaySeconds = 3", "RetryDelaySeconds = 5"}},
			check: constIs("client_RetryDelaySeconds", "5")},
		{name: "const: renew threshold", edits: []edit{{clientGo, "r.lockTimeoutSeconds <= 30", "r.lockTimeoutSeconds <= 45"}},
			check: constIs("renew_threshold", "45")},
		{name: "const: renew subtrahend", edits: []edit{{clientGo, "max(r.lockTimeoutSeconds-30, MinRenewSeconds)", "max(r.lockTimeoutSeconds-20, MinRenewSeconds)"}},
			check: constIs("renew_subtract", "20")},
		{name: "const: renew formula of another shape", edits: []edit{{clientGo, "max(r.lockTimeoutSeconds-30, MinRenewSeconds)", "r.lockTimeoutSeconds / 2"}},
			check: constIs("renew_formula_recognised", "false")},
		{name: "const: MinRenewSeconds through a named constant (harmless)", harmless: true, edits: []edit{
			{clientGo, "MinRenewSeconds = int32(10)", "MinRenewSeconds = int32(defaultMinRenew)"},
			{clientGo, "var (\n\t// Minimum amount of time", "const defaultMinRenew = 10\n\nvar (\n\t// Minimum amount of time"}},
			check: constIs("client_MinRenewSeconds", "10")},
		{name: "const: MinRenewSeconds as constant arithmetic", edits: []edit{{clientGo, "MinRenewSeconds = int32(10)", "MinRenewSeconds = int32(2*5 + 1)"}},
			check: constIs("client_MinRenewSeconds", "11")},
		{name: "const: MinRenewSeconds from another variable", edits: []edit{{clientGo, "MinRenewSeconds = int32(10)", "MinRenewSeconds = int32(RetryDelaySeconds)"}},
			check: constsUnrecognised},
		{name: "const: MinRenewSeconds conversion that does not fit", edits: []edit{{clientGo, "MinRenewSeconds = int32(10)", "MinRenewSeconds = int32(1 << 40)"}},
			check: constsUnrecognised},
		{name: "const: renew formula in a helper (harmless)", harmless: true, needs: []edit{{clientGo, "\tif r.lockTimeoutSeconds <= 30 {", ""}}, edits: []edit{
			{"re:" + clientGo, renewStartRx, renewHelper}},
			check: constIs("renew_formula_recognised", "true")},
		{name: "const: renew helper with another threshold", needs: []edit{{clientGo, "\tif r.lockTimeoutSeconds <= 30 {", ""}}, edits: []edit{
			{"re:" + clientGo, renewStartRx, strings.Replace(renewHelper, "lockTimeoutSeconds <= 30", "lockTimeoutSeconds <= 40", 1)}},
			check: constIs("renew_threshold", "40")},
		{name: "const: renew helper of another shape", needs: []edit{{clientGo, "\tif r.lockTimeoutSeconds <= 30 {", ""}}, edits: []edit{
			{"re:" + clientGo, renewStartRx, strings.Replace(renewHelper, "\treturn max(lockTimeoutSeconds-30, MinRenewSeconds)", "\treturn lockTimeoutSeconds / 2", 1)}},
			check: constIs("renew_formula_recognised", "false")},
		{name: "const: renew helper called twice", needs: []edit{{clientGo, "\tif r.lockTimeoutSeconds <= 30 {", ""}}, edits: []edit{
			{"re:" + clientGo, renewStartRx, strings.Replace(renewHelper, "\tinterval := renewInterval(r.lockTimeoutSeconds)\n", "\tinterval := renewInterval(r.lockTimeoutSeconds)\n\tinterval += renewInterval(r.lockTimeoutSeconds)\n", 1)}},
			check: constIs("renew_formula_recognised", "false")},
		{name: "const: cookie name", edits: []edit{{"net/rest/rest.go", `sessionCookieName = "ldlm-session"`, `sessionCookieName = "sid"`}},
			check: constIs("rest_sessionCookieName", `"sid"`)},
		{name: "const: shards default", edits: []edit{{"server/types.go", `default:"16"`, `default:"32"`}},
			check: constIs("cfg_Shards", "32")},
		{name: "const: gc min idle default", edits: []edit{{"server/types.go", `default:"5m"`, `default:"90s"`}},
			check: constIs("cfg_LockGcMinIdle_ns", "90000000000")},
		{name: "const: rest session timeout default", edits: []edit{{"net/rest/types.go", `default:"10m"`, `default:"1h"`}},
			check: constIs("cfg_RestSessionTimeout_ns", "3600000000000")},
		{name: "routes: yaml path", edits: []edit{{".api_config.yaml", "post: '/v1/lock'", "post: '/v2/lock'"}},
			check: func(base, got *Result) error {
				for _, r := range got.RoutesYaml {
					if r.Path == "/v2/lock" && r.Rpc == "TryLock" && r.Method == "POST" {
						return nil
					}
				}
				return fmt.Errorf("yaml routes = %v", got.RoutesYaml)
			}},
		{name: "routes: yaml selector", edits: []edit{{".api_config.yaml", "selector: ldlm.LDLM.TryLock", "selector: ldlm.LDLM.Lock"}},
			check: func(base, got *Result) error {
				for _, r := range got.RoutesYaml {
					if r.Path == "/v1/lock" && r.Rpc == "Lock" {
						return nil
					}
				}
				return fmt.Errorf("yaml routes = %v", got.RoutesYaml)
			}},
		{name: "routes: gateway pattern", edits: []edit{{"protos/ldlm.pb.gw.go", `[]string{"v1", "lock"}`, `[]string{"v1", "trylock"}`}},
			check: func(base, got *Result) error {
				for _, r := range got.RoutesGw {
					if r.Path == "/v1/trylock" && r.Rpc == "TryLock" {
						return nil
					}
				}
				return fmt.Errorf("gw routes = %v", got.RoutesGw)
			}},
		{name: "routes: gateway handler calls another method", edits: []edit{{"protos/ldlm.pb.gw.go", "msg, err := server.TryLock(ctx, &protoReq)", "msg, err := server.Renew(ctx, nil)"}},
			check: func(base, got *Result) error {
				if got.RouteOK() {
					return fmt.Errorf("accepted: %v", got.RoutesGw)
				}
				return nil
			}},
		{name: "routes: rest registers the gateway over a connection", edits: []edit{{"net/rest/rest.go", "pb.RegisterLDLMHandlerServer(context.Background(), gwMux, server)", "pb.RegisterLDLMHandlerClient(context.Background(), gwMux, nil)"}},
			check: func(base, got *Result) error {
				if got.RouteOK() {
					return fmt.Errorf("accepted")
				}
				return nil
			}},
	}
}

func TestMutants(t *testing.T) {
	repo := env("GEN2COQ_REPO", "/repo")
	errv := env("GEN2COQ_ERRV", "/verif/coq/Model/Err.v")
	baseDir := filepath.Join(t.TempDir(), "base")
	copyTree(t, repo, baseDir)
	base := Translate(baseDir, errv)
	baseET, baseCS := RenderErrTables(base), RenderConsts(base)

	type outcome struct {
		Name   string `json:"name"`
		Result string `json:"result"` // ok | skipped | FAILED
		Why    string `json:"why,omitempty"`
	}
	var outs []outcome
	report := func() {
		n := map[string]int{}
		for _, o := range outs {
			n[o.Result]++
		}
		js, _ := json.Marshal(map[string]any{"mutants": len(outs), "ok": n["ok"], "skipped": n["skipped"], "failed": n["FAILED"], "outcomes": outs})
		fmt.Println("SELFTEST_RESULT " + string(js))
	}
	defer report()

	// the baseline must be the reference shape, otherwise the expectations below do not apply
	refOK := base.SrvOK() && base.CliOK() && base.ConstOK() && base.RouteOK()
	if refOK {
		refOK = srvDiff(referenceSrv)(base, base) == nil && cliDiff(referenceCli)(base, base) == nil
	}
	if !refOK {
		for _, m := range mutants() {
			outs = append(outs, outcome{m.name, "skipped", "the tree under test is not the reference shape"})
		}
		t.Skip("baseline is not the reference shape; reasons: ", base.SrvReasons, base.CliReasons, base.ConstReasons, base.RouteReasons)
	}

	for i, m := range mutants() {
		dir := filepath.Join(t.TempDir(), fmt.Sprintf("m%02d", i))
		copyTree(t, baseDir, dir)
		applied := true
		for _, nd := range m.needs {
			if b, err := os.ReadFile(filepath.Join(dir, nd.file)); err != nil || !strings.Contains(string(b), nd.old) {
				applied = false
			}
		}
		for _, e := range m.edits {
			if !applied {
				break
			}
			all, re := strings.HasPrefix(e.file, "all:"), strings.HasPrefix(e.file, "re:")
			p := filepath.Join(dir, strings.TrimPrefix(strings.TrimPrefix(e.file, "all:"), "re:"))
			b, err := os.ReadFile(p)
			if err == nil && re {
				rx := regexp.MustCompile(e.old)
				if !rx.Match(b) {
					applied = false
					break
				}
				os.WriteFile(p, rx.ReplaceAllLiteral(b, []byte(e.new)), 0o644)
				continue
			}
			if err != nil || !strings.Contains(string(b), e.old) {
				applied = false
				break
			}
			// the inserted text names identifiers of the reference shape: on a tree that calls them differently (a
			// harmless rename in the tree under test) the mutated copy would not be the mutation the case is about
			for _, id := range refIdents {
				if strings.Contains(e.new, id) && !strings.Contains(string(b), id) {
					applied = false
				}
			}
			if !applied {
				break
			}
			n := 1
			if all {
				n = -1
			}
			os.WriteFile(p, []byte(strings.Replace(string(b), e.old, e.new, n)), 0o644)
		}
		if !applied {
			outs = append(outs, outcome{m.name, "skipped", "edit does not apply to this tree"})
			continue
		}
		got := Translate(dir, errv)
		et, cs := safeRender(got)
		var err error
		if m.check != nil {
			err = m.check(base, got)
		}
		same := et == baseET && cs == baseCS
		if err == nil && m.harmless && !same {
			err = fmt.Errorf("harmless refactor changed the generated files")
		}
		if err == nil && !m.harmless && same {
			err = fmt.Errorf("generated files did not change")
		}
		if err != nil {
			outs = append(outs, outcome{m.name, "FAILED", err.Error()})
			t.Errorf("%s: %v", m.name, err)
		} else {
			outs = append(outs, outcome{m.name, "ok", ""})
		}
	}
}

// A tree that does not parse, or is missing, still yields compilable degenerate files.
func TestBrokenTrees(t *testing.T) {
	errv := env("GEN2COQ_ERRV", "/verif/coq/Model/Err.v")
	empty := t.TempDir()
	r := Translate(empty, errv)
	et, cs := safeRender(r)
	if r.SrvOK() || r.CliOK() || r.EnumOK() || !strings.Contains(et, "Inductive code") || !strings.Contains(et, "tables_recognised") || !strings.Contains(cs, "consts_recognised : bool := false") {
		t.Errorf("empty tree: not degenerate")
	}
	repo := env("GEN2COQ_REPO", "/repo")
	dir := filepath.Join(t.TempDir(), "syntax")
	copyTree(t, repo, dir)
	for _, f := range []string{grpcGo, clientGo} {
		b, _ := os.ReadFile(filepath.Join(dir, f))
		os.WriteFile(filepath.Join(dir, f), append([]byte("func {{{ \n"), b...), 0o644)
	}
	r = Translate(dir, errv)
	if r.SrvOK() || r.CliOK() {
		t.Errorf("syntax errors: tables accepted")
	}
	if et, _ := safeRender(r); !strings.Contains(et, "srv_table_recognised : bool := false") {
		t.Errorf("syntax errors: flag not false")
	}
}
