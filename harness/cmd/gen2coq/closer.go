package main

// The order in which cmd/server's main() shuts the server down after the signal arrived (T2 layer 2 drives the real stack's
// closer in that order, lib/svtie.py closer_order). Read from the syntax tree, so that wrapping the three calls in a local
// closure or a helper function, or waiting for the signal in a helper, does not hide them:
//
//	lockSrv, lockSrvCloser, err := server.New(...)      binds the server object and its closer        ("server")
//	netCloser, err := net.Run(lockSrv, ...)             binds the closer of the network listeners     ("net")
//	<-ch                                                the wait                                      ("wait")
//	lockSrv.PrepareShutdown()                                                                         ("prepare")
//
// main's statements are followed in order. `if cond { ...; os.Exit / return / panic }` branches are error exits and are left
// out; the else branch of such an if is followed. A call of a local closure or of a function of package main is followed into
// its body (arguments that are bound names stay bound under the parameter's name). Nothing is guessed: one of the three
// calls inside a loop, a switch, a select, a non-terminating branch, a goroutine or a defer, a second wait, a closer called
// twice or before the wait — the order is "not recognised" and the caller falls back to what it did before.

import (
	"fmt"
	"go/ast"
	"go/token"
)

type closerWalk struct {
	t        *tr
	files    []*ast.File
	events   []string
	reasons  []string
	closures []map[string]*ast.FuncLit
}

func (t *tr) readCloserOrder() {
	R := &t.res.CloserReasons
	files, err := t.files("cmd/server")
	if err != nil && len(files) == 0 {
		*R = append(*R, "cmd/server: "+err.Error())
		return
	}
	fd, file := findFunc(files, "", "main")
	if fd == nil {
		*R = append(*R, "cmd/server: func main not found")
		return
	}
	w := &closerWalk{t: t, files: files}
	w.block(fd.Body.List, map[string]string{}, imports(file), 0)
	if len(w.reasons) > 0 {
		*R = append(*R, w.reasons...)
		return
	}
	at := -1
	for i, e := range w.events {
		if e == "wait" {
			if at >= 0 {
				*R = append(*R, "main waits more than once")
				return
			}
			at = i
		}
	}
	if at < 0 {
		*R = append(*R, "main never waits on a channel (`<-ch`)")
		return
	}
	if at != 0 {
		*R = append(*R, fmt.Sprintf("%v happen before the wait", w.events[:at]))
		return
	}
	seen := map[string]bool{}
	for _, e := range w.events[at+1:] {
		if seen[e] {
			*R = append(*R, e+" is called twice after the wait")
			return
		}
		seen[e] = true
	}
	t.res.CloserOrder = append([]string{}, w.events[at+1:]...)
}

func (w *closerWalk) fail(n ast.Node, why string) {
	w.reasons = append(w.reasons, w.t.pos(n)+": "+why)
}

// has: does the subtree contain something that is (or may lead to) one of the events?
func (w *closerWalk) has(n ast.Node, bind map[string]string) bool {
	found := false
	ast.Inspect(n, func(x ast.Node) bool {
		switch y := x.(type) {
		case *ast.UnaryExpr:
			if y.Op == token.ARROW {
				found = true
			}
		case *ast.CallExpr:
			switch f := y.Fun.(type) {
			case *ast.Ident:
				if bind[f.Name] == "net" || bind[f.Name] == "server" || w.closure(f.Name) != nil {
					found = true
				} else if h, _ := findFunc(w.files, "", f.Name); h != nil {
					found = true // a function of package main: it may do anything with what it is given
				}
			case *ast.SelectorExpr:
				if f.Sel.Name == "PrepareShutdown" {
					found = true
				}
			}
		}
		return !found
	})
	return found
}

func (w *closerWalk) closure(name string) *ast.FuncLit {
	for i := len(w.closures) - 1; i >= 0; i-- {
		if fl, ok := w.closures[i][name]; ok {
			return fl
		}
	}
	return nil
}

func terminates(list []ast.Stmt) bool {
	if len(list) == 0 {
		return false
	}
	switch s := list[len(list)-1].(type) {
	case *ast.ReturnStmt:
		return true
	case *ast.ExprStmt:
		if c, ok := s.X.(*ast.CallExpr); ok {
			switch f := c.Fun.(type) {
			case *ast.Ident:
				return f.Name == "panic"
			case *ast.SelectorExpr:
				if x, ok := f.X.(*ast.Ident); ok {
					return (x.Name == "os" && f.Sel.Name == "Exit") || (x.Name == "log" && (f.Sel.Name == "Fatal" || f.Sel.Name == "Fatalf" || f.Sel.Name == "Fatalln"))
				}
			}
		}
	}
	return false
}

// assign: bindings made by `a, b, c := pkg.F(...)`.
func (w *closerWalk) assign(s *ast.AssignStmt, bind map[string]string, imp map[string]string) {
	if len(s.Rhs) != 1 {
		for _, r := range s.Rhs {
			if w.has(r, bind) {
				w.fail(s, "an assignment with several values does one of the shutdown steps")
			}
		}
		return
	}
	name := func(i int) string {
		if i < len(s.Lhs) {
			if id, ok := s.Lhs[i].(*ast.Ident); ok && id.Name != "_" {
				return id.Name
			}
		}
		return ""
	}
	switch r := s.Rhs[0].(type) {
	case *ast.FuncLit:
		if n := name(0); n != "" && len(s.Lhs) == 1 {
			w.closures[len(w.closures)-1][n] = r
			delete(bind, n)
			return
		}
	case *ast.CallExpr:
		if se, ok := r.Fun.(*ast.SelectorExpr); ok {
			if x, ok := se.X.(*ast.Ident); ok {
				path := imp[x.Name]
				if path == w.t.module+"/server" && se.Sel.Name == "New" && len(s.Lhs) == 3 {
					if n := name(0); n != "" {
						bind[n] = "lockSrv"
					}
					if n := name(1); n != "" {
						bind[n] = "server"
					}
					return
				}
				if path == w.t.module+"/net" && se.Sel.Name == "Run" && len(s.Lhs) == 2 {
					if n := name(0); n != "" {
						bind[n] = "net"
					}
					return
				}
			}
		}
	}
	// any other assignment: a bound name that is overwritten is no longer what it was
	for i := range s.Lhs {
		if n := name(i); n != "" {
			if _, was := bind[n]; was {
				w.fail(s, n+" is assigned again")
			}
		}
	}
	if w.has(s.Rhs[0], bind) {
		w.fail(s, "one of the shutdown steps happens inside an expression")
	}
}

func (w *closerWalk) block(list []ast.Stmt, bind map[string]string, imp map[string]string, depth int) {
	w.closures = append(w.closures, map[string]*ast.FuncLit{})
	defer func() { w.closures = w.closures[:len(w.closures)-1] }()
	for _, s := range list {
		if len(w.reasons) > 0 {
			return
		}
		w.stmt(s, bind, imp, depth)
	}
}

func (w *closerWalk) stmt(s ast.Stmt, bind map[string]string, imp map[string]string, depth int) {
	switch x := s.(type) {
	case *ast.AssignStmt:
		w.assign(x, bind, imp)
	case *ast.DeclStmt, *ast.EmptyStmt, *ast.IncDecStmt:
		if w.has(x, bind) {
			w.fail(x, "one of the shutdown steps happens inside a declaration")
		}
	case *ast.BlockStmt:
		w.block(x.List, bind, imp, depth)
	case *ast.IfStmt:
		if x.Init != nil {
			w.stmt(x.Init, bind, imp, depth)
		}
		if w.has(x.Cond, bind) {
			w.fail(x, "one of the shutdown steps happens inside a condition")
			return
		}
		thenEnds := terminates(x.Body.List)
		switch {
		case thenEnds && x.Else == nil:
			// an error exit: not on the way to the shutdown
		case thenEnds:
			w.stmt(x.Else, bind, imp, depth)
		default:
			if w.has(x.Body, bind) || (x.Else != nil && w.has(x.Else, bind)) {
				w.fail(x, "one of the shutdown steps is conditional")
			}
		}
	case *ast.ExprStmt:
		w.expr(x.X, x, bind, imp, depth)
	case *ast.ReturnStmt:
		// main returns: nothing follows (statements after it are not reached, none in straight-line code)
	default:
		// for, range, switch, select, go, defer, labeled, send ...
		if w.has(x, bind) {
			w.fail(x, fmt.Sprintf("one of the shutdown steps is inside a %T", x))
		}
	}
}

func (w *closerWalk) expr(e ast.Expr, at ast.Node, bind map[string]string, imp map[string]string, depth int) {
	switch x := e.(type) {
	case *ast.UnaryExpr:
		if x.Op == token.ARROW {
			w.events = append(w.events, "wait")
			return
		}
	case *ast.ParenExpr:
		w.expr(x.X, at, bind, imp, depth)
		return
	case *ast.CallExpr:
		for _, a := range x.Args {
			if _, isId := a.(*ast.Ident); !isId && w.has(a, bind) {
				w.fail(at, "one of the shutdown steps happens inside an argument")
				return
			}
		}
		switch f := x.Fun.(type) {
		case *ast.Ident:
			if k := bind[f.Name]; k == "net" || k == "server" {
				if len(x.Args) != 0 {
					w.fail(at, "a closer is called with arguments")
					return
				}
				w.events = append(w.events, k)
				return
			}
			if fl := w.closure(f.Name); fl != nil {
				if depth >= 4 {
					w.fail(at, "calls nested too deeply")
					return
				}
				if len(x.Args) != 0 || (fl.Type.Params != nil && len(fl.Type.Params.List) != 0) {
					w.fail(at, "a local closure with parameters is not followed")
					return
				}
				w.block(fl.Body.List, bind, imp, depth+1)
				return
			}
			if h, hf := findFunc(w.files, "", f.Name); h != nil {
				if depth >= 4 {
					w.fail(at, "calls nested too deeply")
					return
				}
				// parameters take the bindings of the arguments; nothing else of the caller is visible
				nb := map[string]string{}
				var params []string
				variadic := false
				if h.Type.Params != nil {
					for _, fld := range h.Type.Params.List {
						if _, ok := fld.Type.(*ast.Ellipsis); ok {
							variadic = true
						}
						for _, n := range fld.Names {
							params = append(params, n.Name)
						}
					}
				}
				passesBound := false
				for _, a := range x.Args {
					if id, ok := a.(*ast.Ident); ok && bind[id.Name] != "" {
						passesBound = true
					}
				}
				if passesBound && (variadic || len(params) != len(x.Args)) {
					w.fail(at, "a bound name is passed to a function whose parameters cannot be matched")
					return
				}
				if !variadic && len(params) == len(x.Args) {
					for i, a := range x.Args {
						if id, ok := a.(*ast.Ident); ok && bind[id.Name] != "" {
							nb[params[i]] = bind[id.Name]
						}
					}
				}
				saved := w.closures
				w.closures = nil
				w.block(h.Body.List, nb, imports(hf), depth+1)
				w.closures = saved
				return
			}
			return // a builtin or a conversion
		case *ast.SelectorExpr:
			if id, ok := f.X.(*ast.Ident); ok && bind[id.Name] == "lockSrv" && f.Sel.Name == "PrepareShutdown" {
				w.events = append(w.events, "prepare")
				return
			}
			if f.Sel.Name == "PrepareShutdown" {
				w.fail(at, "PrepareShutdown is called on something that is not the server made by server.New")
				return
			}
			// a bound closer handed to another package's function could be called there
			for _, a := range x.Args {
				if id, ok := a.(*ast.Ident); ok && (bind[id.Name] == "net" || bind[id.Name] == "server") {
					w.fail(at, "a closer is passed to "+exprString(w.t.fset, f))
					return
				}
			}
			return
		case *ast.FuncLit:
			if len(x.Args) == 0 {
				w.block(f.Body.List, bind, imp, depth+1)
				return
			}
		}
	}
	if w.has(e, bind) {
		w.fail(at, "one of the shutdown steps happens inside an expression that is not followed")
	}
}
