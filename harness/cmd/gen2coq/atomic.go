package main

// Atomicity facts (Gen/Atomic.v; DESIGN.md 4.3 T3, 11.1).
//
// Model/Sv.v and Model/Seq.v take every call of the session manager (server/session: AddLock, RemoveLock, CreateSession,
// DestroySession, DestroySessionIfEmpty, Locks — each INCLUDING the rewrite of the state file) and every call of the timer map
// (timermap: Add, Remove, Reset, shutdown — each including the Stop/Reset/AfterFunc of the time.Timer) as ONE step. The code
// justifies that by holding the write lock across all of it. This file turns that reading of the code into data that is
// regenerated from the tree under test on every run:
//
//	for every method of the guarded type: the list of its EFFECTS in source order, each with the GUARD it executes under
//	and the number of the critical section (the n-th acquisition of the mutex along the method) it belongs to.
//
// effects   MapRead / MapWrite / MapDelete / MapRange of a map-typed field of the receiver (also through a local alias),
//           FieldAssign (the map field itself is assigned), StoreAssign (another non-mutex field is assigned),
//           TimerStop / TimerReset (x.Stop(), x.Reset(d) inside the type that owns a map of *time.Timer), AfterFunc (time.AfterFunc),
//           StoreWrite (recv.<field>.Write(..), also through a local alias of the field, or <pkg store>.Write(..)),
//           Save (a call of a method of the same receiver that — transitively — performs a StoreWrite),
//           Call m (any other call of a method m of the same receiver), UserCallback (a call of a func-typed parameter).
// guards    WLock (between X.Lock() and the matching X.Unlock(), or after X.Lock() once `defer X.Unlock()` is registered),
//           RLock (the same with RLock/RUnlock), NoLock. X is the one sync.(RW)Mutex field of the type.
//
// The lists are CLOSED under calls of methods of the same receiver: the callee's body is walked at the call site with the
// lock state of the call site, so the effects of a helper that relies on its caller holding the lock carry the caller's guard
// (and a helper called from a locked and from an unlocked site shows up with both). A callee that takes the lock itself
// contributes its own critical sections. Closures handed to time.AfterFunc (or started with `go`) run later on another
// goroutine: their bodies are separate pseudo-methods (`Add$callback`) that start with no lock held.
//
// The walk is an abstract interpretation of the syntax tree over the state (held guard, section, unlock deferred?): both
// branches of an if / every clause of a switch or select are followed and joined (a branch that returns or panics does not
// take part), loop bodies must leave the lock state as they found it. Rule of the translator: whatever it cannot classify —
// lock states that differ between two paths reaching the same statement, a return with the lock held and no deferred unlock,
// goto / labelled jumps / fallthrough, TryLock, a mutex operation inside an expression, a deferred call that has effects, a
// closure with effects that escapes into an unknown callee, the address of the map field, recursion, several mutexes in the
// type — is reported in atomic_reasons and atomic_recognised becomes false, which fails the guard lemma.

import (
	"fmt"
	"go/ast"
	"go/parser"
	"go/token"
	"os"
	"path/filepath"
	"regexp"
	"sort"
	"strings"
)

// ---------------------------------------------------------------------------------- result

type AtomicEffect struct {
	Kind    string `json:"kind"`             // MapRead ... (see above)
	Callee  string `json:"callee,omitempty"` // Call / Save: the method
	Guard   string `json:"guard"`            // WLock | RLock | NoLock
	Section int    `json:"section"`          // 0 when no lock is held
	Pos     string `json:"pos"`
	Via     string `json:"via,omitempty"` // chain of inlined callees the effect was reached through
}

type AtomicMethod struct {
	Name    string         `json:"name"`
	Pos     string         `json:"pos"`
	Effects []AtomicEffect `json:"effects"`
}

type AtomicType struct {
	Dir       string         `json:"dir"`
	Type      string         `json:"type"`
	MapFields []string       `json:"map_fields"`
	Mutex     string         `json:"mutex"`
	Methods   []AtomicMethod `json:"methods"`   // every method of the type (and its constructor functions), in source order
	Callbacks []AtomicMethod `json:"callbacks"` // pseudo-methods: closures run by time.AfterFunc / go
	// methods that never touch the mutex themselves, are called by other methods of the type and are not referred to from
	// outside the package: their effects are judged at their call sites (where they are inlined), not on their own
	Helpers []string `json:"helpers"`
}

type Atomic struct {
	Session    AtomicType `json:"session"`
	Timermap   AtomicType `json:"timermap"`
	StoreWrite []string   `json:"store_write_shape"` // os-level calls of (*store).Write in source order, helpers of the package inlined
	StorePos   string     `json:"store_write_pos"`
	Reasons    []string   `json:"reasons"`
}

func (r *Result) AtomicOK() bool { return r.Atomic != nil && len(r.Atomic.Reasons) == 0 }

// ---------------------------------------------------------------------------------- entry

const (
	sessionDir  = "server/session"
	timermapDir = "timermap"
	storeDir    = "server/session/store"
)

func (t *tr) readAtomic() {
	a := &Atomic{}
	t.res.Atomic = a
	a.Session = t.atomicType(a, sessionDir, "sessionManager")
	a.Timermap = t.atomicType(a, timermapDir, "TimerMap")
	t.storeShape(a)
}

// parseObj parses the non-test files of a directory WITH identifier resolution (ident.Obj): the walk needs to know whether a
// name is the receiver, a parameter or a local — the receiver is shadowed by a loop variable in RemoveLock.
func (t *tr) parseObj(dir string) ([]*ast.File, error) {
	ents, err := os.ReadDir(filepath.Join(t.repo, dir))
	if err != nil {
		return nil, err
	}
	names := []string{}
	for _, e := range ents {
		n := e.Name()
		if e.IsDir() || !strings.HasSuffix(n, ".go") || strings.HasSuffix(n, "_test.go") {
			continue
		}
		names = append(names, n)
	}
	sort.Strings(names)
	var out []*ast.File
	var first error
	for _, n := range names {
		f, err := parser.ParseFile(t.fset, filepath.Join(t.repo, dir, n), nil, 0)
		if err != nil {
			if first == nil {
				first = err
			}
			continue
		}
		out = append(out, f)
	}
	return out, first
}

// ---------------------------------------------------------------------------------- the guarded type

type aType struct {
	name     string
	mapF     map[string]bool // map-typed fields
	timerMap bool            // some map field has *time.Timer values
	mutexF   string          // the mutex field ("" = embedded: recv.Lock())
	embedded bool
	rw       bool
	otherF   map[string]bool           // every other field
	methods  map[string]*ast.FuncDecl  // by name
	funcs    map[string]*ast.FuncDecl  // the package's functions (walked at a call site when handed the receiver, the map, the store or the mutex)
	fileOf   map[*ast.FuncDecl]*ast.File
	order    []*ast.FuncDecl
}

func isSyncMutex(e ast.Expr, imp map[string]string) (ok, rw bool) {
	if s, is := e.(*ast.StarExpr); is {
		e = s.X
	}
	sel, is := e.(*ast.SelectorExpr)
	if !is {
		return false, false
	}
	id, is := sel.X.(*ast.Ident)
	if !is || imp[id.Name] != "sync" {
		return false, false
	}
	switch sel.Sel.Name {
	case "RWMutex":
		return true, true
	case "Mutex":
		return true, false
	}
	return false, false
}

func isTimerPtr(e ast.Expr, imp map[string]string) bool {
	if s, is := e.(*ast.StarExpr); is {
		e = s.X
	}
	sel, is := e.(*ast.SelectorExpr)
	if !is {
		return false
	}
	id, is := sel.X.(*ast.Ident)
	return is && imp[id.Name] == "time" && sel.Sel.Name == "Timer"
}

func recvTypeName(fd *ast.FuncDecl) string {
	if fd.Recv == nil || len(fd.Recv.List) != 1 {
		return ""
	}
	e := fd.Recv.List[0].Type
	if s, ok := e.(*ast.StarExpr); ok {
		e = s.X
	}
	if id, ok := e.(*ast.Ident); ok {
		return id.Name
	}
	return ""
}

// findGuardedType: the struct named `want`; when there is none, the only struct of the package that has both a map field and a
// sync mutex field (a rename of the type is not a change of behaviour).
func findGuardedType(files []*ast.File, want string) (*ast.TypeSpec, *ast.File, string) {
	type cand struct {
		ts *ast.TypeSpec
		f  *ast.File
	}
	var shaped []cand
	for _, f := range files {
		imp := imports(f)
		for _, d := range f.Decls {
			gd, ok := d.(*ast.GenDecl)
			if !ok || gd.Tok != token.TYPE {
				continue
			}
			for _, sp := range gd.Specs {
				ts := sp.(*ast.TypeSpec)
				st, ok := ts.Type.(*ast.StructType)
				if !ok {
					continue
				}
				if ts.Name.Name == want {
					return ts, f, ""
				}
				hasMap, hasMu := false, false
				for _, fl := range st.Fields.List {
					if _, ok := fl.Type.(*ast.MapType); ok {
						hasMap = true
					}
					if ok, _ := isSyncMutex(fl.Type, imp); ok {
						hasMu = true
					}
				}
				if hasMap && hasMu {
					shaped = append(shaped, cand{ts, f})
				}
			}
		}
	}
	if len(shaped) == 1 {
		return shaped[0].ts, shaped[0].f, ""
	}
	return nil, nil, fmt.Sprintf("type %s not found (and %d structs of the package have a map and a mutex)", want, len(shaped))
}

func (t *tr) atomicType(a *Atomic, dir, want string) AtomicType {
	out := AtomicType{Dir: dir, Type: want}
	fail := func(format string, args ...any) AtomicType {
		a.Reasons = append(a.Reasons, dir+": "+fmt.Sprintf(format, args...))
		return out
	}
	files, err := t.parseObj(dir)
	if err != nil {
		a.Reasons = append(a.Reasons, dir+": "+err.Error())
		if len(files) == 0 {
			return out
		}
	}
	ts, tf, why := findGuardedType(files, want)
	if ts == nil {
		return fail("%s", why)
	}
	out.Type = ts.Name.Name
	ty := &aType{name: ts.Name.Name, mapF: map[string]bool{}, otherF: map[string]bool{}, methods: map[string]*ast.FuncDecl{}, funcs: map[string]*ast.FuncDecl{}, fileOf: map[*ast.FuncDecl]*ast.File{}}
	imp := imports(tf)
	nmu := 0
	for _, fl := range ts.Type.(*ast.StructType).Fields.List {
		mu, rw := isSyncMutex(fl.Type, imp)
		if mu {
			if len(fl.Names) == 0 {
				nmu++
				ty.embedded, ty.rw = true, rw
				continue
			}
			for _, n := range fl.Names {
				nmu++
				ty.mutexF, ty.rw = n.Name, rw
			}
			continue
		}
		for _, n := range fl.Names {
			if mt, ok := fl.Type.(*ast.MapType); ok {
				ty.mapF[n.Name] = true
				out.MapFields = append(out.MapFields, n.Name)
				if isTimerPtr(mt.Value, imp) {
					ty.timerMap = true
				}
			} else {
				ty.otherF[n.Name] = true
			}
		}
	}
	if nmu != 1 {
		return fail("type %s has %d sync mutex fields: which one guards the map is not decided", ty.name, nmu)
	}
	if len(ty.mapF) == 0 {
		return fail("type %s has no map field", ty.name)
	}
	out.Mutex = ty.mutexF
	if ty.embedded {
		out.Mutex = "(embedded)"
	}
	var ctors []*ast.FuncDecl
	for _, f := range files {
		for _, d := range f.Decls {
			fd, ok := d.(*ast.FuncDecl)
			if !ok || fd.Body == nil {
				continue
			}
			ty.fileOf[fd] = f
			if fd.Recv == nil {
				ty.funcs[fd.Name.Name] = fd
				if constructs(fd, ty.name) {
					ctors = append(ctors, fd)
				}
				continue
			}
			if recvTypeName(fd) == ty.name {
				if _, dup := ty.methods[fd.Name.Name]; dup {
					return fail("method %s declared twice", fd.Name.Name)
				}
				ty.methods[fd.Name.Name] = fd
				ty.order = append(ty.order, fd)
			}
		}
	}
	sort.SliceStable(ty.order, func(i, j int) bool { return t.posLess(ty.order[i], ty.order[j]) })

	pseudoSeen := map[*ast.FuncLit]bool{}
	var queue []pseudoReq
	// constructors: the composite literal assigns the map field before the value is shared
	for _, fd := range ctors {
		m := AtomicMethod{Name: fd.Name.Name, Pos: t.pos(fd)}
		ast.Inspect(fd.Body, func(n ast.Node) bool {
			cl, ok := n.(*ast.CompositeLit)
			if !ok || !isTypeName(cl.Type, ty.name) {
				return true
			}
			for _, el := range cl.Elts {
				if kv, ok := el.(*ast.KeyValueExpr); ok {
					if id, ok := kv.Key.(*ast.Ident); ok && ty.mapF[id.Name] {
						m.Effects = append(m.Effects, AtomicEffect{Kind: "FieldAssign", Guard: "NoLock", Pos: t.pos(kv)})
					}
				}
			}
			return true
		})
		out.Methods = append(out.Methods, m)
	}
	called := map[string]bool{}
	for _, fd := range ty.order {
		w := t.newWalk(a, ty, fd, &queue, pseudoSeen, called)
		w.top(fd.Name.Name, fd.Body)
		out.Methods = append(out.Methods, AtomicMethod{Name: fd.Name.Name, Pos: t.pos(fd), Effects: w.effects})
	}
	used := map[string]int{}
	for len(queue) > 0 {
		q := queue[0]
		queue = queue[1:]
		w := t.newWalk(a, ty, q.in, &queue, pseudoSeen, called)
		for o := range q.recvs {
			w.recvs[o] = true
		}
		for o, k := range q.alias {
			w.alias[o] = k
		}
		for o, l := range q.closures {
			w.closures[o] = l
		}
		used[q.name]++
		name := q.name
		if used[q.name] > 1 {
			name = fmt.Sprintf("%s%d", q.name, used[q.name])
		}
		if q.lit != nil {
			w.top(name, q.lit.Body)
		} else {
			w.cur = append(w.cur, name)
			s := w.expr(q.call, aState{})
			w.leave(q.call, s, true)
		}
		out.Callbacks = append(out.Callbacks, AtomicMethod{Name: name, Pos: t.pos(q.node), Effects: w.effects})
	}
	// helpers
	ext := t.externalRefs(dir)
	for _, fd := range ty.order {
		n := fd.Name.Name
		if called[n] && !touchesMutex(fd.Body, ty) && !(ast.IsExported(n) && ext[n]) {
			out.Helpers = append(out.Helpers, n)
		}
	}
	return out
}

func (t *tr) posLess(a, b ast.Node) bool {
	pa, pb := t.fset.Position(a.Pos()), t.fset.Position(b.Pos())
	if pa.Filename != pb.Filename {
		return pa.Filename < pb.Filename
	}
	return pa.Offset < pb.Offset
}

func isTypeName(e ast.Expr, name string) bool {
	id, ok := e.(*ast.Ident)
	return ok && id.Name == name
}

func constructs(fd *ast.FuncDecl, typ string) bool {
	found := false
	ast.Inspect(fd.Body, func(n ast.Node) bool {
		if cl, ok := n.(*ast.CompositeLit); ok && isTypeName(cl.Type, typ) {
			found = true
		}
		return !found
	})
	return found
}

var mutexOps = map[string]bool{"Lock": true, "Unlock": true, "RLock": true, "RUnlock": true, "TryLock": true, "TryRLock": true}

// touchesMutex: a Lock/Unlock/... call on the type's mutex field appears anywhere in the body (syntactic, any base expression).
func touchesMutex(body *ast.BlockStmt, ty *aType) bool {
	found := false
	ast.Inspect(body, func(n ast.Node) bool {
		c, ok := n.(*ast.CallExpr)
		if !ok {
			return !found
		}
		sel, ok := c.Fun.(*ast.SelectorExpr)
		if !ok || !mutexOps[sel.Sel.Name] {
			return true
		}
		if ty.embedded {
			if _, ok := sel.X.(*ast.Ident); ok {
				found = true
			}
		}
		if in, ok := sel.X.(*ast.SelectorExpr); ok && in.Sel.Name == ty.mutexF {
			found = true
		}
		if id, ok := sel.X.(*ast.Ident); ok && id.Obj != nil {
			found = true // a local (possibly an alias of the mutex): be careful, do not call the method a helper
		}
		return !found
	})
	return found
}

// externalRefs: names N such that `.N(` occurs in a non-test Go file of the tree outside dir (textual: an over-approximation
// of "is called from another package").
func (t *tr) externalRefs(dir string) map[string]bool {
	out := map[string]bool{}
	rx := regexp.MustCompile(`\.([A-Z][A-Za-z0-9_]*)\(`)
	skip := filepath.Join(t.repo, dir)
	filepath.WalkDir(t.repo, func(p string, d os.DirEntry, err error) error {
		if err != nil {
			return nil
		}
		if d.IsDir() {
			b := d.Name()
			if p != t.repo && (strings.HasPrefix(b, ".") || b == "vendor" || b == "testdata" || b == "node_modules") {
				return filepath.SkipDir
			}
			return nil
		}
		if !strings.HasSuffix(p, ".go") || strings.HasSuffix(p, "_test.go") || filepath.Dir(p) == skip {
			return nil
		}
		if st, err := d.Info(); err != nil || st.Size() > 4<<20 {
			return nil
		}
		b, err := os.ReadFile(p)
		if err != nil {
			return nil
		}
		for _, m := range rx.FindAllSubmatch(b, -1) {
			out[string(m[1])] = true
		}
		return nil
	})
	return out
}

// ---------------------------------------------------------------------------------- the walk

type aGuard int

const (
	gNo aGuard = iota
	gR
	gW
)

func (g aGuard) String() string { return [...]string{"NoLock", "RLock", "WLock"}[g] }

type aState struct {
	held     aGuard
	sec      int
	deferred bool // the unlock of the held lock is deferred to the exit of the current frame
	dead     bool // control does not reach here (after return / panic)
}

func sameLock(a, b aState) bool { return a.held == b.held && a.deferred == b.deferred && (a.held == gNo || a.sec == b.sec) }

type aliasKind int

const (
	akMap aliasKind = iota + 1
	akStore
	akMutex
)

type jumpCtx struct {
	loop   bool
	breaks []aState
	conts  []aState
}

type pseudoReq struct {
	name     string
	lit      *ast.FuncLit
	call     *ast.CallExpr
	node     ast.Node
	in       *ast.FuncDecl
	recvs    map[*ast.Object]bool
	alias    map[*ast.Object]aliasKind
	closures map[*ast.Object]*ast.FuncLit
}

type aWalk struct {
	t        *tr
	a        *Atomic
	ty       *aType
	imp      map[string]string
	decl     *ast.FuncDecl
	effects  []AtomicEffect
	nsec     int
	recvs    map[*ast.Object]bool
	alias    map[*ast.Object]aliasKind
	closures map[*ast.Object]*ast.FuncLit
	cur      []string // syntactic functions being walked: the method, then inlined callees
	frames   []*[]aState
	jumps    []*jumpCtx
	queue    *[]pseudoReq
	seen     map[*ast.FuncLit]bool
	called   map[string]bool
	probing  bool
	probeHit bool
}

func (t *tr) newWalk(a *Atomic, ty *aType, fd *ast.FuncDecl, queue *[]pseudoReq, seen map[*ast.FuncLit]bool, called map[string]bool) *aWalk {
	w := &aWalk{t: t, a: a, ty: ty, decl: fd, recvs: map[*ast.Object]bool{}, alias: map[*ast.Object]aliasKind{}, closures: map[*ast.Object]*ast.FuncLit{},
		queue: queue, seen: seen, called: called}
	w.imp = imports(ty.fileOf[fd])
	if o := recvObj(fd); o != nil {
		w.recvs[o] = true
	}
	return w
}

func recvObj(fd *ast.FuncDecl) *ast.Object {
	if fd.Recv == nil || len(fd.Recv.List) != 1 || len(fd.Recv.List[0].Names) != 1 {
		return nil
	}
	return fd.Recv.List[0].Names[0].Obj
}

func (w *aWalk) fail(n ast.Node, format string, args ...any) {
	if w.probing {
		w.probeHit = true
		return
	}
	msg := fmt.Sprintf("%s (%s.%s): %s", w.t.pos(n), w.ty.name, strings.Join(w.cur, ">"), fmt.Sprintf(format, args...))
	for _, r := range w.a.Reasons {
		if r == msg {
			return
		}
	}
	w.a.Reasons = append(w.a.Reasons, msg)
}

func (w *aWalk) emit(kind, callee string, n ast.Node, s aState) int {
	if w.probing {
		w.probeHit = true
	}
	e := AtomicEffect{Kind: kind, Callee: callee, Guard: s.held.String(), Pos: w.t.pos(n)}
	if s.held != gNo {
		e.Section = s.sec
	}
	if len(w.cur) > 1 {
		e.Via = strings.Join(w.cur[1:], ">")
	}
	w.effects = append(w.effects, e)
	return len(w.effects) - 1
}

// top walks a body as a goroutine's entry: no lock held at entry, none may be held at exit.
func (w *aWalk) top(name string, body *ast.BlockStmt) {
	w.cur = append(w.cur, name)
	rets := []aState{}
	w.frames = append(w.frames, &rets)
	end := w.stmts(body.List, aState{})
	w.frames = w.frames[:len(w.frames)-1]
	end = w.exit(body, end, true)
	for _, r := range rets {
		end = w.join(body, end, r, "at the exits of the function")
	}
	w.cur = w.cur[:len(w.cur)-1]
}

// exit: what leaving a frame in state s means. A deferred unlock runs; at the top a lock that is still held is a leak.
func (w *aWalk) exit(n ast.Node, s aState, top bool) aState {
	if s.dead {
		return s
	}
	if s.deferred {
		s.held, s.deferred, s.sec = gNo, false, 0
	}
	if top && s.held != gNo {
		w.fail(n, "leaves with %s held and no deferred unlock", s.held)
	}
	return s
}

func (w *aWalk) leave(n ast.Node, s aState, top bool) { w.exit(n, s, top); w.cur = w.cur[:len(w.cur)-1] }

func (w *aWalk) join(n ast.Node, a, b aState, where string) aState {
	if a.dead {
		return b
	}
	if b.dead {
		return a
	}
	if a.held == b.held && a.deferred == b.deferred {
		if a.held != gNo && a.sec != b.sec {
			// the same kind of lock taken on both paths: one critical section from here on
			for i := range w.effects {
				if w.effects[i].Section == b.sec {
					w.effects[i].Section = a.sec
				}
			}
		}
		return a
	}
	w.fail(n, "the lock state differs between the paths %s (%s%s / %s%s)", where, a.held, defd(a), b.held, defd(b))
	if b.held < a.held {
		return b
	}
	return a
}

func defd(s aState) string {
	if s.deferred {
		return "+deferred unlock"
	}
	return ""
}

func (w *aWalk) stmts(list []ast.Stmt, s aState) aState {
	for _, st := range list {
		if s.dead {
			break // unreachable code: nothing executes
		}
		s = w.stmt(st, s)
	}
	return s
}

// mutexExpr: e denotes the type's mutex of the receiver.
func (w *aWalk) mutexExpr(e ast.Expr) bool {
	e = unparen(e)
	if u, ok := e.(*ast.UnaryExpr); ok && u.Op == token.AND {
		e = unparen(u.X)
	}
	if id, ok := e.(*ast.Ident); ok {
		if w.alias[id.Obj] == akMutex && id.Obj != nil {
			return true
		}
		return w.ty.embedded && w.isRecv(id)
	}
	sel, ok := e.(*ast.SelectorExpr)
	if !ok {
		return false
	}
	if w.ty.embedded {
		return w.isRecv(sel.X) && (sel.Sel.Name == "RWMutex" || sel.Sel.Name == "Mutex")
	}
	return w.isRecv(sel.X) && sel.Sel.Name == w.ty.mutexF
}

func unparen(e ast.Expr) ast.Expr {
	for {
		p, ok := e.(*ast.ParenExpr)
		if !ok {
			return e
		}
		e = p.X
	}
}

func (w *aWalk) isRecv(e ast.Expr) bool {
	id, ok := unparen(e).(*ast.Ident)
	return ok && id.Obj != nil && w.recvs[id.Obj]
}

// field: e is recv.<name>; returns name.
func (w *aWalk) field(e ast.Expr) (string, bool) {
	sel, ok := unparen(e).(*ast.SelectorExpr)
	if !ok || !w.isRecv(sel.X) {
		return "", false
	}
	return sel.Sel.Name, true
}

func (w *aWalk) isMap(e ast.Expr) bool {
	e = unparen(e)
	if id, ok := e.(*ast.Ident); ok {
		return id.Obj != nil && w.alias[id.Obj] == akMap
	}
	f, ok := w.field(e)
	return ok && w.ty.mapF[f]
}

func (w *aWalk) isStore(e ast.Expr) bool {
	e = unparen(e)
	if id, ok := e.(*ast.Ident); ok {
		if id.Obj != nil && w.alias[id.Obj] == akStore {
			return true
		}
		// a package whose import path ends in /store
		if id.Obj == nil {
			if p, ok := w.imp[id.Name]; ok && (strings.HasSuffix(p, "/store") || p == "store") {
				return true
			}
		}
		return false
	}
	f, ok := w.field(e)
	return ok && w.ty.otherF[f]
}

// mutexOp: a statement-level Lock/Unlock/RLock/RUnlock of the guard mutex.
func (w *aWalk) mutexOp(e ast.Expr) (string, bool) {
	c, ok := unparen(e).(*ast.CallExpr)
	if !ok {
		return "", false
	}
	sel, ok := c.Fun.(*ast.SelectorExpr)
	if !ok || !mutexOps[sel.Sel.Name] || !w.mutexExpr(sel.X) {
		return "", false
	}
	return sel.Sel.Name, true
}

func (w *aWalk) applyMutex(n ast.Node, op string, s aState) aState {
	if w.probing {
		w.probeHit = true
	}
	switch op {
	case "Lock", "RLock":
		if s.held != gNo {
			w.fail(n, "%s() while %s is held", op, s.held)
		}
		w.nsec++
		s.sec, s.deferred = w.nsec, false
		s.held = gW
		if op == "RLock" {
			s.held = gR
		}
	case "Unlock", "RUnlock":
		want := gW
		if op == "RUnlock" {
			want = gR
		}
		if s.held != want {
			w.fail(n, "%s() while %s is held", op, s.held)
		}
		if s.deferred {
			w.fail(n, "%s() although the unlock is deferred as well", op)
		}
		s.held, s.sec, s.deferred = gNo, 0, false
	default:
		w.fail(n, "%s() on the guard mutex: conditional acquisition is not classified", op)
	}
	return s
}

func (w *aWalk) stmt(st ast.Stmt, s aState) aState {
	switch x := st.(type) {
	case nil:
		return s
	case *ast.BlockStmt:
		return w.stmts(x.List, s)
	case *ast.EmptyStmt:
		return s
	case *ast.LabeledStmt:
		w.fail(x, "labelled statement")
		return w.stmt(x.Stmt, s)
	case *ast.ExprStmt:
		if op, ok := w.mutexOp(x.X); ok {
			return w.applyMutex(x, op, s)
		}
		s = w.expr(x.X, s)
		if isNoReturn(x.X, w.imp) {
			s.dead = true
		}
		return s
	case *ast.DeferStmt:
		return w.deferStmt(x, s)
	case *ast.GoStmt:
		for _, a := range x.Call.Args {
			s = w.expr(a, s)
		}
		switch f := unparen(x.Call.Fun).(type) {
		case *ast.FuncLit:
			if w.hasEffects(f) {
				w.pseudo(f, nil, x, "$go")
			}
		case *ast.SelectorExpr:
			if w.isRecv(f.X) && w.ty.methods[f.Sel.Name] != nil {
				w.pseudo(nil, x.Call, x, "$go")
			} else {
				s = w.expr(f.X, s)
			}
		}
		return s
	case *ast.AssignStmt:
		return w.assign(x, s)
	case *ast.DeclStmt:
		gd, ok := x.Decl.(*ast.GenDecl)
		if !ok {
			return s
		}
		for _, sp := range gd.Specs {
			vs, ok := sp.(*ast.ValueSpec)
			if !ok {
				continue
			}
			for i, v := range vs.Values {
				if u, ok := unparen(v).(*ast.UnaryExpr); ok && u.Op == token.AND && w.mutexExpr(u) && i < len(vs.Names) {
					continue // var mu = &recv.mutex
				}
				s = w.expr(v, s)
			}
			for i, n := range vs.Names {
				if i < len(vs.Values) {
					w.bind(n, vs.Values[i])
				}
			}
		}
		return s
	case *ast.IncDecStmt:
		if ix, ok := unparen(x.X).(*ast.IndexExpr); ok && w.isMap(ix.X) {
			s = w.expr(ix.Index, s)
			w.emit("MapRead", "", x, s)
			w.emit("MapWrite", "", x, s)
			return s
		}
		return w.expr(x.X, s)
	case *ast.SendStmt:
		s = w.expr(x.Chan, s)
		return w.expr(x.Value, s)
	case *ast.ReturnStmt:
		for _, r := range x.Results {
			s = w.expr(r, s)
		}
		top := len(w.frames) == 1
		out := w.exit(x, s, top)
		if len(w.frames) > 0 {
			f := w.frames[len(w.frames)-1]
			*f = append(*f, out)
		}
		s.dead = true
		return s
	case *ast.BranchStmt:
		if x.Label != nil || x.Tok == token.GOTO || x.Tok == token.FALLTHROUGH {
			w.fail(x, "%s %v: jump not classified", x.Tok, x.Label)
			s.dead = true
			return s
		}
		for i := len(w.jumps) - 1; i >= 0; i-- {
			j := w.jumps[i]
			if x.Tok == token.BREAK {
				j.breaks = append(j.breaks, s)
				break
			}
			if j.loop {
				j.conts = append(j.conts, s)
				break
			}
		}
		s.dead = true
		return s
	case *ast.IfStmt:
		s = w.stmt(x.Init, s)
		s = w.expr(x.Cond, s)
		a := w.stmts(x.Body.List, s)
		b := s
		if x.Else != nil {
			b = w.stmt(x.Else, s)
		}
		return w.join(x, a, b, "after the if")
	case *ast.ForStmt:
		s = w.stmt(x.Init, s)
		s = w.expr(x.Cond, s)
		return w.loop(x, x.Body, x.Post, s, x.Cond == nil)
	case *ast.RangeStmt:
		if w.isMap(x.X) {
			w.emit("MapRange", "", x.X, s)
		} else {
			s = w.expr(x.X, s)
		}
		for _, kv := range []ast.Expr{x.Key, x.Value} {
			if id, ok := kv.(*ast.Ident); ok && id.Obj != nil {
				delete(w.alias, id.Obj)
				delete(w.closures, id.Obj)
			}
		}
		return w.loop(x, x.Body, nil, s, false)
	case *ast.SwitchStmt:
		s = w.stmt(x.Init, s)
		s = w.expr(x.Tag, s)
		return w.clauses(x, x.Body, s)
	case *ast.TypeSwitchStmt:
		s = w.stmt(x.Init, s)
		s = w.stmt(x.Assign, s)
		return w.clauses(x, x.Body, s)
	case *ast.SelectStmt:
		return w.clauses(x, x.Body, s)
	default:
		w.fail(st, "statement %T not classified", st)
		return s
	}
}

func isNoReturn(e ast.Expr, imp map[string]string) bool {
	c, ok := unparen(e).(*ast.CallExpr)
	if !ok {
		return false
	}
	switch f := c.Fun.(type) {
	case *ast.Ident:
		return f.Name == "panic" && f.Obj == nil
	case *ast.SelectorExpr:
		id, ok := f.X.(*ast.Ident)
		if !ok || id.Obj != nil {
			return false
		}
		p := imp[id.Name]
		return (p == "os" && f.Sel.Name == "Exit") || (p == "log" && strings.HasPrefix(f.Sel.Name, "Fatal")) || (p == "runtime" && f.Sel.Name == "Goexit")
	}
	return false
}

func (w *aWalk) loop(n ast.Node, body *ast.BlockStmt, post ast.Stmt, entry aState, infinite bool) aState {
	j := &jumpCtx{loop: true}
	w.jumps = append(w.jumps, j)
	end := w.stmts(body.List, entry)
	w.jumps = w.jumps[:len(w.jumps)-1]
	for _, c := range append(j.conts, end) {
		if !c.dead && !sameLock(c, entry) {
			w.fail(n, "the loop body changes the lock state (%s at its start, %s at its end)", entry.held, c.held)
		}
	}
	if post != nil {
		w.stmt(post, entry)
	}
	after := entry
	if infinite {
		after.dead = true
	}
	for _, b := range j.breaks {
		after = w.join(n, after, b, "after the loop")
	}
	return after
}

func (w *aWalk) clauses(n ast.Node, body *ast.BlockStmt, s aState) aState {
	j := &jumpCtx{}
	w.jumps = append(w.jumps, j)
	out := aState{dead: true}
	hasDefault := false
	for _, c := range body.List {
		cs := s
		var list []ast.Stmt
		switch cc := c.(type) {
		case *ast.CaseClause:
			if cc.List == nil {
				hasDefault = true
			}
			for _, e := range cc.List {
				cs = w.expr(e, cs)
			}
			list = cc.Body
		case *ast.CommClause:
			if cc.Comm == nil {
				hasDefault = true
			}
			cs = w.stmt(cc.Comm, cs)
			list = cc.Body
		}
		out = w.join(n, out, w.stmts(list, cs), "after the switch")
	}
	w.jumps = w.jumps[:len(w.jumps)-1]
	if _, isSelect := n.(*ast.SelectStmt); !hasDefault && !isSelect {
		out = w.join(n, out, s, "after the switch")
	}
	for _, b := range j.breaks {
		out = w.join(n, out, b, "after the switch")
	}
	return out
}

func (w *aWalk) deferStmt(x *ast.DeferStmt, s aState) aState {
	regDeferred := func(op string) aState {
		want := gW
		if op == "RUnlock" {
			want = gR
		}
		if op != "Unlock" && op != "RUnlock" {
			w.fail(x, "defer %s() on the guard mutex", op)
			return s
		}
		if s.held != want {
			w.fail(x, "defer %s() while %s is held", op, s.held)
			return s
		}
		if s.deferred {
			w.fail(x, "the unlock is deferred twice")
		}
		if len(w.jumps) > 0 {
			w.fail(x, "defer %s() inside a loop or switch", op)
		}
		s.deferred = true
		return s
	}
	if op, ok := w.mutexOp(x.Call); ok {
		return regDeferred(op)
	}
	// defer func() { ...; X.Unlock() }()  — a closure whose only lock-relevant content is the unlock
	if lit, ok := unparen(x.Call.Fun).(*ast.FuncLit); ok && len(x.Call.Args) == 0 {
		var op string
		n := 0
		rest := &ast.BlockStmt{}
		for _, st := range lit.Body.List {
			if es, ok := st.(*ast.ExprStmt); ok {
				if o, ok := w.mutexOp(es.X); ok {
					op, n = o, n+1
					continue
				}
			}
			rest.List = append(rest.List, st)
		}
		if n == 1 && !w.hasEffectsBlock(rest) {
			return regDeferred(op)
		}
		if n == 0 && !w.hasEffectsBlock(rest) {
			return s
		}
		w.fail(x, "deferred closure with effects or several mutex operations")
		return s
	}
	for _, a := range x.Call.Args {
		s = w.expr(a, s)
	}
	if w.hasEffectsExpr(x.Call) {
		w.fail(x, "deferred call with effects: its place in the order of effects is not classified")
	}
	return s
}

// probe helpers: does walking this piece of syntax emit an effect, touch the mutex or hit an unclassified shape?
func (w *aWalk) probe(f func()) bool {
	saved := *w
	w.probing, w.probeHit = true, false
	w.alias, w.closures = cloneMap(saved.alias), cloneMap(saved.closures)
	w.effects = nil
	w.frames = append([]*[]aState{}, saved.frames...)
	rets := []aState{}
	w.frames = append(w.frames, &rets, &rets) // never the top frame: leaks are not reported while probing
	f()
	hit := w.probeHit
	*w = saved
	return hit
}

func cloneMap[K comparable, V any](m map[K]V) map[K]V {
	out := make(map[K]V, len(m))
	for k, v := range m {
		out[k] = v
	}
	return out
}

func (w *aWalk) hasEffects(lit *ast.FuncLit) bool { return w.hasEffectsBlock(lit.Body) }
func (w *aWalk) hasEffectsBlock(b *ast.BlockStmt) bool {
	return w.probe(func() { w.stmts(b.List, aState{}) })
}
func (w *aWalk) hasEffectsExpr(e ast.Expr) bool { return w.probe(func() { w.expr(e, aState{}) }) }

func (w *aWalk) pseudo(lit *ast.FuncLit, call *ast.CallExpr, at ast.Node, suffix string) {
	if w.probing {
		w.probeHit = true
		return
	}
	if lit != nil {
		if w.seen[lit] {
			return
		}
		w.seen[lit] = true
	}
	*w.queue = append(*w.queue, pseudoReq{name: w.cur[len(w.cur)-1] + suffix, lit: lit, call: call, node: at, in: w.decl,
		recvs: cloneMap(w.recvs), alias: cloneMap(w.alias), closures: cloneMap(w.closures)})
}

// bind records what a local name now stands for.
func (w *aWalk) bind(id *ast.Ident, rhs ast.Expr) {
	if id == nil || id.Obj == nil || id.Name == "_" {
		return
	}
	delete(w.alias, id.Obj)
	delete(w.closures, id.Obj)
	if rhs == nil {
		return
	}
	r := unparen(rhs)
	switch {
	case w.isMap(r):
		w.alias[id.Obj] = akMap
	case w.isStore(r):
		if _, isPkg := r.(*ast.Ident); !isPkg || r.(*ast.Ident).Obj != nil {
			w.alias[id.Obj] = akStore
		}
	case w.mutexExpr(r):
		if u, ok := r.(*ast.UnaryExpr); ok && u.Op == token.AND {
			w.alias[id.Obj] = akMutex
		} else if _, ok := r.(*ast.Ident); ok {
			w.alias[id.Obj] = akMutex
		}
	default:
		if lit, ok := r.(*ast.FuncLit); ok {
			w.closures[id.Obj] = lit
		}
	}
}

func (w *aWalk) assign(x *ast.AssignStmt, s aState) aState {
	paired := len(x.Lhs) == len(x.Rhs)
	for i, r := range x.Rhs {
		if _, ok := unparen(r).(*ast.FuncLit); ok && paired {
			if id, ok := unparen(x.Lhs[i]).(*ast.Ident); ok && id.Obj != nil {
				continue // a closure bound to a local: its body is walked where it is called
			}
		}
		if u, ok := unparen(r).(*ast.UnaryExpr); ok && paired && u.Op == token.AND && w.mutexExpr(u) {
			if id, ok := unparen(x.Lhs[i]).(*ast.Ident); ok && id.Obj != nil {
				continue // mu := &recv.mutex: a local name of the mutex
			}
		}
		s = w.expr(r, s)
	}
	for i, l := range x.Lhs {
		l = unparen(l)
		var rhs ast.Expr // nil for `v, ok := m[k]`, `<-ch`, `x.(T)`, f(): the value is not the map itself
		if paired {
			rhs = x.Rhs[i]
		}
		switch lx := l.(type) {
		case *ast.Ident:
			if lx.Obj != nil && w.recvs[lx.Obj] && x.Tok != token.DEFINE {
				w.fail(x, "the receiver is reassigned")
			}
			w.bind(lx, rhs)
		case *ast.IndexExpr:
			if w.isMap(lx.X) {
				s = w.expr(lx.Index, s)
				if x.Tok != token.ASSIGN && x.Tok != token.DEFINE {
					w.emit("MapRead", "", lx, s)
				}
				w.emit("MapWrite", "", lx, s)
			} else {
				s = w.expr(lx, s)
			}
		case *ast.SelectorExpr:
			if f, ok := w.field(lx); ok {
				switch {
				case w.ty.mapF[f]:
					if x.Tok != token.ASSIGN {
						w.emit("MapRead", "", lx, s)
					}
					w.emit("FieldAssign", "", lx, s)
				case f == w.ty.mutexF && !w.ty.embedded:
					w.fail(x, "the mutex field is assigned")
				default:
					w.emit("StoreAssign", "", lx, s)
				}
			} else {
				s = w.expr(lx.X, s)
			}
		default:
			s = w.expr(l, s)
		}
	}
	return s
}

func (w *aWalk) exprs(es []ast.Expr, s aState) aState {
	for _, e := range es {
		s = w.expr(e, s)
	}
	return s
}

func (w *aWalk) expr(e ast.Expr, s aState) aState {
	switch x := e.(type) {
	case nil:
		return s
	case *ast.ParenExpr:
		return w.expr(x.X, s)
	case *ast.Ident:
		if w.isMap(x) {
			w.emit("MapRead", "", x, s)
		}
		return s
	case *ast.BasicLit, *ast.BadExpr:
		return s
	case *ast.SelectorExpr:
		if w.isMap(x) {
			w.emit("MapRead", "", x, s)
			return s
		}
		if w.mutexExpr(x) {
			w.fail(x, "the mutex is used as a value")
			return s
		}
		if w.isRecv(x.X) {
			return s // another field, or a method value
		}
		return w.expr(x.X, s)
	case *ast.IndexExpr:
		if w.isMap(x.X) {
			s = w.expr(x.Index, s)
			w.emit("MapRead", "", x, s)
			return s
		}
		s = w.expr(x.X, s)
		return w.expr(x.Index, s)
	case *ast.IndexListExpr:
		return w.expr(x.X, s)
	case *ast.SliceExpr:
		s = w.expr(x.X, s)
		s = w.expr(x.Low, s)
		s = w.expr(x.High, s)
		return w.expr(x.Max, s)
	case *ast.StarExpr:
		return w.expr(x.X, s)
	case *ast.UnaryExpr:
		if x.Op == token.AND {
			if w.isMap(x.X) {
				w.fail(x, "the address of the map is taken")
			}
			if w.mutexExpr(x.X) {
				w.fail(x, "the address of the mutex is taken outside `name := &recv.mutex`")
				return s
			}
		}
		return w.expr(x.X, s)
	case *ast.BinaryExpr:
		s = w.expr(x.X, s)
		return w.expr(x.Y, s)
	case *ast.KeyValueExpr:
		s = w.expr(x.Key, s)
		return w.expr(x.Value, s)
	case *ast.CompositeLit:
		return w.exprs(x.Elts, s)
	case *ast.TypeAssertExpr:
		return w.expr(x.X, s)
	case *ast.FuncLit:
		if w.hasEffects(x) {
			w.fail(x, "closure with effects used as a value: when it runs is not classified")
		}
		return s
	case *ast.CallExpr:
		return w.call(x, s)
	case *ast.ArrayType, *ast.MapType, *ast.ChanType, *ast.FuncType, *ast.InterfaceType, *ast.StructType, *ast.Ellipsis:
		return s
	default:
		w.fail(e, "expression %T not classified", e)
		return s
	}
}

func (w *aWalk) call(c *ast.CallExpr, s aState) aState {
	fun := unparen(c.Fun)
	switch f := fun.(type) {
	case *ast.Ident:
		if f.Obj == nil && (f.Name == "delete" || f.Name == "clear") && len(c.Args) >= 1 && w.isMap(c.Args[0]) {
			s = w.exprs(c.Args[1:], s)
			w.emit("MapDelete", "", c, s)
			return s
		}
		if f.Obj != nil {
			if lit := w.closures[f.Obj]; lit != nil {
				s = w.exprs(c.Args, s)
				return w.inlineBody(c, "func "+f.Name, lit.Body, nil, s)
			}
			if fl, ok := f.Obj.Decl.(*ast.Field); ok {
				if _, isFunc := fl.Type.(*ast.FuncType); isFunc {
					s = w.exprs(c.Args, s)
					w.emit("UserCallback", "", c, s)
					return s
				}
			}
		}
		if f.Obj == nil || f.Obj.Kind == ast.Fun {
			if fd := w.ty.funcs[f.Name]; fd != nil && w.carries(c.Args) {
				s = w.argsOf(c.Args, s)
				at := w.emit("Call", f.Name, c, s)
				n0 := len(w.effects)
				s = w.inlineMethod(c, fd, c.Args, s)
				w.saveIfWrites(at, n0)
				return s
			}
		}
		return w.exprs(c.Args, s)
	case *ast.FuncLit:
		s = w.exprs(c.Args, s)
		return w.inlineBody(c, "func literal", f.Body, nil, s)
	case *ast.SelectorExpr:
		name := f.Sel.Name
		if mutexOps[name] && w.mutexExpr(f.X) {
			w.fail(c, "%s() of the guard mutex inside an expression", name)
			return s
		}
		// a method of the same receiver
		if w.isRecv(f.X) {
			if fd := w.ty.methods[name]; fd != nil {
				s = w.argsOf(c.Args, s)
				w.called[name] = true
				at := w.emit("Call", name, c, s)
				n0 := len(w.effects)
				s = w.inlineMethod(c, fd, c.Args, s)
				w.saveIfWrites(at, n0)
				return s
			}
		}
		// time.AfterFunc(d, f)
		if id, ok := f.X.(*ast.Ident); ok && id.Obj == nil && w.imp[id.Name] == "time" && name == "AfterFunc" && len(c.Args) == 2 {
			s = w.expr(c.Args[0], s)
			switch cb := unparen(c.Args[1]).(type) {
			case *ast.FuncLit:
				w.pseudo(cb, nil, cb, "$callback")
			case *ast.Ident:
				if lit := w.closures[cb.Obj]; lit != nil && cb.Obj != nil {
					w.pseudo(lit, nil, lit, "$callback")
				} else {
					w.fail(c, "time.AfterFunc runs %s: not a function literal", cb.Name)
				}
			case *ast.SelectorExpr:
				if w.isRecv(cb.X) && w.ty.methods[cb.Sel.Name] != nil {
					w.pseudo(nil, &ast.CallExpr{Fun: cb, Lparen: cb.Pos(), Rparen: cb.End()}, cb, "$callback")
				} else {
					w.fail(c, "time.AfterFunc runs a function that is not a literal")
				}
			default:
				w.fail(c, "time.AfterFunc runs a function that is not a literal")
			}
			w.emit("AfterFunc", "", c, s)
			return s
		}
		// timer operations
		if w.ty.timerMap && !w.isRecv(f.X) && ((name == "Stop" && len(c.Args) == 0) || (name == "Reset" && len(c.Args) == 1)) {
			s = w.expr(f.X, s)
			s = w.exprs(c.Args, s)
			k := "TimerStop"
			if name == "Reset" {
				k = "TimerReset"
			}
			w.emit(k, "", c, s)
			return s
		}
		// the store
		if name == "Write" && w.isStore(f.X) {
			s = w.exprs(c.Args, s)
			w.emit("StoreWrite", "", c, s)
			return s
		}
		s = w.expr(f.X, s)
		for _, a := range c.Args {
			if lit, ok := unparen(a).(*ast.FuncLit); ok {
				if w.hasEffects(lit) {
					w.fail(lit, "closure with effects passed to %s: when it runs is not classified", exprString(w.t.fset, fun))
				}
				continue
			}
			s = w.expr(a, s)
		}
		return s
	default:
		s = w.expr(fun, s)
		return w.exprs(c.Args, s)
	}
}

// saveIfWrites: the call recorded at index `at` is a Save when the effects it contributed (from n0 on) write the store.
func (w *aWalk) saveIfWrites(at, n0 int) {
	if w.probing || at >= len(w.effects) {
		return
	}
	for _, e := range w.effects[n0:] {
		if e.Kind == "StoreWrite" {
			w.effects[at].Kind = "Save"
			return
		}
	}
}

// argsOf evaluates the arguments of a call whose callee is walked in place: function literals are not values that escape there,
// they are bound to the parameter and walked where the callee calls them.
func (w *aWalk) argsOf(args []ast.Expr, s aState) aState {
	for _, a := range args {
		if _, ok := unparen(a).(*ast.FuncLit); ok {
			continue
		}
		s = w.expr(a, s)
	}
	return s
}

// carries: one of the arguments is the receiver, the map, the store, the mutex or a closure of ours.
func (w *aWalk) carries(args []ast.Expr) bool {
	for _, a := range args {
		a = unparen(a)
		if w.isRecv(a) || w.isMap(a) || w.mutexExpr(a) {
			return true
		}
		if id, ok := a.(*ast.Ident); ok && id.Obj != nil && (w.closures[id.Obj] != nil || w.alias[id.Obj] == akStore) {
			return true
		}
		if _, ok := a.(*ast.FuncLit); ok {
			return true
		}
		if f, ok := w.field(a); ok && w.ty.otherF[f] {
			return true
		}
	}
	return false
}

// inlineMethod walks a method of the same receiver (or a function of the package) at its call site.
func (w *aWalk) inlineMethod(at *ast.CallExpr, fd *ast.FuncDecl, args []ast.Expr, s aState) aState {
	name := fd.Name.Name
	for _, c := range w.cur {
		if c == name {
			w.fail(at, "recursive call of %s", name)
			return s
		}
	}
	if len(w.cur) > 12 {
		w.fail(at, "call chain too deep")
		return s
	}
	// bind what the parameters stand for
	var params []*ast.Ident
	for _, fl := range fd.Type.Params.List {
		params = append(params, fl.Names...)
	}
	savedImp := w.imp
	w.imp = imports(w.ty.fileOf[fd])
	ro := recvObj(fd)
	if ro != nil {
		w.recvs[ro] = true
	}
	type binding struct {
		k    aliasKind
		c    *ast.FuncLit
		recv bool
	}
	bs := make([]binding, len(params))
	for i := range params {
		if i < len(args) {
			a := unparen(args[i])
			switch {
			case w.isMap(a):
				bs[i].k = akMap
			case w.isStore(a):
				if id, isId := a.(*ast.Ident); !isId || id.Obj != nil {
					bs[i].k = akStore
				}
			case w.isRecv(a):
				bs[i].recv = true
			case w.mutexExpr(a):
				bs[i].k = akMutex
			}
			if id, ok := a.(*ast.Ident); ok && id.Obj != nil {
				bs[i].c = w.closures[id.Obj]
			}
			if lit, ok := a.(*ast.FuncLit); ok {
				bs[i].c = lit
			}
		}
	}
	for i, p := range params {
		if p.Obj == nil {
			continue
		}
		delete(w.alias, p.Obj)
		delete(w.closures, p.Obj)
		if bs[i].k != 0 {
			w.alias[p.Obj] = bs[i].k
		}
		if bs[i].c != nil {
			w.closures[p.Obj] = bs[i].c
		}
		if bs[i].recv {
			w.recvs[p.Obj] = true
		}
	}
	s = w.inlineBody(at, name, fd.Body, fd, s)
	w.imp = savedImp
	return s
}

// inlineBody walks a callee's body in a frame of its own: its returns end the frame, its deferred unlock runs at the frame's end.
func (w *aWalk) inlineBody(at ast.Node, name string, body *ast.BlockStmt, fd *ast.FuncDecl, s aState) aState {
	if s.dead {
		return s
	}
	callerDeferred := s.deferred
	entry := s
	s.deferred = false
	if fd != nil {
		w.cur = append(w.cur, name)
	}
	savedDecl := w.decl
	if fd != nil {
		w.decl = fd
	}
	rets := []aState{}
	w.frames = append(w.frames, &rets)
	savedJumps := w.jumps
	w.jumps = nil
	end := w.stmts(body.List, s)
	w.jumps = savedJumps
	w.frames = w.frames[:len(w.frames)-1]
	end = w.exit(at, end, false)
	for _, r := range rets {
		end = w.join(at, end, r, "at the exits of "+name)
	}
	if fd != nil {
		w.cur = w.cur[:len(w.cur)-1]
	}
	w.decl = savedDecl
	if end.dead {
		return end // the callee never returns
	}
	if entry.held != gNo && end.held == entry.held && end.sec == entry.sec {
		end.deferred = callerDeferred
	} else if entry.held != gNo && callerDeferred {
		w.fail(at, "%s releases or re-takes the lock its caller deferred the unlock of", name)
		end.deferred = callerDeferred
	}
	return end
}

// ---------------------------------------------------------------------------------- (*store).Write

var osLevel = map[string]bool{"Write": true, "WriteString": true, "WriteAt": true, "Sync": true, "Close": true, "Truncate": true, "Seek": true,
	"ReadFrom": true, "Chmod": true}

func (t *tr) storeShape(a *Atomic) {
	files, err := t.parseObj(storeDir)
	if err != nil && len(files) == 0 {
		a.Reasons = append(a.Reasons, storeDir+": "+err.Error())
		return
	}
	var write *ast.FuncDecl
	var wfile *ast.File
	funcs := map[string]*ast.FuncDecl{}
	fileOf := map[*ast.FuncDecl]*ast.File{}
	for _, f := range files {
		for _, d := range f.Decls {
			fd, ok := d.(*ast.FuncDecl)
			if !ok || fd.Body == nil {
				continue
			}
			fileOf[fd] = f
			if fd.Recv == nil {
				funcs[fd.Name.Name] = fd
			} else if fd.Name.Name == "Write" {
				if write != nil {
					a.Reasons = append(a.Reasons, storeDir+": several Write methods")
					return
				}
				write, wfile = fd, f
			} else {
				funcs[recvTypeName(fd)+"."+fd.Name.Name] = fd
			}
		}
	}
	if write == nil {
		a.Reasons = append(a.Reasons, storeDir+": no method Write")
		return
	}
	a.StorePos = t.pos(write)
	rt := recvTypeName(write)
	var walk func(fd *ast.FuncDecl, depth int)
	walk = func(fd *ast.FuncDecl, depth int) {
		imp := imports(fileOf[fd])
		ro := recvObj(fd)
		// calls in source order; arguments before the call they are passed to
		var visit func(n ast.Node)
		visit = func(n ast.Node) {
			ast.Inspect(n, func(m ast.Node) bool {
				c, ok := m.(*ast.CallExpr)
				if !ok {
					return true
				}
				visit(c.Fun)
				for _, arg := range c.Args {
					visit(arg)
				}
				switch f := unparen(c.Fun).(type) {
				case *ast.Ident:
					if callee := funcs[f.Name]; callee != nil && (f.Obj == nil || f.Obj.Kind == ast.Fun) && depth < 6 {
						walk(callee, depth+1)
					}
				case *ast.SelectorExpr:
					if id, ok := f.X.(*ast.Ident); ok && id.Obj == nil {
						if p := imp[id.Name]; p == "os" || p == "io/ioutil" || p == "syscall" {
							a.StoreWrite = append(a.StoreWrite, shortPkg(p)+"."+f.Sel.Name)
							return false
						}
					}
					if id, ok := f.X.(*ast.Ident); ok && id.Obj != nil && id.Obj == ro {
						if callee := funcs[rt+"."+f.Sel.Name]; callee != nil && depth < 6 {
							walk(callee, depth+1)
							return false
						}
					}
					if osLevel[f.Sel.Name] {
						a.StoreWrite = append(a.StoreWrite, "File."+f.Sel.Name)
					}
				}
				return false
			})
		}
		visit(fd.Body)
	}
	_ = wfile
	walk(write, 0)
}

// ---------------------------------------------------------------------------------- rendering

var effectCtor = map[string]string{"MapRead": "EMapRead", "MapWrite": "EMapWrite", "MapDelete": "EMapDelete", "MapRange": "EMapRange",
	"FieldAssign": "EFieldAssign", "StoreAssign": "EStoreAssign", "TimerStop": "ETimerStop", "TimerReset": "ETimerReset", "AfterFunc": "EAfterFunc",
	"Save": "ESave", "StoreWrite": "EStoreWrite", "UserCallback": "EUserCallback", "Call": "ECall"}

func renderMethods(b *strings.Builder, name, doc string, ms []AtomicMethod) {
	fmt.Fprintf(b, "(** %s *)\nDefinition %s : list (string * list eff) := [", doc, name)
	for i, m := range ms {
		if i > 0 {
			b.WriteString(";")
		}
		mn, ok := coqString(m.Name)
		if !ok {
			mn = `"?"`
		}
		fmt.Fprintf(b, "\n  (%s, [", mn)
		for j, e := range m.Effects {
			if j > 0 {
				b.WriteString(";")
			}
			ctor := effectCtor[e.Kind]
			if e.Kind == "Call" || e.Kind == "Save" {
				cs, ok := coqString(e.Callee)
				if !ok {
					cs = `"?"`
				}
				if e.Kind == "Call" {
					ctor = "ECall " + cs
				}
			}
			fmt.Fprintf(b, "\n     (%s, %s, %d)", ctor, e.Guard, e.Section)
		}
		b.WriteString("])")
	}
	b.WriteString("].\n\n")
}

// RenderAtomic always yields a file that compiles on its own (it needs nothing but Coq's List and String).
func RenderAtomic(r *Result) string {
	a := r.Atomic
	if a == nil {
		a = &Atomic{Reasons: []string{"the atomicity analysis did not run"}}
	}
	var b strings.Builder
	b.WriteString(header("Atomicity facts: the effects of every method of the session manager and of the timer map, in source order, each with\n    the guard (lock) it executes under and the number of its critical section (DESIGN.md 4.3 T3, 11.1; harness/cmd/gen2coq/atomic.go).", r))
	b.WriteString("From Coq Require Import List String.\nImport ListNotations.\nLocal Open Scope string_scope.\n\n")
	b.WriteString("(** named lkguard: `guard` is a keyword of stdpp, which the files that use these facts import *)\nInductive lkguard := WLock | RLock | NoLock.\n\n")
	b.WriteString("Inductive effect :=\n| EMapRead | EMapWrite | EMapDelete | EMapRange     (* the guarded map field of the receiver, also through a local alias *)\n" +
		"| EFieldAssign                                     (* the map field itself is assigned (constructor literal, Load, shutdown) *)\n" +
		"| EStoreAssign                                     (* another non-mutex field is assigned *)\n" +
		"| ETimerStop | ETimerReset | EAfterFunc             (* x.Stop(), x.Reset(d), time.AfterFunc *)\n" +
		"| ESave                                            (* a call of a method of the same receiver that (transitively) writes the store *)\n" +
		"| EStoreWrite                                      (* recv.<field>.Write(..) *)\n" +
		"| EUserCallback                                    (* a call of a func-typed parameter *)\n" +
		"| ECall (callee : string).                         (* any other call of a method of the same receiver; its effects follow, inlined *)\n\n")
	b.WriteString("(** (effect, guard it executes under, critical section: the n-th acquisition of the mutex along the method; 0 = no lock held) *)\nDefinition eff := (effect * lkguard * nat)%type.\n\n")
	fmt.Fprintf(&b, "(** %s: type %s, map field(s) %s, mutex %s *)\n", a.Session.Dir, lintSafe(a.Session.Type), lintSafe(strings.Join(a.Session.MapFields, ",")), lintSafe(a.Session.Mutex))
	renderMethods(&b, "session_methods", "every method (and constructor function), closed under calls of methods of the same receiver", a.Session.Methods)
	renderMethods(&b, "session_callbacks", "closures run later on another goroutine (time.AfterFunc, go)", a.Session.Callbacks)
	fmt.Fprintf(&b, "(** methods that never touch the mutex, are called by other methods and are not referred to outside the package: judged at their call sites *)\nDefinition session_helpers : list string := %s.\n\n", coqStrList(a.Session.Helpers))
	fmt.Fprintf(&b, "(** %s: type %s, map field(s) %s, mutex %s *)\n", a.Timermap.Dir, lintSafe(a.Timermap.Type), lintSafe(strings.Join(a.Timermap.MapFields, ",")), lintSafe(a.Timermap.Mutex))
	renderMethods(&b, "timermap_methods", "every method (and constructor function)", a.Timermap.Methods)
	renderMethods(&b, "timermap_callbacks", "closures run later on another goroutine: the function time.AfterFunc is given", a.Timermap.Callbacks)
	fmt.Fprintf(&b, "Definition timermap_helpers : list string := %s.\n\n", coqStrList(a.Timermap.Helpers))
	fmt.Fprintf(&b, "(** store.Write (%s): the os-level calls of the Write method in source order, functions of the package inlined *)\nDefinition store_write_shape : list string := %s.\n\n", noLine(a.StorePos), coqStrList(a.StoreWrite))
	fmt.Fprintf(&b, "Definition atomic_recognised : bool := %v.\n", len(a.Reasons) == 0)
	rs := []string{}
	for _, x := range a.Reasons {
		rs = append(rs, posNoLine(x))
	}
	fmt.Fprintf(&b, "Definition atomic_reasons : list string := %s.\n", coqStrList(rs))
	return b.String()
}

var posLineRx = regexp.MustCompile(`(\.go):\d+`)

// posNoLine drops line numbers from a reason (generated files must not change when lines merely move; summary.json keeps them).
func posNoLine(s string) string { return posLineRx.ReplaceAllString(s, "$1") }

// AtomicSummary: one line per method for logs.
func AtomicSummary(a *Atomic) []string {
	out := []string{}
	if a == nil {
		return out
	}
	for _, ty := range []AtomicType{a.Session, a.Timermap} {
		for _, ms := range [][]AtomicMethod{ty.Methods, ty.Callbacks} {
			for _, m := range ms {
				parts := []string{}
				for _, e := range m.Effects {
					k := e.Kind
					if e.Callee != "" {
						k += " " + e.Callee
					}
					parts = append(parts, fmt.Sprintf("%s@%s/%d", k, e.Guard, e.Section))
				}
				out = append(out, fmt.Sprintf("%s.%s: %s", ty.Type, m.Name, strings.Join(parts, " ")))
			}
		}
	}
	return out
}
