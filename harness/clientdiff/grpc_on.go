//go:build clientgrpc

package clientdiff

import (
	"net"
	"time"

	grpcsvc "github.com/imoore76/ldlm/net/grpc"
	"github.com/imoore76/ldlm/net/security"
)

// The server side of the net modes is the REAL grpcsvc.Run (its server options, its interceptor chain with the password
// interceptor when sconf.Password is set, its stats handler) on the in-memory listener: the copy of net/grpc/grpc.go under
// test has its net.Listen made injectable (grpc_anchors.json, one substitution, added at build time with -overlay).
const grpcFrontKind = "net/grpc.Run"

func startGrpc(svc *grpcsvc.Service, lis net.Listener, password string) (func(), error) {
	grpcsvc.VerifListen = func(network, addr string) (net.Listener, error) { return lis, nil }
	defer func() { grpcsvc.VerifListen = nil }()
	return grpcsvc.Run(svc, &grpcsvc.GrpcConfig{ListenAddress: "bufconn", KeepaliveInterval: 60 * time.Second, KeepaliveTimeout: 10 * time.Second},
		&security.SecurityConfig{Password: password})
}
