// Package clientdiff is the correspondence harness of property C19 (Go client auto-renew).
//
// The REAL client.Client (built with client.NewVerifClient, added to package client by `go test -overlay`) talks
// through an in-process pb.LDLMClient adapter to the REAL gRPC Service (net/grpc) on a REAL LockServer, inside a
// testing/synctest bubble (virtual time, real leases). The adapter is an interposer: it records every RPC with its
// virtual timestamp, can keep a Renew RPC in flight before / after the server until the driver releases it, and can
// inject transport errors. A panic in a renewer goroutine kills the process: the parent (checks/c19.py) runs batches
// of cases in child processes, sees which case was running, and restarts after it.
//
// Transport modes (5th word of a C line; the model never sees it):
//
//	direct (default)  client.NewVerifClient over the interposer as pb.LDLMClient; the Service methods are called in process
//	net               the REAL client.New (Config + dial options) over a REAL *grpc.ClientConn on an in-memory listener, served
//	                  by the REAL gRPC server of net/grpc (net/grpc.Run: stats handler, keepalive options, interceptor chain;
//	                  see grpc_on.go / grpc_off.go); the interposer is the connection's unary client interceptor
//	netpw             the same with a password: security.SecurityConfig.Password on the server, client.Config.Password in the client
//
// In every mode the interposer checks, on EVERY RPC the client sends (Lock, TryLock, Unlock, Renew; main goroutine and
// renewer goroutines alike), that the RPC's context is derived from the context the client was created with (a marker
// value put into that context must be visible: cancelling the client's context then reaches the RPC), and, with a password
// configured, that the outgoing metadata carries it under "authorization". Deviations are written as '#ctx', '#auth' lines,
// an RPC the server refuses with Unauthenticated as a '#refused' line (checks/c19.py judges them).
//
// Input  CD_CASES: a file in the line format shared with ocaml/client/driver.ml
//
//	C <id> <noauto 0|1> <maxretries> [direct|net|netpw]     schedule case; items follow
//	I cancel                                   the context the client was created with is cancelled (not in the model)
//	I lock|try <name> <T> <size> | I unlock <j> | I close | I adv <ns> | I hold <j> pre|post|both | I step <j>
//	I compete <name> <size> | I probe
//	I ubegin <j> | I usend <j> | I uend <j>    Unlock of hold j in steps: the call starts (its RPC is kept before the server),
//	                                           the RPC reaches the server (the reply is kept), the reply gets back
//	I ufault <j>                               the first attempt of the next Unlock RPC of hold j fails with Unavailable (ignored by the model)
//	X
//	R <id> <maxretries> <rpc lock|try|unlock|renew|autorenew> <code> <code> ...      retry case (0 = the call goes through)
//
// Output CD_OUT (appended, one write per line): `S <id>`, the trace, `D <id>`. Lines starting with '#' are
// observations the model does not produce (client-side instants of a Renew, calls of the API).
package clientdiff

import (
	"bufio"
	"context"
	"errors"
	"fmt"
	"io"
	"log/slog"
	"net"
	"os"
	"sort"
	"strconv"
	"strings"
	"sync"
	"testing"
	"testing/synctest"
	"time"

	"google.golang.org/grpc"
	"google.golang.org/grpc/codes"
	"google.golang.org/grpc/metadata"
	"google.golang.org/grpc/stats"
	"google.golang.org/grpc/status"
	"google.golang.org/grpc/test/bufconn"
	"google.golang.org/protobuf/proto"

	"github.com/imoore76/ldlm/client"
	grpcsvc "github.com/imoore76/ldlm/net/grpc"
	pb "github.com/imoore76/ldlm/protos"
	"github.com/imoore76/ldlm/server"
)

// ------------------------------------------------------------------------------------------------ cases

type item struct {
	op    string
	name  string
	t     int32
	size  int32
	j     int
	ns    int64
	stage string
}

type ccase struct {
	id         string
	retry      bool
	noauto     bool
	maxRetries int
	mode       string // direct | net | netpw
	items      []item
	rpc        string
	codes      []int
}

func readCases(path string) ([]*ccase, error) {
	f, err := os.Open(path)
	if err != nil {
		return nil, err
	}
	defer f.Close()
	var out []*ccase
	var cur *ccase
	sc := bufio.NewScanner(f)
	sc.Buffer(make([]byte, 1<<20), 1<<26)
	atoi := func(s string) int { n, _ := strconv.Atoi(s); return n }
	for sc.Scan() {
		w := strings.Fields(sc.Text())
		if len(w) == 0 {
			continue
		}
		switch w[0] {
		case "C":
			if len(w) < 4 {
				continue
			}
			cur = &ccase{id: w[1], noauto: w[2] == "1", maxRetries: atoi(w[3]), mode: "direct"}
			if len(w) >= 5 {
				cur.mode = w[4]
			}
		case "X":
			if cur != nil {
				out = append(out, cur)
			}
			cur = nil
		case "R":
			if len(w) < 4 {
				continue
			}
			c := &ccase{id: w[1], retry: true, maxRetries: atoi(w[2]), rpc: w[3]}
			for _, x := range w[4:] {
				c.codes = append(c.codes, atoi(x))
			}
			out = append(out, c)
		case "I":
			if cur == nil || len(w) < 2 {
				continue
			}
			it := item{op: w[1]}
			switch w[1] {
			case "lock", "try":
				if len(w) < 5 {
					continue
				}
				it.name, it.t, it.size = w[2], int32(atoi(w[3])), int32(atoi(w[4]))
			case "unlock", "step", "ubegin", "usend", "uend", "ufault":
				if len(w) < 3 {
					continue
				}
				it.j = atoi(w[2])
			case "hold":
				if len(w) < 4 {
					continue
				}
				it.j, it.stage = atoi(w[2]), w[3]
			case "adv":
				if len(w) < 3 {
					continue
				}
				it.ns, _ = strconv.ParseInt(w[2], 10, 64)
			case "compete":
				if len(w) < 4 {
					continue
				}
				it.name, it.size = w[2], int32(atoi(w[3]))
			}
			cur.items = append(cur.items, it)
		}
	}
	return out, sc.Err()
}

// ------------------------------------------------------------------------------------------- interposer

type gate struct {
	ch chan struct{}
}

type interposer struct {
	mu      sync.Mutex
	svc     *grpcsvc.Service
	sctx    context.Context
	start   time.Time
	w       func(string)
	closed  bool
	tear    bool              // teardown: answer without touching anything
	keyIdx  map[string]int    // real key -> hold index
	curCall int               // index of the Lock/TryLock/Unlock call of the main goroutine in progress
	arm     map[int]string    // hold index -> pre|post|both
	gates   map[int]*gate     // hold index -> gate a Renew of it is waiting at
	uarm    map[int]bool      // hold index -> its Unlock RPC is run in steps (kept before and after the server)
	ufail   map[int]int       // hold index -> attempts of its Unlock RPC that still fail with Unavailable
	ugates  map[int]*gate     // hold index -> gate its Unlock RPC is waiting at
	faults  map[string][]int  // rpc kind -> status codes of its next calls (0 = go through; -1 = a non-status error)
	attempt map[string]int
	retry   bool              // retry case: log every attempt (#att)

	marker   any    // value of markerKey{} in the context the client was created with
	password string // netpw: what every RPC must carry as "authorization"
}

type markerKey struct{}

// printable ASCII: gRPC metadata values cannot carry anything else
const netPassword = "s3cret C19:pw~"

// check looks at the context the client passed with an RPC of kind k for hold / call j.
func (p *interposer) check(k string, j int, ctx context.Context) {
	if p.marker != nil && ctx.Value(markerKey{}) != p.marker {
		p.w(fmt.Sprintf("#ctx %s %d %d foreign", k, j, p.at()))
	}
	if p.password != "" {
		md, _ := metadata.FromOutgoingContext(ctx)
		v := md.Get("authorization")
		switch {
		case len(v) == 0:
			p.w(fmt.Sprintf("#auth %s %d %d missing", k, j, p.at()))
		case v[0] != p.password || len(v) != 1:
			p.w(fmt.Sprintf("#auth %s %d %d wrong", k, j, p.at()))
		}
	}
}

// refused notes an RPC the server's password interceptor turned down.
func (p *interposer) refused(k string, j int, err error) {
	if err == nil {
		return
	}
	if status.Code(err) == codes.Unauthenticated {
		p.w(fmt.Sprintf("#refused %s %d %d %d", k, j, p.at(), int(codes.Unauthenticated)))
	}
	p.w(fmt.Sprintf("#err %s %d %d %d %s", k, j, p.at(), int(status.Code(err)), strings.Join(strings.Fields(err.Error()), " ")))
}

func (p *interposer) at() int64 { return int64(time.Since(p.start)) }

func b01(b bool) string {
	if b {
		return "1"
	}
	return "0"
}

func etok(e *pb.Error) string {
	if e == nil {
		return "~"
	}
	return "E"
}

func (p *interposer) keyTok(k string, locked bool) string {
	if !locked {
		return "-"
	}
	if j, ok := p.keyIdx[k]; ok {
		return "k" + strconv.Itoa(j)
	}
	return "?"
}

var errClosing = status.Error(codes.Canceled, "grpc: the client connection is closing")

// fault returns the injected error of this attempt of rpc kind k, if any.
func (p *interposer) fault(k string) error {
	p.mu.Lock()
	defer p.mu.Unlock()
	if !p.retry {
		return nil
	}
	q := p.faults[k]
	c := 0
	if len(q) > 0 {
		c = q[0]
		p.faults[k] = q[1:]
	}
	p.attempt[k]++
	p.w(fmt.Sprintf("#att %s %d %d %d", k, p.attempt[k], p.at(), c))
	if c == 0 {
		return nil
	}
	if c < 0 {
		return errors.New("injected non-status error")
	}
	return status.Error(codes.Code(c), "injected")
}

// direct mode: the interposer IS the client's pb.LDLMClient; an RPC that goes through calls the Service method in process.
func (p *interposer) Lock(ctx context.Context, in *pb.LockRequest, _ ...grpc.CallOption) (*pb.LockResponse, error) {
	return p.acquire(ctx, "lock", in.Name, in.LockTimeoutSeconds, func() (*pb.LockResponse, error) { return p.svc.Lock(p.sctx, in) })
}

func (p *interposer) TryLock(ctx context.Context, in *pb.TryLockRequest, _ ...grpc.CallOption) (*pb.LockResponse, error) {
	return p.acquire(ctx, "try", in.Name, in.LockTimeoutSeconds, func() (*pb.LockResponse, error) { return p.svc.TryLock(p.sctx, in) })
}

func (p *interposer) Unlock(ctx context.Context, in *pb.UnlockRequest, _ ...grpc.CallOption) (*pb.UnlockResponse, error) {
	return p.unlock(ctx, in, func() (*pb.UnlockResponse, error) { return p.svc.Unlock(p.sctx, in) })
}

func (p *interposer) Renew(ctx context.Context, in *pb.RenewRequest, _ ...grpc.CallOption) (*pb.LockResponse, error) {
	return p.renew(ctx, in, func() (*pb.LockResponse, error) { return p.svc.Renew(p.sctx, in) })
}

// net modes: the interposer is the unary client interceptor of the client's real connection; an RPC that goes through is
// invoked on that connection with the context the client passed.
func (p *interposer) intercept(ctx context.Context, method string, req, reply any, cc *grpc.ClientConn, invoker grpc.UnaryInvoker, opts ...grpc.CallOption) error {
	deliver := func(resp proto.Message, err error) error {
		if err != nil {
			return err
		}
		if out, ok := reply.(proto.Message); ok && resp != nil && resp != out {
			proto.Reset(out)
			proto.Merge(out, resp)
		}
		return nil
	}
	lockFwd := func() (*pb.LockResponse, error) {
		out := new(pb.LockResponse)
		if err := invoker(ctx, method, req, out, cc, opts...); err != nil {
			return nil, err
		}
		return out, nil
	}
	switch in := req.(type) {
	case *pb.LockRequest:
		r, err := p.acquire(ctx, "lock", in.Name, in.LockTimeoutSeconds, lockFwd)
		if err != nil {
			return err
		}
		return deliver(r, nil)
	case *pb.TryLockRequest:
		r, err := p.acquire(ctx, "try", in.Name, in.LockTimeoutSeconds, lockFwd)
		if err != nil {
			return err
		}
		return deliver(r, nil)
	case *pb.RenewRequest:
		r, err := p.renew(ctx, in, lockFwd)
		if err != nil {
			return err
		}
		return deliver(r, nil)
	case *pb.UnlockRequest:
		r, err := p.unlock(ctx, in, func() (*pb.UnlockResponse, error) {
			out := new(pb.UnlockResponse)
			if err := invoker(ctx, method, req, out, cc, opts...); err != nil {
				return nil, err
			}
			return out, nil
		})
		if err != nil {
			return err
		}
		return deliver(r, nil)
	}
	p.w("#unknown-rpc " + method)
	return invoker(ctx, method, req, reply, cc, opts...)
}

func (p *interposer) acquire(ctx context.Context, kind, name string, lt *int32, f func() (*pb.LockResponse, error)) (*pb.LockResponse, error) {
	p.mu.Lock()
	j0 := p.curCall
	tear0 := p.tear
	p.mu.Unlock()
	if !tear0 {
		p.check(kind, j0, ctx)
	}
	if err := p.fault(kind); err != nil {
		return nil, err
	}
	p.mu.Lock()
	j := p.curCall
	if p.closed {
		p.w(fmt.Sprintf("fail %s %d %d", kind, j, p.at()))
		p.mu.Unlock()
		return nil, errClosing
	}
	p.mu.Unlock()
	at := p.at()
	resp, err := f()
	if err != nil || resp == nil {
		p.refused(kind, j, err)
		p.w(fmt.Sprintf("fail %s %d %d", kind, j, at))
		return resp, err
	}
	p.mu.Lock()
	if resp.Locked {
		p.keyIdx[resp.Key] = j
	}
	t := int32(0)
	if lt != nil {
		t = *lt
	}
	p.w(fmt.Sprintf("rpc %s %d %s %s %d %d %s %s", kind, j, name, p.keyTok(resp.Key, resp.Locked), t, at, b01(resp.Locked), etok(resp.Error)))
	p.mu.Unlock()
	return resp, nil
}

func (p *interposer) unlock(ctx context.Context, in *pb.UnlockRequest, f func() (*pb.UnlockResponse, error)) (*pb.UnlockResponse, error) {
	if err := p.fault("unlock"); err != nil {
		return nil, err
	}
	p.mu.Lock()
	j := p.curCall
	if k, ok := p.keyIdx[in.Key]; ok {
		j = k
	}
	if p.tear {
		p.mu.Unlock()
		return &pb.UnlockResponse{Name: in.Name, Unlocked: true}, nil
	}
	p.mu.Unlock()
	p.check("unlock", j, ctx)
	p.mu.Lock()
	if p.ufail[j] > 0 {
		p.ufail[j]--
		p.w(fmt.Sprintf("#ufail unlock %d %d", j, p.at()))
		p.mu.Unlock()
		return nil, status.Error(codes.Unavailable, "injected")
	}
	stepped := p.uarm[j]
	if stepped {
		p.uwait(j)
		if p.tear {
			p.mu.Unlock()
			return &pb.UnlockResponse{Name: in.Name, Unlocked: true}, nil
		}
	}
	if p.closed {
		p.w(fmt.Sprintf("fail unlock %d %d", j, p.at()))
		p.mu.Unlock()
		return nil, errClosing
	}
	p.mu.Unlock()
	at := p.at()
	resp, err := f()
	p.mu.Lock()
	defer p.mu.Unlock()
	if err != nil || resp == nil {
		p.refused("unlock", j, err)
		p.w(fmt.Sprintf("fail unlock %d %d", j, at))
		return resp, err
	}
	p.w(fmt.Sprintf("rpc unlock %d %s %s 0 %d %s %s", j, in.Name, p.keyTok(in.Key, true), at, b01(resp.Unlocked), etok(resp.Error)))
	if stepped {
		delete(p.uarm, j)
		p.uwait(j)
		if p.tear {
			return &pb.UnlockResponse{Name: in.Name, Unlocked: true}, nil
		}
	}
	return resp, nil
}

// uwait parks the Unlock RPC of hold j (p.mu held on entry and on return).
func (p *interposer) uwait(j int) {
	g := &gate{ch: make(chan struct{})}
	p.ugates[j] = g
	p.mu.Unlock()
	<-g.ch
	p.mu.Lock()
}

func (p *interposer) urelease(j int) bool {
	p.mu.Lock()
	g := p.ugates[j]
	delete(p.ugates, j)
	p.mu.Unlock()
	if g == nil {
		return false
	}
	close(g.ch)
	return true
}

func (p *interposer) wait(j int) {
	g := &gate{ch: make(chan struct{})}
	p.gates[j] = g
	p.mu.Unlock()
	<-g.ch
	p.mu.Lock()
}

func (p *interposer) renew(ctx context.Context, in *pb.RenewRequest, f func() (*pb.LockResponse, error)) (*pb.LockResponse, error) {
	p.mu.Lock()
	j, known := p.keyIdx[in.Key]
	if !known {
		j = -1
	}
	if p.tear {
		p.mu.Unlock()
		return &pb.LockResponse{Name: in.Name, Key: in.Key, Locked: true}, nil
	}
	p.w(fmt.Sprintf("#sent renew %d %s %s %d %d", j, in.Name, p.keyTok(in.Key, true), in.LockTimeoutSeconds, p.at()))
	p.mu.Unlock()
	p.check("renew", j, ctx)
	if err := p.fault("renew"); err != nil {
		return nil, err
	}
	p.mu.Lock()
	if a := p.arm[j]; a == "pre" || a == "both" {
		if a == "both" {
			p.arm[j] = "post"
		} else {
			delete(p.arm, j)
		}
		p.wait(j)
	}
	if p.tear {
		p.mu.Unlock()
		return &pb.LockResponse{Name: in.Name, Key: in.Key, Locked: true}, nil
	}
	var resp *pb.LockResponse
	var err error
	if p.closed {
		p.w(fmt.Sprintf("fail renew %d %d", j, p.at()))
		err = errClosing
	} else {
		at := p.at()
		p.mu.Unlock()
		resp, err = f()
		p.mu.Lock()
		if err != nil || resp == nil {
			p.refused("renew", j, err)
			p.w(fmt.Sprintf("fail renew %d %d", j, at))
		} else {
			p.w(fmt.Sprintf("rpc renew %d %s %s %d %d %s %s", j, in.Name, p.keyTok(in.Key, true), in.LockTimeoutSeconds, at, b01(resp.Locked), etok(resp.Error)))
		}
	}
	if p.arm[j] == "post" {
		delete(p.arm, j)
		p.wait(j)
	}
	if p.tear {
		p.mu.Unlock()
		return &pb.LockResponse{Name: in.Name, Key: in.Key, Locked: true}, nil
	}
	p.w(fmt.Sprintf("#ans renew %d %d", j, p.at()))
	p.mu.Unlock()
	return resp, err
}

// release lets a Renew of hold j that waits at a gate go on. Returns whether one was waiting.
func (p *interposer) release(j int) bool {
	p.mu.Lock()
	g := p.gates[j]
	delete(p.gates, j)
	p.mu.Unlock()
	if g == nil {
		return false
	}
	close(g.ch)
	return true
}

type closerFn func() error

func (f closerFn) Close() error { return f() }

// ---------------------------------------------------------------------------------------------- one case

type world struct {
	srv     *server.LockServer
	closer  func()
	svc     *grpcsvc.Service
	ip      *interposer
	cl      *client.Client
	net     bool   // the client is a real client.New over a real connection
	stopNet func() // stops the gRPC server of the net modes
	cancel  context.CancelFunc
	scancel []context.CancelFunc
	xctx    context.Context
	holds   []*client.Lock
	w       func(string)
}

func boot(w func(string), noauto bool, maxRetries int) (*world, error) {
	return bootMode(w, noauto, maxRetries, "direct")
}

func bootMode(w func(string), noauto bool, maxRetries int, mode string) (*world, error) {
	cfg := &server.LockServerConfig{}
	cfg.Shards = 16
	cfg.LockGcInterval = 30 * time.Minute
	cfg.LockGcMinIdle = 5 * time.Minute
	cfg.DefaultLockTimeout = 10 * time.Minute
	cfg.IPCSocketFile = ""
	srv, closer, err := server.New(cfg)
	if err != nil {
		if closer != nil {
			closer()
		}
		return nil, err
	}
	x := &world{srv: srv, closer: closer, w: w}
	x.svc = grpcsvc.NewService(srv)
	conn := func() context.Context {
		c0 := x.svc.TagConn(context.Background(), &stats.ConnTagInfo{RemoteAddr: &net.TCPAddr{IP: net.IPv4(127, 0, 0, 1)}})
		c, cancel := context.WithCancel(c0)
		x.scancel = append(x.scancel, cancel)
		return c
	}
	sctx := conn()
	x.xctx = conn()
	marker := new(int)
	x.ip = &interposer{svc: x.svc, sctx: sctx, start: time.Now(), w: w, keyIdx: map[string]int{}, arm: map[int]string{},
		gates: map[int]*gate{}, faults: map[string][]int{}, attempt: map[string]int{}, uarm: map[int]bool{}, ufail: map[int]int{}, ugates: map[int]*gate{},
		marker: marker}
	cctx, cancel := context.WithCancel(context.WithValue(context.Background(), markerKey{}, marker))
	x.cancel = cancel
	if mode == "net" || mode == "netpw" {
		// the real gRPC server of net/grpc on an in-memory listener, the real client.New dialling it
		pw := ""
		if mode == "netpw" {
			pw = netPassword
		}
		x.ip.password = pw
		lis := bufconn.Listen(1 << 16)
		stop, err := startGrpc(x.svc, lis, pw)
		if err != nil {
			cancel()
			closer()
			return nil, err
		}
		x.stopNet = stop
		x.net = true
		cl, err := client.New(cctx, client.Config{Address: "passthrough:///bufconn", NoAutoRenew: noauto, MaxRetries: maxRetries, Password: pw},
			grpc.WithContextDialer(func(ctx context.Context, _ string) (net.Conn, error) { return lis.DialContext(ctx) }),
			grpc.WithIdleTimeout(0), grpc.WithUnaryInterceptor(x.ip.intercept))
		if err != nil {
			stop()
			cancel()
			closer()
			return nil, err
		}
		x.cl = cl
		w("#mode " + mode + " " + grpcFrontKind)
		return x, nil
	}
	x.cl = client.NewVerifClient(cctx, x.ip, closerFn(func() error {
		x.ip.mu.Lock()
		x.ip.closed = true
		x.ip.mu.Unlock()
		return nil
	}), noauto, maxRetries)
	return x, nil
}

// teardown ends every goroutine of the bubble without anything observable: renewers see their context end.
func (x *world) teardown() {
	x.ip.mu.Lock()
	x.ip.tear = true
	x.ip.mu.Unlock()
	x.cancel()
	x.ip.mu.Lock()
	js := []int{}
	for j := range x.ip.gates {
		js = append(js, j)
	}
	ujs := []int{}
	for j := range x.ip.ugates {
		ujs = append(ujs, j)
	}
	x.ip.mu.Unlock()
	for _, j := range js {
		x.ip.release(j)
	}
	for _, j := range ujs {
		x.ip.urelease(j)
	}
	synctest.Wait()
	// an Unlock kept before the server parks once more after it: release again
	x.ip.mu.Lock()
	ujs = ujs[:0]
	for j := range x.ip.ugates {
		ujs = append(ujs, j)
	}
	x.ip.mu.Unlock()
	for _, j := range ujs {
		x.ip.urelease(j)
	}
	synctest.Wait()
	if x.net {
		// not Client.Close(): it would Stop() renewers that have already ended with the client's context
		x.cl.VerifCloseConn()
		synctest.Wait()
		x.stopNet()
		synctest.Wait()
	}
	for _, c := range x.scancel {
		c()
	}
	synctest.Wait()
	x.closer()
	synctest.Wait()
}

// mainCall runs f as the client's main goroutine would; false if it does not return (parked).
func (x *world) mainCall(f func()) bool { return x.mainCallWithin(f, 0) }

// mainCallWithin gives the call up to secs of virtual time (retry delays) to return.
func (x *world) mainCallWithin(f func(), secs int) bool {
	done := make(chan struct{})
	go func() {
		defer close(done)
		f()
	}()
	for i := 0; ; i++ {
		synctest.Wait()
		select {
		case <-done:
			return true
		default:
		}
		if i >= secs {
			return false
		}
		time.Sleep(time.Second)
	}
}

func (x *world) at() int64 { return x.ip.at() }

func (x *world) listing() string {
	ls := x.srv.Locks()
	parts := []string{}
	x.ip.mu.Lock()
	for _, l := range ls {
		parts = append(parts, l.Name()+" "+x.ip.keyTok(l.Key(), true))
	}
	x.ip.mu.Unlock()
	sort.Strings(parts)
	return strings.TrimSpace(fmt.Sprintf("probe %d %s", len(parts), strings.Join(parts, " ")))
}

func runSchedule(c *ccase, w func(string)) {
	x, err := bootMode(w, c.noauto, c.maxRetries, c.mode)
	if err != nil {
		w("B boot-error " + err.Error())
		return
	}
	defer x.teardown()
	for _, it := range c.items {
		switch it.op {
		case "lock", "try":
			j := len(x.holds)
			x.ip.mu.Lock()
			x.ip.curCall = j
			x.ip.mu.Unlock()
			var lk *client.Lock
			opts := &client.LockOptions{LockTimeoutSeconds: it.t, Size: it.size}
			w(fmt.Sprintf("#call %s %d %d", it.op, j, x.at()))
			ok := x.mainCall(func() {
				if it.op == "lock" {
					lk, _ = x.cl.Lock(it.name, opts)
				} else {
					lk, _ = x.cl.TryLock(it.name, opts)
				}
			})
			if !ok {
				w(fmt.Sprintf("parked %d %d", j, x.at()))
				return
			}
			x.holds = append(x.holds, lk)
			w(fmt.Sprintf("#ret %s %d %d %s", it.op, j, x.at(), strings.Join(x.cl.VerifRenewMapNames(), ",")))
		case "unlock":
			if it.j < 0 || it.j >= len(x.holds) || x.holds[it.j] == nil || !x.holds[it.j].Locked {
				continue
			}
			x.ip.mu.Lock()
			x.ip.curCall = it.j
			x.ip.mu.Unlock()
			w(fmt.Sprintf("#call unlock %d %d", it.j, x.at()))
			ok := x.mainCall(func() { x.holds[it.j].Unlock() })
			if !ok {
				w(fmt.Sprintf("parked %d %d", it.j, x.at()))
				return
			}
			w(fmt.Sprintf("uret %d %d", it.j, x.at()))
		case "ufault":
			x.ip.mu.Lock()
			x.ip.ufail[it.j] = 1
			x.ip.mu.Unlock()
		case "ubegin":
			if it.j < 0 || it.j >= len(x.holds) || x.holds[it.j] == nil || !x.holds[it.j].Locked {
				continue
			}
			x.ip.mu.Lock()
			x.ip.curCall = it.j
			x.ip.uarm[it.j] = true
			x.ip.mu.Unlock()
			w(fmt.Sprintf("ucall %d %d", it.j, x.at()))
			lk, j := x.holds[it.j], it.j
			go func() {
				lk.Unlock()
				x.ip.mu.Lock()
				tear := x.ip.tear
				x.ip.mu.Unlock()
				if !tear {
					w(fmt.Sprintf("uret %d %d", j, x.at()))
				}
			}()
		case "usend", "uend":
			x.ip.urelease(it.j)
		case "close":
			w(fmt.Sprintf("#call close %d", x.at()))
			ok := x.mainCall(func() { x.cl.Close() })
			if !ok {
				w(fmt.Sprintf("parked -1 %d", x.at()))
				return
			}
			w(fmt.Sprintf("cret %d", x.at()))
		case "adv":
			if it.ns > 0 {
				time.Sleep(time.Duration(it.ns))
			}
		case "cancel":
			w(fmt.Sprintf("#call cancel %d", x.at()))
			x.cancel()
		case "hold":
			x.ip.mu.Lock()
			x.ip.arm[it.j] = it.stage
			x.ip.mu.Unlock()
		case "step":
			x.ip.release(it.j)
		case "compete":
			req := &pb.TryLockRequest{Name: it.name}
			if it.size > 0 {
				req.Size = &it.size
			}
			resp, err := x.svc.TryLock(x.xctx, req)
			g := err == nil && resp != nil && resp.Locked
			if g {
				x.svc.Unlock(x.xctx, &pb.UnlockRequest{Name: it.name, Key: resp.Key})
			}
			w(fmt.Sprintf("compete %s %s %d", it.name, b01(g), x.at()))
		case "probe":
			synctest.Wait()
			w(x.listing() + " " + strconv.FormatInt(x.at(), 10))
		}
		synctest.Wait()
	}
}

// runRetry: one API call with scripted transport outcomes; prints the attempts (#att), then
//   ret <id> <final status code | -1 non-status | 0 ok> <attempts> <gaps between attempts in ns ...>
func runRetry(c *ccase, w func(string)) {
	auto := c.rpc == "autorenew"
	x, err := boot(w, !auto, c.maxRetries)
	if err != nil {
		w("B boot-error " + err.Error())
		return
	}
	defer x.teardown()
	var times []int64
	var lastCode []int
	x.ip.w = func(s string) {
		w(s)
		f := strings.Fields(s)
		if len(f) == 5 && f[0] == "#att" {
			t, _ := strconv.ParseInt(f[3], 10, 64)
			cd, _ := strconv.Atoi(f[4])
			times = append(times, t)
			lastCode = append(lastCode, cd)
		}
	}
	// a hold to unlock / renew
	var lk *client.Lock
	if c.rpc == "unlock" || c.rpc == "renew" || auto {
		x.mainCall(func() { lk, _ = x.cl.Lock("r", &client.LockOptions{LockTimeoutSeconds: 45, Size: 1}) })
		if lk == nil || !lk.Locked {
			w("B retry-setup-failed")
			return
		}
	}
	kind := c.rpc
	if auto {
		kind = "renew"
	}
	x.ip.mu.Lock()
	x.ip.faults[kind] = append([]int{}, c.codes...)
	x.ip.attempt = map[string]int{}
	x.ip.retry = true
	x.ip.curCall = 1
	x.ip.mu.Unlock()
	var rerr error
	returned := true
	if auto {
		// the renewer's own Renew (first tick at +15 s) meets the scripted outcomes; then the hold must still be there
		time.Sleep(40 * time.Second)
		synctest.Wait()
		w(x.listing() + " " + strconv.FormatInt(x.at(), 10))
	} else {
		returned = x.mainCallWithin(func() {
			switch c.rpc {
			case "lock":
				_, rerr = x.cl.Lock("q", &client.LockOptions{LockTimeoutSeconds: 45, Size: 1})
			case "try":
				_, rerr = x.cl.TryLock("q", &client.LockOptions{LockTimeoutSeconds: 45, Size: 1})
			case "unlock":
				_, rerr = x.cl.Unlock(lk.Name, lk.Key)
			case "renew":
				_, rerr = x.cl.Renew(lk.Name, lk.Key, 45)
			}
		}, 3*len(c.codes)+30)
	}
	final := 0
	if !returned {
		final = -2
	} else if rerr != nil {
		if st, ok := status.FromError(rerr); ok {
			final = int(st.Code())
		} else {
			final = -1
		}
	}
	gaps := []string{}
	for i := 1; i < len(times); i++ {
		gaps = append(gaps, strconv.FormatInt(times[i]-times[i-1], 10))
	}
	w(strings.TrimSpace(fmt.Sprintf("ret %s %d %d %s", c.id, final, len(times), strings.Join(gaps, " "))))
}

func TestClientDiff(t *testing.T) {
	slog.SetDefault(slog.New(slog.NewTextHandler(io.Discard, nil)))
	in, outp := os.Getenv("CD_CASES"), os.Getenv("CD_OUT")
	if in == "" || outp == "" {
		t.Skip("CD_CASES / CD_OUT not set")
	}
	cases, err := readCases(in)
	if err != nil {
		t.Fatal(err)
	}
	of, err := os.OpenFile(outp, os.O_CREATE|os.O_WRONLY|os.O_APPEND, 0o644)
	if err != nil {
		t.Fatal(err)
	}
	defer of.Close()
	var wmu sync.Mutex
	w := func(s string) {
		wmu.Lock()
		of.WriteString(s + "\n")
		wmu.Unlock()
	}
	skip := os.Getenv("CD_SKIP_TO") // resume after a crash: first case id to run
	for _, c := range cases {
		if skip != "" {
			if c.id != skip {
				continue
			}
			skip = ""
		}
		w("S " + c.id)
		synctest.Test(t, func(t *testing.T) {
			if c.retry {
				runRetry(c, w)
			} else {
				runSchedule(c, w)
			}
		})
		w("D " + c.id)
	}
}
