//go:build !clientgrpc

package clientdiff

import (
	"context"
	"net"

	"google.golang.org/grpc"
	"google.golang.org/grpc/codes"
	"google.golang.org/grpc/metadata"
	"google.golang.org/grpc/status"

	grpcsvc "github.com/imoore76/ldlm/net/grpc"
	pb "github.com/imoore76/ldlm/protos"
)

// Fallback when net/grpc.Run of the tree under test has no `net.Listen("tcp", conf.ListenAddress)` to make injectable:
// a grpc.Server built here with the Service as stats handler and a password interceptor that does what
// authPasswordInterceptor documents (the "authorization" metadata must equal the password, else Unauthenticated).
// The client side, which C19 is about, is the same; checks/c19.py says in its coverage which front was used.
const grpcFrontKind = "harness-built-grpc.Server(degraded)"

func startGrpc(svc *grpcsvc.Service, lis net.Listener, password string) (func(), error) {
	opts := []grpc.ServerOption{grpc.StatsHandler(svc)}
	if password != "" {
		opts = append(opts, grpc.UnaryInterceptor(func(ctx context.Context, r any, _ *grpc.UnaryServerInfo, h grpc.UnaryHandler) (any, error) {
			md, ok := metadata.FromIncomingContext(ctx)
			if !ok || md["authorization"] == nil {
				return nil, status.Errorf(codes.Unauthenticated, "missing credentials")
			}
			if md["authorization"][0] != password {
				return nil, status.Errorf(codes.Unauthenticated, "invalid credentials")
			}
			return h(ctx, r)
		}))
	}
	gs := grpc.NewServer(opts...)
	pb.RegisterLDLMServer(gs, svc)
	go func() { _ = gs.Serve(lis) }()
	return gs.Stop, nil
}
