"""T2 (sched-diff) glue, layer 2: the REAL LockServer (server.New: real lock manager, timer map, session manager writing a
real state file) driven one model step at a time along schedules chosen by the extracted model Msv (coq/Model/Sv.v).

  build(ctx)            model driver (ocaml/sv/svdriver), instrumented copies of server.go / timermap.go / store.go
                        (lib/instrument.py, table harness/svsched/anchors.json), the closer order of cmd/server/main.go,
                        harness test binary against vcheck.REPO
  gen_schedules(...)    svdriver gen: DFS over the MODEL's enabled items restricted to sitem_ok, preemption bounded,
                        forced items inserted (hand-off wake, cancelled waiter, the pending no-clear tolerance)
  run_schedules(...)    harness/svsched in child processes (a hang / fatal error is recorded against the running schedule)
  check_observed(...)   svdriver check: every differing observation per schedule + ghost facts of the model's own run
  oracle_C05/06/09/11   the properties' own oracles, written from the property texts, evaluated on the REAL traces
                        (they do not read the model's output)
  wf_responses / oracle_C14   response well-formedness (C14: no success bit with an error, no failure without one except the plain
                        refusals) on EVERY answered call of EVERY real trace, whichever property is under check (coverage
                        response_wellformedness); the property oracle when C14 is under check
  trace_predicates(...) svdriver trace: the trace predicates of coq/Model/SvTrace.v (extracted Gallina, PROVED of every run of Msv:
                        Proofs/SvTraceP.v) evaluated on the REAL observations of every schedule, next to the Python oracles
  execute_windows(...)  WINDOW runs (harness/svsched/window.go): the inner yield points (every mutex acquisition / time.Timer call in
                        timermap.go, session.go, store.go: anchors.json "acquisitions") park and the harness explores the interleavings
                        of the micro-steps itself (preemption bounded, lock aware); judged by the oracles only
  selftest_oracle(...)  the same oracles evaluated on the observations the proved model predicts for the same schedules:
                        a rejection outside the known-finding signatures means the oracle is wrong
  run_property(ctx, prop, tier=None)

    python3 -m lib.svtie [--tier quick|thorough] [--prop C05,C06,C09,C11,C14] [--seed N] [--scenario id,...] [--replay file.json]
    (smoke run: builds, runs, prints a summary; VERIF_REPO selects the tree under test)
"""
import json
import os
import re
import shutil
import subprocess
import sys
import time
from pathlib import Path

from . import vcheck, instrument
from .vcheck import VERIF, REPO, sh, Lock

SV = VERIF / "ocaml" / "sv"
ANCHORS = VERIF / "harness" / "svsched" / "anchors.json"
SCENARIO_DIR = VERIF / "harness" / "svsched" / "scenarios"
CORPUS_DIR = VERIF / "corpus" / "svsched"
MODEL_LABELS = ["VMgrTry", "VMgrLock", "VSessAdd", "VTmAdd", "VTmRemove", "VMgrUnlock", "VSessRemove", "VTmReset", "VCbUnlock",
                "VCbSessRemove", "VCbTmRemove", "VDsFlag", "VDsNoClear", "VDsDestroy", "VDsTmRemove", "VDsUnlock", "VShFlag", "VShNet",
                "VShTimers", "VShMgr"]
# what each property reads of a model/implementation difference (DESIGN 4.6). Difference kinds of `svdriver check`:
# label (parked at another yield point), shlabel (the closer goroutine's label), blocked, bit, err, threads (a goroutine exists on one
# side only), table, timers, sessions, listing, file, now, crash; plus hang / fatal of the harness.
PROJ = {"C04": {"bit", "table", "timers", "crash", "hang", "fatal"},
        "C05": {"bit", "table", "timers", "crash", "hang", "fatal"},
        "C06": {"bit", "table", "timers", "sessions", "listing", "crash", "hang", "fatal"},
        "C09": {"bit", "file", "sessions", "crash", "hang", "fatal"},
        "C11": {"bit", "err", "blocked", "file", "table", "shlabel", "crash", "hang", "fatal"},
        "C14": {"bit", "err", "crash", "hang", "fatal"}}
KNOWN_OF = {"C06": "F-LEAK", "C09": "F-OVER"}

T2SV_ASSUMPTIONS = [
    "T2-svsched: yield points sit immediately before the calls named in Model/Sv.v; every lock-manager call is one step (layer 1 ties "
    "the lock package to its own model), every other internally synchronised operation (sessionLocksMtx, timersMtx, the atomic flag) one step",
    "T2-svsched: keys and session ids are drawn by the server; schedules name them symbolically and the harness keeps the bijection",
    "T2-svsched: a context end (VCancel) is the cancellation of the request's parent context with the given cause; the server's own "
    "wait-timeout context (WithTimeoutCause) is exercised by T1, not here",
    "T2-svsched: the network closer is replaced by: cancel every request context + one DestroySession goroutine per open session; the "
    "three calls cmd/server/main.go makes on a signal run in the order the tree under test has them",
    "T2-svsched window runs: inside timermap.go, session.go and store.go every mutex acquisition and every time.Timer method call is a yield "
    "point of its own; the interleavings of these micro-steps are searched by the harness up to the scenario's preemption bound and cap "
    "(coverage window_runs says which searches were exhausted); code between two such points touches shared state only under the mutex it holds",
    "T2-svsched: lock objects without keys are not compared (the model never collects them, the manager's shutdown does)",
    "T2-svsched: PENDING MODEL UPDATE - under no_clear_on_disconnect /repo (4d97dcb) checks and deletes the session in one critical "
    "section; Model/Sv.v's two steps VDsNoClear, VDsDestroy are executed back to back (the second is a forced item) and compared as one",
]


def hx(s):
    return s.encode().hex() if s else "-"


def unhx(s):
    return "" if s in ("-", "") else bytes.fromhex(s).decode("utf-8", "replace")


# ------------------------------------------------------------------------------------------------------------ build

def build_driver(ctx):
    drv = SV / "svdriver"
    with Lock("ocaml-sv"):
        srcs = [VERIF / "coq" / "Model" / f for f in ("Sv.vo", "SvTrace.vo", "Seq.vo", "Base.vo", "Err.vo")] + [VERIF / "coq" / "Proofs" / "SvDefs.vo", SV / "driver.ml",
                                                                                                 VERIF / "coq" / "Extract" / "SvExtract.v"]
        missing = [str(s) for s in srcs if not s.exists()]
        if missing:
            return False, "missing (Coq model not built?): " + ", ".join(missing)
        if drv.exists() and all(drv.stat().st_mtime >= s.stat().st_mtime for s in srcs):
            return True, "up to date"
        with Lock("coq"):
            rc, out = sh(["./build.sh"], cwd=SV, timeout=900)
        return (rc == 0 and drv.exists()), out[-2000:]


def _okb_status():
    """whether Extract/SvExtract.v's sitem_okb_sound (the generator's filter implies SvDefs.sitem_ok) checked at the last driver build"""
    try:
        return (SV / "okb_sound.status").read_text().strip()[:300]
    except OSError:
        return "unknown"


def _closer_order_ast(ctx, repo):
    """What the translator (harness/cmd/gen2coq closer.go) read from the syntax tree of cmd/server's main(): the shutdown steps
    after the wait, followed through local closures and helper functions. -> list | None (not recognised / not available)"""
    try:
        from . import gen
        info = gen.summary(ctx) if (ctx is not None and Path(repo) == REPO) else None
        if info is None or "closer_order" not in info:
            od = (ctx.work if ctx is not None else vcheck.WORKROOT / "svtie") / "gen-closer"
            ok, _log = gen.run_tool(repo, od)
            info = json.loads((Path(od) / "summary.json").read_text()) if ok else None
        order = (info or {}).get("closer_order")
        if order and not (info or {}).get("closer_reasons") and all(k in ("prepare", "net", "server") for k in order):
            return list(order)
    except Exception:  # noqa
        pass
    return None


def closer_order(repo=REPO, ctx=None):
    """The order of the three calls cmd/server/main.go makes after the signal arrived. -> (['prepare','net','server'], [missing])
    First from the syntax tree (wrapping the calls in a closure / helper, or the wait in a helper, does not hide them); when
    that shape is not recognised, by the text of the three calls after `<-sigchan` as before; a call found by neither is missing."""
    try:
        spec = json.loads(ANCHORS.read_text())["closer_order"]
        text = (Path(repo) / spec["file"]).read_text()
    except Exception as ex:  # noqa
        return ["prepare", "net", "server"], [dict(id="closer_order", label="*", file="cmd/server/main.go", why="unreadable: %r" % ex)]
    order = _closer_order_ast(ctx, repo)
    if order is not None:
        missing = [dict(id="closer_order." + k, label=k, file=spec["file"], why="main() does not do this step after the wait (read from the syntax tree)")
                   for k in spec["calls"] if k not in order]
        return order, missing
    at = text.find(spec["after"])
    missing = []
    if at < 0:
        return ["prepare", "net", "server"], [dict(id="closer_order", label="*", file=spec["file"], why="%r not found" % spec["after"])]
    pos = {}
    for k, call in spec["calls"].items():
        p = text.find(call, at)
        if p < 0:
            missing.append(dict(id="closer_order." + k, label=k, file=spec["file"], why="call %r not found after %r" % (call, spec["after"])))
        else:
            pos[k] = p
    return [k for k in sorted(pos, key=lambda k: pos[k])], missing


def build(ctx):
    """-> dict(ok, why, log, test_bin, driver, instr, order). Cached on ctx."""
    b = getattr(ctx, "_t2sv_build", None)
    if b is not None:
        return b
    ok, log = build_driver(ctx)
    if not ok:
        b = dict(ok=False, why="model-driver", log=log, instr=None)
        ctx._t2sv_build = b
        return b
    work = ctx.work / "t2sv"
    work.mkdir(parents=True, exist_ok=True)
    try:
        ins = instrument.instrument(ANCHORS, work, REPO)
    except Exception as ex:  # noqa
        ins = dict(overlay={}, replaces={}, placed=[], missing=[dict(id="*", label="*", file="*", why="instrumenter failed: %r" % ex)], sentinels=[], log=[])
    order, omiss = closer_order(ctx=ctx)
    ins["missing"] = list(ins["missing"]) + omiss
    ov = work / "overlay.json"
    ov.write_text(json.dumps({"Replace": ins["overlay"]}))
    hdir = None
    for attempt in range(4):     # the copy races with other packages writing scratch files under /verif/harness: retry
        try:
            hdir = vcheck.harness_dir(ctx, extra_replace=ins["replaces"], name="harness-t2sv")
            break
        except (OSError, shutil.Error) as ex:
            log = "copy of /verif/harness failed: %r" % (ex,)
            time.sleep(0.5 * (attempt + 1))
    if hdir is None:
        b = dict(ok=False, why="harness-copy", log=log, instr=ins)
        ctx._t2sv_build = b
        return b
    test_bin = work / "svsched.test"
    rc, out = vcheck.go_test_build(ctx, hdir, "./svsched", test_bin, overlay=ov, timeout=600)
    if rc != 0 or not test_bin.exists():
        b = dict(ok=False, why="repo-build", log=out[-4000:], instr=ins)
    else:
        b = dict(ok=True, test_bin=test_bin, driver=SV / "svdriver", instr=ins, log=out[-500:], work=work, order=order)
    ctx._t2sv_build = b
    return b


# -------------------------------------------------------------------------------------------------------- scenarios

def enc_item(text):
    """'call 1 try s1 a K1 1 5' -> the same with every session id / name / key hex encoded (positions by item kind)."""
    f = text.split()
    if not f:
        return text
    k = f[0]
    if k in ("connect", "connend") and len(f) >= 2:
        f[1] = hx(f[1])
    elif k == "call" and len(f) >= 3:
        op = f[2]
        if op in ("try", "lock") and len(f) >= 8:
            f[3], f[4], f[5] = hx(f[3]), hx(f[4]), hx(f[5])
        elif op in ("unl", "renew") and len(f) >= 5:
            f[3], f[4] = hx(f[3]), hx(f[4])
    return " ".join(f)


def dec_item(f):
    """tokens of an echoed item (hex) -> readable text"""
    g = list(f)
    try:
        cut = g.index("spawn")
        g = g[:cut]
    except ValueError:
        pass
    k = g[0] if g else ""
    if k in ("connect", "connend") and len(g) >= 2:
        g[1] = unhx(g[1])
    elif k == "call" and len(g) >= 3:
        if g[2] in ("try", "lock") and len(g) >= 8:
            g[3], g[4], g[5] = unhx(g[3]), unhx(g[4]), unhx(g[5])
        elif g[2] in ("unl", "renew") and len(g) >= 5:
            g[3], g[4] = unhx(g[3]), unhx(g[4])
    return " ".join(g)


def load_scenarios(prop=None, ids=None):
    scs = []
    for f in sorted(SCENARIO_DIR.glob("*.json")):
        try:
            scs += json.loads(f.read_text())["scenarios"]
        except Exception:
            pass
    if ids:
        scs = [s for s in scs if s["id"] in ids]
    elif prop:
        scs = [s for s in scs if prop in s.get("props", [])]
    return scs


def scenario_text(sc, tier, bound=None, sample=None):
    q = 0 if tier == "quick" else 1
    L = ["scenario %s" % sc["id"], "noclear %d" % (1 if sc.get("noclear") else 0),
         "bound %d" % (bound if bound is not None else sc.get("bound", [2, 3])[q])]
    for it in sc.get("pre", []):
        L.append("pre " + enc_item(it))
    for c in sc.get("calls", []):
        text, deps = (c, []) if isinstance(c, str) else (c[0], c[1] if len(c) > 1 else [])
        e = enc_item(text)
        L.append(e + ((" after " + " ".join(map(str, deps))) if deps else ""))
    for e in sc.get("env", []):
        text, deps = (e, []) if isinstance(e, str) else (e[0], e[1] if len(e) > 1 else [])
        L.append("env " + enc_item(text) + ((" after " + " ".join(map(str, deps))) if deps else ""))
    L.append("sample %d" % (sample if sample is not None else sc.get("sample", [12, 0])[q]))
    L.append("cap %d" % sc.get("cap", [20000, 60000])[q])
    L.append("end")
    return "\n".join(L) + "\n"


def _run_driver(b, args, out, timeout=600):
    with open(out, "w") as fh:
        try:
            p = subprocess.run([str(b["driver"])] + args, stdout=fh, stderr=subprocess.PIPE, timeout=timeout, text=True)
            return p.returncode, p.stderr
        except subprocess.TimeoutExpired:
            return 124, "svdriver %s: timeout" % args[0]
        except Exception as ex:  # noqa
            return 127, repr(ex)


def gen_schedules(ctx, b, scenarios, tier, seed, name="gen"):
    """-> (path of the schedule file, {scenario id: dict(enumerated, printed, capped, bound)}, log)"""
    d = b["work"] / name
    shutil.rmtree(d, ignore_errors=True)
    d.mkdir(parents=True)
    sf = d / "scenarios.txt"
    sf.write_text("".join(scenario_text(s, tier) for s in scenarios))
    out = d / "schedules.txt"
    rc, err = _run_driver(b, ["gen", str(sf), str(int(seed))], out)
    stats = {}
    for line in out.read_text().splitlines():
        if line.startswith("STAT "):
            f = line.split()
            stats[f[1]] = dict(enumerated=int(f[3]), printed=int(f[5]), capped=int(f[7]), bound=int(f[9]))
    return out, stats, ("" if rc == 0 else "svdriver gen rc=%s %s" % (rc, err[-500:]))


def corpus_schedules():
    """corpus/svsched/*.json: {"id", "noclear", "items": ["connect s1", "call 1 try s1 a K1 1 5", "run 1", ...], "props": [...]} (names plain;
    forced items may be left out: svdriver expand inserts them)."""
    out = []
    if CORPUS_DIR.exists():
        for f in sorted(CORPUS_DIR.glob("*.json")):
            try:
                c = json.loads(f.read_text())
                c.setdefault("id", f.stem)
                out.append(c)
            except Exception:
                pass
    return out


def corpus_text(c):
    L = ["S %s" % c["id"], "C %d" % (1 if c.get("noclear") else 0)]
    for k, it in enumerate(c.get("items", [])):
        L.append("I %d %s" % (k, it if c.get("hex") else enc_item(it)))
    L.append("Z")
    return "\n".join(L) + "\n"


def expand(ctx, b, entries, name):
    """plain corpus / replay entries -> schedule file in the gen format"""
    d = b["work"] / name
    shutil.rmtree(d, ignore_errors=True)
    d.mkdir(parents=True)
    pf = d / "plain.txt"
    pf.write_text("".join(corpus_text(c) for c in entries))
    out = d / "schedules.txt"
    rc, err = _run_driver(b, ["expand", str(pf)], out)
    return out, ("" if rc == 0 else "svdriver expand rc=%s %s" % (rc, err[-500:]))


# ---------------------------------------------------------------------------------------------------------- running

def split_blocks(text, keep=("I ", "C ")):
    blocks, cur = [], None
    for line in text.splitlines():
        if line.startswith("S "):
            cur = [line]
            blocks.append(cur)
        elif cur is not None:
            if line[:2] in keep:
                cur.append(line)
            elif line == "Z":
                cur.append(line)
                cur = None
    return blocks


def _progress(outdir):
    started, done, hang = [], set(), None
    p = outdir / "progress.txt"
    if p.exists():
        for line in p.read_text().splitlines():
            f = line.split(None, 1)
            if len(f) == 2 and f[0] == "S":
                started.append(f[1])
            elif len(f) == 2 and f[0] == "D":
                done.add(f[1])
            elif len(f) == 2 and f[0] == "H":
                hang = f[1]
    return started, done, hang


def run_schedules(ctx, b, sched_file, name="run", procs=8, timeout=300, watchdog_ms=2000, xsplit=-1, net_sync=False, max_failures_per_job=3, window=False):
    """Executes every schedule of sched_file on the real code. -> dict(dirs, failures=[dict(sid, kind=hang|fatal, k, text)])
    window=True: sched_file is a window scenario file (window_text), executed by TestSvWindow (harness/svsched/window.go)."""
    blocks = split_blocks(Path(sched_file).read_text(), keep=("C ", "N ", "P ", "T ", "E ") if window else ("I ", "C "))
    root = b["work"] / name
    shutil.rmtree(root, ignore_errors=True)
    root.mkdir(parents=True)
    n = len(blocks)
    procs = max(1, min(procs, n if window else (n + 7) // 8))
    jobs = []
    for i in range(procs):
        part = blocks[i::procs]
        if not part:
            continue
        d = root / ("p%d" % i)
        d.mkdir()
        (d / "in.txt").write_text("\n".join("\n".join(bl) for bl in part) + "\n")
        jobs.append(dict(dir=d, ids=[bl[0].split()[1] for bl in part], skip=0))
    failures = []
    abandoned = 0
    pending = list(jobs)
    rounds = 0
    t_end = time.time() + timeout
    while pending and rounds < 40 and time.time() < t_end:
        rounds += 1
        running = []
        for j in pending:
            env = dict(os.environ)
            env.update({"SVSCHED_IN": str(j["dir"] / "in.txt"), "SVSCHED_OUT": str(j["dir"]), "SVSCHED_SKIP": str(j["skip"]),
                        "SVSCHED_WATCHDOG_MS": str(watchdog_ms), "SVSCHED_XSPLIT": str(xsplit), "SVSCHED_NET_SYNC": "1" if net_sync else "0",
                        "SVSCHED_CLOSER_ORDER": ",".join(b.get("order") or ["prepare", "net", "server"])})
            p = subprocess.Popen([str(b["test_bin"]), "-test.run", "TestSvWindow" if window else "TestSvSched", "-test.timeout", "%ds" % timeout], cwd=j["dir"], env=env,
                                 stdout=subprocess.PIPE, stderr=subprocess.STDOUT, text=True, errors="replace")
            running.append((p, j))
        nxt = []
        for p, j in running:
            try:
                out, _ = p.communicate(timeout=max(5, t_end - time.time()) + 20)
            except subprocess.TimeoutExpired:
                p.kill()
                out, _ = p.communicate()
                out = (out or "") + "\n[harness timeout]"
            if p.returncode == 0:
                continue
            started, done, hang = _progress(j["dir"])
            bad = [s for s in started if s not in done]
            sid = bad[-1] if bad else None
            if sid is None:
                failures.append(dict(sid="?", kind="fatal", k=-1, text=(out or "")[-3000:]))
                continue
            if hang and hang.split()[0] == sid:
                hf = hang.split(None, 2)
                failures.append(dict(sid=sid, kind="hang", k=int(hf[1]) if len(hf) > 1 and hf[1].lstrip("-").isdigit() else -1,
                                     text="no progress for %d ms at: %s" % (watchdog_ms, hang)))
            else:
                failures.append(dict(sid=sid, kind="fatal", k=-1, text=(out or "")[-3000:]))
            pf = j["dir"] / "progress.txt"
            pf.write_text("".join(l + "\n" for l in pf.read_text().splitlines() if not l.startswith("H ")) + "D %s\n" % sid)
            j["fails"] = j.get("fails", 0) + 1
            if sid in j["ids"]:
                j["skip"] = j["ids"].index(sid) + 1
                if j["skip"] < len(j["ids"]):
                    if j["fails"] < max_failures_per_job:
                        nxt.append(j)
                    else:
                        abandoned += len(j["ids"]) - j["skip"]
        pending = nxt
    return dict(dirs=[j["dir"] for j in jobs], failures=failures, schedules=n, abandoned=abandoned)


# ------------------------------------------------------------------------------------------------- the real trace

class Block:
    __slots__ = ("k", "now", "tag", "thr", "tab", "tmr", "ses", "lst", "file", "filebad", "imgs", "crashed")

    def __init__(self, k, now, tag):
        self.k, self.now, self.tag = k, now, tag
        self.thr, self.tab, self.tmr, self.ses, self.lst = {}, {}, set(), {}, []
        self.file = None       # None: empty / never written; dict sid -> [(name,key,size)]
        self.filebad = None    # text when the real store could not decode the file
        self.imgs = []         # (sha, label, status, content | None)
        self.crashed = False

    def in_table(self, name, key):
        return name in self.tab and key in self.tab[name][1]

    def listed(self, name, key):
        return any(n == name and k == key for l in self.ses.values() for (n, k, _z) in l)


def parse_item(f):
    """tokens after 'I k' -> dict"""
    it = dict(kind=f[0], spawn=[], raw=" ".join(f))
    toks = list(f[1:])
    if "spawn" in toks:
        i = toks.index("spawn")
        for t in toks[i + 1:]:
            g = t.split(":")
            if len(g) >= 2:
                it["spawn"].append((int(g[0]), g[1], unhx(g[2]) if len(g) > 2 else "", unhx(g[3]) if len(g) > 3 else ""))
        toks = toks[:i]
    k = it["kind"]
    try:
        if k in ("connect", "connend"):
            it["sid"] = unhx(toks[0])
        elif k == "call":
            it["tid"], it["op"] = int(toks[0]), toks[1]
            a = toks[2:]
            if it["op"] in ("try", "lock"):
                it.update(sid=unhx(a[0]), name=unhx(a[1]), key=unhx(a[2]), size=int(a[3]), lt=None if a[4] == "~" else int(a[4]))
            elif it["op"] == "unl":
                it.update(name=unhx(a[0]), key=unhx(a[1]))
            elif it["op"] == "renew":
                it.update(name=unhx(a[0]), key=unhx(a[1]), lt=int(a[2]))
        elif k in ("run", "wake"):
            it["tid"] = int(toks[0])
        elif k == "cancel":
            it["tid"], it["err"] = int(toks[0]), toks[1]
        elif k == "tick":
            it["dt"] = int(toks[0])
    except (ValueError, IndexError):
        it["kind"] = "bad"
    return it


def _centries(toks):
    out = []
    for i in range(0, len(toks) - 2, 3):
        out.append((unhx(toks[i]), unhx(toks[i + 1]), int(toks[i + 2])))
    return out


class Run:
    """One schedule as executed on the real code."""

    def __init__(self, sid):
        self.sid = sid
        self.noclear = False
        self.items = []      # (k, tag 'I'|'J', dict)
        self.blocks = []
        self.notes = []
        self.sys = {}        # tid -> (kind, a, b) as the HARNESS registered them
        self.keys = {}       # symbolic -> real
        self.sids = {}
        self.complete = False
        self.raw = []
        self.model = False   # True: rendered from the MODEL's predicted observations (render_model), not a real trace

    def scenario(self):
        return self.sid.split("#")[0]

    # ---- derived views
    def block_at(self, k):
        """the last block with index <= k"""
        best = None
        for b in self.blocks:
            if b.k <= k:
                best = b
            else:
                break
        return best

    def steps(self):
        """[(k, tid, label)]: the yield point each run item released its goroutine from (real side)."""
        if getattr(self, "_steps", None) is None:
            out = []
            for k, _tag, it in self.items:
                if it["kind"] == "run":
                    pb = self.block_at(k - 1)
                    st = pb.thr.get(it["tid"]) if pb else None
                    if st and st[0] == "P":
                        out.append((k, it["tid"], st[1]))
            self._steps = out
        return self._steps

    def calls(self):
        if getattr(self, "_calls", None) is None:
            cs = {}
            for k, _tag, it in self.items:
                if it["kind"] == "call":
                    c = dict(it)
                    c.update(k_call=k, k_fin=None, ok=None, err=None)
                    cs[it["tid"]] = c
            for b in self.blocks:
                for tid, st in b.thr.items():
                    if st[0] == "F" and tid in cs and cs[tid]["k_fin"] is None:
                        cs[tid].update(k_fin=b.k, ok=st[1] == "1", err=st[2])
            self._calls = cs
        return self._calls

    def first_seen(self, tid):
        for b in self.blocks:
            if tid in b.thr:
                return b.k
        return None

    def ended_at(self, tid):
        for b in self.blocks:
            if b.thr.get(tid, ("?",))[0] in ("E", "F"):
                return b.k
        return None

    def panics(self):
        out = []
        for b in self.blocks:
            for tid, st in b.thr.items():
                if st[0] == "Z":
                    out.append((b.k, tid, unhx(st[1]) if len(st) > 1 else ""))
        return out


def parse_observed(path, model=False):
    """observed.txt of the harness -> {sid: Run}. model=True: `path` is a schedule file written by `svdriver gen` / `svdriver expand`, whose X blocks
    are the observations the MODEL predicts after every item; it is rendered into the same Run objects (see render_model)."""
    runs, cur, blk = {}, None, None
    try:
        text = Path(path).read_text()
    except OSError:
        return runs
    lastimg = None
    for line in text.splitlines():
        f = line.split()
        if not f:
            continue
        if model and (f[0] == "STAT" or (f[0] == "G" and (len(f) < 2 or not f[1].isdigit()))):
            continue    # statistics / ghost facts of the driver (a listing line is "G <count> ...")
        if f[0] == "S" and len(f) >= 2:
            cur = Run(f[1])
            runs[f[1]] = cur
            blk = None
            cur.raw.append(line)
            continue
        if cur is None:
            continue
        cur.raw.append(line)
        try:
            t = f[0]
            if t == "C":
                cur.noclear = f[1] == "1"
            elif t in ("I", "J"):
                cur.items.append((int(f[1]), t, parse_item(f[2:])))
                blk = None
            elif t in ("X", "Y"):
                blk = Block(int(f[1]), int(f[2]), t)
                cur.blocks.append(blk)
            elif t == "M":
                if f[1] == "key":
                    cur.keys[unhx(f[2])] = unhx(f[3])
                elif f[1] == "sid":
                    cur.sids[unhx(f[2])] = unhx(f[3])
                elif f[1] == "thr":
                    cur.sys[int(f[2])] = (f[3], unhx(f[4]) if len(f) > 4 else "", unhx(f[5]) if len(f) > 5 else "")
                elif f[1] == "img" and blk is not None:
                    st = f[4] if len(f) > 4 else None
                    lastimg = [f[2], f[3], st, {} if st == "1" else None]
                    blk.imgs.append(lastimg)
            elif t == "MQ" and lastimg is not None and lastimg[3] is not None:
                lastimg[3][unhx(f[1])] = _centries(f[3:])
            elif blk is None:
                if t == "N":
                    cur.notes.append(" ".join(f[1:]))
                elif t == "Z":
                    cur.complete = True
                    cur = None
            elif t == "T":
                blk.thr[int(f[1])] = tuple(f[2:])
            elif t == "L":
                blk.tab[unhx(f[1])] = (int(f[2]), [unhx(k) for k in f[4:]])
            elif t == "A":
                blk.tmr.add((unhx(f[1]), unhx(f[2])))
            elif t == "P":
                blk.ses[unhx(f[1])] = _centries(f[3:])
            elif t == "G":
                blk.lst = _centries(f[2:])
            elif t == "F":
                if f[1] == "1":
                    blk.file = {}
                elif f[1] == "2":
                    blk.filebad = " ".join([f[2]] + [unhx(x) for x in f[3:]])
            elif t == "Q" and blk.file is not None:
                blk.file[unhx(f[1])] = _centries(f[3:])
            elif t == "K":
                blk.crashed = f[1] == "1"
            elif t == "N":
                cur.notes.append(" ".join(f[1:]))
            elif t == "Z":
                cur.complete = True
                cur = None
        except (ValueError, IndexError):
            pass
    if model:
        render_model(runs)
    for r in runs.values():
        for b in r.blocks:
            for im in b.imgs:
                if im[1] == "post":
                    im[2] = "2" if b.filebad else ("1" if b.file is not None else "0")
                    im[3] = b.file
    return runs


def render_model(runs):
    """Completes Run objects parsed from the model's predicted observations with what the harness adds on the real side, so that the
    property oracles can judge them unchanged:
      - the goroutines the server starts itself (lease callbacks, DestroySession, the closer) are those the model spawns: the spawn
        annotations of the items (real side: the harness's `M thr` lines),
      - the state file a kill after item k leaves is the model's v_file after item k: one 'post' image per block (no raw bytes: the
        load test of the image is not part of a model trace),
      - responses, lock table, timer map, session table, listing, clock and the step log (the label a `run` item releases its thread
        from) are read from the blocks exactly as for a real trace.
    A model trace is complete when no thread is left parked at a yield point (corpus schedules may stop earlier; the real run is then
    completed by the harness, the model's is not)."""
    for r in runs.values():
        r.model = True
        for _k, _tag, it in r.items:
            for tid, kind, a, b in it.get("spawn", []):
                r.sys[tid] = (kind, a, b)
        for b in r.blocks:
            b.imgs = [["model-%d" % b.k, "post", None, None]]
        last = r.blocks[-1] if r.blocks else None
        r.complete = bool(r.complete and last is not None and all(st[0] in ("F", "E", "B") for st in last.thr.values()))


def selftest_oracle(prop, sched_files):
    """ORACLE SELF-TEST. Msv is proved to satisfy C05/C06/C09/C11 on every schedule (Proofs/SvAll.v) except for the recorded findings
    F-LEAK and F-OVER, so the Python oracle of `prop`, evaluated on the observations the MODEL predicts for the schedules that were run,
    must accept every one of them or name a known-finding signature; anything else means that the oracle (or this rendering) is wrong.
    -> dict(judged, failures=[(sid, idx, text, Run)], known=n, incomplete=n)"""
    oracle = ORACLES[prop]
    judged = known = incomplete = 0
    failures = []
    for f_ in sched_files:
        if f_ is None:
            continue
        for sid, run in sorted(parse_observed(f_, model=True).items()):
            if not run.blocks:
                continue
            judged += 1
            if not run.complete:
                incomplete += 1
            hit_known = False
            for idx, text, fid in oracle(run, {}):
                if fid is not None and fid == KNOWN_OF.get(prop):
                    hit_known = True
                else:
                    failures.append((sid, idx, text, run))
            known += 1 if hit_known else 0
    return dict(judged=judged, failures=failures, known=known, incomplete=incomplete)


def window_text(sc, tier, seed):
    """A scenario of the table as input of the WINDOW runs (harness/svsched/window.go): the harness itself explores the interleavings of the
    goroutines' micro-steps (every inner yield point parks), preemption bounded. wbound / wcap = [quick, thorough]."""
    q = 0 if tier == "quick" else 1
    L = ["S %s" % sc["id"], "C %d" % (1 if sc.get("noclear") else 0),
         "N %d %d %d" % (sc.get("wbound", [2, 3])[q], sc.get("wcap", [120, 1500])[q], int(seed))]
    for it in sc.get("pre", []):
        L.append("P " + enc_item(it))
    for c in sc.get("calls", []):
        text, deps = (c, []) if isinstance(c, str) else (c[0], c[1] if len(c) > 1 else [])
        L.append("T " + enc_item(text) + ((" after " + " ".join(map(str, deps))) if deps else ""))
    for e in sc.get("env", []):
        text, deps = (e, []) if isinstance(e, str) else (e[0], e[1] if len(e) > 1 else [])
        L.append("E " + enc_item(text) + ((" after " + " ".join(map(str, deps))) if deps else ""))
    L.append("Z")
    return "\n".join(L) + "\n"


def execute_windows(ctx, b, scenarios, tier, seed, name, procs=8, timeout=300):
    """Window runs of the scenarios on the real code (not compared with the model). -> dict(runs, failures, images, stats={scenario: dict})"""
    d = b["work"] / (name + "-in")
    shutil.rmtree(d, ignore_errors=True)
    d.mkdir(parents=True)
    wf = d / "windows.txt"
    wf.write_text("".join(window_text(s_, tier, seed) for s_ in scenarios))
    rr = run_schedules(ctx, b, wf, name=name, procs=procs, timeout=timeout, window=True)
    runs, stats = {}, {}
    for dd in rr["dirs"]:
        runs.update(parse_observed(dd / "observed.txt"))
        try:
            for line in (dd / "windows.txt").read_text().splitlines():
                f = line.split()
                if len(f) >= 6 and f[0] == "W":
                    stats[f[1]] = dict(executions=int(f[2]), exhausted=f[3] == "1", bound=int(f[4]), cap=int(f[5]))
        except OSError:
            pass
    images, untested = load_images(rr["dirs"])
    reached = {}
    for dd in rr["dirs"]:
        try:
            for k, v in json.loads((dd / "reached.json").read_text()).items():
                reached[k] = reached.get(k, 0) + v
        except Exception:
            pass
    return dict(runs=runs, failures=rr["failures"], images=images, untested_images=untested, stats=stats, reached=reached)


def load_images(dirs):
    """images.txt of every job -> {sha: dict(size, decode, new, entries, loaded)}; shas captured but never load-tested -> untested"""
    res, captured = {}, set()
    for d in dirs:
        try:
            for e in os.listdir(d / "images"):
                if e.endswith(".bin"):
                    captured.add(e[:-4])
        except OSError:
            pass
        try:
            for line in (d / "images.txt").read_text().splitlines():
                f = line.split()
                if len(f) >= 7 and f[0] == "IMG":
                    kv = dict(x.split("=", 1) for x in f[3:])
                    res[f[1]] = dict(size=int(f[2]), decode=kv.get("decode"), new=kv.get("new"), entries=int(kv.get("entries", -1)), loaded=int(kv.get("loaded", -1)))
        except OSError:
            pass
    return res, sorted(captured - set(res))


def check_observed(ctx, b, dirs):
    """svdriver check over every observed.txt -> {sid: dict(ok, first=(k, kind)|None, diffs=[(k, kind, who, text)], ghost=[lines], leak=[sids], bad)}"""
    res = {}

    def rec(sid):
        return res.setdefault(sid, dict(ok=True, first=None, diffs=[], model_crashed=False, ghost=[], leak=[], over=[], bad=None))
    for d in dirs:
        ob = d / "observed.txt"
        if not ob.exists():
            continue
        rc, out = sh([str(b["driver"]), "check", str(ob)], cwd=d, timeout=600)
        (d / "verdict.txt").write_text(out)
        for line in out.splitlines():
            f = line.split()
            if len(f) < 3:
                continue
            if f[0] == "R":
                r = rec(f[1])
                if f[2] == "diff":
                    r["ok"] = False
                    r["first"] = (int(f[3]), f[4])
            elif f[0] == "D" and len(f) >= 5:
                rec(f[1])["diffs"].append((int(f[2]), f[3], f[4], " ".join(f[5:])))
            elif f[0] == "G":
                r = rec(f[1])
                if f[2] == "crashed":
                    r["model_crashed"] = f[3] == "1"
                elif f[2] == "leak":
                    r["leak"].append(unhx(f[3]))
                else:
                    if f[2] == "over":
                        r["over"].append(int(f[3]))
                    r["ghost"].append(" ".join(f[2:]))
            elif f[0] == "B":
                rec(f[1])["bad"] = " ".join(f[2:])
    return res



# ------------------------------------------------------------------------- the extracted Coq trace predicates

# predicate of Model/SvTrace.v (field of `svdriver trace`) -> (property, theorem of Proofs/SvTraceP.v that proves it of every run of Msv)
TRACE_PREDS = {"unlock": ("C05", "svtrace_c05_unlock"), "renew": ("C05", "svtrace_c05_renew"),
               "c06": ("C06", "svtrace_c06_release (outside sig_fleak)"), "c06f": ("C06", "svtrace_c06_release_or_fleak_w"),
               "live": ("C09", "svtrace_c09_image"), "ended": ("C09", "svtrace_c09_image"), "bound": ("C09", "svtrace_c09_image"),
               "surplus": ("C09", "svtrace_c09_surplus"), "over": ("C09", "- (refutable: C09_over_refuted, finding F-OVER)"),
               "keeps": ("C11", "svtrace_c11_keeps")}
TRACE_PRED_TEXT = {
    "unlock": "q_c05_unlock: an Unlock has answered unlocked=true, its (name,key) is in the lock table and no lease callback of it is parked before its unlock step",
    "renew": "q_c05_renew: a Renew answered locked=true and its (name,key) is not in the lock table before and after that step, or its timer key is not armed after it",
    "c06": "q_c06_release: the session-end goroutine has finished (it had deleted the session) and an acknowledged hold of the session is still in the lock table with no expiry pending",
    "c06f": "q_c06_release_or_fleak: as q_c06_release, and the step log does not show the F-LEAK signature (AddLock of a call of the session after the delete)",
    "live": "q_c09_image (live): a hold whose grant was answered, with no Unlock invoked, no lease callback and its session not ended, is not in the image under its session",
    "ended": "q_c09_image (ended): a hold whose Unlock answered unlocked=true is in the image",
    "bound": "q_c09_image (bound): the image lists more LIVE holds of a lock than its size",
    "surplus": "q_c09_surplus_in_flight: a listed hold that is not in the lock table has no Unlock parked at RemoveLock and no lease callback parked at RemoveLock",
    "over": "the image lists more holds of a lock than its size (F-OVER's shape)",
    "keeps": "q_c11_keeps: after PrepareShutdown a session end released from its flag check did not end at once, or an entry left the lock table / "
             "listing / image other than through the Unlock / expiry of that hold or a session end that had passed its flag check"}
PRED_ORDER = ["unlock", "renew", "c06", "c06f", "live", "ended", "bound", "surplus", "over", "keeps"]


def trace_predicates(ctx, b, dirs, fname="observed.txt"):
    """svdriver trace over every observed.txt -> {sid: dict(n=transitions, noclear, verdict={pred: None | (transition index, item k)}, fleak=bool, bad=[..])}"""
    res = {}
    for d in dirs:
        ob = Path(d) / fname if Path(d).is_dir() else Path(d)
        if not ob.exists():
            continue
        try:
            rc, out = sh([str(b["driver"]), "trace", str(ob)], cwd=ob.parent, timeout=600)
        except Exception as ex:  # noqa
            rc, out = 1, "svdriver trace: %r" % (ex,)
        if Path(d).is_dir():
            (Path(d) / "trace_verdict.txt").write_text(out)
        for line in out.splitlines():
            f = line.split()
            if len(f) < 3 or f[0] not in ("Q", "QB"):
                continue
            r = res.setdefault(f[1], dict(n=0, noclear=False, verdict={}, fleak=False, bad=[]))
            try:
                if f[0] == "QB":
                    r["bad"].append(" ".join(f[2:]))
                    continue
                r["n"] = int(f[2])
                for kv in f[3:]:
                    k, v = kv.split("=", 1)
                    if k == "noclear":
                        r["noclear"] = v == "1"
                    elif k == "fleak":
                        r["fleak"] = v == "1"
                    else:
                        r["verdict"][k] = None if v == "-" else tuple(int(x) for x in v.split("@"))
            except (ValueError, IndexError):
                r["bad"].append("unreadable verdict line: " + line[:200])
    return res


def judge_predicates(prop, sid, t, tps):
    """The verdicts of the extracted predicates of `prop` on one REAL schedule -> (violations [(idx, text)], known [(fid, text)]).
    A false predicate is a violation of `prop` exactly like a failure of the Python oracle, except for the two recorded findings:
      C06  q_c06_release false while q_c06_release_or_fleak holds = the step log shows the F-LEAK signature (svtrace_c06_release has that premise)
      C09  the F-OVER shape (more entries than the size) while q_c09_image's bound and q_c09_surplus_in_flight hold = every surplus entry is a
           hold already released whose RemoveLock is in flight = F-OVER."""
    viol, known = [], []
    if t is None:
        return viol, known
    tps["schedules"] += 1
    tps["transitions"] += t["n"]
    if t["bad"]:
        tps["not_fully_represented"] += 1
    v = t["verdict"]
    for pred in PRED_ORDER:
        if TRACE_PREDS[pred][0] != prop or pred not in v:
            continue
        tps["evaluated"][pred] = tps["evaluated"].get(pred, 0) + 1
        val = v[pred]
        if val is None:
            continue
        tps["false"][pred] = tps["false"].get(pred, 0) + 1
        text = ("extracted Coq predicate %s (first offending transition %d = item %d; proved of every run of the model: %s)"
                % (TRACE_PRED_TEXT[pred], val[0], val[1] if len(val) > 1 else -1, TRACE_PREDS[pred][1]))
        if pred == "c06":
            if v.get("c06f") is None and t["fleak"]:
                known.append(("F-LEAK", text + "; the step log shows the signature sess_add_after_destroy (sig_fleak)"))
                continue
            continue        # reported through c06f below
        if pred == "over":
            if v.get("bound") is None and v.get("surplus") is None:
                known.append(("F-OVER", text + "; the surplus entries are listed holds that are out of the lock table with their RemoveLock in flight "
                                               "(q_c09_surplus_in_flight and the live bound hold: signature grant_persisted_before_previous_remove)"))
            continue        # otherwise bound / surplus are false as well and are reported
        viol.append((val[1] if len(val) > 1 else -1, text))
    return viol, known


ALL_LABELS = ["VMgrTry", "VMgrLock", "VWait", "VWoken", "VSessAdd", "VTmAdd", "VTmRemove", "VMgrUnlock", "VSessRemove", "VTmReset", "VCbUnlock",
              "VCbSessRemove", "VCbTmRemove", "VDsFlag", "VDsNoClear", "VDsDestroy", "VDsTmRemove", "VDsUnlock", "VShFlag", "VShNet", "VShTimers",
              "VShMgr", "VFin", "VEnd"]       # spc_label of Model/Sv.v


def _obs_list_term(run, S, E, cq):
    """The observation list of Model/SvTrace.v as THIS file reads it off observed.txt (the Run / Block objects the Python oracles use), as a
    Gallina term: [(item, SvObs ...); ...], one element per observation block, the item = the first item since the block before that is not
    a forced `wake`. -> (term, noclear). Thread ids are renumbered (the predicates use them as names only)."""
    tids = {}

    def tid(t):
        if t not in tids:
            tids[t] = len(tids) + 1
        return cq.natlit(tids[t])

    def st(x):
        return S.of_hex(hx(x))

    def op_term(c):
        if c["op"] in ("try", "lock"):
            return "(%s %s %s %s %s %s)" % ("STry" if c["op"] == "try" else "SLock", st(c["sid"]), st(c["name"]), st(c["key"]), cq.zlit(c["size"]),
                                            "None" if c["lt"] is None else "(Some %s)" % cq.zlit(c["lt"]))
        if c["op"] == "unl":
            return "(SUnlock %s %s)" % (st(c["name"]), st(c["key"]))
        if c["op"] == "renew":
            return "(SRenew %s %s %s)" % (st(c["name"]), st(c["key"]), cq.zlit(c["lt"]))
        raise cq.Untranslatable("op %r" % (c.get("op"),))

    def item_term(it):
        k = it["kind"]
        if k == "connect":
            return "VConnect %s" % st(it["sid"])
        if k == "connend":
            return "VConnEnd %s" % st(it["sid"])
        if k == "call":
            return "VCall %s %s" % (tid(it["tid"]), op_term(it))
        if k in ("run", "wake"):
            return "VRun %s" % tid(it["tid"])
        if k == "cancel":
            return "VCancel %s %s" % (tid(it["tid"]), E.ctor(it["err"]))
        if k == "tick":
            return "VTick %s" % cq.zlit(it["dt"])
        if k == "signal":
            return "VSignal"
        raise cq.Untranslatable("item %r" % (it.get("raw"),))

    def ces(l):
        return "[%s]" % "; ".join("Clock %s %s %s" % (st(n), st(k), cq.zlit(z)) for (n, k, z) in l)

    calls = run.calls()
    kinds = {}
    out = []
    prev_k = -1
    items = sorted(run.items, key=lambda x: x[0])
    for b in run.blocks:
        group = [(k, it) for (k, _tag, it) in items if prev_k < k <= b.k]
        prev_k = b.k
        for _k, it in group:
            for t_, kind, a_, b_ in it.get("spawn", []):
                kinds.setdefault(t_, (kind, a_, b_))
        main = [it for _k, it in group if it["kind"] != "wake"]
        if not main:
            continue
        for t_, v_ in run.sys.items():
            kinds[t_] = v_
        thr = []
        for t_, stt in b.thr.items():
            if t_ in calls:
                kind = "OkCall %s" % op_term(calls[t_])
            elif t_ in kinds:
                kd, a_, b_ = kinds[t_]
                kind = {"x": "OkExp %s %s" % (st(a_), st(b_)), "d": "OkDs %s" % st(a_), "s": "OkSh"}.get(kd)
                if kind is None:
                    continue
            else:
                continue
            if stt[0] == "P":
                s_ = "OsP %s" % cq.natlit(ALL_LABELS.index(stt[1]) if stt[1] in ALL_LABELS else 99)
            elif stt[0] == "B":
                s_ = "OsB"
            elif stt[0] == "F":
                s_ = "OsF (SResp %s %s)" % ("true" if stt[1] == "1" else "false", E.opt(stt[2]))
            else:
                s_ = "OsE"
            thr.append("(%s, OThr (%s) (%s))" % (tid(t_), kind, s_))
        tab = "[%s]" % "; ".join("(%s, (%s, [%s]))" % (st(n), cq.zlit(z), "; ".join(st(k) for k in ks)) for n, (z, ks) in b.tab.items())
        tmr = "[%s]" % "; ".join("(%s, %s)" % (st(n), st(k)) for (n, k) in sorted(b.tmr))
        ses = "[%s]" % "; ".join("(%s, %s)" % (st(sd), ces(l)) for sd, l in b.ses.items())
        fil = "None" if b.file is None else "(Some [%s])" % "; ".join("(%s, %s)" % (st(sd), ces(l)) for sd, l in b.file.items())
        out.append("(%s, SvObs [%s] %s %s %s %s %s)" % (item_term(main[0]), "; ".join(thr), tab, tmr, ses, ces(b.lst), fil))
    return "[%s]" % ";\n  ".join(out), run.noclear


def sv_trace_sample(ctx, dirs, k=None):
    """Extraction + driver vs the Gallina definitions, for the trace predicates (same idea as lib/coqeval.py): on a seeded sample of the real
    runs `sv_trace_verdict` (Model/SvTrace.v) is evaluated INSIDE Coq (Eval vm_compute) on the observation list as THIS file reads it off
    observed.txt (the Run objects the Python oracles use) and compared with what `svdriver trace` printed (extracted code on the list as
    the OCaml driver reads it). Schedules on which a predicate is false are sampled first."""
    import random
    from . import coqeval as cq
    miss = cq.models_built(["Model/Base.v", "Model/Err.v", "Model/Sv.v", "Model/SvTrace.v"])
    if miss:
        return dict(sampled=0, compared=0, disagreements=[], skipped=miss)
    k = k if k is not None else (12 if ctx.tier == "quick" else 200)
    cands = []
    for d in dirs:
        tv = Path(d) / "trace_verdict.txt"
        if not tv.exists():
            continue
        verdicts = {}
        for line in tv.read_text().splitlines():
            f = line.split()
            if len(f) >= 15 and f[0] == "Q":
                kv = dict(x.split("=", 1) for x in f[3:])
                verdicts[f[1]] = [None if kv.get(p_, "-") == "-" else int(kv[p_].split("@")[0]) for p_ in PRED_ORDER]
        druns = parse_observed(Path(d) / "observed.txt")
        for sid in sorted(verdicts):
            if sid in druns and druns[sid].blocks:
                cands.append((str(d), sid, verdicts[sid], druns[sid]))
    rng = random.Random("%d/svtrace/%s" % (int(ctx.seed), ctx.prop))
    flagged = [c for c in cands if any(v is not None for v in c[2])]
    rest = [c for c in cands if c not in flagged]
    rng.shuffle(flagged)
    rng.shuffle(rest)
    chosen = (flagged[:max(1, k // 2)] + rest)[:k]
    if not chosen:
        return dict(sampled=0, compared=0, disagreements=[], skipped="no observation list to sample")
    S, E = cq.Strs(), cq.Errs()
    body, used = [], []
    for d, sid, verdict, run in chosen:
        try:
            term, noclear = _obs_list_term(run, S, E, cq)
            body.append("Eval vm_compute in (sv_trace_verdict %s\n [%s])." % ("true" if noclear else "false", term[1:-1]))
            used.append((d, sid, verdict))
        except (cq.Untranslatable, ValueError, KeyError, IndexError):
            continue
    wd = ctx.work / "coqeval" / "svtrace"
    shutil.rmtree(wd, ignore_errors=True)
    wd.mkdir(parents=True)
    f = wd / "cases.v"
    f.write_text("From Ldlm Require Import Model.Base Model.Err Model.Sv Model.SvTrace.\nLocal Open Scope Z_scope.\n" + cq.PRINT_OPTS + "\n".join(S.defs) + "\n"
                 + "\n".join(body) + "\n")
    res, secs = cq.run_coqc(ctx, [f])
    rc, out = res[0]
    if rc != 0:
        return dict(sampled=len(used), compared=0, disagreements=[dict(trace=used[0][1] if used else "?", what="coqc failed on the generated cases: " + out[-400:])],
                    coqc_s=round(secs, 2), cases_file=str(f))
    terms = cq.split_evals(out)
    dis, compared = [], 0
    if len(terms) != len(used):
        dis.append(dict(trace="*", what="%d Eval results for %d cases" % (len(terms), len(used))))
    for (d, sid, verdict), t in zip(used, terms):
        try:
            got = [None if x is None else x.v for x in cq.parse_term(t)]
        except Exception as ex:  # noqa
            dis.append(dict(trace=sid, what="unreadable Coq value: %r" % (ex,)))
            continue
        compared += len(got)
        if got != verdict:
            dis.append(dict(trace=sid, dir=d, what="sv_trace_verdict %r: Coq %r, extracted driver %r" % (PRED_ORDER, got, verdict)))
    return dict(sampled=len(used), compared=compared, disagreements=dis, coqc_s=round(secs, 2), cases_file=str(f),
                sampled_with_a_false_predicate=sum(1 for _d, _s, v in used if any(x is not None for x in v)))


# ------------------------------------------------------------------------------------------------------- helpers

def _acquirers(run):
    return {t: c for t, c in run.calls().items() if c["op"] in ("try", "lock")}


def _callbacks(run):
    """lease callback goroutines as the harness registered them: tid -> (name, key)"""
    return {t: (a, b) for t, (kind, a, b) in run.sys.items() if kind == "x"}


def _ds_threads(run):
    return {t: a for t, (kind, a, _b) in run.sys.items() if kind == "d"}


def _closer(run):
    for t, (kind, _a, _b) in run.sys.items():
        if kind == "s":
            return t
    return None


def _mgr_shut_at(run):
    """index of the item that executed lmCloser (the step released from VShMgr), else a large number"""
    for k, _tid, label in run.steps():
        if label == "VShMgr":
            return k
    return 1 << 60


def _expiry_pending(run, b, name, key):
    """lease callbacks of (name,key) that exist and have not returned in block b (parked at ANY of their yield points: read off the real
    goroutines, whatever order the tree under test gives the callback's steps)"""
    return [t for t, nk in _callbacks(run).items() if nk == (name, key) and b.thr.get(t, ("?",))[0] == "P"]


def _readded_after_delete(run, sid, name, key):
    """F-LEAK's signature read off the REAL session table (whatever the granularity of the steps): the session's entry was deleted
    (present in an earlier block, absent in a later one) and the hold (name,key) was then written under that session id again."""
    seen = gone = False
    for b in run.blocks:
        if sid in b.ses:
            if gone and any(n == name and k == key for (n, k, _z) in b.ses[sid]):
                return True
            seen = True
        elif seen:
            gone = True
    return False


def _past(run, tid, label, k):
    """goroutine tid has been released from yield point `label` by item k (real step log)"""
    return any(t == tid and lab == label and k2 <= k for (k2, t, lab) in run.steps())


def _owner_sid(run, name, key):
    for c in _acquirers(run).values():
        if c["name"] == name and c["key"] == key:
            return c["sid"]
    return None


# ------------------------------------------------------------------------------------------------------- C05 oracle

def oracle_C05(run, images=None):
    """Unlock / Renew / expiry racing on one hold answer truthfully. -> [(index, text, known_id|None)]"""
    bad = []
    calls = run.calls()
    shut_k = _mgr_shut_at(run)
    steps = run.steps()
    last_x = [b for b in run.blocks if b.tag == "X"]
    final = last_x[-1] if last_x else None
    all_done = final is not None and all(st[0] in ("F", "E") for st in final.thr.values())
    for tid, c in sorted(calls.items()):
        if c["k_fin"] is None or not c["ok"]:
            continue
        name, key = c["name"], c["key"]
        if c["op"] == "unl":
            if c["k_fin"] >= shut_k:
                continue
            b = run.block_at(c["k_fin"])
            if b.in_table(name, key):
                pend = _expiry_pending(run, b, name, key)
                if not pend:
                    bad.append((b.k, "t%d's Unlock(%r,%r) answered unlocked=true while the hold still occupies the lock (table %r) and no expiry of it is pending"
                                % (tid, name, key, b.tab.get(name)), None))
                else:
                    for t in pend:
                        # the callback frees the hold with its next step when it is parked in front of its unlock, and in any case before it returns
                        nxt = [k for (k, t2, lab) in steps if t2 == t and k > b.k and b.thr.get(t) == ("P", "VCbUnlock")]
                        k_end = run.ended_at(t)
                        if nxt and run.block_at(nxt[0]).in_table(name, key):
                            bad.append((nxt[0], "the expiry pending when t%d's Unlock(%r,%r) answered unlocked=true did not release the hold with its next step" % (tid, name, key), None))
                        elif k_end is not None and k_end > b.k and run.block_at(k_end).in_table(name, key):
                            bad.append((k_end, "the expiry callback (goroutine %d, parked at %s when t%d's Unlock(%r,%r) answered unlocked=true) has returned and the hold still "
                                               "occupies the lock (table %r)" % (t, b.thr[t][1], tid, name, key, run.block_at(k_end).tab.get(name)), None))
            if all_done and final.k > c["k_fin"] and final.in_table(name, key) and final.k < shut_k:
                bad.append((final.k, "everything has finished and the hold (%r,%r), reported released by t%d's Unlock, still occupies the lock" % (name, key, tid), None))
        elif c["op"] == "renew":
            b1 = run.block_at(c["k_fin"])
            b0 = run.block_at(c["k_fin"] - 1)
            if b0 is None or not b0.in_table(name, key) or not b1.in_table(name, key):
                bad.append((b1.k, "t%d's Renew(%r,%r) answered locked=true for a hold that does not occupy the lock at that moment (table before %r, after %r)"
                            % (tid, name, key, b0.tab.get(name) if b0 else None, b1.tab.get(name)), None))
                continue
            dl = b1.now + c["lt"] * 1000000000
            owner = _owner_sid(run, name, key)
            for b in run.blocks:
                if b.k <= b1.k or b.now >= dl or b.in_table(name, key):
                    continue
                enders = [k for (k, t2, lab) in steps if k <= b.k and (
                    (t2 in calls and calls[t2]["op"] == "unl" and calls[t2]["name"] == name and calls[t2]["key"] == key)
                    or (_ds_threads(run).get(t2) == owner and owner is not None))]
                if not enders and b.k < shut_k:
                    bad.append((b.k, "the hold (%r,%r) that t%d's Renew reported renewed until %d ns is gone at %d ns: no Unlock of it and no end of its session ran"
                                % (name, key, tid, dl, b.now), None))
                break
    return bad


# ------------------------------------------------------------------------------------------------------- C06 oracle

def _others_view(run, b, sid):
    """what a session end of sid must not touch: table / timer / listing / file presence of holds acquired in other sessions"""
    out = []
    for c in _acquirers(run).values():
        if c["sid"] == sid:
            continue
        n, k = c["name"], c["key"]
        infile = b.file is not None and any(n == n2 and k == k2 for l in b.file.values() for (n2, k2, _z) in l)
        out.append((n, k, b.in_table(n, k), (n, k) in b.tmr, b.listed(n, k), infile))
    return out


def oracle_C06(run, images=None):
    """A session end releases exactly that session's holds (no-clear off) / touches nothing (no-clear on). -> [(index, text, known_id|None)]"""
    bad = []
    for k, tid, text in run.panics():
        bad.append((k, "panic in goroutine %d: %s" % (tid, text[:200]), None))
    steps = run.steps()
    acq = _acquirers(run)
    last = run.blocks[-1] if run.blocks else None
    for d, sid in sorted(_ds_threads(run).items()):
        dsteps = [(k, lab) for (k, t, lab) in steps if t == d]
        for k, lab in dsteps:
            b0, b1 = run.block_at(k - 1), run.block_at(k)
            if b0 is None or b1 is None or b1.k != k:
                continue
            if run.noclear:
                if b0.tab != b1.tab or b0.tmr != b1.tmr:
                    bad.append((k, "no_clear_on_disconnect: the end of session %r changed holds or leases at step %s (table %r -> %r, timers %r -> %r)"
                                % (sid, lab, b0.tab, b1.tab, sorted(b0.tmr), sorted(b1.tmr)), None))
                gone = [(s, e) for s, l in b0.ses.items() for e in l if e not in b1.ses.get(s, [])]
                if gone:
                    bad.append((k, "no_clear_on_disconnect: the end of session %r dropped listed holds %r at step %s" % (sid, gone, lab), None))
            else:
                v0, v1 = _others_view(run, b0, sid), _others_view(run, b1, sid)
                # a release hands the freed unit to the Lock call at the head of the queue, whichever session it belongs to: a hold of
                # another session may BECOME live that way (its call was parked before the step), nothing else may change
                blocked = set((c["name"], c["key"]) for t, c in acq.items() if c["op"] == "lock" and b0.thr.get(t) == ("B",))
                v0 = [x if not ((x[0], x[1]) in blocked and not x[2] and y[2] and x[3:] == y[3:]) else y for x, y in zip(v0, v1)]
                if v0 != v1:
                    bad.append((k, "the end of session %r touched a hold of another session at step %s: %r -> %r"
                                % (sid, lab, [x for x in v0 if x not in v1], [x for x in v1 if x not in v0]), None))
        if run.noclear:
            continue
        destroyed = [k for k, lab in dsteps if lab == "VDsDestroy"]
        k_end = run.ended_at(d)
        mine = [c for c in acq.values() if c["sid"] == sid]
        if not destroyed or k_end is None or any(c["k_fin"] is None for c in mine) or last is None:
            continue
        j = max([k_end] + [c["k_fin"] for c in mine])
        if j >= _mgr_shut_at(run):
            continue
        for b in (run.block_at(j), last):
            hit = False
            for c in mine:
                if not c["ok"] or not b.in_table(c["name"], c["key"]):
                    continue
                if _expiry_pending(run, b, c["name"], c["key"]):
                    continue
                leak = _readded_after_delete(run, sid, c["name"], c["key"])
                if leak and c["op"] == "lock":
                    # F-LEAK is a request that HOLDS its unit when the session ends and records it afterwards. A blocking Lock that
                    # reaches the lock manager only after its session's context was cancelled (the session-end goroutine exists) is
                    # refused by the unchanged code (semaphore.Acquire on a done context); a grant there is another defect
                    k_end0 = run.first_seen(d)
                    k_mgr = [k2 for (k2, t2, lab2) in steps if t2 == c["tid"] and lab2 == "VMgrLock"]
                    if k_end0 is not None and k_mgr and min(k_mgr) > k_end0:
                        leak = False
                text = ("session %r has ended (DestroySession finished at item %d, every call of the session has returned) and its acknowledged hold (%r,%r) "
                        "still occupies the lock" % (sid, k_end, c["name"], c["key"]))
                if leak:
                    bad.append((b.k, text + ": t%d executed sessionMgr.AddLock after DestroySession had deleted the session (signature sess_add_after_destroy)" % c["tid"], "F-LEAK"))
                else:
                    bad.append((b.k, text, None))
                hit = True
            if hit:
                break
    return bad


# ------------------------------------------------------------------------------------------------------- C09 oracle

def oracle_C09(run, images=None):
    """A kill at any instant leaves a loadable image consistent with what was acknowledged. -> [(index, text, known_id|None)]"""
    bad = []
    images = images or {}
    calls = run.calls()
    acq = _acquirers(run)
    cbs = _callbacks(run)
    cb_seen = {t: run.first_seen(t) for t in cbs}
    connend_at = {}
    for k, _tag, it in run.items:
        if it["kind"] == "connend":
            connend_at.setdefault(it["sid"], k)
    seen_load = set()
    for b in run.blocks:
        for sha, label, status, content in b.imgs:
            horizon = b.k if label == "post" else b.k - 1
            where = "after item %d" % b.k if label == "post" else "during item %d (at %s)" % (b.k, label)
            if status == "2" or status is None:
                bad.append((b.k, "the state file as a kill %s leaves it does not decode: %s" % (where, b.filebad or status), None))
                continue
            im = images.get(sha)
            if im is not None and sha not in seen_load:
                seen_load.add(sha)
                if im["decode"] != "ok" or im["new"] != "ok":
                    bad.append((b.k, "crash image %s (%s): store.Read -> %s, server.New on a copy -> %s" % (sha, where, im["decode"][:80], im["new"][:80]), None))
                    continue
                per = {}
                for l in (content or {}).values():
                    for e in l:
                        per.setdefault(e[0], []).append(e)
                over = any(len(v) > min(e[2] for e in v) for v in per.values())
                if im["entries"] != im["loaded"] and not over:      # an over-full image (F-OVER, judged below) cannot be loaded in full
                    bad.append((b.k, "crash image %s (%s) lists %d holds, a server started from it holds %d" % (sha, where, im["entries"], im["loaded"]), None))
            content = content or {}
            flat = [(s, e) for s, l in content.items() for e in l]
            # acknowledged and not ended -> present, under its session
            for tid, c in sorted(acq.items()):
                if c["k_fin"] is None or not c["ok"] or c["k_fin"] > horizon:
                    continue
                n, key = c["name"], c["key"]
                if any(u["op"] == "unl" and u["name"] == n and u["key"] == key and u["k_call"] <= b.k for u in calls.values()):
                    continue
                if any(nk == (n, key) and cb_seen[t] is not None and cb_seen[t] <= b.k for t, nk in cbs.items()):
                    continue
                if c["sid"] in connend_at and connend_at[c["sid"]] <= b.k:
                    continue
                if (n, key, c["size"]) not in content.get(c["sid"], []):
                    bad.append((b.k, "the grant of (%r,%r) was acknowledged to t%d at item %d and the hold has not ended, but the state file a kill %s leaves does not list it "
                                     "under its session %r (file: %r)" % (n, key, tid, c["k_fin"], where, c["sid"], content), None))
            # acknowledged release -> absent
            for tid, c in sorted(calls.items()):
                if c["op"] == "unl" and c["k_fin"] is not None and c["ok"] and c["k_fin"] <= horizon:
                    if any(e[0] == c["name"] and e[1] == c["key"] for _s, e in flat):
                        bad.append((b.k, "t%d's Unlock(%r,%r) answered unlocked=true at item %d, the state file a kill %s leaves still lists the hold"
                                    % (tid, c["name"], c["key"], c["k_fin"], where), None))
            # at most size holds per name, except F-OVER
            names = sorted(set(e[0] for _s, e in flat))
            for n in names:
                ents = [e for _s, e in flat if e[0] == n]
                size = min(e[2] for e in ents)
                if len(ents) <= size:
                    continue
                # goroutine states at the instant of the image: after the item, or (image taken inside store.Write) before it
                sb = b if label == "post" else (run.block_at(b.k - 1) or b)
                zomb = [e for e in ents if not sb.in_table(n, e[1])]
                expl = []
                for e in zomb:
                    # a goroutine that has released the hold and is at, or inside, its RemoveLock: parked at the yield point in front of it, or
                    # released from it and not yet returned (window runs park inside RemoveLock)
                    who = [t for t, st in sb.thr.items() if t in calls and calls[t]["op"] == "unl" and calls[t]["name"] == n and calls[t]["key"] == e[1]
                           and st[0] in ("P", "B") and (st == ("P", "VSessRemove") or _past(run, t, "VSessRemove", sb.k))]
                    who += [t for t, nk in cbs.items() if nk == (n, e[1]) and sb.thr.get(t, ("?",))[0] == "P"
                            and (sb.thr.get(t) == ("P", "VCbSessRemove") or _past(run, t, "VCbSessRemove", sb.k))]
                    if who:
                        expl.append((e, who))
                text = "the state file a kill %s leaves lists %d holds of %r (size %d): %r" % (where, len(ents), n, size, ents)
                if len(ents) - len(zomb) <= size and len(expl) == len(zomb):
                    bad.append((b.k, text + "; the surplus entries are holds already released whose RemoveLock has not run yet: %s (signature grant_persisted_before_previous_remove)"
                                % ", ".join("(%s,%s) by t%s" % (e[0], e[1], w) for e, w in expl), "F-OVER"))
                else:
                    bad.append((b.k, text + "; lock table %r" % (b.tab.get(n),), None))
    return bad


# ------------------------------------------------------------------------------------------------------- C11 oracle

def oracle_C11(run, images=None):
    """Graceful shutdown. -> [(index, text, known_id|None)]"""
    bad = []
    for k, tid, text in run.panics():
        bad.append((k, "panic in goroutine %d: %s" % (tid, text[:200]), None))
    sig = [k for k, _tag, it in run.items if it["kind"] == "signal"]
    if not sig or not run.blocks:
        return bad
    ks = sig[0]
    closer = _closer(run)
    bs = run.block_at(ks)
    final = run.blocks[-1]
    calls = run.calls()
    cbs = _callbacks(run)
    if closer is None or final.thr.get(closer, ("?",))[0] != "E":
        if run.complete:
            bad.append((final.k, "the closer goroutine has not terminated at the end of the run (state %r)" % (final.thr.get(closer),), None))
        return bad
    live = [(s, e) for s, l in bs.ses.items() for e in l if bs.in_table(e[0], e[1])]
    ffile = final.file or {}
    steps = run.steps()
    flag = [k for (k, t, lab) in steps if t == closer and lab == "VShFlag"]
    k_flag = flag[0] if flag else 1 << 60
    # a client that disconnects by itself before PrepareShutdown ran ends its holds legitimately
    gone_before_flag = set(sid for d, sid in _ds_threads(run).items() if any(t == d and lab == "VDsFlag" and k < k_flag for (k, t, lab) in steps)
                           and any(it["kind"] == "connend" and it["sid"] == sid for _k, _t, it in run.items))
    for s, e in live:
        if e in ffile.get(s, []):
            continue
        if s in gone_before_flag and not run.noclear:
            continue
        if any(c["op"] == "unl" and c["name"] == e[0] and c["key"] == e[1] and c["ok"] for c in calls.values()):
            continue    # its own Unlock ended it (and said so)
        if (e[0], e[1]) in cbs.values():
            continue
        bad.append((final.k, "the hold (%r,%r) of session %r was live and listed when the signal arrived (item %d); the state file left by the shutdown does not list it (file: %r)"
                    % (e[0], e[1], s, ks, ffile), None))
    # Lock calls parked in the lock manager when the network stop runs return an error
    net = [k for (k, t, lab) in steps if t == closer and lab == "VShNet"]
    if net:
        b0 = run.block_at(net[0] - 1)
        for tid, c in sorted(calls.items()):
            if c["op"] == "lock" and b0 is not None and b0.thr.get(tid) == ("B",):
                st = final.thr.get(tid)
                if st is None or st[0] != "F":
                    bad.append((final.k, "t%d's Lock was parked when the network stop ran and has not returned at the end of the run (%r)" % (tid, st), None))
                elif st[1] == "1" or st[2] == "~":
                    bad.append((final.k, "t%d's Lock was parked when the network stop ran and returned %r instead of an error" % (tid, st), None))
    return bad


# ------------------------------------------------------------------------------------------- C14: response well-formedness

WF_RULES = {
    "flag-with-error": "locked / unlocked = true together with an error",
    "grant-without-key": "locked = true and the server drew no (an empty) key for the call",
    "failure-without-error": "Lock / Unlock answered false without an error",
    "silent-renew-refusal": "Renew answered locked = false without an error while no expiry callback of that hold is in flight",
}


def wf_responses(run):
    """C14's response clause, model independent, on every answered client call of one trace (real, or rendered from the model):
         locked = true    =>  no error, and the call has a non-empty key (real traces: the key the server drew, `M key`)
         unlocked = true  =>  no error
         Lock, Unlock: false  =>  an error
         TryLock: false without an error is the plain refusal
         Renew: false without an error ONLY while the lease callback of that very hold has been started and has not returned
                (timermap.Reset finds the entry of a timer that has fired: Proofs/SvWf.v C14_renew_silent_refusal_in_flight; the strict
                clause is false of the model and of the code: C14_renew_strict_refuted)
    -> (number of responses judged, [(item index, rule, text)], {kind of response: count})"""
    bad, n, kinds = [], 0, {}
    for tid, c in sorted(run.calls().items()):
        if c["k_fin"] is None or c.get("op") not in ("try", "lock", "unl", "renew"):
            continue
        n += 1
        ok, err, op = bool(c["ok"]), c["err"], c["op"]
        has_err = err not in (None, "~", "")
        kd = "%s:%s" % (op, "true" if ok and not has_err else ("true+error" if ok else ("error:" + str(err) if has_err else "false-without-error")))
        kinds[kd] = kinds.get(kd, 0) + 1
        flag = "unlocked" if op == "unl" else "locked"
        who = "t%d's %s(%r,%r)" % (tid, {"try": "TryLock", "lock": "Lock", "unl": "Unlock", "renew": "Renew"}[op], c.get("name"), c.get("key"))
        if ok and has_err:
            bad.append((c["k_fin"], "flag-with-error", "%s answered %s=true together with the error %s" % (who, flag, err)))
        elif ok:
            if op in ("try", "lock") and not run.model and not run.keys.get(c["key"]):
                bad.append((c["k_fin"], "grant-without-key", "%s answered locked=true and the server drew no key for it" % who))
        elif not has_err:
            if op == "try":
                continue
            if op == "renew":
                pend = []
                for b in (run.block_at(c["k_fin"]), run.block_at(c["k_fin"] - 1)):
                    if b is not None:
                        pend += _expiry_pending(run, b, c["name"], c["key"])
                if not pend:
                    bad.append((c["k_fin"], "silent-renew-refusal", "%s answered locked=false WITHOUT an error and no expiry callback of that hold is in flight "
                                                                      "(started and not returned)" % who))
                continue
            bad.append((c["k_fin"], "failure-without-error", "%s answered %s=false without an error" % (who, flag)))
    return n, bad, kinds


def oracle_C14(run, images=None):
    """Every response is well-formed (wf_responses). -> [(index, text, known_id|None)]"""
    return [(k, "[%s] %s" % (rule, text), None) for (k, rule, text) in wf_responses(run)[1]]


def new_wf():
    return dict(traces=0, responses=0, failing_responses=0, failing_traces=0, by_rule={}, first=None, responses_by_kind={})


def _wf_count(wf, sid, run):
    n, bad, kinds = wf_responses(run)
    wf["traces"] += 1
    wf["responses"] += n
    for k_, v_ in kinds.items():
        wf["responses_by_kind"][k_] = wf["responses_by_kind"].get(k_, 0) + v_
    if bad:
        wf["failing_traces"] += 1
        wf["failing_responses"] += len(bad)
        for _k, rule, _t in bad:
            wf["by_rule"][rule] = wf["by_rule"].get(rule, 0) + 1
        if wf["first"] is None:
            wf["first"] = "%s item %d: %s" % (sid, bad[0][0], bad[0][2][:300])


def oracle_C04(run, images=None):
    """C04 under races (model-independent, on the real observations): the C05 clauses (an Unlock / Renew racing the expiry answers
    truthfully) and "a lease ends its hold": when everything has finished (and the manager was not shut down), a hold that was granted or
    renewed with a lease and whose lease timer has FIRED (its expiry callback goroutine existed) is gone; and a leased hold that still
    occupies the lock has its timer armed or its callback in flight — otherwise it would never expire. -> [(index, text, known_id|None)]"""
    bad = list(oracle_C05(run, images))
    last_x = [b for b in run.blocks if b.tag == "X"]
    final = last_x[-1] if last_x else None
    if final is None or final.k >= _mgr_shut_at(run):
        return bad
    if not all(st[0] in ("F", "E") for st in final.thr.values()):
        return bad
    fired = set(_callbacks(run).values())
    for name, ent in sorted(final.tab.items()):
        for key in ent[1]:
            if (name, key) in fired and (name, key) not in final.tmr:
                bad.append((final.k, "everything has finished: the lease of (%r,%r) has fired (its expiry callback ran and returned) and the hold still occupies "
                                     "the lock, with no lease timer left: it never ends (table %r)" % (name, key, final.tab.get(name)), None))
    return bad


ORACLES = {"C04": oracle_C04, "C05": oracle_C05, "C06": oracle_C06, "C09": oracle_C09, "C11": oracle_C11, "C14": oracle_C14}


# --------------------------------------------------------------------------------------------------- run_property

def _replay_obj(prop, run, why, chk, extra=None):
    obj = {"kind": "t2sv-schedule", "property": prop, "id": run.sid, "noclear": run.noclear,
           "items": [dec_item(it["raw"].split()) for _k, tag, it in run.items if tag == "I" and it["kind"] != "bad"], "why": why,
           "keys": run.keys, "sessions": run.sids, "observed": run.raw[:600], "model_vs_real": (chk or {}).get("diffs", [])[:10],
           "ghost": (chk or {}).get("ghost", [])[:80], "replay_cmd": "python3 -m lib.svtie --replay <this file> --prop %s" % prop}
    if run.sid.startswith("w:"):
        scen = run.sid[2:].split("~")[0]
        obj["window_run"] = ("execution %s of the harness's own preemption-bounded search over the micro-steps of scenario %r (every inner yield point parks; "
                             "harness/svsched/window.go); the items are the micro-steps it took, in order" % (run.sid[2:].split("~")[-1], scen))
        obj["replay_cmd"] = "VERIF_SEED=<seed> python3 -m lib.svtie --prop %s --scenario %s   (the search is deterministic: the same execution number fails again)" % (prop, scen)
    if extra:
        obj.update(extra)
    return obj


def execute(ctx, b, sched_file, name, procs=8, timeout=300, xsplit=-1, net_sync=False):
    rr = run_schedules(ctx, b, sched_file, name=name, procs=procs, timeout=timeout, xsplit=xsplit, net_sync=net_sync)
    runs = {}
    for d in rr["dirs"]:
        runs.update(parse_observed(d / "observed.txt"))
    chk = check_observed(ctx, b, rr["dirs"])
    try:
        tp = trace_predicates(ctx, b, rr["dirs"])
    except Exception as ex:  # noqa
        tp = {}
        if ctx is not None:
            ctx.note("T2-svsched: svdriver trace failed: %r" % (ex,))
    images, untested = load_images(rr["dirs"])
    reached = {}
    for d in rr["dirs"]:
        try:
            for k, v in json.loads((d / "reached.json").read_text()).items():
                reached[k] = reached.get(k, 0) + v
        except Exception:
            pass
    return dict(runs=runs, chk=chk, failures=rr["failures"], reached=reached, schedules=rr["schedules"], abandoned=rr["abandoned"], images=images,
                untested_images=untested, dirs=list(rr["dirs"]), tp=tp)


def new_tps():
    return dict(schedules=0, transitions=0, not_fully_represented=0, evaluated={}, false={}, python_oracle_failed=0,
                python_oracle_and_predicate_failed=0, predicate_failed_only=0, known_finding_shaped=0)


def judge(prop, runs, chk, failures, images, compare=True, tp=None, tps=None, tp_prefix="", wf=None):
    """-> dict(violations=[(sid, idx, text)], known=[(sid, fid, text)], mismatches=[(sid, k, kind, text)], label_only=n, tp=statistics of the
    extracted Coq trace predicates). tp: trace_predicates(...) keyed by the schedule id as the harness wrote it (tp_prefix + that id = key of
    `runs`). A predicate of `prop` that is false on a REAL trace is a violation of `prop` like a failure of the Python oracle; the two
    recorded findings are recognised by their signatures (judge_predicates)."""
    proj = PROJ.get(prop, {"bit", "table", "crash", "hang", "fatal"})
    oracle = ORACLES[prop]
    viol, known, mism = [], [], []
    label_only = 0
    tps = tps if tps is not None else new_tps()
    wf = wf if wf is not None else new_wf()
    for sid, run in sorted(runs.items()):
        c = chk.get(sid, {})
        py_fail = False
        _wf_count(wf, sid, run)      # C14's response clause on every real trace, whatever `prop` is (reported when prop is C14: oracle_C14)
        n_before = len(viol)
        for idx, text, fid in oracle(run, images):
            if fid is not None and fid == KNOWN_OF.get(prop):
                known.append((sid, fid, text))
            else:
                viol.append((sid, idx, text))
                py_fail = True
        t = (tp or {}).get(sid[len(tp_prefix):] if tp_prefix and sid.startswith(tp_prefix) else sid)
        if t is not None:
            pv, pk = judge_predicates(prop, sid, t, tps)
            for fid, text in pk:
                tps["known_finding_shaped"] += 1
                if fid == KNOWN_OF.get(prop):
                    known.append((sid, fid, text))
                else:
                    pv.append((-1, text))
            if pv and py_fail:
                sid0, idx0, text0 = viol[n_before]
                viol[n_before] = (sid0, idx0, text0 + " || ALSO: " + " || ".join(x[1] for x in pv))
            else:
                viol += [(sid, idx, text) for idx, text in pv]
            tps["python_oracle_failed"] += 1 if py_fail else 0
            tps["python_oracle_and_predicate_failed"] += 1 if (py_fail and pv) else 0
            tps["predicate_failed_only"] += 1 if (pv and not py_fail) else 0
        if not compare:
            continue
        hit = False
        for k, kind, who, text in c.get("diffs", []):
            if kind not in proj:
                continue
            mism.append((sid, k, kind, "%s %s" % (who, text)))
            hit = True
            break
        if not hit and c.get("diffs"):
            label_only += 1
    if compare:
        for f in failures:
            mism.append((f["sid"], f["k"], f["kind"], f["text"][-600:]))
    return dict(violations=viol, known=known, mismatches=mism, label_only=label_only, tp=tps, wf=wf)


def _fname(sid):
    return re.sub(r"[^A-Za-z0-9_.-]", "_", sid)


def run_property(ctx, prop, tier=None, scenarios=None, procs=8, corpus_props=None):
    """The whole T2 layer-2 stage for one property; records violations / known findings / coverage on ctx.
    corpus_props: the corpus schedules tagged with any of these properties are run as well (default: those of `prop`)."""
    tier = tier or ctx.tier
    tie = ctx.coverage["ties"].setdefault("T2-svsched", {})
    b = build(ctx)
    if not b["ok"]:
        ctx.note("T2-svsched build failed (%s)" % b["why"])
        ctx.violation({"broken": "build", "stage": b["why"], "log": b["log"], "instrumenter": b.get("instr")},
                      "the tree under test (or the instrumented harness against it) does not build: nothing is shown to hold",
                      name="t2sv_build_failure.json", no_failing_input=True)
        tie["build"] = "failed: " + b["why"]
        return dict(ok_build=False)
    ins = b["instr"]
    scs = scenarios if scenarios is not None else load_scenarios(prop)
    t0 = time.time()
    runs, chk, failures, reached, images, untested = {}, {}, [], {}, {}, []
    tp = {}          # verdicts of the extracted Coq trace predicates per schedule (trace_predicates)
    cq_dirs = []     # directories whose observed.txt / verdict.txt lib/coqeval.py samples
    tmo = 300 if tier == "quick" else 3000

    def absorb(e, prefix=""):
        for k, v in e["runs"].items():
            v.sid = prefix + k
            runs[prefix + k] = v
        chk.update({prefix + k: v for k, v in e["chk"].items()})
        tp.update({prefix + k: v for k, v in e.get("tp", {}).items()})
        images.update(e["images"])
        untested.extend(e["untested_images"])
        for k, v in e["reached"].items():
            reached[k] = reached.get(k, 0) + v

    # corpus first
    cprops = set(corpus_props or [prop]) | {prop}
    corpus = [c for c in corpus_schedules() if not c.get("props") or cprops & set(c["props"])]
    cf = None
    if corpus:
        cf, clog = expand(ctx, b, corpus, "corpus-%s" % prop)
        if clog:
            ctx.note("T2-svsched: " + clog)
        e = execute(ctx, b, cf, "corpus-run-%s" % prop, procs=procs, timeout=tmo)
        absorb(e)
        failures += e["failures"]
        cq_dirs += e["dirs"]
    sf, gstats, glog = gen_schedules(ctx, b, scs, tier, ctx.seed, name="gen-%s" % prop)
    if glog:
        ctx.note("T2-svsched: " + glog)
    e = execute(ctx, b, sf, "run-%s" % prop, procs=procs, timeout=tmo)
    absorb(e)
    failures += e["failures"]
    cq_dirs += e["dirs"]
    abandoned = e.get("abandoned", 0)
    tps = new_tps()
    wf = new_wf()
    j = judge(prop, runs, chk, failures, images, tp=tp, tps=tps, wf=wf)

    # exhibit runs (oracles only; the schedule is then not the model's):
    #  - sentinel yield points inside timermap.Reset were placed (its critical section is split): park there
    #  - C11: the network stop waits for the DestroySession calls, as grpc's Stop does
    files = [f_ for f_ in (sf, cf) if f_ is not None]
    xmodes = []
    if any(s_.startswith("TimerMap.Reset.") for s_ in ins["sentinels"]):
        xmodes += [("xs0", dict(xsplit=0)), ("xs1", dict(xsplit=1))]
    if prop == "C11":
        xmodes += [("ns", dict(net_sync=True))]
    n_exhibit = 0
    for tag, kw in xmodes:
        xr, xc, xi, xt = {}, {}, {}, {}
        for n_, f_ in enumerate(files):
            e2 = execute(ctx, b, f_, "x-%s-%s-%d" % (tag, prop, n_), procs=procs, timeout=tmo, **kw)
            for k, v in e2["runs"].items():
                v.sid = "%s:%s" % (tag, k)
                xr[v.sid] = v
            xc.update({"%s:%s" % (tag, k): v for k, v in e2["chk"].items()})
            xt.update({"%s:%s" % (tag, k): v for k, v in e2.get("tp", {}).items()})
            xi.update(e2["images"])
        n_exhibit += len(xr)
        j2 = judge(prop, xr, xc, [], xi, compare=False, tp=xt, tps=tps, wf=wf)
        j["violations"] += j2["violations"]
        j["known"] += j2["known"]
        runs.update(xr)
        chk.update(xc)

    # window runs: the inner yield points (every mutex acquisition / time.Timer call of timermap.go, session.go, store.go) park and the
    # harness explores the interleavings of the micro-steps itself; judged by the oracles only (the schedule is not the model's)
    wstats, wfail, n_window = {}, [], 0
    try:
        ew = execute_windows(ctx, b, scs, tier, ctx.seed, "w-%s" % prop, procs=procs, timeout=tmo)
        wr = {}
        for k, v in ew["runs"].items():
            v.sid = "w:" + k
            wr[v.sid] = v
        n_window = len(wr)
        wstats, wfail = ew["stats"], ew["failures"]
        j3 = judge(prop, wr, {}, [], ew["images"], compare=False, wf=wf)
        j["violations"] += j3["violations"]
        j["known"] += j3["known"]
        runs.update(wr)
        images.update(ew["images"])
        for k, v in ew["reached"].items():
            reached[k] = reached.get(k, 0) + v
    except Exception as ex:  # noqa
        ctx.note("T2-svsched: window runs failed: %r" % (ex,))
        wfail = [dict(sid="?", kind="fatal", k=-1, text=repr(ex))]
    by_file = ins.get("acq_sites_by_file", {})
    tie["inner_yield_points"] = {"per_file": {f_: len(v) for f_, v in sorted(by_file.items())}, "sites": by_file,
                                 "rule": "every line ending in .Lock() / .RLock() and every line containing .Stop() / .Reset( in the listed files; "
                                         "transparent in the model-chosen schedules, parking in the window runs"}
    tie["window_runs"] = {"executions": n_window, "per_scenario": wstats, "hangs_or_fatal": len(wfail),
                          "first_failure": (wfail[0]["sid"] + ": " + wfail[0]["text"][-300:]) if wfail else None}

    # C14's response clause was evaluated on every real trace above (comparison, corpus, exhibit and window runs)
    tie["response_wellformedness"] = dict(wf, reported_here=(prop == "C14"), rules=WF_RULES,
                                          rule="every answered TryLock / Lock / Unlock / Renew of every real trace: true => no error (and a key for a grant); "
                                               "Lock / Unlock false => an error; TryLock false without error = refusal; Renew false without error only while the "
                                               "expiry callback of that hold is in flight (Proofs/SvWf.v)")
    if wf["failing_responses"] and prop != "C14":
        ctx.note("T2-svsched: %d response(s) of %d real trace(s) are not well-formed (C14's clause; reported by bin/check C14): %s"
                 % (wf["failing_responses"], wf["failing_traces"], wf["first"]))

    # oracle self-test on the model's own predicted observations of the same schedules (corpus + generated)
    try:
        stt = selftest_oracle(prop, [cf, sf])
    except Exception as ex:  # noqa
        stt = dict(judged=0, failures=[("?", -1, "self-test crashed: %r" % (ex,), None)], known=0, incomplete=0)
    tie["oracle_selftest"] = {"model_traces_judged": stt["judged"], "failures": len(set(x[0] for x in stt["failures"])),
                              "known_finding_matches": stt["known"], "model_traces_incomplete": stt["incomplete"]}
    if stt["failures"]:
        sid, idx, text, mrun = stt["failures"][0]
        ctx.violation({"broken": "oracle self-test", "property": prop, "schedule": sid, "item": idx, "oracle_says": text,
                       "rejected_model_traces": len(set(x[0] for x in stt["failures"])), "model_traces_judged": stt["judged"],
                       "items": [dec_item(it["raw"].split()) for _k, _t, it in mrun.items] if mrun is not None else [],
                       "noclear": mrun.noclear if mrun is not None else None, "model_trace": mrun.raw[:600] if mrun is not None else [],
                       "why": "Msv is proved to satisfy %s on every schedule (Proofs/%s) outside the recorded findings: the oracle or its rendering of the "
                              "model trace is wrong; nothing may be concluded from this run" % (prop, "SvWf.v" if prop == "C14" else "SvAll.v")},
                      "oracle self-test: the Python oracle of %s rejects a trace of the proved model (schedule %s item %d: %s)" % (prop, sid, idx, text[:300]),
                      name="t2sv_oracle_selftest_%s.json" % _fname(sid), no_failing_input=True)

    # the extracted Coq trace predicates (Model/SvTrace.v) on the real observations: comparison + corpus + exhibit runs (judged above), and on the
    # observations the MODEL predicts for the same schedules: there the theorems of Proofs/SvTraceP.v say "holds" (outside the two signatures)
    tps["predicates"] = [p_ for p_ in PRED_ORDER if TRACE_PREDS[p_][0] == prop]
    tps["theorems"] = sorted(set(TRACE_PREDS[p_][1] for p_ in tps["predicates"]))
    try:
        mt = trace_predicates(ctx, b, [f_ for f_ in files if f_ is not None])
        mfalse = []
        for sid_, t_ in sorted(mt.items()):
            pv_, _pk = judge_predicates(prop, sid_, t_, new_tps())
            if pv_:
                mfalse.append((sid_, pv_[0][0], pv_[0][1]))
        tps["model_traces"] = {"judged": len(mt), "false": len(mfalse)}
        if mfalse:
            sid_, idx_, text_ = mfalse[0]
            ctx.violation({"broken": "trace-predicate self-test", "property": prop, "schedule": sid_, "item": idx_, "predicate_says": text_,
                           "why": "Proofs/SvTraceP.v proves this predicate of every run of Msv: the extraction, the driver's reading of the schedule file or the "
                                  "build is wrong; nothing may be concluded from this run"},
                          "trace-predicate self-test: an extracted Coq predicate of %s is false on the model's own observations (schedule %s item %d: %s)"
                          % (prop, sid_, idx_, text_[:300]), name="t2sv_predicate_selftest_%s.json" % _fname(sid_), no_failing_input=True)
    except Exception as ex:  # noqa
        tps["model_traces"] = {"judged": 0, "error": repr(ex)[:200]}
    tps["rule"] = ("svdriver trace: per schedule the list (item, observation after it) as harness/svsched recorded it on the REAL server (goroutine statuses "
                   "with what each goroutine is, lock table, timer-map keys, session table, listing, decoded state file; forced `wake` moves belong to the "
                   "item before them; epilogue items included; thread ids renumbered); on it the extracted Gallina predicates of coq/Model/SvTrace.v, each "
                   "proved of every run of Msv for every grouping of forced moves (coq/Proofs/SvTraceP.v); a false predicate of the property under check on a "
                   "real trace is a violation like a Python oracle failure; q_c06_release false with sig_fleak / the F-OVER shape with the surplus in flight "
                   "are the recorded findings")
    tie["coq_trace_predicates"] = tps

    reported = 0
    seen_text = set()
    for sid, idx, text in j["violations"]:
        key = (sid.split("#")[0].split(":")[-1], re.sub(r"\d+", "#", text)[:60])
        if reported >= 3 or key in seen_text:
            continue
        seen_text.add(key)
        reported += 1
        ctx.violation(_replay_obj(prop, runs[sid], text, chk.get(sid), {"violation_at": idx, "seed": ctx.seed}),
                      "real trace violates %s at item %d of schedule %s: %s" % (prop, idx, sid, text[:400]),
                      name="t2sv_failing_%s.json" % _fname(sid))
    if j["known"]:
        fid = KNOWN_OF[prop]
        sid, _f, text = j["known"][0]
        fk = [f for f in vcheck.load_known_findings() if f.get("id") == fid and f.get("kind") == "known" and f.get("property") == prop]
        if fk:
            ctx.known_finding(fid, "reproduced on the real code by schedule %s (%d schedule(s)): %s" % (sid, len(set(x[0] for x in j["known"])), text[:300]))
        else:
            ctx.violation(_replay_obj(prop, runs[sid], text, chk.get(sid)), "real trace violates %s (schedule %s): %s" % (prop, sid, text[:400]),
                          name="t2sv_failing_%s.json" % _fname(sid))
    missing = [m for m in ins["missing"]]
    if not j["violations"]:
        if j["mismatches"]:
            sid, k, kind, text = j["mismatches"][0]
            run = runs.get(sid)
            obj = _replay_obj(prop, run, text, chk.get(sid)) if run else {"schedule": sid}
            obj.update({"broken": "correspondence T2-svsched (projection %s)" % sorted(PROJ.get(prop, [])), "first_difference": {"item": k, "kind": kind, "text": text},
                        "mismatching_schedules": len(j["mismatches"]), "unplaced_yield_points": missing, "sentinels_placed": ins["sentinels"]})
            ctx.violation(obj, "model Msv and the implementation disagree on %d schedule(s) in what %s reads (first: %s item %d, %s: %s); "
                          "no real trace violating the property was found" % (len(j["mismatches"]), prop, sid, k, kind, text[:200]),
                          name="t2sv_correspondence_%s.json" % _fname(sid), no_failing_input=True)
        else:
            sent = [s_ for s_ in ins["sentinels"] if prop in ins.get("sentinel_concerns", {}).get(s_, [prop])]
            if missing or sent:
                ctx.violation({"broken": "instrumentation", "unplaced_yield_points": missing, "sentinels_placed": sent, "log": ins["log"]},
                              "the code no longer has the shape the model was written against (%s); no failing real trace was found"
                              % ", ".join([m["id"] for m in missing] + sent), name="t2sv_unplaced_hooks.json", no_failing_input=True)
    compared = {k: r for k, r in runs.items() if ":" not in k}
    n_items = sum(len(r.items) for r in compared.values())
    distinct = len(set(tuple(it["raw"] for _k, _t, it in r.items) + (r.noclear,) for r in compared.values()))
    n_images = len(images)
    tie.update({
        "schedules_executed_on_real_code": len(compared), "exhibit_runs": n_exhibit, "corpus": len(corpus), "items": n_items, "distinct_schedules": distinct,
        "scenarios": len(scs), "scenario_stats": gstats, "labels_reached": {k: reached.get(k, 0) for k in sorted(reached)},
        "model_labels_never_reached": [l for l in MODEL_LABELS if not reached.get(l)],
        "preemption_bound": max([g["bound"] for g in gstats.values()] + [0]),
        "mismatches_in_projection": len(j["mismatches"]), "schedules_differing_outside_projection": j["label_only"], "projection": sorted(PROJ.get(prop, [])),
        "schedules_failing_oracle": len(set(v[0] for v in j["violations"])), "known_finding_reproductions": len(set(x[0] for x in j["known"])),
        "hangs_or_fatal": len(failures), "yield_points_placed": len(ins["placed"]), "yield_points_missing": [m["id"] for m in missing],
        "sentinels_placed": ins["sentinels"], "closer_order": b.get("order"), "oracle": prop, "crash_images_distinct": n_images,
        "crash_images_not_load_tested": len(set(untested)),
        "generator_filter_sitem_okb_sound": _okb_status(),
        "incomplete_schedules": sum(1 for r in compared.values() if not r.complete), "schedules_abandoned_after_repeated_hangs": abandoned,
        "wall_s": round(time.time() - t0, 1)})
    ctx.coverage["traces_validated_against_impl"] = ctx.coverage.get("traces_validated_against_impl", 0) + len(compared)
    ctx.coverage["evaluations"] = ctx.coverage.get("evaluations", 0) + len(runs)
    ctx.coverage["distinct_nontrivial"] = ctx.coverage.get("distinct_nontrivial", 0) + distinct
    tie["rule"] = ("schedules = complete runs of the extracted model Msv over the scenario's calls, enumerated by DFS over the model's enabled items (only "
                   "items for which sitem_okb holds) with the preemption bound (all of them, or a reservoir sample drawn from one PRNG seeded by ctx.seed); "
                   "each is executed item by item on the real LockServer inside a synctest bubble (one model step per item) and compared after every item "
                   "(goroutine labels, responses, lock table, timer map, session table, listing, decoded state file, clock); the raw state file after every "
                   "item is a crash image; distinct = different item sequences")
    for a_ in T2SV_ASSUMPTIONS:
        if a_ not in ctx.assumptions:
            ctx.assumptions.append(a_)
    if compared and len(ctx.coverage["samples"]) < 3:
        sid = sorted(compared)[0]
        ctx.coverage["samples"].append({"schedule": sid, "observed_head": compared[sid].raw[:40]})
    # extraction + driver vs the Gallina definitions: a sample of the checked schedules is evaluated inside Coq (lib/coqeval.py)
    try:
        from . import coqeval
        coqeval.hook(ctx, "T2-svsched", coqeval.sv_sample, cq_dirs)
        coqeval.hook(ctx, "T2-svsched-trace-predicates", sv_trace_sample, cq_dirs)
    except Exception as ex:  # noqa
        ctx.note("coq/driver tie T2-svsched not run: %r" % (ex,))
    return dict(ok_build=True, runs=runs, chk=chk, judged=j, failures=failures, stats=gstats, reached=reached, instr=ins, images=images)


# ------------------------------------------------------------------------------------------------------------- smoke

def main(argv=None):
    import argparse
    ap = argparse.ArgumentParser()
    ap.add_argument("--tier", default="quick", choices=["quick", "thorough"])
    ap.add_argument("--prop", default="C05,C06,C09,C11")
    ap.add_argument("--seed", type=int, default=int(os.environ.get("VERIF_SEED", "1")))
    ap.add_argument("--scenario", default=None)
    ap.add_argument("--replay", default=None)
    ap.add_argument("--name", default="T2SV")
    ap.add_argument("--show", action="store_true", help="with --replay: print the observed trace")
    a = ap.parse_args(argv)
    ctx = vcheck.Ctx(a.name, a.tier, a.seed)
    t0 = time.time()
    rc = 0
    props = a.prop.split(",")
    if a.replay:
        c = json.loads(Path(a.replay).read_text())
        b = build(ctx)
        if not b["ok"]:
            print("build failed:", b["why"], b["log"][-1500:])
            return 2
        c.setdefault("id", "replay")
        cf, log = expand(ctx, b, [c], "replay")
        if log:
            print(log)
        e = execute(ctx, b, cf, "replay-run", procs=1)
        for p in props:
            j = judge(p, e["runs"], e["chk"], e["failures"], e["images"], tp=e.get("tp"))
            print(p, json.dumps(j, indent=1))
        if a.show:
            for r in e["runs"].values():
                print("\n".join(r.raw))
        return 0
    total = 0
    for p in props:
        scs = load_scenarios(p, a.scenario.split(",") if a.scenario else None)
        r = run_property(ctx, p, tier=a.tier, scenarios=scs)
        if not r.get("ok_build"):
            rc = 2
            break
        tie = ctx.coverage["ties"]["T2-svsched"]
        total += tie["schedules_executed_on_real_code"]
        print("%s: %d schedules (%d items, %d distinct, %d exhibit runs, %d crash images) in %.1fs; mismatches %d (+%d outside the projection), oracle failures %d, "
              "known-finding reproductions %d, hangs/fatal %d; labels never reached: %s; missing hooks: %s; sentinels: %s"
              % (p, tie["schedules_executed_on_real_code"], tie["items"], tie["distinct_schedules"], tie["exhibit_runs"], tie["crash_images_distinct"], tie["wall_s"],
                 tie["mismatches_in_projection"], tie["schedules_differing_outside_projection"], tie["schedules_failing_oracle"], tie["known_finding_reproductions"],
                 tie["hangs_or_fatal"], tie["model_labels_never_reached"], tie["yield_points_missing"], tie["sentinels_placed"]))
        print("    oracle self-test on the model's traces: %s" % json.dumps(tie.get("oracle_selftest")))
        print("    response well-formedness (C14's clause) on the real traces: %s"
              % json.dumps({k_: v_ for k_, v_ in tie.get("response_wellformedness", {}).items() if k_ not in ("rule", "rules")}))
        wr_ = tie.get("window_runs", {})
        print("    window runs: %d executions over %d scenarios (%d not exhausted), hangs/fatal %d; inner yield points per file: %s"
              % (wr_.get("executions", 0), len(wr_.get("per_scenario", {})), sum(1 for v in wr_.get("per_scenario", {}).values() if not v["exhausted"]),
                 wr_.get("hangs_or_fatal", 0), json.dumps(tie.get("inner_yield_points", {}).get("per_file"))))
        print("    extracted Coq trace predicates on the real observations: %s"
              % json.dumps({k_: v_ for k_, v_ in tie.get("coq_trace_predicates", {}).items() if k_ != "rule"}))
    for fid, text in ctx.known:
        print("KNOWN-FINDING:", fid, text)
    for path, text, nfi in ctx.violations:
        print("VIOLATION replay=%s%s\n   %s" % (path, " no-failing-input-found" if nfi else "", text))
        rc = rc or 1
    print("total: %d schedules, %.1fs wall (tier %s, seed %d, repo %s)" % (total, time.time() - t0, a.tier, a.seed, REPO))
    return rc


if __name__ == "__main__":
    sys.exit(main())
