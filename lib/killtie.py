"""T4-kill — the process-level tie of property C09: SIGKILL of the real server binary at seeded instants.

No model covers the process level. The REAL binary, built here from the tree under test (go build ./cmd/server), is run as a
child process with a state file by harness/e2e/c09; 2-4 raw gRPC clients run a seeded random workload against it and log
every acknowledged grant and release (and every call that never got an answer) with monotonic timestamps; the driver sends
SIGKILL (one clock reading K immediately before the kill, one immediately after); the image the dead process left is decoded
with the tree's own store; the binary is started again on it and asked what it restored.

The oracle is the property itself, evaluated on what the real process did. With the clients' log a hold is, at the kill,
    must      its grant was acknowledged before K, no Unlock was sent for it, its lease (if any) cannot have run out yet
              (invocation of the grant / last acknowledged Renew + lease > kill), its session was not ended by a reconnect
              (or the server runs with --no_clear_on_disconnect)
    must-not  its Unlock was acknowledged (unlocked=true) before K; or its lease ran out more than 1 s before K
    either    everything else: grant / Unlock / Renew in flight at the kill or acknowledged after K, lease running out
              around the kill, session ended without acknowledgement
  decodes              the file exists and store.Read accepts it
  file_keeps           every must hold is in it
  file_drops_released  no hold whose Unlock was acknowledged is in it
  file_drops_expired   no hold whose lease ran out long before the kill is in it
  capacity             no lock is listed with more holds than its size                          (F-OVER lives here)
  no_phantom           entries nobody was told about are at most the acquisitions in flight at the kill; names and sizes are
                       the scenario's
  restart_up           ldlm-server starts on the file, stays up, prints no panic
  restart_lists        the admin listing has every must hold, no must-not hold, nothing that is not in the file, at most size
                       holds per lock, and every hold of the earlier run
  restart_refuses      TryLock on a fully restored lock is refused
  restart_unlock       Unlock with the original key of a restored hold succeeds

Why no 20 ms margin around K for the acknowledged operations: an acknowledgement is stamped by the client after the response
arrived, i.e. after the server's rename() of the new image returned, and K is read (same CLOCK_MONOTONIC, same machine) before
kill(2) is called; "ack < K" therefore already implies "the image was in place before the kill". A margin would only hide
trees that answer before they persist (the mutants this tie exists for have windows of well under a millisecond).
VERIF_KILL_MARGIN_US widens it if ever needed. The generous 20 ms window IS used where it works in the tree's favour: an
over-capacity image is attributed to the recorded finding F-OVER (grant_persisted_before_previous_remove) when each surplus
entry is matched by a listed hold of that lock whose Unlock was in flight at the kill or acknowledged within the last 20 ms,
or whose lease may have been running out at the kill. Any other over-capacity image is a violation.

    python3 -m lib.killtie [--tier quick|thorough] [--seed N] [--replay FILE [--runs N]] [-v]
    killtie.run_property(ctx, tier=None)      from checks/c09.py (coverage under ctx.coverage["ties"]["T4-kill"])
    killtie.replay(ctx, path)                 re-runs the scenario of a replay file several times (killtie.is_kill_replay(path)
                                              tells whether a replay file is one of this tie's)
    python3 harness/e2e/c09/sensitivity.py    seeded defects in a scratch worktree (development tool, not used by the checks)
VERIF_REPO selects the tree.
"""
import json
import os
import random
import shutil
import signal
import subprocess
import sys
import time
from pathlib import Path

if __name__ == "__main__":
    sys.path.insert(0, str(Path(__file__).resolve().parent.parent))

from lib import vcheck

NEAR_US = 20000          # "in flight or acknowledged within the last few milliseconds": attribution window for F-OVER
EXP_SLACK_US = 1000000   # a lease that ran out this long before the kill must have been removed from the file
SESS_NEAR_US = 500000    # a session ended (no acknowledgement exists) this shortly before the kill may still be cleaned up
CLAUSES = ["decodes", "file_keeps", "file_drops_released", "file_drops_expired", "capacity", "no_phantom",
           "restart_up", "restart_lists", "restart_refuses", "restart_unlock"]
SIGNATURE = "grant_persisted_before_previous_remove"
INF = float("inf")


def margin_us():
    try:
        return max(0, int(os.environ.get("VERIF_KILL_MARGIN_US", "0")))
    except ValueError:
        return 0


# ------------------------------------------------------------------------------------------------------------ scenarios

PATTERN = (["mix-time"] * 6 + ["mix-ack"] * 5 + ["pp-time"] * 4 + ["pp-ack"] * 4 + ["expiry"] * 3 + ["preload"] * 2 + ["big-change"] * 3)


def make_scenario(rng, i, kind):
    # a few holds of an earlier run in most files: an image that lost everything is then never mistaken for an empty table
    sc = {"id": "k%03d-%s" % (i, kind), "seed": rng.randrange(1, 2 ** 31), "max_ms": 2500, "preload": rng.choice([0, 1, 3, 20]), "lockers": 0,
          "writers": 0, "p_reconnect": 0.0, "no_clear": rng.random() < 0.3}
    if kind == "big-change":
        # a large state file (every rewrite takes long), clients that keep it changing, and the kill where the driver sees it change
        sc.update({"mode": "pingpong", "clients": rng.randint(2, 4), "leases": [0], "preload": rng.choice([8000, 20000]),
                   "locks": [{"name": "pp", "size": rng.choice([1, 2])}]})
        sc["lockers"] = rng.randint(0, sc["clients"] - 1)
        sc["kill"] = {"kind": "on_change", "ack_n": rng.randint(2, 40), "delay_us": rng.choice([0, 0, 50, 100, 200, 400])}
        return sc
    if kind in ("mix-time", "mix-ack", "preload"):
        sc["mode"] = "mix"
        sc["clients"] = rng.randint(2, 4)
        names = ["a", "b", "c"][:rng.randint(1, 3)]
        sc["locks"] = [{"name": n, "size": rng.choice([1, 1, 2, 3])} for n in names]
        sc["leases"] = rng.choice([[0], [0, 0, 0, 1], [0, 0, 1, 1, 2], [0, 1]])
        sc["p_reconnect"] = rng.choice([0.0, 0.0, 0.01, 0.03])
        if kind == "preload":
            sc["preload"] = rng.choice([500, 2000, 4000])
        if kind == "mix-time" or (kind == "preload" and rng.random() < 0.5):
            at = rng.randint(20000, 400000) if (kind == "preload" or rng.random() < 0.5) else rng.randint(1000000, 1900000)
            sc["kill"] = {"kind": "time", "at_us": at}
        else:
            ak = rng.choice(["grant", "grant", "release", "release", "any", "leased_grant"])
            if ak == "leased_grant":
                sc["leases"] = [0, 1, 1]
                sc["kill"] = {"kind": "after_ack", "ack_kind": ak, "ack_n": rng.randint(1, 6), "delay_us": 1000000 + rng.randint(-1500, 2500)}
            else:
                sc["kill"] = {"kind": "after_ack", "ack_kind": ak, "ack_n": rng.randint(1, 60),
                              "delay_us": rng.choice([0, 0, 0, 20, 50, 100, 200, 400, 800])}
    elif kind in ("pp-time", "pp-ack"):
        sc["mode"] = "pingpong"
        sc["clients"] = rng.randint(2, 4)
        sc["locks"] = [{"name": "pp", "size": 2 if (sc["clients"] == 4 and rng.random() < 0.3) else 1}]
        sc["leases"] = [0]
        sc["lockers"] = rng.randint(0, sc["clients"] - 1)
        if sc["clients"] >= 3 and rng.random() < 0.6:      # one client keeps the state file busy with another lock
            sc["locks"].append({"name": "w", "size": rng.choice([1, 2])})
            sc["writers"] = 1
            sc["lockers"] = min(sc["lockers"], sc["clients"] - 2)
        if kind == "pp-time":
            sc["kill"] = {"kind": "time", "at_us": rng.randint(15000, 300000)}
        else:
            sc["kill"] = {"kind": "after_ack", "ack_kind": rng.choice(["release", "grant"]), "ack_n": rng.randint(5, 200),
                          "delay_us": rng.choice([0, 0, 10, 30, 60, 100, 200, 300, 500])}
    else:  # expiry
        sc["mode"] = "expiry"
        size = rng.choice([1, 1, 2])
        sc["locks"] = [{"name": "x", "size": size}]
        sc["clients"] = min(4, size + rng.randint(1, 2))
        sc["leases"] = [1]
        sc["lockers"] = rng.randint(0, sc["clients"] - size)
        sc["kill"] = {"kind": "after_ack", "ack_kind": "leased_grant", "ack_n": rng.choice([1, 1, 2]),
                      "delay_us": 1000000 + rng.randint(-1500, 3000)}
        sc["max_ms"] = 3500
    return sc


def scenarios(seed, tier):
    """The kill list of a run; every parameter from one PRNG seeded with the run's seed."""
    rng = random.Random(int(seed) * 1000003 + 909)
    n = len(PATTERN) if tier == "quick" else 400      # quick: every kind of the pattern once (27 kills)
    out = []
    while len(out) < n:
        cyc = list(PATTERN)
        rng.shuffle(cyc)
        for kind in cyc:
            if len(out) < n:
                out.append(make_scenario(rng, len(out), kind))
    return out


def corpus_scenarios():
    out = []
    for f in sorted((vcheck.VERIF / "corpus" / "e2e").glob("c09kill_*.json")):
        try:
            c = json.loads(f.read_text())
        except Exception:  # noqa
            continue
        for i, sc in enumerate(c.get("scenarios") or []):
            sc = dict(sc)
            sc["id"] = "c-%s-%d" % (f.stem[8:][:20], i)
            out.append(sc)
    return out


# --------------------------------------------------------------------------------------------------------------- builds

def build_server(ctx):
    """The real binary from the tree's CURRENT sources. -> (path or None, log)"""
    bind = ctx.work / "killbin"
    bind.mkdir(parents=True, exist_ok=True)
    env = vcheck.go_env({"GOFLAGS": "-mod=readonly"})   # never writes go.mod / go.sum of the tree
    srv = bind / "ldlm-server"
    rc, out = vcheck.sh([vcheck.GO, "build", "-buildvcs=false", "-o", str(srv), "./cmd/server"], cwd=vcheck.REPO, env=env, timeout=600)
    if rc != 0 or not srv.exists():
        return None, "go build ./cmd/server (rc %s):\n%s" % (rc, out[-4000:])
    return srv, ""


def build_driver(ctx):
    hdir = vcheck.harness_dir(ctx, name="harness-c09kill")
    exe = ctx.work / "c09-kill"
    rc, out = vcheck.go_build(ctx, hdir, "./e2e/c09", exe, tags="verif", timeout=900)
    if rc == 0 and exe.exists():
        return exe, ""
    return None, "go build ./e2e/c09 (rc %s):\n%s" % (rc, out[-4000:])


def run_driver(ctx, exe, srv, scs, name, jobs):
    """Runs the driver in its own process group, which is killed as a whole afterwards. -> (results, log, workdir)"""
    work = ctx.work / "kill" / name
    shutil.rmtree(work, ignore_errors=True)
    work.mkdir(parents=True, exist_ok=True)
    (work / "scenarios.json").write_text(json.dumps(scs))
    cmd = [str(exe), "-server", str(srv), "-work", str(work), "-scenarios", str(work / "scenarios.json"), "-jobs", str(jobs)]
    budget = 90 + len(scs) * 12.0 / jobs
    log = ""
    outp, errp = work / "out.jsonl", work / "driver.err"
    p = None
    try:
        with open(outp, "w") as fo, open(errp, "w") as fe:
            p = subprocess.Popen(cmd, cwd=str(work), stdout=fo, stderr=fe, stdin=subprocess.DEVNULL, start_new_session=True,
                                 env=dict(os.environ, TMPDIR=str(work)))
            try:
                p.wait(timeout=budget)
            except subprocess.TimeoutExpired:
                log += "[driver exceeded %.0fs; killed]\n" % budget
    except Exception as ex:  # noqa
        log += "failed to run the driver: %r\n" % (ex,)
    finally:
        if p is not None:
            try:
                os.killpg(p.pid, signal.SIGKILL)     # the driver and every server it started
            except (ProcessLookupError, PermissionError):
                pass
            try:
                p.wait(timeout=10)
            except Exception:  # noqa
                pass
    results, done = [], False
    try:
        for line in outp.read_text(errors="replace").splitlines():
            line = line.strip()
            if not line.startswith("{"):
                continue
            try:
                o = json.loads(line)
            except ValueError:
                continue
            if o.get("meta"):
                done = bool(o.get("done"))
            elif "scenario" in o:
                results.append(o)
    except OSError:
        pass
    try:
        log += errp.read_text(errors="replace")[-2000:]
    except OSError:
        pass
    if not done:
        log += "\n[driver did not finish: %d of %d scenarios reported; rc %s]" % (len(results), len(scs), getattr(p, "returncode", None))
    return results, log, work


# --------------------------------------------------------------------------------------------------------------- oracle

def holds_of(o):
    """The clients' log as one record per acknowledged grant, classified against the kill. -> {(name, key): hold}"""
    sc = o["scenario"]
    K, KA = o["kill_before_us"], o["kill_after_us"]
    m = margin_us()
    H = {}
    for op in sorted(o.get("ops") or [], key=lambda x: x["inv_us"]):
        kind = op["op"]
        if kind in ("trylock", "lock"):
            if op.get("ok") and op["ack_us"] >= 0:
                d = (op.get("lease") or 0) * 1000000
                H[(op["name"], op["key"])] = {
                    "name": op["name"], "key": op["key"], "size": op.get("size") or 1, "c": op["c"], "conn": op["conn"], "via": kind,
                    "grant_inv": op["inv_us"], "grant_ack": op["ack_us"], "lease": op.get("lease") or 0,
                    "lo": op["inv_us"] + d if d else None, "hi": op["ack_us"] + d if d else None,
                    "unlock": None, "renews": 0, "sess_end": None}
        elif kind == "unlock":
            h = H.get((op["name"], op["key"]))
            if h is not None and h["unlock"] is None:
                h["unlock"] = op
        elif kind == "renew":
            h = H.get((op["name"], op["key"]))
            if h is None or h["lo"] is None:
                continue
            d = (op.get("lease") or 0) * 1000000
            if op["ack_us"] >= 0 and op.get("ok"):
                h["lo"], h["hi"] = op["inv_us"] + d, op["ack_us"] + d
                h["renews"] += 1
            elif op["ack_us"] < 0:           # may or may not have been applied
                h["lo"], h["hi"] = min(h["lo"], op["inv_us"] + d), INF
        elif kind == "reconnect" and not sc.get("no_clear"):
            for h in H.values():
                if h["c"] == op["c"] and h["conn"] == op["conn"] and h["sess_end"] is None:
                    h["sess_end"] = op["inv_us"]
    for h in H.values():
        u = h["unlock"]
        released = u is not None and u["ack_us"] >= 0 and u.get("ok") and u["ack_us"] < K - m
        expired = (not released) and h["hi"] is not None and h["hi"] != INF and h["hi"] + EXP_SLACK_US < K
        may_have_ended = (u is not None) or (h["lo"] is not None and h["lo"] <= KA + 1000) or (h["sess_end"] is not None)
        if released:
            h["cls"] = "released"
        elif expired:
            h["cls"] = "expired"
        elif h["grant_ack"] < K - m and not may_have_ended:
            h["cls"] = "must"
        else:
            h["cls"] = "either"
        # a release that may have been under way at the kill (what F-OVER needs)
        near = None
        if h["cls"] == "either":
            if u is not None and (u["ack_us"] < 0 or u["ack_us"] >= K - NEAR_US):
                near = "Unlock in flight at the kill" if (u["ack_us"] < 0 or u["ack_us"] >= K) else "Unlock acknowledged %d us before the kill" % (K - u["ack_us"])
            elif h["lo"] is not None and h["lo"] <= KA + 1000:
                near = "lease running out at the kill (earliest end %+d us, latest %s us relative to the kill)" % (
                    h["lo"] - K, "?" if h["hi"] == INF else "%+d" % (h["hi"] - K))
            elif h["sess_end"] is not None and h["sess_end"] >= K - SESS_NEAR_US:
                near = "session ended %d us before the kill" % (K - h["sess_end"])
        h["near"] = near
    return H


def show_hold(h, K):
    s = "%s/%s (client %d, %s acknowledged %d us before the kill" % (h["name"], h["key"], h["c"], h["via"], K - h["grant_ack"])
    if h["lease"]:
        s += ", lease %ds" % h["lease"]
    u = h["unlock"]
    if u is not None:
        s += ", Unlock sent %d us before the kill" % (K - u["inv_us"])
        s += ", no answer" if u["ack_us"] < 0 else ", answered unlocked=%s %d us %s the kill" % (
            str(bool(u.get("ok"))).lower(), abs(K - u["ack_us"]), "before" if u["ack_us"] < K else "after")
    return s + ")"


def judge(o):
    """The property's clauses on one kill. -> (status, {clause: 'pass'|'n/a'|'fail: ...'}, [F-OVER texts], stats)
    status: judged | unjudged:<why>"""
    sc = o["scenario"]
    r1 = o.get("run1") or {}
    if o.get("harness_err"):
        return "unjudged:driver: " + o["harness_err"][:300], {}, [], {}
    rp0 = (o.get("restart") or {}).get("proc") or {}
    if (r1.get("bind_failure") and not r1.get("started")) or (rp0.get("bind_failure") and not rp0.get("started")):
        # other checks start servers on this machine at the same time and find their ports the same way; a start that lost
        # its port to another process on every attempt (fresh port each time) says nothing about the server
        return "unjudged:a port was taken by another process (%s start, %s attempts): address already in use" % (
            "first" if r1.get("bind_failure") and not r1.get("started") else "second",
            (r1 if r1.get("bind_failure") and not r1.get("started") else rp0).get("attempts", "?")), {}, [], {}
    if not r1.get("started"):
        return "unjudged:the server did not start: " + (r1.get("start_err") or "")[-400:], {}, [], {}
    if o.get("setup_err"):
        return "unjudged:workload not run: " + o["setup_err"][:300], {}, [], {}
    if r1.get("died_early"):
        return "unjudged:the server was already dead when the kill was sent (exit %s %s): %s" % (
            r1.get("exit_code"), r1.get("killed_by", ""), (r1.get("output_tail") or "")[:300]), {}, [], {}
    K = o["kill_before_us"]
    sizes = {l["name"]: l["size"] for l in sc["locks"]}
    H = holds_of(o)
    v, known = {}, []

    def fail(k, text):
        v[k] = (v[k] + "; " + text) if v.get(k, "").startswith("fail") else "fail: " + text

    f = o.get("file") or {}
    entries = f.get("entries") or []
    in_file = set((e["name"], e["key"]) for e in entries)
    n_pre = o.get("preloaded") or 0
    must = [h for h in H.values() if h["cls"] == "must"]
    released = [h for h in H.values() if h["cls"] == "released"]
    expired = [h for h in H.values() if h["cls"] == "expired"]
    st = {"must": len(must) + n_pre, "released": len(released), "expired": len(expired),
          "either": sum(1 for h in H.values() if h["cls"] == "either"), "entries": f.get("entries_total", len(entries)),
          "sha": f.get("sha256"), "over": [], "fover": 0, "fover_dropped_acked": 0, "unknown_entries": 0,
          "no_answer": (o.get("counters") or {}).get("no_answer", 0)}
    acks = [x for op in (o.get("ops") or []) for x in [op["ack_us"]] if 0 <= x < K and op["op"] in ("trylock", "lock", "unlock") and op.get("ok")]
    st["last_ack_before_kill_us"] = (K - max(acks)) if acks else None

    # ---- the image
    over_known = {}          # name -> surplus attributed to F-OVER
    if not f.get("exists") or not f.get("decoded"):
        fail("decodes", "the state file left by the killed server %s (%s bytes%s): %s" % (
            "does not decode" if f.get("exists") else "does not exist", f.get("bytes"), ", hex " + f["hex"][:200] if f.get("hex") else "", f.get("err")))
        for k in ("file_keeps", "file_drops_released", "file_drops_expired", "capacity", "no_phantom"):
            v[k] = "n/a"
    else:
        v["decodes"] = "pass"
        miss = [h for h in must if (h["name"], h["key"]) not in in_file]
        if miss:
            fail("file_keeps", "acknowledged hold %s is not in the state file (%d entries, %d bytes); %d acknowledged live hold(s) missing" % (
                show_hold(miss[0], K), st["entries"], f.get("bytes", 0), len(miss)))
        if n_pre and f.get("preload_present", 0) != n_pre:
            fail("file_keeps", "%d of the %d holds of the earlier run are not in the state file (first: %s)" % (
                n_pre - f.get("preload_present", 0), n_pre, (f.get("preload_missing") or ["?"])[0]))
        v.setdefault("file_keeps", "pass")
        bad = [h for h in released if (h["name"], h["key"]) in in_file]
        if bad:
            fail("file_drops_released", "released hold %s is in the state file" % show_hold(bad[0], K))
        v.setdefault("file_drops_released", "pass" if released else "n/a")
        bad = [h for h in expired if (h["name"], h["key"]) in in_file]
        if bad:
            fail("file_drops_expired", "hold %s whose lease ran out at least %d us before the kill is in the state file" % (
                show_hold(bad[0], K), K - bad[0]["hi"]))
        v.setdefault("file_drops_expired", "pass" if expired else "n/a")
        per = {}
        for e in entries:
            per.setdefault(e["name"], []).append(e)
        for name, es in sorted(per.items()):
            if name not in sizes:
                fail("no_phantom", "the state file lists a hold of lock %r, which no client ever asked for" % name)
                continue
            wrong = [e for e in es if e["size"] != sizes[name]]
            if wrong:
                fail("no_phantom", "the state file lists %s/%s with size %d; the lock has size %d" % (name, wrong[0]["key"], wrong[0]["size"], sizes[name]))
            unknown = [e for e in es if (name, e["key"]) not in H]
            st["unknown_entries"] += len(unknown)
            pending = sum(1 for op in o.get("ops") or [] if op["op"] in ("trylock", "lock") and op["name"] == name and op["ack_us"] < 0)
            if len(unknown) > pending:
                fail("no_phantom", "the state file lists %d hold(s) of %r that no client was told about (first key %s) but only %d acquisition(s) were in flight at the kill" % (
                    len(unknown), name, unknown[0]["key"], pending))
            if len(es) > sizes[name]:
                surplus = len(es) - sizes[name]
                near = [H[(name, e["key"])] for e in es if (name, e["key"]) in H and H[(name, e["key"])].get("near")]
                desc = "lock %r of size %d is listed with %d holds: %s" % (name, sizes[name], len(es), "; ".join(
                    (show_hold(H[(name, e["key"])], K) + (" [" + H[(name, e["key"])]["near"] + "]" if H[(name, e["key"])].get("near") else ""))
                    if (name, e["key"]) in H else "%s/%s (no client was told: grant in flight)" % (name, e["key"]) for e in es[:5]))
                st["over"].append(name)
                if len(near) >= surplus:
                    over_known[name] = surplus
                    st["fover"] += 1
                    known.append(desc)
                else:
                    fail("capacity", desc + " — but only %d of them belong to a release under way at the kill (Unlock in flight or acknowledged within %d ms, lease running out)" % (len(near), NEAR_US // 1000))
        v.setdefault("capacity", "pass")
        v.setdefault("no_phantom", "pass")

    # ---- the next start
    rs = o.get("restart") or {}
    rp = rs.get("proc") or {}
    if not rs.get("attempted"):
        for k in ("restart_up", "restart_lists", "restart_refuses", "restart_unlock"):
            v[k] = "n/a"
    elif not rp.get("started"):
        fail("restart_up", "ldlm-server does not start on the state file left by the kill: %s" % (rp.get("start_err") or "")[-500:])
        for k in ("restart_lists", "restart_refuses", "restart_unlock"):
            v[k] = "n/a"
    else:
        if rp.get("bad_output"):
            fail("restart_up", "the restarted server's output has %r" % rp["bad_output"][0][:200])
        if not rs.get("alive_after_probes"):
            fail("restart_up", "the restarted server exited (status %s %s) while it was asked what it restored" % (rp.get("exit_code"), rp.get("killed_by", "")))
        v.setdefault("restart_up", "pass")
        if rs.get("ipc_err"):
            fail("restart_lists", "admin listing of the restarted server failed: %s" % rs["ipc_err"][:300])
            v["restart_refuses"] = v["restart_unlock"] = "n/a"
        else:
            listing = rs.get("listing") or []
            L = set((e["name"], e["key"]) for e in listing)
            for h in must:
                if (h["name"], h["key"]) in L:
                    continue
                if (h["name"], h["key"]) in in_file and h["name"] in over_known:
                    st["fover_dropped_acked"] += 1
                    known.append("recovery dropped the acknowledged hold %s in favour of a dead one (%s)" % (show_hold(h, K), "; ".join((rs.get("load_errors") or [])[:1])[:200]))
                    continue
                if (h["name"], h["key"]) in in_file or f.get("decoded"):
                    fail("restart_lists", "the restarted server does not list the acknowledged hold %s (%s the state file)" % (
                        show_hold(h, K), "which is in" if (h["name"], h["key"]) in in_file else "missing from"))
                    break
            if n_pre and rs.get("preload_listed", 0) != n_pre:
                fail("restart_lists", "%d of the %d holds of the earlier run are not listed after the restart (first: %s)" % (
                    n_pre - rs.get("preload_listed", 0), n_pre, (rs.get("preload_not_listed") or ["?"])[0]))
            for h in released:
                if (h["name"], h["key"]) in L:
                    fail("restart_lists", "the restarted server lists the released hold %s" % show_hold(h, K))
                    break
            if f.get("decoded"):
                extra = sorted(L - in_file)
                if extra:
                    fail("restart_lists", "the restarted server lists %s/%s, which is not in the state file it started on" % extra[0])
            cnt = {}
            for e in listing:
                cnt[e["name"]] = cnt.get(e["name"], 0) + 1
            for name, n in sorted(cnt.items()):
                if name in sizes and n > sizes[name]:
                    fail("restart_lists", "the restarted server lists %d holds of lock %r of size %d" % (n, name, sizes[name]))
            if rs.get("listing_unparsed"):
                fail("restart_lists", "unreadable line in the admin listing: %r" % rs["listing_unparsed"][0][:120])
            v.setdefault("restart_lists", "pass")
            for pr in rs.get("full_probes") or []:
                if pr.get("locked") is None:
                    fail("restart_refuses", "TryLock(%r) on the restarted server: %s" % (pr["name"], pr.get("err")))
                elif pr["locked"]:
                    fail("restart_refuses", "TryLock(%r) on the restarted server was GRANTED although it lists %d hold(s) of this size-%d lock" % (pr["name"], pr["listed"], pr["size"]))
            v.setdefault("restart_refuses", "pass" if rs.get("full_probes") else "n/a")
            for pr in rs.get("unlock_probes") or []:
                if not pr.get("unlocked"):
                    fail("restart_unlock", "Unlock(%r, original key %s) of a restored hold on the restarted server failed: %s" % (pr["name"], pr["key"], pr.get("err") or "unlocked=false"))
            v.setdefault("restart_unlock", "pass" if rs.get("unlock_probes") else "n/a")
    for k in CLAUSES:
        v.setdefault(k, "n/a")
    return "judged", v, known, st


def short(o, v=None, st=None):
    """A kill's record without its bulk."""
    K = o.get("kill_before_us", 0)
    f = o.get("file") or {}
    rs = o.get("restart") or {}
    ops = o.get("ops") or []
    last = [dict(op, inv_us=op["inv_us"] - K, ack_us=(op["ack_us"] - K) if op["ack_us"] >= 0 else None) for op in ops
            if op["ack_us"] < 0 or op["ack_us"] >= K - 50000 or op["inv_us"] >= K - 50000][-24:]
    s = {
        "scenario": o["scenario"],
        "kill": {"before_us": K, "after_us": o.get("kill_after_us"), "exit_us": o.get("exit_us"), "trigger_us": o.get("trigger_us"), "trigger_size": o.get("trigger_size"),
                 "workload_start_us": o.get("workload_start_us"), "killed_by": (o.get("run1") or {}).get("killed_by")},
        "counters": o.get("counters"),
        "calls_around_the_kill_us_relative": last,
        "state_file": {k: f.get(k) for k in ("exists", "bytes", "decoded", "err", "entries_total", "tmp_left", "hex", "preload_present") if f.get(k) not in (None, "")},
        "state_file_entries": (f.get("entries") or [])[:12],
        "restart": {"started": (rs.get("proc") or {}).get("started"), "start_ms": rs.get("start_ms"), "listing": (rs.get("listing") or [])[:12],
                    "listing_total": rs.get("listing_total"), "load_errors": rs.get("load_errors"), "full_probes": rs.get("full_probes"),
                    "unlock_probes": (rs.get("unlock_probes") or [])[:8], "ipc_err": rs.get("ipc_err")},
    }
    if st:
        s["classified"] = {k: st.get(k) for k in ("must", "released", "expired", "either", "unknown_entries", "over", "last_ack_before_kill_us")}
    if v is not None:
        s["verdicts"] = {k: t for k, t in v.items() if t != "n/a"}
    return s


def replay_obj(o, v, fails, st):
    r1 = o.get("run1") or {}
    rp = (o.get("restart") or {}).get("proc") or {}
    K = o.get("kill_before_us", 0)
    return {
        "property": "C09", "kind": "t4-kill-scenario", "scenario": o["scenario"],
        "failed_clauses": {k: v[k] for k in fails},
        "observed": short(o, v, st),
        "all_calls_us_relative_to_kill": [dict(op, inv_us=op["inv_us"] - K, ack_us=(op["ack_us"] - K) if op["ack_us"] >= 0 else None) for op in (o.get("ops") or [])][-400:],
        "server_args": r1.get("args"), "output_excerpt_first_run": (r1.get("output_tail") or "")[-1500:],
        "output_excerpt_restart": (rp.get("output_tail") or rp.get("start_err") or "")[-1500:] if any(k.startswith("restart") for k in fails) else None,
        "expected": "the image left by SIGKILL decodes, lists every hold acknowledged before the kill and still live, no hold whose Unlock was acknowledged, at most size holds per lock; ldlm-server starts on it and restores exactly that",
        "margin_us": margin_us(), "tree": str(vcheck.REPO),
        "replay": "python3 -m lib.killtie --replay <this file>   (re-runs the scenario on the current tree, several times: the kill instant varies between runs)",
    }


def pct(xs, q):
    if not xs:
        return None
    xs = sorted(xs)
    return xs[min(len(xs) - 1, int(q * len(xs)))]


def dist(xs):
    xs = [x for x in xs if x is not None]
    return {"n": len(xs), "min": pct(xs, 0), "p10": pct(xs, 0.1), "p50": pct(xs, 0.5), "p90": pct(xs, 0.9), "max": max(xs) if xs else None}


# ---------------------------------------------------------------------------------------------------------------- stage

RULE = ("T4-kill: the real server binary built from the tree, one child process per kill; kill list = 27 (quick) / 400 (thorough) "
        "scenarios drawn from one PRNG seeded with VERIF_SEED over {random mix, unlock+trylock ping-pong on one lock, leases running "
        "out under contention, mix on a state file carrying 500-4000 holds of an earlier run} x {kill at a random instant, kill "
        "0-800 us after the n-th acknowledged grant / release, kill 1 s +-3 ms after a leased grant} + ping-pong on a state file of "
        "8000-20000 earlier holds killed 0-400 us after the driver's stat() loop saw the file change for the n-th time; evaluations = clause "
        "evaluations (pass or fail, not n/a) over all judged kills")

ASSUMPTIONS = [
    "T4-kill: the crash is SIGKILL of the server process (no power loss, no kernel crash): the image is read back from the page cache of the same running kernel; fsync durability and directory-entry durability are out of scope",
    "T4-kill: rename(2) replaces the state file atomically with respect to a reader in another process (file-system guarantee, assumed)",
    "T4-kill: acknowledgement and kill instants are CLOCK_MONOTONIC readings of one machine; 'acknowledged before the kill' = the client's reading after the response arrived is smaller than the reading taken immediately before kill(2)",
    "T4-kill shows the clauses on the kills run (counts in coverage.ties['T4-kill']); the windows between the individual file operations and between release and bookkeeping are hit by timing, not enumerated — enumeration is the job of the Msv theorems and of the T2 tie (crash images at every scheduling point)",
    "T4-kill: the stale IPC socket file a killed server leaves is removed before the restart (ldlm refuses to start while it exists, by design); the restart is judged on the state file",
    "T4-kill: a lease that ran out is treated as an unacknowledged release: the hold may go either way from (grant invocation + lease) until 1 s after (grant acknowledgement + lease), and must be gone afterwards",
]


def run_property(ctx, tier=None, only=None, repeat=1, verbose=False, jobs=None):
    """Builds the binary and the driver, runs corpus + kill list (or `only`), judges, records violations / known findings /
    coverage on ctx. Never raises."""
    try:
        return _run(ctx, tier or ctx.tier, only, repeat, verbose, jobs)
    except Exception as ex:  # noqa   (a stage must end in a verdict, never in a traceback)
        import traceback
        ctx.note("T4-kill stage crashed: %r" % (ex,))
        ctx.violation({"broken": "machinery", "stage": "T4-kill", "error": repr(ex), "traceback": traceback.format_exc()[-3000:]},
                      "the T4-kill stage crashed; nothing is shown to hold", name="t4kill_crash.json", no_failing_input=True)
        return dict(ok_build=False)


def _run(ctx, tier, only, repeat, verbose, jobs):
    cov = ctx.coverage
    tie = cov.setdefault("ties", {}).setdefault("T4-kill", {})
    for a in ASSUMPTIONS:
        if a not in ctx.assumptions:
            ctx.assumptions.append(a)
    t0 = time.time()
    srv, blog = build_server(ctx)
    if srv is None:
        ctx.note("T4-kill: the server binary does not build")
        ctx.violation({"broken": "build", "what": "go build ./cmd/server fails on the tree under test", "tree": str(vcheck.REPO), "compiler_output": blog},
                      "the tree under test does not build its server binary: nothing is shown to hold", name="t4kill_build_failed.json", no_failing_input=True)
        tie["build"] = "failed: cmd/server"
        return dict(ok_build=False)
    exe, dlog = build_driver(ctx)
    if exe is None:
        ctx.note("T4-kill: the driver does not build against this tree")
        ctx.violation({"broken": "build", "what": "harness/e2e/c09 does not compile against the tree under test (protos / store / ipc / clientlock packages)", "tree": str(vcheck.REPO), "compiler_output": dlog},
                      "the kill driver does not build against the tree: nothing is shown to hold", name="t4kill_driver_build_failed.json", no_failing_input=True)
        tie["build"] = "failed: harness/e2e/c09"
        return dict(ok_build=False)
    tie["build"] = "ok (%.1fs): cmd/server, harness/e2e/c09 with %s from %s" % (time.time() - t0, vcheck.GO, vcheck.REPO)

    if only is not None:
        scs, corpus_n = [], 0
        for i in range(repeat):
            sc = dict(only)
            sc["id"] = "replay%02d" % i
            scs.append(sc)
    else:
        corpus = corpus_scenarios()
        corpus_n = len(corpus)
        scs = corpus + scenarios(ctx.seed, tier)
    if jobs is None:
        jobs = 8 if tier == "quick" else 12
    t1 = time.time()
    results, dlog, work = run_driver(ctx, exe, srv, scs, "run", jobs)
    wall = time.time() - t1
    by_id = {o["scenario"]["id"]: o for o in results}

    judged, unjudged, failing, fover = [], [], [], []
    counts = {k: {"pass": 0, "fail": 0, "n/a": 0} for k in CLAUSES}
    for sc in scs:
        o = by_id.get(sc["id"])
        if o is None:
            unjudged.append((sc, "no result from the driver"))
            continue
        try:
            status, v, known, st = judge(o)
        except Exception as ex:  # noqa
            status, v, known, st = "unjudged:the oracle could not read the driver's record: %r" % (ex,), {}, [], {}
        if status != "judged":
            unjudged.append((sc, status[9:]))
            continue
        judged.append((o, v, st))
        for k in CLAUSES:
            counts[k]["fail" if v[k].startswith("fail") else v[k]] += 1
        fails = [k for k in CLAUSES if v[k].startswith("fail")]
        if fails:
            failing.append((o, v, fails, st))
        if known:
            fover.append((o, known, st))
        if verbose:
            print("%-24s %-9s kill@%7.1fms must %4d rel %3d either %2d entries %4d %s%s" % (
                sc["id"], sc["mode"], (o["kill_before_us"] - o["workload_start_us"]) / 1000.0, st["must"], st["released"], st["either"], st["entries"],
                "ok" if not fails else "FAIL " + "; ".join("%s: %s" % (k, v[k][6:260]) for k in fails),
                ("   [F-OVER: %s]" % known[0][:160]) if known else ""))
    if verbose:
        for sc, why in unjudged:
            print("%-24s unjudged: %s" % (sc["id"], why[:200]))

    # ---- known finding: one line per run
    if fover:
        o, known, st = fover[0]
        n_drop = sum(s["fover_dropped_acked"] for _, _, s in fover)
        text = "%s: %d of %d kill images list more holds of a lock than its size with the previous holder's release under way at the kill (first: kill %s, %s)%s" % (
            SIGNATURE, len(fover), len(judged), o["scenario"]["id"], known[0][:700],
            "; recovery then dropped an acknowledged hold in favour of the dead one in %d of them" % n_drop if n_drop else "")
        if ctx.finding_by_id("F-OVER") is not None:
            ctx.known_finding("F-OVER", text)
        else:
            ctx.violation(replay_obj(o, {"capacity": "fail: " + known[0]}, ["capacity"], st),
                          "real binary, kill %s: %s (F-OVER is not recorded as a known finding of this property)" % (o["scenario"]["id"], known[0][:400]),
                          name="t4kill_%s_capacity.json" % o["scenario"]["id"])

    # ---- verdict: one violation per distinct set of failed clauses (first = fewest calls)
    groups = {}
    for item in failing:
        groups.setdefault(tuple(item[2]), []).append(item)
    order = sorted(groups, key=lambda g: (min(len(x[0].get("ops") or []) + (x[0].get("preloaded") or 0) for x in groups[g]), g))
    for g in order[:6]:
        items = sorted(groups[g], key=lambda x: len(x[0].get("ops") or []) + (x[0].get("preloaded") or 0))
        o, v, fails, st = items[0]
        sc = o["scenario"]
        text = "real binary, kill %s (%s, %d clients, locks %s, kill %s): %s" % (
            sc["id"], sc["mode"], sc["clients"], ",".join("%s:%d" % (l["name"], l["size"]) for l in sc["locks"]), json.dumps(sc["kill"]),
            "; ".join("%s — %s" % (k, v[k][6:420]) for k in fails[:3]))
        obj = replay_obj(o, v, fails, st)
        obj["other_kills_failing_the_same_way"] = [x[0]["scenario"]["id"] for x in items[1:12]]
        obj["kills_failing_the_same_way"] = len(items)
        ctx.violation(obj, text, name="t4kill_%s_%s.json" % (sc["id"], "+".join(fails)[:60]))
    if len(order) > 6:
        ctx.note("T4-kill: %d more groups of failing kills not written out" % (len(order) - 6))
    planned = len(scs)
    if not failing and (not results or len(judged) < 0.8 * planned):
        ctx.violation({"broken": "correspondence T4-kill", "planned": planned, "judged": len(judged),
                       "unjudged": [{"scenario": sc, "why": why} for sc, why in unjudged[:8]], "driver_log": dlog[-3000:]},
                      "only %d of %d kills could be run to a verdict on this tree (first: %s): nothing is shown to hold" % (
                          len(judged), planned, (unjudged[0][1][:200] if unjudged else dlog[-200:])),
                      name="t4kill_not_run.json", no_failing_input=True)

    # ---- clean up: only the directories of failing / unjudged kills are kept
    keep = set(o["scenario"]["id"] for o, _, _, _ in failing) | set(sc["id"] for sc, _ in unjudged)
    try:
        for d in work.iterdir():
            if d.is_dir() and d.name not in keep:
                shutil.rmtree(d, ignore_errors=True)
    except OSError:
        pass

    # ---- coverage
    def shape(o):
        per = {}
        for e in (o.get("file") or {}).get("entries") or []:
            per[e["name"]] = per.get(e["name"], 0) + 1
        sz = {l["name"]: l["size"] for l in o["scenario"]["locks"]}
        return tuple(sorted((n, sz.get(n), c) for n, c in per.items()))

    modes, kinds = {}, {}
    for o, _, _ in judged:
        s = o["scenario"]
        mk = s["mode"] + ("+big-file" if (s.get("preload") or 0) >= 500 else "")
        modes[mk] = modes.get(mk, 0) + 1
        kk = s["kill"]["kind"] + (":" + s["kill"].get("ack_kind", "") if s["kill"]["kind"] == "after_ack" else "")
        if s["kill"]["kind"] != "time" and o.get("trigger_us", -1) < 0:
            kk += " (never triggered: killed at max_ms)"
        kinds[kk] = kinds.get(kk, 0) + 1
    evals = sum(c["pass"] + c["fail"] for c in counts.values())
    tie.update({
        "kills_planned": planned, "corpus": corpus_n, "kills": len(judged), "kills_failing": len(failing),
        "n_unjudged": len(unjudged), "unjudged": [{"id": sc["id"], "why": why[:200]} for sc, why in unjudged[:20]],
        "clauses": counts,
        "per_mode": modes, "per_kill_kind": kinds,
        "distinct_images": len(set(st["sha"] for _, _, st in judged if st.get("sha"))),
        "distinct_image_shapes": len(set(shape(o) for o, _, _ in judged)),
        "images_over_capacity": sum(1 for _, _, st in judged if st["over"]),
        "images_over_capacity_attributed_to_F-OVER": len(fover),
        "recoveries_that_dropped_an_acknowledged_hold_(F-OVER)": sum(st["fover_dropped_acked"] for _, _, st in judged),
        "restarts": sum(1 for o, _, _ in judged if ((o.get("restart") or {}).get("proc") or {}).get("started")),
        "acked_holds_checked": sum(st["must"] for _, _, st in judged),
        "acked_holds_checked_from_the_workload": sum(st["must"] - (o.get("preloaded") or 0) for o, _, st in judged),
        "acked_releases_checked": sum(st["released"] for _, _, st in judged),
        "expired_holds_checked": sum(st["expired"] for _, _, st in judged),
        "holds_that_may_go_either_way": sum(st["either"] for _, _, st in judged),
        "calls_without_answer_at_the_kill": sum(st["no_answer"] for _, _, st in judged),
        "file_entries_nobody_was_told_about": sum(st["unknown_entries"] for _, _, st in judged),
        "fully_restored_locks_probed": sum(len((o.get("restart") or {}).get("full_probes") or []) for o, _, _ in judged),
        "restored_holds_unlocked_with_original_key": sum(len((o.get("restart") or {}).get("unlock_probes") or []) for o, _, _ in judged),
        "requests": sum((o.get("counters") or {}).get("requests", 0) for o, _, _ in judged),
        "grants_acknowledged": sum((o.get("counters") or {}).get("grants", 0) for o, _, _ in judged),
        "releases_acknowledged": sum((o.get("counters") or {}).get("releases", 0) for o, _, _ in judged),
        "last_acknowledgement_before_kill_us": dist([st.get("last_ack_before_kill_us") for _, _, st in judged]),
        "kill_syscall_us": dist([o["kill_after_us"] - o["kill_before_us"] for o, _, _ in judged]),
        "kill_to_exit_us": dist([o["exit_us"] - o["kill_before_us"] for o, _, _ in judged if o.get("exit_us")]),
        "tmp_file_left_by_the_kill": sum(1 for o, _, _ in judged if (o.get("file") or {}).get("tmp_left")),
        "margin_us": margin_us(), "f_over_attribution_window_us": NEAR_US,
        "jobs": jobs, "wall_s": round(wall, 1), "rule": RULE,
    })
    cov["evaluations"] = cov.get("evaluations", 0) + evals
    cov["distinct_nontrivial"] = cov.get("distinct_nontrivial", 0) + tie["distinct_images"]
    cov["traces_validated_against_impl"] = cov.get("traces_validated_against_impl", 0) + len(judged)
    cov["t4kill_clause_evaluations"] = evals
    for want in ("pingpong", "expiry", "mix"):
        for o, v, st in judged:
            if o["scenario"]["mode"] == want:
                cov.setdefault("samples", []).append(short(o, v, st))
                break
    ctx.note("T4-kill: %d kills (%d corpus) in %.1fs: %d judged, %d failing, %d unjudged; %d images over capacity (%d F-OVER); %d acknowledged holds, %d acknowledged releases checked" % (
        planned, corpus_n, wall, len(judged), len(failing), len(unjudged), tie["images_over_capacity"], len(fover), tie["acked_holds_checked"], tie["acked_releases_checked"]))
    return dict(ok_build=True, judged=len(judged), failing=len(failing), unjudged=len(unjudged), judged_list=judged, fover=len(fover))


def is_kill_replay(path):
    """True iff the file is a replay written by this tie (or a corpus file of kill scenarios)."""
    try:
        r = json.loads(Path(path).read_text())
    except Exception:  # noqa
        return False
    if not isinstance(r, dict):
        return False
    sc = r.get("scenario") or ((r.get("scenarios") or [None])[0])
    return r.get("kind") == "t4-kill-scenario" or (isinstance(sc, dict) and isinstance(sc.get("kill"), dict) and "mode" in sc)


def replay(ctx, path, runs=12):
    """Re-runs the scenario of a replay file `runs` times on the current tree (the kill instant varies between runs)."""
    try:
        r = json.loads(Path(path).read_text())
    except Exception as ex:  # noqa
        print("cannot read replay file: %r" % (ex,))
        ctx.violation({"broken": "replay", "file": str(path)}, "replay file unreadable", name="replay_unreadable.json", no_failing_input=True)
        return
    sc = r.get("scenario") if isinstance(r, dict) else None
    if isinstance(r, dict) and r.get("scenarios"):
        sc = r["scenarios"][0]
    if not isinstance(sc, dict) or "kill" not in sc:
        print("the replay file holds no kill scenario (it names a build failure / a crash of the machinery):\n%s" % json.dumps(r, indent=1)[:3000])
        return
    print("replaying kill scenario on %s (%d runs; the kill instant varies between runs):\n%s" % (vcheck.REPO, runs, json.dumps(sc)))
    if r.get("failed_clauses"):
        print("recorded failure: " + json.dumps(r["failed_clauses"]))
    res = run_property(ctx, only=sc, repeat=runs, jobs=min(4, runs))
    for o, v, st in res.get("judged_list") or []:
        bad = {k: t for k, t in v.items() if t.startswith("fail")}
        print("--- run %s: %s" % (o["scenario"]["id"], "FAIL " + json.dumps(bad) if bad else "ok"))
        print("    classified: " + json.dumps(short(o, None, st)["classified"]))
        if bad:
            print("    observed: " + json.dumps(short(o)))
    return res


def main(argv):
    import argparse
    ap = argparse.ArgumentParser(prog="python3 -m lib.killtie")
    ap.add_argument("--tier", default="quick", choices=["quick", "thorough"])
    ap.add_argument("--seed", type=int, default=int(os.environ.get("VERIF_SEED", "1")))
    ap.add_argument("--replay")
    ap.add_argument("--runs", type=int, default=12)
    ap.add_argument("--jobs", type=int)
    ap.add_argument("-v", "--verbose", action="store_true")
    a = ap.parse_args(argv)
    ctx = vcheck.Ctx("C09kill", a.tier, a.seed, replay=a.replay)      # scratch /verif/.work/C09kill, replays/C09kill; no evidence file
    ctx.known_findings = [f for f in vcheck.load_known_findings() if f.get("property") == "C09"]
    if a.replay:
        replay(ctx, a.replay, runs=a.runs)
    else:
        run_property(ctx, verbose=a.verbose, jobs=a.jobs)
        t = dict(ctx.coverage["ties"].get("T4-kill", {}))
        print(json.dumps(t, indent=1))
    for fid, text in ctx.known:
        print("KNOWN-FINDING: property=C09 %s %s" % (fid, text))
    for path, text, nfi in ctx.violations:
        print("VIOLATION property=C09 replay=%s%s\n  %s" % (path, " no-failing-input-found" if nfi else "", text))
    print("C09 (T4-kill tie alone): %s  (%d violation(s), %d known finding(s), %.1fs, tier %s, seed %s, tree %s)" % (
        "FAIL" if ctx.violations else "ok", len(ctx.violations), len(ctx.known), time.time() - ctx.t0, a.tier, a.seed, vcheck.REPO))
    return 1 if ctx.violations else 0


if __name__ == "__main__":
    sys.exit(main(sys.argv[1:]))
