"""T3 — regenerate /verif/coq/Gen/*.v from the tree under test (DESIGN.md 4.3).

    from lib import gen
    ok, msg = gen.regenerate(ctx)        # ctx: lib.vcheck.Ctx or None
    info    = gen.summary(ctx)           # dict (summary.json of gen2coq) or None

regenerate() builds harness/cmd/gen2coq (cached by a hash of its sources under
.cache/gen2coq/, in a module of its own so that a broken go.mod of the tree under test
cannot stop the translator from being built), runs it on lib.vcheck.REPO and installs
Gen/ErrTables.v, Gen/Consts.v and Gen/Atomic.v (effects and lock guards of the session manager's
and the timer map's methods: the granularity of Msv/Mseq; guard lemmas in Proofs/GenAtomic.v) —
each file is written only when its content changed, so `make` stays incremental. It never raises.

ok == False means: the translator could not be built or run, or did not produce the files
(the Gen files on disk are then NOT those of the tree under test and nothing may be
concluded from them). ok == True does not mean every shape was recognised: unrecognised
shapes are recorded INSIDE the generated files (`tables_recognised := false`, ...), where
the guard lemmas of Proofs/GenChecks.v fail on them; msg lists them.
"""
import hashlib
import json
import os
import shutil
from pathlib import Path

from . import vcheck

GEN_FILES = ["ErrTables.v", "Consts.v", "Atomic.v"]
SRC = vcheck.VERIF / "harness" / "cmd" / "gen2coq"
CACHE = vcheck.VERIF / ".cache" / "gen2coq"
ERRV = vcheck.COQ / "Model" / "Err.v"


def _sources(with_tests=False):
    fs = sorted(p for p in SRC.glob("*.go") if with_tests or not p.name.endswith("_test.go"))
    return fs


def _src_hash(with_tests=False):
    h = hashlib.sha256()
    for p in _sources(with_tests):
        h.update(p.name.encode())
        h.update(p.read_bytes())
    return h.hexdigest()[:16]


def tool_dir(with_tests=False):
    """A private module containing a copy of the translator's sources. Returns its path."""
    d = CACHE / (_src_hash(with_tests) + ("-t" if with_tests else ""))
    if not (d / "go.mod").exists():
        tmp = CACHE / (".tmp-%d" % os.getpid())
        shutil.rmtree(tmp, ignore_errors=True)
        tmp.mkdir(parents=True, exist_ok=True)
        for p in _sources(with_tests):
            shutil.copy(p, tmp / p.name)
        (tmp / "go.mod").write_text("module gen2coq\n\ngo 1.26.8\n")
        try:
            os.rename(tmp, d)
        except OSError:
            shutil.rmtree(tmp, ignore_errors=True)   # somebody else created it meanwhile
    return d


def build_tool():
    """Returns (path to the gen2coq binary or None, log)."""
    try:
        with vcheck.Lock("gen2coq-build"):
            d = tool_dir()
            exe = d / "gen2coq"
            if exe.exists():
                return exe, "cached"
            rc, out = vcheck.sh([vcheck.GO, "build", "-o", str(exe), "."], cwd=d, env=vcheck.go_env(), timeout=300)
            if rc != 0 or not exe.exists():
                return None, "building gen2coq failed (rc %s):\n%s" % (rc, out[-3000:])
            return exe, "built"
    except Exception as ex:  # noqa
        return None, "building gen2coq failed: %r" % (ex,)


def out_dir(ctx=None):
    base = ctx.work if ctx is not None else vcheck.WORKROOT / "gen"
    return Path(base) / "gen-out"


def run_tool(repo, outdir, timeout=120):
    """Runs the translator on an arbitrary tree. Returns (ok, log). Used by regenerate() and by the self-tests."""
    exe, log = build_tool()
    if exe is None:
        return False, log
    outdir = Path(outdir)
    shutil.rmtree(outdir, ignore_errors=True)
    outdir.mkdir(parents=True, exist_ok=True)
    rc, out = vcheck.sh([str(exe), "-repo", str(repo), "-errv", str(ERRV), "-out", str(outdir)], timeout=timeout)
    if rc != 0 or not all((outdir / f).exists() for f in GEN_FILES):
        return False, "gen2coq failed (rc %s):\n%s" % (rc, out[-3000:])
    return True, out.strip()


def regenerate(ctx=None):
    """-> (ok, msg). See the module docstring."""
    try:
        od = out_dir(ctx)
        ok, log = run_tool(vcheck.REPO, od)
        if not ok:
            return False, log
        changed = []
        with vcheck.Lock("coq"):        # no `make` of another check is reading Gen/ while we write
            for f in GEN_FILES:
                if vcheck.write_if_changed(vcheck.COQ / "Gen" / f, (od / f).read_text()):
                    changed.append(f)
        msg = log + ("\nGen files rewritten: %s" % ", ".join(changed) if changed else "\nGen files unchanged")
        return True, msg
    except Exception as ex:  # noqa
        return False, "regenerate failed: %r" % (ex,)


def summary(ctx=None):
    """The translator's own account (tables with source positions, reasons) of the last regenerate(ctx)."""
    try:
        return json.loads((out_dir(ctx) / "summary.json").read_text())
    except Exception:  # noqa
        return None


def unrecognised(info):
    """All reasons of a summary, as 'kind: text' strings."""
    out = []
    for k in ("enum_reasons", "srv_reasons", "cli_reasons", "const_reasons", "route_reasons"):
        for r in (info or {}).get(k) or []:
            out.append("%s: %s" % (k[:-8], r))
    for r in ((info or {}).get("atomic") or {}).get("reasons") or []:
        out.append("atomic: %s" % r)
    return out


def atomic_facts(info):
    """The atomicity facts of a summary as one line per method: 'TimerMap.Remove: MapRead@WLock/1 TimerStop@WLock/1 ...'
    (effect@guard/critical section; Gen/Atomic.v holds the same as Coq data)."""
    out = []
    a = (info or {}).get("atomic") or {}
    for ty in ("session", "timermap"):
        t = a.get(ty) or {}
        for m in (t.get("methods") or []) + (t.get("callbacks") or []):
            effs = ["%s%s@%s/%d" % (e["kind"], (" " + e["callee"]) if e.get("callee") else "", e["guard"], e["section"]) for e in m.get("effects") or []]
            out.append("%s.%s: %s" % (t.get("type"), m["name"], " ".join(effs)))
    if a.get("store_write_shape"):
        out.append("store.Write: " + " ".join(a["store_write_shape"]))
    return out
