"""T1 (seq-diff) glue: builds the synctest harness against the tree under test and the
extracted-model replay driver, runs generated / corpus histories on the REAL LockServer,
replays the observed traces on Mseq, evaluates the trace oracle, shrinks failures.

Two execution modes of the same symbolic histories (harness/seqdiff/exec.go):
  direct       LockServer.Lock/TryLock/Unlock/Renew are called; the trace names the Go error VARIABLE of every failure
  via service  the requests are *pb.LockRequest etc. handed to the real grpc.Service of net/grpc (sessions through
               TagConn / HandleConn(ConnEnd) in both modes); the trace carries the response's error CODE name, and the
               driver compares model and observation modulo Gen.ErrTables.srv_code (`V service`, Extract/SeqExtract.v)
run_property splits the generated histories SVC_SHARE : 1-SVC_SHARE between the modes and runs corpus histories in both."""
import copy
import json
import time
import os
import shutil
import subprocess
from pathlib import Path

from . import vcheck
from .vcheck import VERIF, REPO, sh, go_env, Lock

SVC_SHARE = 0.30        # share of the generated histories of a run that is executed through the grpc.Service handlers
SVC_ANOMALY_PROJS = ("all", "nolast", "C03", "C07", "C11", "C12", "C13", "C14", "C18")   # projections that read error values

OVERLAYS = {
    "lock/verif_hooks.go": "lock_verif.go",
    "server/verif_hooks.go": "server_verif.go",
    "server/ipc/verif_hooks.go": "ipc_verif.go",
}


def write_overlay(ctx, extra=None):
    rep = {str(REPO / k): str(VERIF / "harness" / "overlay" / v) for k, v in OVERLAYS.items()}
    if extra:
        rep.update(extra)
    p = ctx.work / "overlay.json"
    p.write_text(json.dumps({"Replace": rep}))
    return p


def build_driver(ctx):
    """(Re)builds ocaml/seq/seqdriver when the compiled model — or the error-code table regenerated from the tree under test
    (Gen/ErrTables.vo, read by the via-service comparison) — is newer. Returns (ok, log)."""
    d = VERIF / "ocaml" / "seq"
    drv = d / "seqdriver"
    with Lock("ocaml-seq"):
        srcs = [VERIF / "coq" / "Model" / f for f in ("Seq.vo", "Track.vo", "Base.vo", "Err.vo", "SeqFile.vo")] + [VERIF / "coq" / "Gen" / "ErrTables.vo"] \
            + [d / "driver.ml", d / "build.sh", VERIF / "coq" / "Extract" / "SeqExtract.v"]
        missing = [str(s) for s in srcs if not s.exists()]
        if missing:
            return False, "missing (Coq model not built?): " + ", ".join(missing)
        if drv.exists() and all(drv.stat().st_mtime >= s.stat().st_mtime for s in srcs):
            return True, "up to date"
        with Lock("coq"):       # build.sh compiles Extract/SeqExtract.v against the .vo files: no `make` may be rewriting them
            rc, out = sh(["./build.sh"], cwd=d, timeout=600)
        return (rc == 0 and drv.exists()), out[-2000:]


def build(ctx):
    """Returns dict(ok, why, log, test_bin, driver). One build per check run (ctx): the later T1 stages of a run reuse it."""
    cached = getattr(ctx, "_seqtie_build", None)
    if cached and cached.get("ok") and Path(cached["test_bin"]).exists() and Path(cached["driver"]).exists():
        return cached
    r = _build(ctx)
    ctx._seqtie_build = r
    return r


def _build(ctx):
    ok, log = build_driver(ctx)
    if not ok:
        return dict(ok=False, why="model-driver", log=log)
    hdir = vcheck.harness_dir(ctx)
    ov = write_overlay(ctx)
    test_bin = ctx.work / "seqdiff.test"
    rc, out = vcheck.go_test_build(ctx, hdir, "./seqdiff", test_bin, overlay=ov)
    if rc != 0 or not test_bin.exists():
        return dict(ok=False, why="repo-build", log=out[-4000:])
    return dict(ok=True, test_bin=test_bin, driver=VERIF / "ocaml" / "seq" / "seqdriver", log=out[-500:])


def _run_harness(b, outdir, env_extra, timeout):
    env = dict(os.environ)
    env.update(env_extra)
    env["SEQ_OUT"] = str(outdir)
    return sh([str(b["test_bin"]), "-test.run", "TestSeq", "-test.timeout", "%ds" % timeout], cwd=outdir, env=env, timeout=timeout + 20)


def _progress(outdir):
    started, done = [], set()
    p = outdir / "progress.txt"
    if p.exists():
        for line in p.read_text().splitlines():
            f = line.split()
            if len(f) == 2 and f[0] == "S":
                started.append(f[1])
            elif len(f) == 2 and f[0] == "D":
                done.add(f[1])
    return started, done


_MODE_DIR = {"direct": "gen", "service": "svc"}


def run_generated(ctx, b, profile, n, seed, procs=8, timeout=240, segments=None, dir_prefix=None):
    """Generates and executes n histories. Returns dict(dirs=[...], crashes=[(hid, text)], stats, by_mode={mode: dict(dirs, stats, n)}).
    segments: [(mode, first index, count)] — which stream indexes run in which execution mode ("direct" | "service"); all
    segments run at the same time, the processes shared out in proportion. Default: everything direct."""
    prof_path = ctx.work / ("profile-%s.json" % ctx.prop)
    prof_path.write_text(json.dumps(profile))
    if segments is None:
        segments = [("direct", 0, n)]
    segments = [sg for sg in segments if sg[2] > 0]
    total = max(1, sum(sg[2] for sg in segments))
    jobs = []
    for mode, first0, count in segments:
        pr = max(1, int(round(procs * count / float(total))))
        per = max(1, (count + pr - 1) // pr)
        k = first0
        while k < first0 + count:
            cnt = min(per, first0 + count - k)
            outdir = ctx.work / ("%s-%d" % (dir_prefix or _MODE_DIR.get(mode, mode), k))
            shutil.rmtree(outdir, ignore_errors=True)
            outdir.mkdir(parents=True)
            jobs.append([k, cnt, outdir, mode])
            k += cnt
    crashes = []
    stats = {}
    by_mode = {}
    pending = list(jobs)
    rounds = 0
    # a tree on which histories hang (a timer re-armed with a zero period, a lost wake-up) costs one harness timeout per
    # round: stop restarting after the budget; what hung is reported (crashes), what never ran is simply not covered
    t_start = time.time()
    budget = 540 if getattr(ctx, "tier", "quick") == "quick" else 2400
    while pending and rounds < 6 and (rounds == 0 or time.time() - t_start < budget):
        rounds += 1
        procs_l = []
        for first, cnt, outdir, mode in pending:
            env = dict(os.environ)
            env.pop("SEQ_REPLAY", None)
            env.update({"SEQ_OUT": str(outdir), "SEQ_PROFILE": str(prof_path), "SEQ_N": str(cnt), "SEQ_SEED": str(seed), "SEQ_FIRST": str(first),
                        "SEQ_MODE": mode})
            p = subprocess.Popen([str(b["test_bin"]), "-test.run", "TestSeq", "-test.timeout", "%ds" % timeout], cwd=outdir, env=env,
                                 stdout=subprocess.PIPE, stderr=subprocess.STDOUT, text=True, errors="replace")
            procs_l.append((p, first, cnt, outdir, mode))
        nxt = []
        for p, first, cnt, outdir, mode in procs_l:
            try:
                out, _ = p.communicate(timeout=timeout + 30)
            except subprocess.TimeoutExpired:
                p.kill()
                out, _ = p.communicate()
                out = (out or "") + "\n[harness timeout]"
            started, done = _progress(outdir)
            if p.returncode != 0:
                bad = [h for h in started if h not in done]
                hid = bad[-1] if bad else "?"
                crashes.append((hid, out[-3000:], str(outdir)))
                # continue after the crashed history
                if bad:
                    try:
                        kk = int(hid.rsplit("-", 1)[1])
                        rest = first + cnt - (kk + 1)
                        if rest > 0:
                            nd = ctx.work / ("%s-%d" % (dir_prefix or _MODE_DIR.get(mode, mode), kk + 1))
                            shutil.rmtree(nd, ignore_errors=True)
                            nd.mkdir(parents=True)
                            nxt.append([kk + 1, rest, nd, mode])
                            jobs.append([kk + 1, rest, nd, mode])
                    except Exception:
                        pass
        pending = nxt
    for mode, _, count in segments:
        by_mode.setdefault(mode, dict(dirs=[], stats={}, n=0))["n"] += count
    for _, _, outdir, mode in jobs:
        bm = by_mode.setdefault(mode, dict(dirs=[], stats={}, n=0))
        bm["dirs"].append(outdir)
        for sp in outdir.glob("stats-*.json"):
            try:
                for k2, v in json.loads(sp.read_text()).items():
                    stats[k2] = stats.get(k2, 0) + v
                    bm["stats"][k2] = bm["stats"].get(k2, 0) + v
            except Exception:
                pass
    return dict(dirs=[j[2] for j in jobs], crashes=crashes, stats=stats, by_mode=by_mode)



def confirm_crashes(ctx, b, profile, seed, crashes, mode_of=None, dir_prefix="confirm"):
    """A harness process that died while executing a generated history is a crash of the server only if it dies AGAIN when that one
    history (same seed, same stream index: the generator is deterministic) is executed alone. -> (confirmed, unreproduced).
    Crashes without a process death (a recovered panic recorded in the trace, directory "") and crashes whose history id cannot be
    resolved are kept as they are."""
    confirmed, unrep = [], []
    for c in crashes:
        hid, text, d = c
        if not d or "-" not in str(hid) or len(confirmed) >= 2 or len(confirmed) + len(unrep) >= 6:
            # once two process deaths have reproduced, the tree does crash: the others are kept without another run each
            confirmed.append(c)
            continue
        try:
            k = int(str(hid).rsplit("-", 1)[1])
        except ValueError:
            confirmed.append(c)
            continue
        mode = (mode_of(hid) if mode_of else None) or "direct"
        try:
            g2 = run_generated(ctx, b, profile, 1, seed, procs=1, timeout=90, segments=[(mode, k, 1)], dir_prefix="%s-%s" % (dir_prefix, mode))
            again = bool(g2["crashes"])
        except Exception:  # noqa
            again = True
        (confirmed if again else unrep).append(c)
    if unrep:
        ctx.coverage.setdefault("unreproduced_harness_crashes", []).extend({"history": u[0], "output": u[1][-600:]} for u in unrep)
        ctx.note("T1: %d harness process death(s) did not reproduce when the history was executed alone (recorded in coverage, not reported): %s"
                 % (len(unrep), ", ".join(str(u[0]) for u in unrep)))
    return confirmed, unrep

def run_replay(ctx, b, histories, name="replay", timeout=120, mode=None):
    """Executes symbolic histories (list of dicts). Returns dict(dirs=[dir], crashes=[...]).
    mode None: every history in the mode its own "mode" field names (absent = direct); "direct" / "service": all of them in that mode."""
    outdir = ctx.work / name
    shutil.rmtree(outdir, ignore_errors=True)
    outdir.mkdir(parents=True)
    crashes = []
    todo = list(histories)
    part = 0
    dirs = []
    while todo and part < 50:
        d = outdir / ("p%d" % part)
        d.mkdir()
        part += 1
        f = d / "in.jsonl"
        f.write_text("\n".join(json.dumps(h) for h in todo) + "\n")
        rc, out = _run_harness(b, d, {"SEQ_REPLAY": str(f), "SEQ_MODE": mode or ""}, timeout)
        dirs.append(d)
        started, done = _progress(d)
        if rc == 0:
            break
        bad = [h for h in started if h not in done]
        hid = bad[-1] if bad else "?"
        crashes.append((hid, out[-3000:], str(d)))
        ids = [h.get("id") for h in todo]
        if hid in ids:
            todo = todo[ids.index(hid) + 1:]
        else:
            break
    return dict(dirs=dirs, crashes=crashes, stats={})


def judge(ctx, b, dirs, projections):
    """Runs the replay driver over every trace. Returns {hid: dict(R={proj: None|idx}, T=[(idx,tag)], I=[...], B=str|None, M=[lines],
    S=[(idx, what)] anomalies of responses that came through the service, W=[idx] probes failing views_ok_b (histories that boot
    on a given state file only))} plus the symbolic histories {hid: history} and concrete traces {hid: [lines]}."""
    res, hist, traces = {}, {}, {}
    for d in dirs:
        tr = d / "trace.txt"
        if not tr.exists():
            continue
        rc, out = sh([str(b["driver"]), str(tr)] + list(projections), cwd=d, timeout=900)
        (d / "verdict.txt").write_text(out)
        for line in out.splitlines():
            f = line.split()
            if len(f) < 3:
                continue
            r = res.setdefault(f[1], dict(R={}, T=[], I=[], B=None, M=[], S=[], W=[]))
            if f[0] == "R":
                r["R"][f[2]] = None if f[3] == "ok" else int(f[4])
            elif f[0] == "T":
                r["T"].append((int(f[2]), f[3]))
            elif f[0] == "I":
                r["I"].append((int(f[2]), f[3]))
            elif f[0] == "S" and len(f) >= 4:
                r["S"].append((int(f[2]), f[3]))
            elif f[0] == "W":
                r["W"].append(int(f[2]))
            elif f[0] == "B":
                r["B"] = " ".join(f[2:])
            elif f[0] == "M":
                r["M"].append(line)
        if rc != 0:
            res.setdefault("?driver", dict(R={}, T=[], I=[], B="driver failed: " + out[-500:], M=[], S=[], W=[]))
        cur = None
        for line in tr.read_text().splitlines():
            if line.startswith("H "):
                cur = line.split()[1]
                traces[cur] = []
            if cur is not None:
                traces[cur].append(line)
        hp = d / "histories.jsonl"
        if hp.exists():
            for line in hp.read_text().splitlines():
                try:
                    h = json.loads(line)
                    hist[h["id"]] = h
                except Exception:
                    pass
    return res, hist, traces


# ------------------------------------------------------------------ shrinking

def _refs_ok_after_delete(events, j):
    for e in events[j + 1:]:
        k = e.get("key")
        if k and k.get("ref", -1) == j:
            return False
        if e.get("op") == "cancel" and e.get("w") == j:
            return False
    return True


def _delete_event(events, j):
    out = []
    for i, e in enumerate(events):
        if i == j:
            continue
        e = copy.deepcopy(e)
        if i > j:
            k = e.get("key")
            if k and k.get("ref", -1) > j:
                k["ref"] -= 1
            if e.get("op") == "cancel" and e.get("w", 0) > j:
                e["w"] -= 1
        out.append(e)
    return out


def shrink(ctx, b, history, still_fails, budget=40):
    """Greedy deletion of events while still_fails(history) holds. still_fails runs the history."""
    h = copy.deepcopy(history)
    tries = 0
    changed = True
    while changed and tries < budget:
        changed = False
        j = len(h["events"]) - 1
        while j >= 0 and tries < budget:
            if j == 0 and h.get("init_file") is not None:
                break           # the first event of such a history is the boot on the given file
            if _refs_ok_after_delete(h["events"], j):
                cand = dict(h)
                cand["events"] = _delete_event(h["events"], j)
                cand["id"] = "shrink"
                tries += 1
                if still_fails(cand):
                    h = cand
                    changed = True
            j -= 1
    h["id"] = history.get("id", "h") + "-shrunk"
    return h


def failure_of(r, proj, tag_prefixes):
    """What fails for this property in one judged history r: list of strings (empty = nothing)."""
    out = []
    if r.get("B"):
        out.append("bad-trace:" + r["B"])
    if proj and r["R"].get(proj) is not None:
        out.append("mismatch@%d" % r["R"][proj])
    if proj in SVC_ANOMALY_PROJS:
        # via service: the handler failed / returned no message / echoed another name — read by the properties that read error values
        out += ["service-response:%s@%d" % (what, idx) for idx, what in r.get("S", [])]
    for idx, tag in r["T"] + r["I"]:
        if any(tag.startswith(p) for p in tag_prefixes):
            out.append("%s@%d" % (tag, idx))
    return out


def predicate_failures(r, tag_prefixes):
    return ["%s@%d" % (tag, idx) for idx, tag in r["T"] + r["I"] if any(tag.startswith(p) for p in tag_prefixes)]


def load_corpus(kind="seq"):
    hs = []
    d = VERIF / "corpus" / kind
    if d.exists():
        for f in sorted(d.glob("*.json")):
            try:
                h = json.loads(f.read_text())
                h.setdefault("id", f.stem)
                hs.append(h)
            except Exception:
                pass
    return hs


def code_classes(b):
    """The classes of error values the via-service comparison cannot tell apart, as the driver built from the regenerated
    Gen/ErrTables.v has them: -> (tables_recognised, {code name: [error value names]})."""
    rc, out = sh([str(b["driver"]), "--code-classes"], timeout=60)
    rec, cl = None, {}
    for line in out.splitlines():
        f = line.split()
        if len(f) >= 3 and f[0] == "K!":
            rec = f[2] == "1"
        elif len(f) >= 2 and f[0] == "K":
            cl[f[1]] = f[2:]
    return rec, cl


def _is_svc(hid, hist):
    h = hist.get(hid)
    if h is not None:
        return h.get("mode") == "service"
    return hid.endswith("@svc") or (hid[:1] == "s" and hid[1:2].isdigit())


def run_property(ctx, profile, n, projection, tag_prefixes, crash_is_violation=True, corpus_filter=None, seed_offset=0, svc_share=None):
    """The whole T1 stage for one property. Records violations / coverage on ctx.
    Returns dict(ok_build, mismatches, pred_failures, crashes).
    Of the n generated histories round(n * svc_share) (default SVC_SHARE) — stream indexes n_direct .. n-1 of the run's seed — are
    executed through the grpc.Service handlers, the others directly on the LockServer; every corpus history runs in both modes."""
    b = build(ctx)
    tie = ctx.coverage["ties"].setdefault("T1-seqdiff", {})
    if not b["ok"]:
        ctx.note("T1 build failed (%s)" % b["why"])
        ctx.violation({"broken": "build", "stage": b["why"], "log": b["log"]},
                      "the tree under test (or the harness against it) does not build: nothing is shown to hold",
                      name="build_failure.json", no_failing_input=True)
        tie["build"] = "failed: " + b["why"]
        return dict(ok_build=False)
    share = SVC_SHARE if svc_share is None else svc_share
    n_svc = min(n, max(0, int(round(n * share))))
    n_dir = n - n_svc
    projs = ["all", projection] if projection != "all" else ["all"]
    corpus = [h for h in load_corpus("seq") if (corpus_filter is None or corpus_filter(h))]
    results, hist, traces, crashes = {}, {}, {}, []
    judged_dirs = []          # direct mode only: what lib/coqeval re-evaluates inside Coq (Track.v as it stands)
    corpus_svc = []
    if corpus:
        rr = run_replay(ctx, b, corpus, name="corpus")
        r1, h1, t1 = judge(ctx, b, rr["dirs"], projs)
        results.update(r1); hist.update(h1); traces.update(t1); crashes += rr["crashes"]
        judged_dirs += list(rr["dirs"])
        if share > 0:
            corpus_svc = [dict(h, id=str(h.get("id")) + "@svc", mode="service") for h in corpus if h.get("mode") != "service"]
        if corpus_svc:
            rr = run_replay(ctx, b, corpus_svc, name="corpus-svc", mode="service")
            r1, h1, t1 = judge(ctx, b, rr["dirs"], projs)
            results.update(r1); hist.update(h1); traces.update(t1); crashes += rr["crashes"]
    g = run_generated(ctx, b, profile, n, ctx.seed + seed_offset, segments=[("direct", 0, n_dir), ("service", n_dir, n_svc)])
    judged_dirs += list(g["by_mode"].get("direct", {}).get("dirs", []))
    r2, h2, t2 = judge(ctx, b, g["dirs"], projs)
    gc_, _unrep = confirm_crashes(ctx, b, profile, ctx.seed + seed_offset, g["crashes"],
                                  mode_of=lambda hid_: "service" if str(hid_).startswith("s") else "direct")
    results.update(r2); hist.update(h2); traces.update(t2); crashes += gc_
    # a panic recovered inside the bubble ends the history with a `P <text>` line: the server crashed on that history, whatever
    # the (truncated) trace looks like to the model
    crashed_ids = set(c[0] for c in crashes)
    for hid, lines in traces.items():
        ptxt = _trace_panic(lines)
        if ptxt is not None and hid not in crashed_ids:
            crashes.append((hid, "panic recovered while executing the history: " + ptxt[-2500:], ""))

    def refail(hh):
        rr = run_replay(ctx, b, [hh], name="shrink")
        if rr["crashes"]:
            return True
        r3, _, _ = judge(ctx, b, rr["dirs"], projs)
        return any(failure_of(v, projection, tag_prefixes) for v in r3.values())

    n_mis, n_pred, reported = 0, 0, 0
    per = {False: dict(mis=0, pred=0, crashes=0), True: dict(mis=0, pred=0, crashes=0)}     # keyed by "via service"
    first_mismatch = None
    for hid, r in sorted(results.items()):
        fails = failure_of(r, projection, tag_prefixes)
        if not fails:
            continue
        preds = predicate_failures(r, tag_prefixes)
        per[_is_svc(hid, hist)]["pred" if preds else "mis"] += 1
        if preds:
            n_pred += 1
            if reported < 3:
                reported += 1
                h = hist.get(hid)
                shr = None
                if h is not None:
                    try:
                        shr = shrink(ctx, b, h, refail)
                    except Exception as ex:  # noqa
                        shr = None
                ctx.violation({"kind": "failing-history", "property": ctx.prop, "failed_checks": preds,
                               "executed": "through the grpc.Service handlers (error codes)" if _is_svc(hid, hist) else "directly on the LockServer",
                               "history": h, "shrunk": shr,
                               "trace": traces.get(hid), "model_says": r["M"][:20], "seed": ctx.seed,
                               "replay_cmd": "bin/check %s --replay <this file>" % ctx.prop},
                              "real trace violates %s: %s (history %s)" % (ctx.prop, ", ".join(preds[:3]), hid),
                              name="failing_%s.json" % hid)
        else:
            n_mis += 1
            if first_mismatch is None:
                first_mismatch = (hid, fails, r)
    for hid, text, d in crashes:
        per[_is_svc(hid, hist)]["crashes"] += 1
        if crash_is_violation and reported < 5:
            reported += 1
            ctx.violation({"kind": "crash", "property": ctx.prop, "history_id": hid, "history": hist.get(hid), "output": text, "dir": d},
                          "the server panicked / the harness died while executing history %s" % hid, name="crash_%s.json" % hid.replace("?", "x"))
        elif not crash_is_violation:
            n_mis += 1
    if n_mis and not n_pred and not (crashes and crash_is_violation):
        hid, fails, r = first_mismatch if first_mismatch else ("?", ["crash"], dict(M=[]))
        ctx.violation({"broken": "correspondence T1 (projection %s)" % projection, "history_id": hid, "first_difference": fails,
                       "executed": "through the grpc.Service handlers (error codes)" if _is_svc(hid, hist) else "directly on the LockServer",
                       "history": hist.get(hid), "trace": traces.get(hid), "model_says": r["M"][:20],
                       "mismatching_histories": n_mis, "mismatching_histories_direct": per[False]["mis"],
                       "mismatching_histories_via_service": per[True]["mis"]},
                      "model and implementation disagree on %d histories in the observations %s reads; no real trace violating the property was found"
                      % (n_mis, ctx.prop), name="correspondence_%s.json" % hid, no_failing_input=True)
    # coverage
    nontrivial = set()
    for hid, h in hist.items():
        ops = tuple(e["op"] for e in h["events"])
        if len(set(ops)) >= 3:
            nontrivial.add(ops)
    tie.update({"histories_executed_on_real_server": len(hist), "corpus": len(corpus), "generated": n, "replayed_on_model": len(results),
                "mismatches_in_projection": n_mis, "histories_failing_property_oracle": n_pred, "crashes": len(crashes),
                "projection": projection, "oracle_tags": list(tag_prefixes), "generator_distribution": g["stats"]})
    svc_h = sorted(h for h in hist if _is_svc(h, hist))
    svc_stats = g["by_mode"].get("service", {}).get("stats", {})
    rec, classes = code_classes(b) if svc_h else (None, {})
    codes_seen = {}
    for hid in svc_h:
        for line in traces.get(hid, []):
            f = line.split()
            if len(f) >= 3 and f[0] == "O" and f[1] in ("r", "w") and f[-1].startswith("code:"):
                codes_seen[f[-1][5:]] = codes_seen.get(f[-1][5:], 0) + 1
    tie["direct"] = {"histories_executed": len(hist) - len(svc_h), "generated": n_dir, "corpus": len(corpus),
                     "replayed_on_model": sum(1 for h in results if not _is_svc(h, hist)), "mismatches_in_projection": per[False]["mis"],
                     "histories_failing_property_oracle": per[False]["pred"], "crashes": per[False]["crashes"],
                     "generator_distribution": g["by_mode"].get("direct", {}).get("stats", {})}
    tie["via_service"] = {
        "share_of_generated": share, "generated": n_svc, "corpus": len(corpus_svc), "histories_executed_through_grpc_Service": len(svc_h),
        "replayed_on_model": sum(1 for h in results if _is_svc(h, hist)), "mismatches_in_projection": per[True]["mis"],
        "histories_failing_property_oracle": per[True]["pred"], "crashes": per[True]["crashes"],
        "generator_distribution": svc_stats, "error_responses_by_code": codes_seen,
        "requests_through_handlers": {k[3:]: v for k, v in svc_stats.items() if k in ("op:try", "op:lock", "op:unl", "op:ren")},
        "sessions_through_TagConn_HandleConn": {k[3:]: v for k, v in svc_stats.items() if k in ("op:conn", "op:disc")},
        "error_table_recognised": rec, "error_values_by_code": classes,
        "not_distinguished": sorted(" = ".join(v) for v in classes.values() if len(v) > 1),
        "rule": ("the same generator, stream indexes %d..%d of the run's seed; Lock/TryLock/Unlock/Renew are *pb requests (optional fields set exactly "
                 "when the symbolic event has them) handed to the real grpc.Service of net/grpc, a parked Lock call runs on a context derived from its "
                 "session's TagConn context; observed: locked/unlocked bit, key, error CODE name, echoed name (a different name, a handler error or "
                 "a missing message is reported as service-response:*). Model and observation are compared modulo srv_code (Gen/ErrTables.v, "
                 "regenerated from the tree under test); an oracle clause that expects a particular error value holds iff the observed code is that "
                 "value's code. Error values with one code (not_distinguished) cannot be told apart in this mode — with the unchanged tree all values "
                 "mapped to Unknown; the direct mode compares their identity. The in-Coq re-evaluation (lib/coqeval) samples direct-mode traces only."
                 % (n_dir, max(n_dir, n - 1)))}
    if svc_h:
        tie["via_service"]["sample"] = {"history_id": svc_h[0], "trace_head": traces.get(svc_h[0], [])[:14]}
    ctx.coverage["traces_validated_against_impl"] = ctx.coverage.get("traces_validated_against_impl", 0) + len(results)
    ctx.coverage["evaluations"] = ctx.coverage.get("evaluations", 0) + len(results)
    ctx.coverage["distinct_nontrivial"] = ctx.coverage.get("distinct_nontrivial", 0) + len(nontrivial)
    ctx.coverage["rule"] = ("histories generated online from one PCG stream per (seed, index) under the property's profile; executed event by event on the real "
                            "LockServer in a synctest bubble (%d%% of them through the gRPC Service handlers, see ties.T1-seqdiff.via_service); "
                            "non-trivial = at least 3 different event kinds; distinct = different event-kind sequences" % int(round(100 * share)))
    if traces and len(ctx.coverage["samples"]) < 2:
        hid = sorted(traces)[0]
        ctx.coverage["samples"].append({"history_id": hid, "trace_head": traces[hid][:14]})
    # extraction + driver vs the Gallina definitions: a sample of the judged traces is evaluated inside Coq (lib/coqeval.py)
    try:
        from . import coqeval
        coqeval.hook(ctx, "T1-seqdiff", coqeval.seq_sample, judged_dirs, projection=projection, driver=b["driver"])
    except Exception as ex:  # noqa
        ctx.note("coq/driver tie T1-seqdiff not run: %r" % (ex,))
    return dict(ok_build=True, mismatches=n_mis, pred_failures=n_pred, crashes=len(crashes))


# ------------------------------------------------------------------ T1 stage "boot on an adversarial state file"
_HX = lambda t: t.encode().hex()  # noqa

INITFILE_N = {"quick": 120, "thorough": 2500}
INITFILE_PROFILE = {
    "weights": {"conn": 5, "disc": 3, "try": 22, "lock": 6, "unl": 18, "ren": 10, "cancel": 1, "adv": 16, "restart": 4,
                "shutdown": 0, "probe": 6, "ipcl": 3, "ipcu": 4},
    "max_len": 22, "min_len": 8, "sessions": 3,
    "names": [_HX("a"), _HX("ab"), _HX("b"), _HX("a:b"), _HX("c")],
    "sizes": [None, None, 1, 2, 2, 3],
    "lts": [None, None, 0, 1, 2, 3, 5],
    "wts": [None, 0, 1, 2],
    "renew_lts": [1, 2, 3, 5],
    "advs": [0, 1, 499999999, 500000000, 999999999, 1000000000, 1000000001, 1500000000, 2000000000, 3000000000, 5000000000],
    "noclear": [False, False, True], "file": [True],
    "gc": [[1800000000000, 300000000000], [2000000000, 1000000000], [1000000000, 0]],
    "dlt": [3000000000, 1000000000, 600000000000, 500000000, 1500000000, 2000000000, 999999999, 0],
    "shards": [16, 1, 2, 0, 1000],
    "probe_every": 2, "probe_around": False, "bad_key_pct": 15, "no_sess_pct": 2, "drain": True, "sticky_size_pct": 60,
    "init_file_pct": 100,
}
INITFILE_CLASSES = {
    "a": "consistent file (control)",
    "b": "a lock listed more often than its size, inside one session's list, the surplus followed by / between entries of other names",
    "c": "entries of one name with different sizes (1 vs 2) inside one session's list",
    "d": "an entry with an invalid size (0, -1, min int32) inside one session's list",
    "e": "surplus / size mismatch spread over several sessions (outcome depends on Go's map order; the model side tries every order)",
    "f": "empty map, sessions with empty lists (alone, next to a consistent list, next to an over-listed one)",
}


def _trace_panic(lines):
    """The `P <hex>` line the executor appends when a step panicked (recovered inside the bubble), decoded; None when there is none."""
    for l in lines or []:
        if l.startswith("P "):
            try:
                return bytes.fromhex(l[2:].strip()).decode("utf-8", "replace")
            except ValueError:
                return l[2:]
        if l.startswith("B "):
            f = l.split()
            try:
                return " ".join(f[1:-1]) + " " + bytes.fromhex(f[-1]).decode("utf-8", "replace")
            except (ValueError, IndexError):
                return l[2:]
    return None


def _file_entries(h):
    return [(lk[0], lk[1]) for s_ in (h.get("init_file") or []) for lk in s_.get("locks", [])]


def _post_boot_listing(lines):
    """(name, key) pairs of the first listing of a trace (the probe that follows the boot), or None."""
    for l in lines or []:
        f = l.split()
        if len(f) >= 3 and f[0] == "O" and f[1] == "listing":
            try:
                n = int(f[2])
                return set((f[3 + 3 * i], f[4 + 3 * i]) for i in range(n))
            except (ValueError, IndexError):
                return None
    return None


def initfile_failures(r, lines, projection):
    """-> (real failures, model differences) of one judged init-file history. Real: a probe whose views disagree / exceed capacity
    (driver line W: Model/SeqFile.v views_ok_b, which reads the real observations only), a panic. Model differences: R mismatch
    under "all" or the property's projection, an unreadable trace."""
    real = ["VIEWS:listing-file-table-disagree-or-over-capacity@%d" % i for i in r.get("W", [])]
    p = _trace_panic(lines)
    if p is not None:
        real.append("PANIC:" + p[:200])
    model = []
    if r.get("B"):
        model.append("bad-trace:" + r["B"])
    for pj in dict.fromkeys(["all", projection]):
        if r["R"].get(pj) is not None:
            model.append("mismatch[%s]@%d" % (pj, r["R"][pj]))
    return real, model


def _shrink_init_file(h, still_fails, budget):
    """Greedy deletion of sessions, then of single entries, of the initial file."""
    h = copy.deepcopy(h)
    tries = 0
    i = len(h["init_file"]) - 1
    while i >= 0 and tries < budget:
        cand = copy.deepcopy(h)
        del cand["init_file"][i]
        cand["id"] = "shrink"
        tries += 1
        if still_fails(cand):
            h = cand
        i -= 1
    for si in range(len(h["init_file"]) - 1, -1, -1):
        j = len(h["init_file"][si]["locks"]) - 1
        while j >= 0 and tries < budget:
            cand = copy.deepcopy(h)
            del cand["init_file"][si]["locks"][j]
            cand["id"] = "shrink"
            tries += 1
            if still_fails(cand):
                h = cand
            j -= 1
    return h


def initfile_stage(ctx, n=None, projection="all", seed_offset=None):
    """T1 stage "boot on an adversarial state file" (Model/SeqFile.v). n histories (default by tier) are generated, each with a
    state file drawn by harness/seqdiff/gen.go InitFile (classes INITFILE_CLASSES, unique (name, key) pairs), written with the real
    store before the first boot; the history's first event is that boot, then a probe, then ordinary events. Judged by the driver
    (ocaml/seq/driver.ml, `F` line): replay on Mseq from file_state (R lines, "all" and the property's projection) and the
    model-independent views predicate on every probe (W lines). The hold tracker (T / I lines) is not run on these histories.
      W line / panic / process crash  = a REAL failing input             -> failing_<hid>.json (shrunk history as replay)
      only R mismatches               = correspondence broken            -> correspondence_<hid>.json, no_failing_input
    Returns dict(ok_build, mismatches, real_failures, crashes)."""
    tie = ctx.coverage["ties"].setdefault("T1-initfile", {})
    b = build(ctx)
    if not b["ok"]:
        tie["build"] = "failed: " + b["why"]
        if not any(v[0].endswith("build_failure.json") for v in ctx.violations):
            ctx.violation({"broken": "build", "stage": b["why"], "log": b["log"]},
                          "the tree under test (or the harness against it) does not build: nothing is shown to hold",
                          name="build_failure.json", no_failing_input=True)
        return dict(ok_build=False)
    if n is None:
        n = INITFILE_N.get(ctx.tier, INITFILE_N["quick"])
    if seed_offset is None:
        # another stream of files for every property that runs the stage (they differ in the projection only)
        digits = "".join(c for c in str(ctx.prop) if c.isdigit())
        seed_offset = 23 + 1000 * (int(digits) if digits else 0)
    projs = ["all", projection] if projection != "all" else ["all"]
    g = run_generated(ctx, b, INITFILE_PROFILE, n, ctx.seed + seed_offset, dir_prefix="initf")
    results, hist, traces = judge(ctx, b, g["dirs"], projs)
    crashes, _unrep = confirm_crashes(ctx, b, INITFILE_PROFILE, ctx.seed + seed_offset, g["crashes"], dir_prefix="initf-confirm")

    def refail_real(hh):
        rr = run_replay(ctx, b, [hh], name="shrink-initf", timeout=60)
        if rr["crashes"]:
            return True
        r3, _, t3 = judge(ctx, b, rr["dirs"], projs)
        return any(initfile_failures(v, t3.get(k_), projection)[0] for k_, v in r3.items())

    def refail_model(hh):
        rr = run_replay(ctx, b, [hh], name="shrink-initf", timeout=60)
        if rr["crashes"]:
            return False
        r3, _, t3 = judge(ctx, b, rr["dirs"], projs)
        return any(initfile_failures(v, t3.get(k_), projection)[1] for k_, v in r3.items())

    def shrunk(h, pred):
        try:
            s1 = shrink(ctx, b, h, pred, budget=60)
            s1["id"] = h["id"]
            s2 = _shrink_init_file(s1, pred, budget=20)
            s2["id"] = h["id"] + "-shrunk"
            return s2
        except Exception as ex:  # noqa
            ctx.note("initfile shrink failed: %r" % (ex,))
            return None

    n_real, n_model, reported, w_lines, first_model = 0, 0, 0, 0, None
    per_class = {}
    refused, entries, probes, boots_with_refusal, zero_lease = 0, 0, 0, 0, 0
    for hid, h in sorted(hist.items()):
        cls = h.get("init_class") or "?"
        pc = per_class.setdefault(cls, {"histories": 0, "file_entries": 0, "refused_on_real_server": 0, "mismatches": 0, "real_failures": 0})
        pc["histories"] += 1
        ents = _file_entries(h)
        pc["file_entries"] += len(ents)
        entries += len(ents)
        lines = traces.get(hid, [])
        probes += sum(1 for l in lines if l == "E probe")
        lst = _post_boot_listing(lines)
        if (h.get("cfg") or {}).get("dlt") == 0:
            zero_lease += 1         # every restored lease ends at the boot instant: the first listing cannot tell refused from expired
        elif lst is not None:
            k_ = sum(1 for e in ents if e not in lst)
            refused += k_
            pc["refused_on_real_server"] += k_
            boots_with_refusal += 1 if k_ else 0
    for hid, r in sorted(results.items()):
        if hid == "?driver":
            ctx.violation({"broken": "machinery", "what": r["B"]}, "the model replay driver failed on the init-file traces",
                          name="initfile_driver_failure.json", no_failing_input=True)
            continue
        lines = traces.get(hid, [])
        real, model = initfile_failures(r, lines, projection)
        w_lines += len(r.get("W", []))
        cls = (hist.get(hid) or {}).get("init_class") or "?"
        if real:
            n_real += 1
            per_class.setdefault(cls, {}).setdefault("real_failures", 0)
            per_class[cls]["real_failures"] += 1
            if reported < 2:
                reported += 1
                h = hist.get(hid)
                shr = shrunk(h, refail_real) if h is not None else None
                ctx.violation({"kind": "failing-history", "stage": "T1-initfile (boot on a given state file)", "property": ctx.prop,
                               "failed_checks": real, "model_differences": model, "init_class": cls,
                               "what": "after the real server booted on this state file (written with the real store), a probe shows a listing, a state "
                                       "file and a lock table that do not hold the same holds, or a lock with more keys than its size, or the server panicked",
                               "history": h, "shrunk": shr, "trace": lines, "model_says": r["M"][:20], "seed": ctx.seed,
                               "replay_cmd": "bin/check %s --replay <this file>" % ctx.prop},
                              "real server booted on a generated state file violates %s: %s (history %s, file class %s)"
                              % (ctx.prop, ", ".join(real[:3]), hid, cls), name="failing_%s.json" % hid)
        elif model:
            n_model += 1
            per_class.setdefault(cls, {}).setdefault("mismatches", 0)
            per_class[cls]["mismatches"] += 1
            if first_model is None:
                first_model = (hid, model, r)
    for hid, text, d in crashes:
        n_real += 1
        if reported < 3:
            reported += 1
            ctx.violation({"kind": "crash", "stage": "T1-initfile (boot on a given state file)", "property": ctx.prop, "history_id": hid,
                           "history": hist.get(hid), "output": text, "dir": d,
                           "note": "the harness process died while executing this history (the symbolic history of a generated run is written when it "
                                   "completes: re-run with VERIF_SEED=%s to regenerate it)" % ctx.seed},
                          "the server crashed the process while booting on / running from a generated state file (history %s)" % hid,
                          name="failing_%s.json" % hid.replace("?", "x"))
    if n_model and not n_real:
        hid, model, r = first_model
        h = hist.get(hid)
        shr = shrunk(h, refail_model) if h is not None else None
        ctx.violation({"broken": "correspondence T1-initfile (projections all, %s)" % projection, "history_id": hid, "first_difference": model,
                       "init_class": (h or {}).get("init_class"), "history": h, "shrunk": shr, "trace": traces.get(hid), "model_says": r["M"][:20],
                       "mismatching_histories": n_model,
                       "replay_cmd": "bin/check %s --replay <this file>" % ctx.prop},
                      "model (Mseq from file_state) and implementation disagree on %d histories that boot on a generated state file; no real "
                      "trace violating the views predicate was found" % n_model, name="correspondence_%s.json" % hid, no_failing_input=True)
    tie.update({"histories": len(hist), "generated": n, "replayed_on_model": len(results), "projections": projs,
                "per_class": {k_: dict(v, what=INITFILE_CLASSES.get(k_, "")) for k_, v in sorted(per_class.items())},
                "file_entries": entries, "refused_entries_observed_on_real_server": refused, "boots_with_a_refused_entry": boots_with_refusal,
                "boots_with_default_lease_0_not_counted_for_refusals": zero_lease,
                "probes_judged": probes, "mismatches": n_model, "W_failures": w_lines, "histories_with_real_failure": n_real,
                "crashes": len(crashes), "generator_distribution": g["stats"],
                "rule": ("every history: state file drawn from one PCG stream (seed %d, stream = index), written with the real store, first event = "
                         "boot (restart) + probe, then generated events; file classes: see per_class; (name, key) pairs of a file are unique; refused = "
                         "file entries absent from the listing of the first probe; judged by replay_history_from_any (Mseq from file_state, any order "
                         "of the file's sessions at the first boot) and views_failures on every probe; the hold tracker (Track.v) is not run: it follows "
                         "holds from their grants" % (ctx.seed + seed_offset))})
    ctx.coverage["traces_validated_against_impl"] = ctx.coverage.get("traces_validated_against_impl", 0) + len(results)
    ctx.coverage["evaluations"] = ctx.coverage.get("evaluations", 0) + len(results)
    if traces:
        hid = sorted(traces)[0]
        tie["sample"] = {"history_id": hid, "trace_head": [l[:600] for l in traces[hid][:8]]}
    if refused == 0 and not n_real:
        ctx.note("T1-initfile: no refused entry observed on the real server — the stage did not reach restore's refusal branches")
    try:
        from . import coqeval
        coqeval.hook(ctx, "T1-initfile", coqeval.seqfile_sample, g["dirs"], projection=projection, driver=b["driver"])
    except Exception as ex:  # noqa
        ctx.note("coq/driver tie T1-initfile not run: %r" % (ex,))
    ctx.note("T1-initfile: %d histories, %d file entries of which %d refused by the real server (%d boots), %d probes, %d model mismatches, %d real failures"
             % (len(hist), entries, refused, boots_with_refusal, probes, n_model, n_real))
    return dict(ok_build=True, mismatches=n_model, real_failures=n_real, crashes=len(crashes))


# ------------------------------------------------------------------ C07: metamorphic inertness (twin runs)
import re as _re

_UUID = _re.compile(rb"[0-9a-f]{8}-[0-9a-f]{4}-[0-9a-f]{4}-[0-9a-f]{4}-[0-9a-f]{12}")


def _canon_tok(tok, table):
    """Replaces every uuid inside a hex-encoded token by a placeholder numbered by first occurrence."""
    if len(tok) < 72 or len(tok) % 2 or not _re.fullmatch(r"[0-9a-f]+", tok):
        return tok
    try:
        raw = bytes.fromhex(tok)
    except ValueError:
        return tok

    def sub(m):
        u = m.group(0)
        if u not in table:
            table[u] = b"<U%d>" % len(table)
        return table[u]
    return _UUID.sub(sub, raw).decode("latin1")


def parse_trace_events(lines):
    """-> [(event line tokens, [output lines])] of one history (lines start at 'H ...')."""
    evs = []
    for l in lines:
        if l.startswith("E "):
            evs.append([l[2:], []])
        elif l.startswith("O ") and evs:
            evs[-1][1].append(l[2:])
    return evs


def _canon_probe_line(f):
    """Go map iteration order is unspecified: sort the sessions of a file line, the holds of a listing, the locks of a table."""
    try:
        if f[0] == "listing":
            n = int(f[1]); tr = [tuple(f[2 + 3 * i: 5 + 3 * i]) for i in range(n)]
            return "listing %d %s" % (n, " ".join(" ".join(t) for t in sorted(tr)))
        if f[0] == "file" and f[1] != "none":
            n = int(f[1]); i = 2; sess = []
            for _ in range(n):
                sid, cnt = f[i], int(f[i + 1]); i += 2
                ent = [tuple(f[i + 3 * j: i + 3 * j + 3]) for j in range(cnt)]; i += 3 * cnt
                sess.append((sid, tuple(sorted(ent))))
            return "file %d %s" % (n, " ".join("%s %d %s" % (sd, len(e), " ".join(" ".join(t) for t in e)) for sd, e in sorted(sess)))
        if f[0] == "table":
            n = int(f[1]); i = 2; locks = []
            for _ in range(n):
                name, size, last, nk = f[i], f[i + 1], f[i + 2], int(f[i + 3]); i += 4
                locks.append((name, size, last, tuple(f[i:i + nk]))); i += nk
            return "table %d %s" % (n, " ".join("%s %s %s %d %s" % (a, b_, c, len(k), " ".join(k)) for a, b_, c, k in sorted(locks)))
    except (ValueError, IndexError):
        pass
    return " ".join(f)


def canon_events(evs):
    table = {}
    wids = {}      # ids of parked calls are event indexes: rename by first occurrence
    out = []
    for e, os_ in evs:
        et = [_canon_tok(t, table) for t in e.split()]
        if et and et[0] in ("lock", "cancel") and len(et) > 1:
            et[1] = wids.setdefault(et[1], "W%d" % len(wids))
        co = []
        for o in os_:
            ot = [_canon_tok(t, table) for t in o.split()]
            if ot and ot[0] == "w" and len(ot) > 1:
                ot[1] = wids.setdefault(ot[1], "W%d" % len(wids))
            co.append(_canon_probe_line(ot))
        out.append((" ".join(et), sorted(co)))
    return out


def _failed_at_once(eline, olines):
    """An acquisition or renew request that was answered with an error at once (it never parked)."""
    op = eline.split()[0]
    if op not in ("try", "lock", "ren"):
        return False
    rs = [o for o in olines if o.startswith("r ")]
    if len(rs) != 1:
        return False
    f = rs[0].split()
    # "r lock <bit> <key> <err>"; a parked call answers "r blocked"
    return len(f) >= 5 and f[1] == "lock" and f[2] == "0" and f[-1] != "~"


def twin_stage(ctx, profile, n, seed_offset=7, max_twins=80):
    """For generated histories that contain requests which failed at once: re-execute the history WITHOUT those requests and
    compare every other observation (keys renamed by first occurrence). The property says a failed request changes nothing, so
    nothing observable later may depend on its presence. A difference is a failing real input for C07."""
    tie = ctx.coverage["ties"].setdefault("T1-twin", {})
    b = build(ctx)
    if not b["ok"]:
        tie["build"] = "failed"
        return
    g = run_generated(ctx, b, profile, n, ctx.seed + seed_offset)
    cands = []
    for d in g["dirs"]:
        tr, hp = d / "trace.txt", d / "histories.jsonl"
        if not tr.exists() or not hp.exists():
            continue
        hist = {}
        for line in hp.read_text().splitlines():
            try:
                h = json.loads(line)
                hist[h["id"]] = h
            except Exception:
                pass
        cur, buf = None, {}
        for line in tr.read_text().splitlines():
            if line.startswith("H "):
                cur = line.split()[1]
                buf[cur] = []
            elif cur:
                buf[cur].append(line)
        for hid, lines in buf.items():
            h = hist.get(hid)
            if not h:
                continue
            evs = parse_trace_events(lines)
            if len(evs) != len(h["events"]):
                continue
            failed = [i for i, (e, o) in enumerate(evs) if _failed_at_once(e, o)]
            # a deleted event must not be referenced later (failed requests return no usable key, but a KeyRef may name them)
            failed = [i for i in failed if _refs_ok_after_delete(h["events"], i)]
            if failed and len(cands) < max_twins:
                cands.append((hid, h, evs, failed))
    twins = []
    for hid, h, evs, failed in cands:
        t = copy.deepcopy(h)
        for j in sorted(failed, reverse=True):
            t["events"] = _delete_event(t["events"], j)
        t["id"] = hid + "-twin"
        twins.append(t)
    n_diff, n_cmp, removed = 0, 0, 0
    if twins:
        rr = run_replay(ctx, b, twins, name="twins")
        ttr = {}
        for d in rr["dirs"]:
            f = d / "trace.txt"
            if not f.exists():
                continue
            cur = None
            for line in f.read_text().splitlines():
                if line.startswith("H "):
                    cur = line.split()[1]
                    ttr[cur] = []
                elif cur:
                    ttr[cur].append(line)
        for hid, h, evs, failed in cands:
            tl = ttr.get(hid + "-twin")
            if tl is None:
                continue
            kept = [ev for i, ev in enumerate(evs) if i not in failed]
            a, bb = canon_events(kept), canon_events(parse_trace_events(tl))
            n_cmp += 1
            removed += len(failed)
            if a != bb:
                n_diff += 1
                first = next((i for i in range(min(len(a), len(bb))) if a[i] != bb[i]), min(len(a), len(bb)))
                if n_diff <= 2:
                    ctx.violation({"kind": "failed-request-not-inert", "property": ctx.prop, "history": h, "removed_failed_requests": failed,
                                   "twin": [t for t in twins if t["id"] == hid + "-twin"][0],
                                   "first_difference_at_kept_event": first,
                                   "with_failed_requests": a[first] if first < len(a) else None,
                                   "without_them": bb[first] if first < len(bb) else None,
                                   "removed": [evs[i] for i in failed]},
                                  "the same history with and without its failed requests %s behaves differently afterwards: a failed request is not inert (history %s)"
                                  % ([evs[i][0].split()[0] for i in failed][:4], hid), name="twin_%s.json" % hid)
    tie.update({"histories_with_failed_requests": len(cands), "twin_pairs_compared": n_cmp, "failed_requests_removed": removed,
                "pairs_differing": n_diff,
                "rule": "requests answered with an error at once (Lock/TryLock/Renew) are deleted from the history; the rest is re-executed on the real server; "
                        "all other observations (responses, listing, file, lock table incl. lastAccessed, completion instants) must be equal up to renaming of uuids"})
    ctx.coverage["evaluations"] = ctx.coverage.get("evaluations", 0) + 2 * n_cmp
