"""Shared machinery of /verif/bin/check.

Every property check (checks/cXX.py) is a function run(ctx) that uses the helpers
below and finishes with ctx.finish(), which prints KNOWN-FINDING / VIOLATION lines,
writes evidence/<id>.json and returns the exit status.

Nothing here ever raises on a broken /repo: each stage degrades into a verdict.
"""
import fcntl
import hashlib
import json
import os
import re
import shutil
import subprocess
import sys
import time
from pathlib import Path

VERIF = Path(__file__).resolve().parent.parent
REPO = Path(os.environ.get("VERIF_REPO", "/repo")).resolve()
COQ = VERIF / "coq"
WORKROOT = VERIF / ".work"
GO = "go1.26.8"

TRUSTED_BASE = [
    "Coq 8.16.1 kernel (coqc); vm_compute used, native_compute not used",
    "std++ 1.8.0 (gmap/list lemmas), Coq stdlib",
    "extraction to OCaml with ExtrOcamlBasic only (bool/option/unit/list/prod/sumbool/sumor to OCaml built-ins; andb/orb/negb/fst/snd inlined); N/Z/positive/nat/byte stay extracted inductives",
    "OCaml 4.13.1 + hand-written driver ocaml/driver.ml (parsing/printing)",
    "Go 1.26.8 toolchain compiling /repo, testing/synctest fake clock, the harness under /verif/harness",
    "hand-written Gallina models (tied to the code by the correspondence runs recorded below, not derived from it)",
]


def go_env(extra=None):
    e = dict(os.environ)
    e.update({
        "GOFLAGS": "-mod=mod", "GOPROXY": "off", "GOTOOLCHAIN": "local",
        "GOCACHE": str(VERIF / ".cache" / "gobuild"), "CGO_ENABLED": "0",
        "GONOSUMDB": "*", "GONOSUMCHECK": "1", "GOFLAGS_EXTRA": "",
    })
    e.pop("GOSUMDB", None)
    e["GOSUMDB"] = "off"
    if extra:
        e.update(extra)
    return e


def sh(cmd, cwd=None, timeout=600, env=None, stdin=None):
    """Run a command; never raises. Returns (rc, combined output). rc 124 = timeout."""
    try:
        p = subprocess.run(cmd, cwd=cwd, env=env, input=stdin, stdout=subprocess.PIPE,
                           stderr=subprocess.STDOUT, timeout=timeout, shell=isinstance(cmd, str),
                           text=True, errors="replace")
        return p.returncode, p.stdout
    except subprocess.TimeoutExpired as ex:
        out = ex.stdout or ""
        if isinstance(out, bytes):
            out = out.decode("utf-8", "replace")
        return 124, out + "\n[timeout after %ss]" % timeout
    except Exception as ex:  # noqa
        return 127, "failed to run %r: %s" % (cmd, ex)


def repo_tree_hash():
    h = hashlib.sha256()
    pats = (".go", ".mod", ".sum", ".proto", ".yaml", ".yml")
    files = []
    for root, dirs, fs in os.walk(REPO):
        dirs[:] = [d for d in dirs if d not in (".git",)]
        for f in fs:
            if f.endswith(pats):
                files.append(os.path.join(root, f))
    for f in sorted(files):
        h.update(f.encode())
        try:
            h.update(open(f, "rb").read())
        except OSError:
            pass
    return h.hexdigest()[:16]


class Lock:
    """flock-based mutual exclusion between checks running at the same time."""

    def __init__(self, name):
        WORKROOT.mkdir(exist_ok=True)
        self.path = WORKROOT / (name + ".lock")

    def __enter__(self):
        self.fh = open(self.path, "w")
        fcntl.flock(self.fh, fcntl.LOCK_EX)
        return self

    def __exit__(self, *a):
        fcntl.flock(self.fh, fcntl.LOCK_UN)
        self.fh.close()


# --------------------------------------------------------------------------- Coq

LINT_RE = re.compile(
    r"\b(Admitted|admit|Axiom|Axioms|Parameter|Parameters|Conjecture|Conjectures|Admit Obligations|"
    r"Unset Guard Checking|Unset Positivity Checking|Unset Universe Checking|bypass_check|"
    r"type-in-type|impredicative-set|native_compute)\b")


def coq_lint():
    """Returns offending 'file:line: text' strings (Variable/Hypothesis outside sections are
    checked by coq_lint_sections)."""
    bad = []
    for f in sorted(COQ.rglob("*.v")):
        depth = 0
        for i, line in enumerate(f.read_text(errors="replace").splitlines(), 1):
            code = re.sub(r"\(\*.*?\*\)", "", line)
            if re.match(r"\s*Section\b", code):
                depth += 1
            elif re.match(r"\s*End\b", code) and depth > 0:
                depth -= 1
            if LINT_RE.search(code):
                bad.append("%s:%d: %s" % (f.relative_to(VERIF), i, line.strip()))
            if depth == 0 and re.match(r"\s*(Variable|Variables|Hypothesis|Hypotheses|Context)\b", code):
                bad.append("%s:%d: %s (outside a Section)" % (f.relative_to(VERIF), i, line.strip()))
    for f in (COQ / "_CoqProject",):
        if f.exists() and re.search(r"type-in-type|impredicative-set|-vos|-vok", f.read_text()):
            bad.append("_CoqProject passes a forbidden flag")
    return bad


def write_if_changed(path, text):
    path = Path(path)
    if path.exists() and path.read_text() == text:
        return False
    path.parent.mkdir(parents=True, exist_ok=True)
    path.write_text(text)
    return True


def coq_build(targets=None, timeout=1500):
    """Full .vo build (never -vos). targets: list of .vo paths relative to coq/ or None = all.
    Returns dict(ok, failed=[files], log=str)."""
    with Lock("coq"):
        rc, out = sh(["./mk.sh"], cwd=COQ, timeout=60)
        if rc != 0:
            return dict(ok=False, failed=["mk.sh"], log=out[-4000:])
        cmd = ["make", "-k", "-j16"] + (targets or [])
        rc, out = sh(cmd, cwd=COQ, timeout=timeout)
    failed = sorted(set(re.findall(r"\*\*\* \[[^\]]*?:\s*\d+:\s*([^\]\s]+)\.vo\]", out)))
    failed += [m for m in re.findall(r'File "\./([^"]+\.v)"', out) if m[:-2] not in failed and "Error" in out]
    ok = rc == 0
    return dict(ok=ok, failed=sorted(set(failed)), log=out[-6000:])


def coq_vo_ok(rel_v):
    """True iff rel_v's .vo exists and is not older than its source."""
    v = COQ / rel_v
    vo = v.with_suffix(".vo")
    return v.exists() and vo.exists() and vo.stat().st_mtime >= v.stat().st_mtime


def coq_property_report(prop):
    """Re-runs coqc on Properties/<prop>.v (dependencies are compiled) and parses the
    'Print Assumptions' output. Returns dict(ok, theorems=[names], assumptions={name: text}, log)."""
    rel = "Properties/%s.v" % prop
    src = COQ / rel
    if not src.exists():
        return dict(ok=False, theorems=[], assumptions={}, log="missing " + rel)
    text = src.read_text()
    thms = re.findall(r"^\s*(?:Theorem|Lemma|Corollary|Example)\s+([A-Za-z0-9_']+)", text, re.M)
    with Lock("coq"):
        rc, out = sh(["coqc", "-Q", ".", "Ldlm", "-w", "-notation-overridden,-deprecated-hint-without-locality,-deprecated-instance-without-locality", rel], cwd=COQ, timeout=600)
    assumptions = {}
    printed = re.findall(r"^\s*Print Assumptions\s+([A-Za-z0-9_'.]+)\s*\.", text, re.M)
    # coqc prints one block per Print Assumptions, in order
    blocks = re.split(r"(?m)^(?=Closed under the global context|Axioms:|Section Variables:)", out)
    blocks = [b.strip() for b in blocks if b.strip().startswith(("Closed under", "Axioms:", "Section Variables:"))]
    for name, b in zip(printed, blocks):
        assumptions[name] = b
    return dict(ok=(rc == 0), theorems=thms, assumptions=assumptions, log=out[-3000:])


# ------------------------------------------------------------------ known findings

def load_known_findings():
    p = VERIF / "known_findings.json"
    try:
        return json.loads(p.read_text()).get("findings", [])
    except Exception:
        return []


# ------------------------------------------------------------------------- context

class Ctx:
    def __init__(self, prop, tier, seed, replay=None):
        self.prop = prop
        self.tier = tier
        self.seed = seed
        self.replay = replay
        self.t0 = time.time()
        self.work = WORKROOT / prop
        shutil.rmtree(self.work, ignore_errors=True)
        self.work.mkdir(parents=True, exist_ok=True)
        if not replay:
            shutil.rmtree(VERIF / "replays" / prop, ignore_errors=True)   # replay files always belong to the latest run
        self.violations = []       # (replay_path, text, no_failing_input)
        self.known = []            # (finding_id, text)
        self.level = "proof"
        self.coverage = {"obligations": 0, "discharged": 0, "checker_cmd": "", "trusted_base": list(TRUSTED_BASE),
                         "samples": [], "ties": {}}
        self.assumptions = []
        self.notes = []
        self.known_findings = [f for f in load_known_findings() if f.get("property") == prop]

    # -- reporting
    def note(self, msg):
        self.notes.append(msg)
        print("[%s %.1fs] %s" % (self.prop, time.time() - self.t0, msg), file=sys.stderr, flush=True)

    def replay_path(self, name):
        d = VERIF / "replays" / self.prop
        d.mkdir(parents=True, exist_ok=True)
        return d / name

    def violation(self, replay_obj, text, name=None, no_failing_input=False):
        """Record a violation; replay_obj (json-serialisable or str) is written to a replay file."""
        name = name or ("violation_%d.json" % (len(self.violations) + 1))
        p = self.replay_path(name)
        if isinstance(replay_obj, (dict, list)):
            p.write_text(json.dumps(replay_obj, indent=1))
        else:
            p.write_text(str(replay_obj))
        self.violations.append((str(p), text, no_failing_input))

    def known_finding(self, fid, text):
        if (fid, text) not in self.known:
            self.known.append((fid, text))

    def finding_by_id(self, fid):
        for f in self.known_findings:
            if f.get("id") == fid and f.get("kind") == "known":
                return f
        return None

    # -- the Coq stage shared by all properties
    def coq_stage(self, extra_targets=None):
        """Builds the whole development, lints it, and reports the obligations of
        Properties/<prop>.v. Returns True iff the property's theorems are checked."""
        rel = "Properties/%s.v" % self.prop
        # Gen/*.v (error-code tables, constants) always come from the tree under test: a previous run on another tree
        # (VERIF_REPO) may have left other tables behind, and a change to /repo must change what Coq checks.
        try:
            from . import gen
            gok, gmsg = gen.regenerate(self)
            self.coverage["gen_regenerated"] = bool(gok)
            if not gok:
                self.note("T3 regenerate failed: " + gmsg[-300:])
        except Exception as ex:  # noqa
            self.note("T3 regenerate crashed: %r" % (ex,))
        b = coq_build()
        lint = coq_lint()
        rep = coq_property_report(self.prop) if coq_vo_ok(rel) or (COQ / rel).exists() else dict(ok=False, theorems=[], assumptions={}, log="")
        ok = coq_vo_ok(rel) and rep["ok"] and not lint
        n = len(rep["theorems"])
        self.coverage["obligations"] = max(n, 1)
        self.coverage["discharged"] = n if ok else 0
        self.coverage["checker_cmd"] = "cd /verif/coq && ./mk.sh && make -k -j16 && coqc -Q . Ldlm %s   (+ lint: no Admitted/admit/Axiom/Parameter/...)" % rel
        self.coverage["theorems"] = rep["theorems"]
        self.coverage["assumptions_printed"] = rep["assumptions"]
        self.coverage["coq_build_ok_overall"] = b["ok"]
        if b["failed"]:
            self.coverage["coq_failed_files"] = b["failed"]
        if lint:
            self.coverage["lint_findings"] = lint[:20]
        self.coq_log = (b["log"] or "") + "\n" + (rep["log"] or "")
        self.coq_ok = ok
        self.note("coq: %s (%d theorems in %s; overall build %s)" % ("ok" if ok else "BROKEN", n, rel, "ok" if b["ok"] else "has failures: %s" % b["failed"]))
        if ok and self.tier == "thorough":
            ok = self.coqchk_stage() and ok
        return ok

    def coqchk_stage(self):
        """Thorough tier: the independent checker coqchk re-checks the compiled property module and everything it depends on, and
        prints the axioms the whole context relies on. Cached per content hash of the development (one run per tree)."""
        h = hashlib.sha256()
        for f in sorted(COQ.rglob("*.v")):
            h.update(f.name.encode()); h.update(f.read_bytes())
        cdir = VERIF / ".cache" / "coqchk"
        cdir.mkdir(parents=True, exist_ok=True)
        cf = cdir / ("%s-%s.txt" % (h.hexdigest()[:16], self.prop))
        if cf.exists():
            out, rc = cf.read_text(), 0
        else:
            with Lock("coq"):
                rc, out = sh(["coqchk", "-silent", "-o", "-Q", ".", "Ldlm", "Ldlm.Properties.%s" % self.prop], cwd=COQ, timeout=3000)
            if rc == 0:
                cf.write_text(out)
        m = re.search(r"\* Axioms:(.*?)\n\s*\n\* Constants", out, re.S)
        axioms = (m.group(1).strip() if m else "?")
        clean = rc == 0 and "<none>" in axioms and "type-in-type: <none>" in out and "unsafe (co)fixpoints: <none>" in out and "positivity is assumed: <none>" in out
        self.coverage["coqchk"] = {"cmd": "coqchk -silent -o -Q . Ldlm Ldlm.Properties.%s" % self.prop, "rc": rc, "axioms": axioms[:500], "clean": clean}
        self.note("coqchk: %s (axioms: %s)" % ("ok" if clean else "NOT CLEAN", axioms[:80]))
        if not clean:
            self.coq_log = getattr(self, "coq_log", "") + "\ncoqchk:\n" + out[-2000:]
        return clean

    def coq_broken_violation(self):
        """Called by a check when the theorem stage is broken and no failing input was found."""
        self.violation({"broken": "theorem", "property": self.prop, "file": "coq/Properties/%s.v" % self.prop,
                        "coq_failed_files": self.coverage.get("coq_failed_files"),
                        "lint": self.coverage.get("lint_findings"),
                        "log_excerpt": getattr(self, "coq_log", "")[-3000:]},
                       "proof obligations of %s no longer check" % self.prop,
                       name="broken_theorem.json", no_failing_input=True)

    # -- end
    def finish(self):
        wall = time.time() - self.t0
        for fid, text in self.known:
            print("KNOWN-FINDING: property=%s %s %s" % (self.prop, fid, text))
        for path, text, nfi in self.violations:
            print("VIOLATION property=%s replay=%s%s" % (self.prop, path, " no-failing-input-found" if nfi else ""))
            print("  " + text)
        ev = {
            "property_id": self.prop,
            "tier": self.tier,
            "seed": int(self.seed),
            "level": self.level,
            "coverage": self.coverage,
            "assumptions": self.assumptions,
            "wall_s": round(wall, 2),
            "violations": len(self.violations),
            "known_findings_reproduced": [k[0] for k in self.known],
            "repo": str(REPO),
            "repo_tree_hash": repo_tree_hash(),
            "notes": self.notes[-40:],
        }
        if not ev["coverage"].get("samples"):
            ev["coverage"]["samples"] = ["(no sample recorded)"]
        # evidence/<id>.json always describes /repo itself; a run against another tree (VERIF_REPO: seeded changes, sensitivity
        # experiments) writes its account under .work/ and leaves the committed evidence alone
        evdir = VERIF / "evidence" if REPO == Path("/repo") else WORKROOT / "evidence-other-tree"
        evdir.mkdir(parents=True, exist_ok=True)
        (evdir / (self.prop + ".json")).write_text(json.dumps(ev, indent=1, default=str))
        print("%s: %s  (%d violation(s), %d known finding(s), %.1fs, tier %s, seed %s)" % (
            self.prop, "FAIL" if self.violations else "ok", len(self.violations), len(self.known), wall, self.tier, self.seed))
        return 1 if self.violations else 0


# ------------------------------------------------------------------- Go harness

def harness_dir(ctx, extra_replace=None, name="harness"):
    """A private copy of /verif/harness whose go.mod points at the tree under test.
    extra_replace: {module path: directory} appended as replace directives (only the T2 build uses it: an instrumented
    copy of golang.org/x/sync, which lives in the module cache and cannot be overlaid); name: directory under ctx.work."""
    src = VERIF / "harness"
    dst = ctx.work / name
    if dst.exists():
        shutil.rmtree(dst)
    shutil.copytree(src, dst, ignore=shutil.ignore_patterns("*.test", "bin"))
    gomod = (src / "go.mod.tmpl").read_text().replace("@REPO@", str(REPO))
    for mod, path in sorted((extra_replace or {}).items()):
        gomod += "\nreplace %s => %s\n" % (mod, path)
    (dst / "go.mod").write_text(gomod)
    try:
        shutil.copy(REPO / "go.sum", dst / "go.sum")
    except OSError:
        pass
    return dst


def go_test_build(ctx, hdir, pkg, out, tags="verif", overlay=None, timeout=600):
    cmd = [GO, "test", "-c", "-tags", tags, "-o", str(out)]
    if overlay:
        cmd += ["-overlay", str(overlay)]
    cmd += [pkg]
    return sh(cmd, cwd=hdir, env=go_env(), timeout=timeout)


def go_build(ctx, hdir, pkg, out, tags="verif", overlay=None, timeout=600):
    cmd = [GO, "build", "-tags", tags, "-o", str(out)]
    if overlay:
        cmd += ["-overlay", str(overlay)]
    cmd += [pkg]
    return sh(cmd, cwd=hdir, env=go_env(), timeout=timeout)
