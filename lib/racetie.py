"""T5-race — the tie that checks the assumption under every interleaving model: data-race freedom.

Mlk, Msv and the REST fine model say "every real execution is an interleaving of the listed critical sections" (DESIGN.md
section 7 item 6). That is true of a Go program only if it has no data race. Nothing in the other ties looks at it: they run
the real code one critical section at a time (T2) or one event at a time (T1). This stage runs harness/racestress — the REAL
in-process stack (server.New + net.Run: gRPC, REST gateway, admin IPC socket), compiled with `-race`, under a concurrent
REAL-TIME load — and reads the race detector's reports.

  workload        per configuration one process (several in parallel): raw pb clients (TryLock, Lock with wait timeouts, Lock
                  calls abandoned after a few ms, Unlock / Renew of own holds, leases of 1 s with Unlock and Renew sent at the
                  instant they run out, failing requests of every kind), connections closed with Lock calls in flight, the
                  project's Go client with and without its renewer goroutine, REST sessions (create, lock, unlock, renew, DELETE,
                  idle expiry with a session timeout of 100-300 ms, requests abandoned by their client, three requests of one
                  session at once, many sessions overlapping, wrong password), admin IPC list / unlock, holds restored from a
                  state file with a sub-second default lease, and finally the graceful close of cmd/server/main.go
                  (PrepareShutdown, net closer, server closer) while all of that is still going on.
                  Configurations vary: state file on/off, no_clear_on_disconnect, password, shards 1 / 16, GC every 20 ms with
                  min idle 0..50 ms, log level.
  race reports    GORACE="halt_on_error=0 history_size=3 log_path=..."; every report is reduced to a SIGNATURE = the sorted
                  pair of the topmost frames inside github.com/imoore76/ldlm (generated protos/ frames only if there is no other)
                  of its two accesses, plus the set of ldlm packages on its four stacks.
  known races     /verif/known_races.json lists the signatures the detector reports on the UNCHANGED tree (genuine races of the
                  project, collected over many runs). They are reported as notes / coverage, never as violations, and suppress
                  nothing but their own signature.
  responses       the workload judges every answer locally: one JSON object / one pb message, the name that was asked, an error
                  code the request can produce, no success flag next to an error, the session cookie re-issued. A body
                  overwritten by another session's response is a failing input by itself ("anomaly").
  verdict         a signature (or anomaly class) that is not known is re-run: the same configuration up to 3 more times. Seen
                  again -> VIOLATION for every property whose packages are on its stacks (replay = both reports + configuration +
                  command). Not seen again -> coverage.ties["T5-race"].unreproduced_race_reports, no violation.
  cache           the verdict for a tree is computed once: /verif/.cache/race/<sha256 of the tree's non-test .go files, go.mod,
                  go.sum, the harness, this file, known_races.json>-<tier>-s<seed>.json. Every check of that tree reads it.

    racetie.run_property(ctx, packages=[...])   from checks/cXX.py (skips when ctx.replay)
    racetie.replay(ctx, path=None)              True iff the file is one of this tie's replays (then it was re-run)
    python3 -m lib.racetie [--tier quick|thorough] [--seed N] [--no-cache] [--packages lock,server] [-v]
    python3 -m lib.racetie --collect N          N runs at seeds seed..seed+N-1, both tiers' configurations: signature frequencies
    python3 -m lib.racetie --replay FILE [--runs N]
VERIF_REPO selects the tree.
"""
import hashlib
import json
import os
import re
import shutil
import signal
import subprocess
import sys
import time
from pathlib import Path

if __name__ == "__main__":
    sys.path.insert(0, str(Path(__file__).resolve().parent.parent))

from lib import vcheck

MODULE = "github.com/imoore76/ldlm/"
HARNESS = "ldlmverif/"
KIND = "t5-race"
CACHE = vcheck.VERIF / ".cache" / "race"
KNOWN_FILE = vcheck.VERIF / "known_races.json"
RERUNS = 3
GORACE = "halt_on_error=0 history_size=3 log_path=%s"

ASSUMPTIONS = [
    "T5-race: data-race freedom (the hypothesis under 'every execution is an interleaving of critical sections') is TESTED, not proved: the Go race detector on the real in-process stack under a concurrent real-time workload; it sees the races of the executions run (counts in coverage.ties['T5-race']); the signatures listed in known_races.json are races of the unchanged tree and are not violations",
]


# ------------------------------------------------------------------------------------------------------- configurations

def configs(tier, seed):
    """The configurations of one run. Quick: 4 processes side by side for 2.5 s; thorough: 8 for 10 s, 4 at a time."""
    dur = 2500 if tier == "quick" else 10000
    base = dict(duration_ms=dur, gc_interval_ms=20, verbose=False, preload=0)
    A = dict(base, id="A", shards=16, state_file=True, no_clear=False, password="", gc_min_idle_ms=0, default_lock_timeout_ms=400,
             rest_session_timeout_ms=200, preload=12, pb_clients=5, disc_clients=2, go_clients=2, autorenew_clients=1, rest_sessions=8, rest_idle=2, admins=1)
    B = dict(base, id="B", shards=1, state_file=False, no_clear=True, password="pw-race", gc_min_idle_ms=50, default_lock_timeout_ms=900,
             rest_session_timeout_ms=100, pb_clients=5, disc_clients=2, go_clients=2, autorenew_clients=1, rest_sessions=8, rest_idle=2, admins=1)
    C = dict(base, id="C", shards=16, state_file=True, no_clear=True, password="pw-race", gc_min_idle_ms=20, default_lock_timeout_ms=700,
             rest_session_timeout_ms=300, preload=16, verbose=True, pb_clients=4, disc_clients=2, go_clients=2, autorenew_clients=1, rest_sessions=6, rest_idle=2, admins=2)
    D = dict(base, id="D", shards=1, state_file=False, no_clear=False, password="", gc_min_idle_ms=0, default_lock_timeout_ms=500,
             rest_session_timeout_ms=150, pb_clients=3, disc_clients=1, go_clients=1, autorenew_clients=0, rest_sessions=16, rest_idle=3, admins=1)
    out = [A, B, C, D]
    if tier != "quick":
        E = dict(A, id="E", shards=1, password="pw-race", gc_min_idle_ms=50, rest_session_timeout_ms=120, default_lock_timeout_ms=250, preload=24)
        F = dict(B, id="F", shards=16, password="", gc_min_idle_ms=0, rest_session_timeout_ms=250, pb_clients=10, disc_clients=4, rest_sessions=4, rest_idle=1)
        G = dict(C, id="G", verbose=False, no_clear=False, gc_min_idle_ms=5, rest_sessions=12, rest_idle=4, pb_clients=2, go_clients=4)
        H = dict(D, id="H", shards=16, state_file=True, preload=8, no_clear=True, rest_session_timeout_ms=100, admins=3, autorenew_clients=2)
        out += [E, F, G, H]
    for i, c in enumerate(out):
        c["seed"] = int(seed) * 100 + i
    return out


def actors_of(c):
    return sum(c.get(k, 0) for k in ("pb_clients", "disc_clients", "go_clients", "autorenew_clients", "rest_sessions", "rest_idle", "admins")) + (1 if c.get("preload") else 0)


# --------------------------------------------------------------------------------------------------------- report parsing

HEAD_RE = re.compile(r"^(Previous )?(atomic )?(read|write) at (0x[0-9a-f]+) by (main goroutine|goroutine \d+):", re.I)
CREATED_RE = re.compile(r"^Goroutine (\d+) \((\w+)\) created at:")
FUNC_RE = re.compile(r"^  (\S.*?)\(\)\s*$")
FILE_RE = re.compile(r"^      (\S+):(\d+)(?: \+0x[0-9a-f]+)?\s*$")


def split_reports(text):
    out, cur = [], None
    for line in text.splitlines():
        if line.strip() == "==================":
            if cur is not None and any("WARNING: DATA RACE" in x for x in cur):
                out.append("\n".join(cur))
                cur = None
            else:
                cur = []
            continue
        if cur is not None:
            cur.append(line)
    if cur and any("WARNING: DATA RACE" in x for x in cur):      # a report cut short by the end of the process
        out.append("\n".join(cur))
    return out


def clean_func(f):
    f = re.sub(r"\[[^\]]*\]", "", f)       # generic instantiations
    return f.strip()


def parse_report(raw):
    """-> dict(accesses=[{what, frames:[{func,file,line}]}], created=[{frames}], raw)"""
    accesses, created, cur = [], [], None
    for line in raw.splitlines():
        m = HEAD_RE.match(line)
        if m:
            cur = {"what": ("previous " if m.group(1) else "") + ("atomic " if m.group(2) else "") + m.group(3).lower(), "frames": []}
            accesses.append(cur)
            continue
        m = CREATED_RE.match(line)
        if m:
            cur = {"state": m.group(2), "frames": []}
            created.append(cur)
            continue
        if cur is None:
            continue
        m = FUNC_RE.match(line)
        if m:
            cur["frames"].append({"func": clean_func(m.group(1)), "file": "", "line": 0})
            continue
        m = FILE_RE.match(line)
        if m and cur["frames"]:
            cur["frames"][-1]["file"], cur["frames"][-1]["line"] = m.group(1), int(m.group(2))
    return {"accesses": accesses[:2], "created": created[:2], "raw": raw}


def pkg_of(func):
    """'github.com/imoore76/ldlm/net/rest.(*restHandler).ServeHTTP' -> 'net/rest' (None outside the module)."""
    if not func.startswith(MODULE):
        return None
    rest = func[len(MODULE):]
    slash = rest.rfind("/", 0, rest.find("(") if "(" in rest else len(rest))
    dot = rest.find(".", slash + 1)
    return rest if dot < 0 else rest[:dot]


def short(func):
    return func[len(MODULE):] if func.startswith(MODULE) else func


def sig_frame(frames):
    """The topmost frame inside the module (a generated protos/ frame only if there is no other); outside the module: '~' + the
    topmost frame that is not the runtime's."""
    inside = [f["func"] for f in frames if f["func"].startswith(MODULE)]
    for f in inside:
        if pkg_of(f) != "protos":
            return short(f)
    if inside:
        return short(inside[0])
    for f in frames:
        fn = f["func"]
        if not (fn.startswith("runtime.") or fn.startswith("internal/") or fn.startswith("sync/atomic.")):
            return "~" + fn
    return "~?"


def signature(rep):
    acc = rep["accesses"]
    a = sig_frame(acc[0]["frames"]) if len(acc) > 0 else "~?"
    b = sig_frame(acc[1]["frames"]) if len(acc) > 1 else "~?"      # "[failed to restore the stack]"
    return sorted([a, b])


def packages(rep):
    ps = set()
    for st in rep["accesses"] + rep["created"]:
        for f in st["frames"]:
            p = pkg_of(f["func"])
            if p:
                ps.add(p)
    return sorted(ps)


def in_harness_only(rep):
    """True iff no access stack has a frame inside the module: a race of the workload's own code or of a library."""
    for st in rep["accesses"]:
        for f in st["frames"]:
            if f["func"].startswith(MODULE):
                return False
    return True


def access_tops(rep):
    out = []
    for st in rep["accesses"]:
        fr = [f for f in st["frames"] if not f["func"].startswith("runtime.")]
        if fr:
            out.append("%s %s (%s:%d)" % (st["what"], short(fr[0]["func"]), fr[0]["file"], fr[0]["line"]))
    return out


# ------------------------------------------------------------------------------------------------------------- known set

def load_known():
    try:
        return json.loads(KNOWN_FILE.read_text()).get("races", [])
    except Exception:  # noqa
        return []


def known_id(sig, known):
    for k in known:
        if sorted(k.get("signature") or []) == list(sig):
            return k.get("id") or "R-?"
    if "~?" in sig:
        # the detector could not restore one of the two stacks ("[failed to restore the stack]"): attributed to a known race
        # that has the restored frame on one side (the alternative is an alarm nobody could act on)
        other = [s for s in sig if s != "~?"]
        for k in known:
            if other and other[0] in (k.get("signature") or []):
                return (k.get("id") or "R-?") + " (one stack not restored)"
    return None


# ----------------------------------------------------------------------------------------------------------------- cache

def tree_key():
    h = hashlib.sha256()
    files = []
    for root, dirs, fs in os.walk(vcheck.REPO):
        dirs[:] = sorted(d for d in dirs if d != ".git")
        for f in fs:
            if (f.endswith(".go") and not f.endswith("_test.go")) or f in ("go.mod", "go.sum"):
                files.append(Path(root) / f)
    for f in sorted(files):
        h.update(str(f.relative_to(vcheck.REPO)).encode() + b"\0")
        try:
            h.update(f.read_bytes())
        except OSError:
            pass
        h.update(b"\0")
    mine = sorted((vcheck.VERIF / "harness" / "racestress").glob("*")) + [vcheck.VERIF / "harness" / "go.mod.tmpl", Path(__file__), KNOWN_FILE]
    for f in mine:
        h.update(f.name.encode() + b"\0")
        try:
            h.update(f.read_bytes())
        except OSError:
            pass
    return h.hexdigest()


def cache_path(key, tier, seed):
    return CACHE / ("%s-%s-s%s.json" % (key[:32], tier, seed))


# ----------------------------------------------------------------------------------------------------------------- build

def build(ctx):
    """-> (exe or None, log, seconds)"""
    t0 = time.time()
    hdir = vcheck.harness_dir(ctx, name="harness-race")
    exe = ctx.work / "racestress.test"
    env = vcheck.go_env({"CGO_ENABLED": "1"})        # the race detector's runtime needs cgo on linux
    rc, out = vcheck.sh([vcheck.GO, "test", "-race", "-c", "-o", str(exe), "./racestress"], cwd=hdir, env=env, timeout=1200)
    if rc != 0 or not exe.exists():
        return None, "go test -race -c ./racestress (rc %s):\n%s" % (rc, out[-4000:]), time.time() - t0
    return exe, "", time.time() - t0


# ------------------------------------------------------------------------------------------------------------------- run

def run_configs(ctx, exe, cfgs, tag, parallel=4):
    """Runs each configuration in its own process (own process group), `parallel` at a time.
    -> list of dict(cfg, result (the workload's account or None), reports=[raw], crash (text or None), timed_out)"""
    root = ctx.work / "race"
    root.mkdir(parents=True, exist_ok=True)
    outs = []
    pending = list(enumerate(cfgs))
    running = []

    def start(i, cfg):
        w = root / ("%s-%s-%d" % (tag, cfg["id"], i))
        shutil.rmtree(w, ignore_errors=True)
        w.mkdir(parents=True)
        c = dict(cfg, work=str(w))
        (w / "cfg.json").write_text(json.dumps(c))
        env = dict(os.environ, RACESTRESS_CFG=str(w / "cfg.json"), RACESTRESS_OUT=str(w / "out.json"), GORACE=GORACE % (w / "race"), TMPDIR=str(w))
        fe = open(w / "stderr.txt", "w")
        p = subprocess.Popen([str(exe), "-test.run", "^TestRaceStress$", "-test.timeout", "0"], cwd=str(w), stdout=fe, stderr=fe, stdin=subprocess.DEVNULL,
                             start_new_session=True, env=env)
        return dict(i=i, cfg=cfg, w=w, p=p, fe=fe, t0=time.time(), budget=cfg["duration_ms"] / 1000.0 + 30)

    def finish(r, timed_out):
        p, w = r["p"], r["w"]
        try:
            os.killpg(p.pid, signal.SIGKILL)
        except (ProcessLookupError, PermissionError):
            pass
        try:
            p.wait(timeout=10)
        except Exception:  # noqa
            pass
        r["fe"].close()
        res, crash = None, None
        try:
            res = json.loads((w / "out.json").read_text())
        except Exception:  # noqa
            res = None
        err = ""
        try:
            with open(w / "stderr.txt", "rb") as fh:
                fh.seek(0, 2)
                n = fh.tell()
                fh.seek(max(0, n - 200000))
                err = fh.read().decode("utf-8", "replace")
        except OSError:
            pass
        if res is None or not res.get("done"):
            m = re.search(r"^(panic: .*|fatal error: .*)$", err, re.M)
            if m:
                crash = err[m.start():m.start() + 3000]
            elif timed_out:
                crash = None
            else:
                crash = (res or {}).get("start_error") or ("the workload process ended without an account (rc %s): %s" % (p.returncode, err[-600:]))
        reports = []
        for f in sorted(w.glob("race.*")):
            try:
                reports += split_reports(f.read_text(errors="replace"))
            except OSError:
                pass
        outs.append(dict(i=r["i"], cfg=r["cfg"], result=res, reports=reports, crash=crash, timed_out=timed_out, rc=p.returncode, wall=time.time() - r["t0"],
                         workdir=str(w)))

    while pending or running:
        while pending and len(running) < parallel:
            i, cfg = pending.pop(0)
            try:
                running.append(start(i, cfg))
            except Exception as ex:  # noqa
                outs.append(dict(i=i, cfg=cfg, result=None, reports=[], crash="could not start the workload: %r" % (ex,), timed_out=False, rc=None, wall=0, workdir=""))
        time.sleep(0.05)
        for r in list(running):
            if r["p"].poll() is not None:
                running.remove(r)
                finish(r, False)
            elif time.time() - r["t0"] > r["budget"]:
                running.remove(r)
                finish(r, True)
    outs.sort(key=lambda o: o["i"])
    return outs


def crash_sig(text):
    first = (text or "").strip().splitlines()[0] if (text or "").strip() else "?"
    first = re.sub(r"0x[0-9a-f]+|\b[0-9a-f]{8}-[0-9a-f-]{27}\b|\d+", "#", first)
    return "crash:" + first[:120]


def digest(outs):
    """-> (races {sig tuple: entry}, anomalies {sig: entry}, totals)"""
    races, anoms = {}, {}
    tot = dict(goroutines=0, requests={}, reports=0, runs=len(outs), not_run=[])
    for o in outs:
        cid = o["cfg"]["id"]
        for raw in o["reports"]:
            rep = parse_report(raw)
            if len(rep["accesses"]) < 1:
                continue
            tot["reports"] += 1
            sig = tuple(signature(rep))
            e = races.setdefault(sig, dict(signature=list(sig), packages=set(), configs=[], count=0, report=raw, access_frames=access_tops(rep),
                                           config=o["cfg"], outside=True))
            e["packages"] |= set(packages(rep))
            e["outside"] = e["outside"] and in_harness_only(rep)
            e["count"] += 1
            if cid not in e["configs"]:
                e["configs"].append(cid)
        res = o["result"]
        if res and res.get("done"):
            tot["goroutines"] += int(res.get("goroutines") or 0)
            for k, v in (res.get("requests") or {}).items():
                tot["requests"][k] = tot["requests"].get(k, 0) + int(v)
            counts = res.get("anomaly_count") or {}
            for a in res.get("anomalies") or []:
                e = anoms.setdefault(a["sig"], dict(sig=a["sig"], packages=set(), configs=[], count=0, examples=[], config=o["cfg"]))
                e["packages"] |= set(a.get("packages") or [])
                if len(e["examples"]) < 3:
                    e["examples"].append(a)
                if cid not in e["configs"]:
                    e["configs"].append(cid)
            for s, n in counts.items():
                if s in anoms:
                    anoms[s]["count"] += int(n)
            if res.get("hung_actors"):
                s = "workload:hung-actors"
                e = anoms.setdefault(s, dict(sig=s, packages=set(["server", "net", "net/grpc", "net/rest", "lock"]), configs=[], count=0, examples=[], config=o["cfg"]))
                e["count"] += 1
                e["examples"].append({"what": "workload goroutines still inside a call 6 s after the closers returned", "actors": res["hung_actors"]})
                if cid not in e["configs"]:
                    e["configs"].append(cid)
        else:
            if o["timed_out"]:
                s, what = "workload:hang", "the workload process (stack + clients + graceful close) did not finish within %d s" % (o["cfg"]["duration_ms"] / 1000 + 30)
            elif o["crash"] and "error renewing lock" in o["crash"]:
                s, what = "known:F-STOPDROP", "the Go client's renewer panicked (recorded finding F-STOPDROP of C19)"
            elif o["crash"] and re.match(r"(panic|fatal error):", o["crash"]):
                s, what = crash_sig(o["crash"]), "the process running the real stack died"
            else:
                tot["not_run"].append({"config": cid, "why": (o["crash"] or "?")[:300]})
                continue
            e = anoms.setdefault(s, dict(sig=s, packages=set(["server", "net", "net/grpc", "net/rest", "lock", "timermap", "server/session", "server/session/store", "server/ipc", "client"]),
                                         configs=[], count=0, examples=[], config=o["cfg"]))
            e["count"] += 1
            if len(e["examples"]) < 2:
                e["examples"].append({"what": what, "output": (o["crash"] or "")[:3000]})
            if cid not in e["configs"]:
                e["configs"].append(cid)
    return races, anoms, tot


def compute(ctx, tier, seed, use_cache=True, verbose=False):
    """The verdict for the tree under test (cached). Never raises."""
    key = tree_key()
    cp = cache_path(key, tier, seed)
    if use_cache and cp.exists():
        try:
            r = json.loads(cp.read_text())
            r["from_cache"] = True
            return r
        except Exception:  # noqa
            pass
    with vcheck.Lock("race-" + key[:16]):
        if use_cache and cp.exists():      # another check of the same tree computed it while this one waited
            try:
                r = json.loads(cp.read_text())
                r["from_cache"] = True
                return r
            except Exception:  # noqa
                pass
        r = _compute(ctx, tier, seed, key, verbose)
        if r.get("build") == "ok" and use_cache:
            CACHE.mkdir(parents=True, exist_ok=True)
            tmp = cp.with_suffix(".tmp%d" % os.getpid())
            tmp.write_text(json.dumps(r, indent=1))
            os.replace(tmp, cp)
        r["from_cache"] = False
        return r


def _compute(ctx, tier, seed, key, verbose):
    t0 = time.time()
    known = load_known()
    cfgs = configs(tier, seed)
    out = dict(kind="t5-race-result", key=key, tree=str(vcheck.REPO), tier=tier, seed=int(seed), configs=cfgs, races=[], anomalies=[], not_run=[])
    exe, blog, bsec = build(ctx)
    out["build_s"] = round(bsec, 1)
    if exe is None:
        out["build"] = "failed"
        out["build_log"] = blog
        out["wall_s"] = round(time.time() - t0, 1)
        return out
    out["build"] = "ok"
    t1 = time.time()
    outs = run_configs(ctx, exe, cfgs, "run")
    # one retry for a process that could not even start its stack (port taken between the probe and the listen, …)
    redo = [o for o in outs if not (o["result"] and o["result"].get("done")) and not o["timed_out"] and not re.match(r"(panic|fatal error):", o["crash"] or "")]
    if redo:
        again = run_configs(ctx, exe, [o["cfg"] for o in redo], "retry")
        outs = [o for o in outs if o not in redo] + again
    races, anoms, tot = digest(outs)
    by_id = {c["id"]: c for c in cfgs}

    def is_new_race(e):
        return known_id(tuple(e["signature"]), known) is None and not e["outside"]

    def is_judged_anom(e):
        return not e["sig"].startswith("known:")

    pending_r = {s for s, e in races.items() if is_new_race(e)}
    pending_a = {s for s, e in anoms.items() if is_judged_anom(e)}
    confirmed_r, confirmed_a = {}, {}
    reruns = 0
    for attempt in range(RERUNS):
        todo = (pending_r - set(confirmed_r)) | (pending_a - set(confirmed_a))
        if not todo:
            break
        ids = []
        for s in todo:
            e = races[s] if s in races else anoms[s]
            for cid in e["configs"][:2]:
                if cid not in ids:
                    ids.append(cid)
        o2 = run_configs(ctx, exe, [by_id[i] for i in ids], "rerun%d" % attempt)
        reruns += len(ids)
        r2, a2, t2 = digest(o2)
        tot["reports"] += t2["reports"]
        tot["goroutines"] += t2["goroutines"]
        tot["runs"] += t2["runs"]
        for k, v in t2["requests"].items():
            tot["requests"][k] = tot["requests"].get(k, 0) + v
        for s in todo:
            if s in r2 and s in races:
                confirmed_r[s] = r2[s]
            elif s in a2 and s in anoms:
                confirmed_a[s] = a2[s]
        # whatever else shows up in a re-run is judged like a first sighting (it gets the remaining attempts)
        for s, e in r2.items():
            if s not in races:
                races[s] = e
                if is_new_race(e):
                    pending_r.add(s)
            else:
                races[s]["count"] += e["count"]
                races[s]["packages"] |= e["packages"]
        for s, e in a2.items():
            if s not in anoms:
                anoms[s] = e
                if is_judged_anom(e):
                    pending_a.add(s)
            else:
                anoms[s]["count"] += e["count"]
    for s in sorted(races):
        e = races[s]
        kid = known_id(s, known)
        status = "known" if kid else ("outside" if e["outside"] else ("new" if s in confirmed_r else "unreproduced"))
        rec = dict(signature=e["signature"], status=status, id=kid, packages=sorted(e["packages"]), configs=e["configs"], reports=e["count"],
                   access_frames=e["access_frames"], report=e["report"], config=e["config"])
        if s in confirmed_r:
            rec["second_report"] = confirmed_r[s]["report"]
            rec["second_config"] = confirmed_r[s]["config"]
        out["races"].append(rec)
    for s in sorted(anoms):
        e = anoms[s]
        status = "known-finding" if s.startswith("known:") else ("new" if s in confirmed_a else "unreproduced")
        rec = dict(sig=s, status=status, packages=sorted(e["packages"]), configs=e["configs"], count=e["count"], examples=e["examples"], config=e["config"])
        if s in confirmed_a:
            rec["second_examples"] = confirmed_a[s]["examples"]
        out["anomalies"].append(rec)
    out["not_run"] = tot["not_run"]
    out["totals"] = dict(processes=tot["runs"], reruns=reruns, race_reports=tot["reports"], goroutines=tot["goroutines"], requests=tot["requests"],
                         requests_total=sum(tot["requests"].values()))
    out["run_s"] = round(time.time() - t1, 1)
    out["wall_s"] = round(time.time() - t0, 1)
    # the work directories hold state files and logs only: the reports are in the verdict
    shutil.rmtree(ctx.work / "race", ignore_errors=True)
    return out


# -------------------------------------------------------------------------------------------------------------- reporting

def reproduce_cmd(path=None):
    return "cd /verif && VERIF_REPO=%s python3 -m lib.racetie --replay %s   [or: VERIF_REPO=... bin/check <property> --replay <file>]   (builds harness/racestress with `%s test -race -c`, runs this configuration again several times with GORACE=\"%s\" and looks for this signature)" % (
        vcheck.REPO, path or "<this file>", vcheck.GO, GORACE % "<file>")


def run_property(ctx, packages=None, tier=None):
    """Reports, for the calling property, every reproduced NEW race / anomaly whose stacks touch one of `packages`. Never raises."""
    if ctx.replay:
        return None
    try:
        return _run_property(ctx, list(packages or []), tier or ctx.tier)
    except Exception as ex:  # noqa   (a supporting stage: it must end in a verdict, never in a traceback)
        import traceback
        ctx.note("T5-race stage crashed: %r" % (ex,))
        ctx.coverage.setdefault("ties", {})["T5-race"] = {"status": "crashed", "error": repr(ex), "traceback": traceback.format_exc()[-2000:]}
        return None


def _run_property(ctx, pkgs, tier):
    t0 = time.time()
    for a in ASSUMPTIONS:
        if a not in ctx.assumptions:
            ctx.assumptions.append(a)
    r = compute(ctx, tier, ctx.seed)
    tie = ctx.coverage.setdefault("ties", {}).setdefault("T5-race", {})
    if r.get("build") != "ok":
        # the tree (or this harness against the tree) does not compile with -race: the ties that own the property say so;
        # this stage only records that it could not look
        tie.update({"status": "not run: harness/racestress does not build against this tree", "build_log": (r.get("build_log") or "")[-1500:]})
        ctx.note("T5-race: not run (harness/racestress does not build against this tree)")
        return r
    want = set(pkgs)
    known = [x for x in r["races"] if x["status"] == "known"]
    new = [x for x in r["races"] if x["status"] == "new"]
    unrep = [x for x in r["races"] if x["status"] == "unreproduced"]
    outside = [x for x in r["races"] if x["status"] == "outside"]
    anew = [x for x in r["anomalies"] if x["status"] == "new"]
    aunrep = [x for x in r["anomalies"] if x["status"] == "unreproduced"]
    mine = [x for x in new if want & set(x["packages"])]
    amine = [x for x in anew if want & set(x["packages"])]
    tot = r.get("totals") or {}
    tie.update({
        "configs": [{k: c[k] for k in ("id", "shards", "state_file", "no_clear", "password", "gc_interval_ms", "gc_min_idle_ms", "default_lock_timeout_ms",
                                       "rest_session_timeout_ms", "duration_ms", "verbose", "seed")} for c in r["configs"]],
        "goroutines": tot.get("goroutines"), "actors_per_config": [actors_of(c) for c in r["configs"]],
        "requests": tot.get("requests"), "requests_total": tot.get("requests_total"),
        "processes": tot.get("processes"), "reruns": tot.get("reruns"),
        "wall": r.get("wall_s"), "build_s": r.get("build_s"), "run_s": r.get("run_s"), "from_cache": bool(r.get("from_cache")),
        "races_seen": len(r["races"]), "race_reports": tot.get("race_reports"),
        "known": [{"id": x["id"], "signature": x["signature"], "reports": x["reports"]} for x in known],
        "new": [{"signature": x["signature"], "packages": x["packages"], "reported_here": bool(want & set(x["packages"]))} for x in new],
        "anomalies_new": [{"sig": x["sig"], "count": x["count"], "reported_here": bool(want & set(x["packages"]))} for x in anew],
        "unreproduced_race_reports": [{"signature": x["signature"], "packages": x["packages"], "report": x["report"]} for x in unrep] +
                                     [{"anomaly": x["sig"], "count": x["count"], "examples": x["examples"][:2]} for x in aunrep],
        "outside_ldlm": [{"signature": x["signature"], "report": x["report"][:1500]} for x in outside],
        "known_findings_seen": [x["sig"] for x in r["anomalies"] if x["status"] == "known-finding"],
        "not_run": r.get("not_run"), "packages_of_this_property": pkgs, "cache_key": r.get("key", "")[:32],
        "rule": "a signature / anomaly class that is not in known_races.json is a violation only if a re-run of the same configuration (up to %d) shows it again" % RERUNS,
    })
    # a known race is a recorded finding of the property that owns the racing field (known_findings.json); the check of that property says so
    for x in known:
        fid = {"R-LASTACCESSED": "F-RACE-LASTACCESSED"}.get(x["id"])
        if fid and ctx.finding_by_id(fid):
            ctx.known_finding(fid, "data race reproduced on the real stack (race detector, %s report(s)): %s <-> %s — lastAccessed is written under the shard's read lock "
                                   "by concurrent Unlocks of one lock name (signature %s of known_races.json)" % (x["reports"], x["signature"][0], x["signature"][1], x["id"]))
    for i, x in enumerate(mine, 1):
        p = ctx.replay_path("race_%d.json" % i)
        obj = dict(kind=KIND, what="data race", property=ctx.prop, signature=x["signature"], packages=x["packages"], access_frames=x["access_frames"],
                   report=x["report"], second_report=x.get("second_report"), config=x["config"], second_config=x.get("second_config"),
                   seen_in_configs=x["configs"], reports=x["reports"], seed=r["seed"], tier=r["tier"], tree=r["tree"], reproduce=reproduce_cmd(p))
        ctx.violation(obj, "data race on the real stack (race detector, reproduced in a second run of configuration %s): %s  <->  %s; packages on the stacks: %s. "
                           "The interleaving models assume race freedom: no theorem about %s says anything about this tree" % (
                               ",".join(x["configs"]), x["access_frames"][0] if x["access_frames"] else x["signature"][0],
                               x["access_frames"][1] if len(x["access_frames"]) > 1 else x["signature"][1], ", ".join(x["packages"]), ctx.prop),
                      name="race_%d.json" % i)
    for i, x in enumerate(amine, 1):
        p = ctx.replay_path("race_anomaly_%d.json" % i)
        ex = (x["examples"] or [{}])[0]
        obj = dict(kind=KIND, what="anomaly", property=ctx.prop, anomaly=x["sig"], packages=x["packages"], examples=x["examples"], second_examples=x.get("second_examples"),
                   count=x["count"], config=x["config"], seen_in_configs=x["configs"], seed=r["seed"], tier=r["tier"], tree=r["tree"], reproduce=reproduce_cmd(p))
        ctx.violation(obj, "real stack under concurrent load (configuration %s, seen in two runs, %d times): %s — %s; request %s; response %s" % (
            ",".join(x["configs"]), x["count"], x["sig"], str(ex.get("what", ""))[:300], str(ex.get("request", ""))[:200], str(ex.get("response", ex.get("output", "")))[:400]),
                      name="race_anomaly_%d.json" % i)
    ctx.coverage["traces_validated_against_impl"] = ctx.coverage.get("traces_validated_against_impl", 0) + int(tot.get("processes") or 0)
    ctx.note("T5-race: %s%d processes, %d workload goroutines, %d requests in %.1fs: %d race signatures (%d known%s, %d new, %d unreproduced, %d outside ldlm), %d new anomaly classes; "
             "%d race(s) + %d anomaly class(es) concern %s [%.1fs]" % (
                 "(cached) " if r.get("from_cache") else "", tot.get("processes") or 0, tot.get("goroutines") or 0, tot.get("requests_total") or 0, r.get("wall_s") or 0,
                 len(r["races"]), len(known), (": " + ", ".join(x["id"] for x in known)) if known else "", len(new), len(unrep), len(outside), len(anew),
                 len(mine), len(amine), ",".join(pkgs), time.time() - t0))
    return r


def stage(ctx, inner, packages):
    """What the two lines at the end of every checks/cXX.py call: `inner` is the property's own run(ctx). A replay file of this
    tie is re-run here; any other replay goes to the property's own stages; a normal run ends with this tie's verdict for the
    property's packages (whichever return path `inner` took)."""
    if ctx.replay and replay(ctx):
        return None
    r = inner(ctx)
    run_property(ctx, packages=packages)
    return r


# ----------------------------------------------------------------------------------------------------------------- replay

def replay(ctx, path=None, runs=4):
    """True iff `path` (default ctx.replay) is a replay file of this tie; then its configuration was run again `runs` times and
    the outcome printed (a violation is recorded when the signature shows up again)."""
    path = path or getattr(ctx, "replay", None)
    if not path:
        return False
    try:
        r = json.loads(Path(path).read_text())
    except Exception:  # noqa
        return False
    if not isinstance(r, dict) or r.get("kind") != KIND:
        return False
    cfg = r.get("config")
    if not isinstance(cfg, dict):
        print("the replay file holds no configuration:\n%s" % json.dumps(r, indent=1)[:2000])
        return True
    want = tuple(r.get("signature") or []) if r.get("what") == "data race" else r.get("anomaly")
    print("T5-race replay on %s: configuration %s (seed %s), %d runs, looking for %s" % (vcheck.REPO, cfg.get("id"), cfg.get("seed"), runs, want))
    exe, blog, _ = build(ctx)
    if exe is None:
        print("harness/racestress does not build against this tree:\n" + blog[-3000:])
        ctx.violation({"broken": "build", "compiler_output": blog}, "the race workload does not build against this tree", name="race_replay_build_failed.json", no_failing_input=True)
        return True
    outs = run_configs(ctx, exe, [dict(cfg) for _ in range(runs)], "replay")
    hits, seen_other = 0, {}
    first = None
    for o in outs:
        races, anoms, _ = digest([o])
        hit = (want in races) if isinstance(want, tuple) else (want in anoms)
        hits += 1 if hit else 0
        if hit and first is None:
            first = races[want]["report"] if isinstance(want, tuple) else anoms[want]["examples"]
        for s in list(races) + list(anoms):
            seen_other[str(s)] = seen_other.get(str(s), 0) + 1
        print("--- run %d: %s (%d race reports, %s)" % (o["i"], "SEEN AGAIN" if hit else "not seen", len(o["reports"]),
                                                      "workload finished" if o["result"] and o["result"].get("done") else "workload did NOT finish: %s" % (o["crash"] or "timeout")[:200]))
    print("signature seen in %d of %d runs; everything seen: %s" % (hits, runs, json.dumps(seen_other, indent=1)))
    if hits:
        print(first if isinstance(first, str) else json.dumps(first, indent=1)[:3000])
        ctx.violation(dict(r, replayed_hits=hits, replayed_runs=runs, replayed_report=first), "replayed: %s seen again in %d of %d runs" % (want, hits, runs), name="replayed_race.json")
    shutil.rmtree(ctx.work / "race", ignore_errors=True)
    return True


# ------------------------------------------------------------------------------------------------------------------- main

def collect(ctx, n, seed, verbose):
    """Development tool: N runs (alternating tiers' configurations at quick duration) -> frequency of every signature."""
    exe, blog, bsec = build(ctx)
    if exe is None:
        print(blog)
        return 2
    print("build %.1fs" % bsec)
    freq, afreq, info = {}, {}, {}
    for k in range(n):
        cfgs = configs("thorough" if k % 2 else "quick", seed + k)
        for c in cfgs:
            c["duration_ms"] = 2500 if k % 4 != 3 else 6000
        t = time.time()
        outs = run_configs(ctx, exe, cfgs, "collect%d" % k, parallel=4)
        races, anoms, tot = digest(outs)
        for s, e in races.items():
            freq[s] = freq.get(s, 0) + 1
            info.setdefault(s, e)
        for s, e in anoms.items():
            afreq[s] = afreq.get(s, 0) + 1
            info.setdefault(s, e)
        print("run %d (seed %d, %d configs, %.1fs): %d reports, %d requests, races %s, anomalies %s, not run %s" % (
            k, seed + k, len(cfgs), time.time() - t, tot["reports"], sum(tot["requests"].values()), [list(s) for s in races], list(anoms), tot["not_run"]), flush=True)
    print("\n=== signature frequencies over %d runs" % n)
    for s, c in sorted(freq.items(), key=lambda x: -x[1]):
        e = info[s]
        print("%3d/%d  %s  packages %s outside=%s\n%s\n" % (c, n, list(s), sorted(e["packages"]), e["outside"], e["report"] if verbose else "\n".join(e["access_frames"])))
    for s, c in sorted(afreq.items(), key=lambda x: -x[1]):
        print("%3d/%d  anomaly %s\n%s\n" % (c, n, s, json.dumps(info[s]["examples"][:2], indent=1)[:3000]))
    shutil.rmtree(ctx.work / "race", ignore_errors=True)
    return 0


def main(argv):
    import argparse
    ap = argparse.ArgumentParser(prog="python3 -m lib.racetie")
    ap.add_argument("--tier", default="quick", choices=["quick", "thorough"])
    ap.add_argument("--seed", type=int, default=int(os.environ.get("VERIF_SEED", "1")))
    ap.add_argument("--packages", default="lock,timermap,server,server/session,server/session/store,server/ipc,net,net/grpc,net/rest,net/security,client,log,server/clientlock")
    ap.add_argument("--no-cache", action="store_true")
    ap.add_argument("--collect", type=int, default=0)
    ap.add_argument("--replay")
    ap.add_argument("--runs", type=int, default=4)
    ap.add_argument("--work", default="T5race", help="scratch name under /verif/.work (one per concurrent invocation)")
    ap.add_argument("-v", "--verbose", action="store_true")
    a = ap.parse_args(argv)
    ctx = vcheck.Ctx(a.work, a.tier, a.seed, replay=a.replay)       # scratch /verif/.work/T5race, replays/T5race; no evidence file
    if a.replay:
        if not replay(ctx, a.replay, runs=a.runs):
            print("not a replay file of the T5-race tie: %s" % a.replay)
            return 2
    elif a.collect:
        return collect(ctx, a.collect, a.seed, a.verbose)
    else:
        if a.no_cache:
            try:
                cache_path(tree_key(), a.tier, a.seed).unlink()
            except OSError:
                pass
        r = run_property(ctx, packages=[p for p in a.packages.split(",") if p])
        t = dict(ctx.coverage["ties"].get("T5-race", {}))
        if not a.verbose:
            t.pop("configs", None)
        print(json.dumps(t, indent=1))
        if a.verbose and r:
            for x in r.get("races", []):
                print("\n%s %s %s\n%s" % (x["status"], x.get("id") or "", x["signature"], x["report"]))
    for path, text, nfi in ctx.violations:
        print("VIOLATION property=T5-race replay=%s%s\n  %s" % (path, " no-failing-input-found" if nfi else "", text))
    print("T5-race tie alone: %s  (%d violation(s), %.1fs, tier %s, seed %s, tree %s)" % (
        "FAIL" if ctx.violations else "ok", len(ctx.violations), time.time() - ctx.t0, a.tier, a.seed, vcheck.REPO))
    return 1 if ctx.violations else 0


if __name__ == "__main__":
    sys.exit(main(sys.argv[1:]))
