"""T2 (sched-diff) glue, layer 1: the REAL lock.Manager driven one critical section at a time along schedules chosen by
the extracted model Mlk (coq/Model/Lk.v).

  build(ctx)            model driver (ocaml/lk/lkdriver), instrumented copies of lock/*.go and x/sync/semaphore
                        (lib/instrument.py, table harness/sched/anchors.json), harness test binary against vcheck.REPO
  gen_schedules(...)    lkdriver gen: DFS over the MODEL's enabled items, preemption bounded, forced wake items inserted
  run_schedules(...)    harness/sched in child processes (a hang / fatal error is recorded against the running schedule)
  check_observed(...)   lkdriver check: first differing item per schedule + ghost facts (LaGiveBack = F-LIN2 signature)
  trace_predicates(...) lkdriver trace: the trace predicates of coq/Model/LkTrace.v (extracted Gallina, PROVED to hold of every
                        reachable trace of Mlk: Proofs/LkTraceP.v) evaluated on the REAL call/return history of every schedule;
                        a false predicate is a violation of the property it belongs to, exactly like a Python oracle failure
  oracle_C01/02/03/13   the properties' own oracles, written from the property texts, evaluated on the REAL traces
  gen_exhibits(...)     EXHIBIT schedules: a schedule of the comparison run with asynchronous items (context end of that thread,
                        GC pass, tick) put where a thread went through a WINDOW yield point (W labels: a call has just returned,
                        only thread-local work follows until the next model step); run with the windows parking; oracle on the
                        real trace, and the model (it has the same items there) is compared as well
  additional acquisitions  every mutex acquisition found by text carries a site yield (anchors.json "acquisitions"); one that does not
                        belong to the model step the thread is in is a window W<Recv.Func>#<n>; when such windows (or shape sentinels)
                        were seen, every schedule is run again with them parking until the thread's next `run` item (ids "x:...")
  run_property(ctx, prop, scenarios=None, tier=None)

    python3 -m lib.schedtie [--tier quick|thorough] [--prop C02] [--seed N] [--scenario id,...] [--replay file.json]
    (smoke run: builds, runs, prints a summary; VERIF_REPO selects the tree under test)
"""
import json
import os
import random
import shutil
import subprocess
import sys
import time
from pathlib import Path

from . import vcheck, instrument
from .vcheck import VERIF, REPO, sh, Lock

LK = VERIF / "ocaml" / "lk"
# VERIF_T2_ANCHORS: another yield-point table (experiments only: e.g. a table with one anchor broken, to see what a tree on which
# a model label cannot be placed ends in)
ANCHORS = Path(os.environ.get("VERIF_T2_ANCHORS") or (VERIF / "harness" / "sched" / "anchors.json"))
SCENARIO_FILE = VERIF / "harness" / "sched" / "scenarios" / "lk.json"
MODEL_LABELS = ["PEnter", "PGet", "PChkDel", "PTryAcq", "PAcqEnter", "PAcqWoken", "PAcqCancel", "PRelCancel", "PAddKey",
                "PUnlChk", "PUnlRem", "PDone"]
# labels at which a request has looked its lock object up (getLock returned it) and has not yet called done()
USING = {"PChkDel", "PTryAcq", "PAcqEnter", "PAcqWoken", "PAcqCancel", "PRelCancel", "PAddKey", "PUnlChk", "PUnlRem", "PDone",
         "WGetRet", "WAcqRet", "WTryAcqRet", "XUnlRelease"}
GC_ITEMS = ("gcpass", "gcstart", "gcrun")
GC_TID0 = 90     # thread ids of the GC passes started by "gcstart" items (harness/sched/exec.go)
# what each property reads of a model/implementation difference (DESIGN 4.6)
# difference kinds of `lkdriver check`: label (parked at another yield point), blocked (blocked in Acquire on one side only), bit, err,
# table, crash; plus hang / fatal of the harness. A difference in labels alone is recorded in the coverage, it raises no alarm.
PROJ = {"C01": {"bit", "table", "crash", "hang", "fatal"}, "C02": {"bit", "table", "crash", "hang", "fatal"},
        "C03": {"bit", "err", "blocked", "crash", "hang", "fatal"}, "C13": {"bit", "table", "crash", "hang", "fatal"}}


T2_ASSUMPTIONS = [
    "T2: yield points sit immediately before the critical sections named in Model/Lk.v; code between two yield points touches shared state "
    "only under the mutex / atomic of that section (data-race freedom => every real execution is an interleaving of these sections)",
    "T2: a lockGc pass runs in a goroutine of its own with a yield point before every shard.Lock()/RLock(): one 'gcrun' item = the "
    "critical section of ONE shard = IGc of every mapped name of that shard (FNV-1 32 of the name mod the shard count); the other "
    "threads' steps interleave between the shards; scenarios with 1, 2 and 16 shards",
    "T2: every mutex acquisition found by text in lock/manager.go, lock/lock.go and x/sync semaphore.go is checked at run time against "
    "the acquisitions the model's step comprises (anchors.json acquisitions.allowed); an additional one is exhibited with the other "
    "threads' steps scheduled in front of it; critical sections that take no mutex found by text (atomics, channels) are not seen this way",
    "T2 exhibit runs: at a window yield point (after sw.Acquire / sw.TryAcquire / getLock returned) the thread does only thread-local "
    "work until its next model step, so an asynchronous item put there is the same model item one step earlier or later; the "
    "exhibit runs put context ends, GC passes and ticks there and judge the REAL trace",
    "T2: the manager's own GC ticker never fires (interval 10^6 h); GC passes, ticks, context ends and shutdown are schedule items",
    "T2: shutdown's final lockGc(0) collects nothing on a clock that did not advance since the last access; the model's final pass "
    "(min-idle -1) assumes it did: the harness advances the fake clock by 1 ns before calling the closer",
    "T2: getLock's local size check belongs to the model's PGet step: the PGet yield point is the first statement of getLock",
]


def hx(s):
    return s.encode().hex() if s else "-"


def unhx(s):
    return "" if s in ("-", "") else bytes.fromhex(s).decode("utf-8", "replace")


# ------------------------------------------------------------------------------------------------------------ build

def build_driver(ctx):
    drv = LK / "lkdriver"
    with Lock("ocaml-lk"):
        srcs = [VERIF / "coq" / "Model" / f for f in ("Lk.vo", "Base.vo", "Err.vo", "LkTrace.vo")] + [LK / "driver.ml", VERIF / "coq" / "Extract" / "LkExtract.v"]
        missing = [str(s) for s in srcs if not s.exists()]
        if missing:
            return False, "missing (Coq model not built?): " + ", ".join(missing)
        if drv.exists() and all(drv.stat().st_mtime >= s.stat().st_mtime for s in srcs):
            return True, "up to date"
        with Lock("coq"):
            rc, out = sh(["./build.sh"], cwd=LK, timeout=900)
        return (rc == 0 and drv.exists()), out[-2000:]


def build(ctx):
    """-> dict(ok, why, log, test_bin, driver, instr). Cached on ctx."""
    b = getattr(ctx, "_t2_build", None)
    if b is not None:
        return b
    ok, log = build_driver(ctx)
    if not ok:
        b = dict(ok=False, why="model-driver", log=log, instr=None)
        ctx._t2_build = b
        return b
    work = ctx.work / "t2"
    work.mkdir(parents=True, exist_ok=True)
    try:
        ins = instrument.instrument(ANCHORS, work, REPO)
    except Exception as ex:  # noqa
        ins = dict(overlay={}, replaces={}, placed=[], missing=[dict(id="*", label="*", file="*", why="instrumenter failed: %r" % ex)], sentinels=[], log=[])
    ov = work / "overlay.json"
    ov.write_text(json.dumps({"Replace": ins["overlay"]}))
    # which mutex acquisitions belong to which model step (everything else the harness meets is an additional acquisition)
    try:
        acq = json.loads(ANCHORS.read_text()).get("acquisitions") or {}
    except Exception:
        acq = {}
    (work / "acq_table.json").write_text(json.dumps(acq.get("allowed") or {}))
    ins["acq_concerns"] = acq.get("concerns") or {}
    hdir = vcheck.harness_dir(ctx, extra_replace=ins["replaces"], name="harness-t2")
    test_bin = work / "sched.test"
    rc, out = vcheck.go_test_build(ctx, hdir, "./sched", test_bin, overlay=ov, timeout=600)
    if rc != 0 or not test_bin.exists():
        b = dict(ok=False, why="repo-build", log=out[-4000:], instr=ins)
    else:
        b = dict(ok=True, test_bin=test_bin, driver=LK / "lkdriver", instr=ins, log=out[-500:], work=work)
    ctx._t2_build = b
    return b


# -------------------------------------------------------------------------------------------------------- scenarios

def load_scenarios(prop=None, ids=None):
    try:
        scs = json.loads(SCENARIO_FILE.read_text())["scenarios"]
    except Exception:
        return []
    if ids:
        scs = [s for s in scs if s["id"] in ids]
    elif prop:
        scs = [s for s in scs if prop in s.get("props", [])]
    return scs


def scenario_text(sc, tier, bound=None, sample=None):
    q = 0 if tier == "quick" else 1
    L = ["scenario %s" % sc["id"], "minidle %d" % sc.get("minidle", 0),
         "bound %d" % (bound if bound is not None else sc.get("bound", [2, 3])[q])]
    if int(sc.get("shards", 1)) != 1:
        L.append("shards %d" % int(sc["shards"]))
    for t, op, name, key, size in sc.get("setup", []):
        L.append("setup %d %s %s %s %d" % (t, op, hx(name), hx(key), size))
    for t, op, name, key, size, deps in sc.get("calls", []):
        L.append("call %d %s %s %s %d%s" % (t, op, hx(name), hx(key), size, (" after " + " ".join(map(str, deps))) if deps else ""))
    for t, e in sc.get("cancel", []):
        L.append("cancel %d %s" % (t, e))
    if sc.get("gc"):
        L.append("gc %d" % sc["gc"])
    if sc.get("tick"):
        L.append("tick %d %d" % tuple(sc["tick"]))
    if sc.get("shutdown"):
        L.append("shutdown")
    L.append("sample %d" % (sample if sample is not None else sc.get("sample", [12, 0])[q]))
    L.append("cap %d" % sc.get("cap", [20000, 60000])[q])
    L.append("end")
    return "\n".join(L) + "\n"


def gen_schedules(ctx, b, scenarios, tier, seed, name="gen"):
    """-> (path of the schedule file, {scenario id: dict(enumerated, printed, capped, bound)}, log)"""
    d = b["work"] / name
    shutil.rmtree(d, ignore_errors=True)
    d.mkdir(parents=True)
    sf = d / "scenarios.txt"
    sf.write_text("".join(scenario_text(s, tier) for s in scenarios))
    out = d / "schedules.txt"
    with open(out, "w") as fh:
        try:
            p = subprocess.run([str(b["driver"]), "gen", str(sf), str(int(seed))], stdout=fh, stderr=subprocess.PIPE, timeout=600, text=True)
            rc, err = p.returncode, p.stderr
        except subprocess.TimeoutExpired:
            rc, err = 124, "lkdriver gen: timeout"
        except Exception as ex:  # noqa
            rc, err = 127, repr(ex)
    stats = {}
    for line in out.read_text().splitlines():
        if line.startswith("Q "):
            f = line.split()
            stats[f[1]] = dict(enumerated=int(f[3]), printed=int(f[5]), capped=int(f[7]), bound=int(f[9]))
    return out, stats, ("" if rc == 0 else "lkdriver gen rc=%s %s" % (rc, err[-500:]))


def corpus_schedules():
    """corpus/sched/*.json: {"id", "minidle", "items": ["call 1 try a k1 1", "run 1", ...], "props": [...]} (names/keys plain)."""
    out = []
    d = VERIF / "corpus" / "sched"
    if d.exists():
        for f in sorted(d.glob("*.json")):
            try:
                c = json.loads(f.read_text())
                c.setdefault("id", f.stem)
                out.append(c)
            except Exception:
                pass
    return out


def corpus_text(c):
    """A corpus / replay entry in the schedule file format."""
    L = ["S %s" % c["id"], "C %d" % int(c.get("minidle", 0)), "H %d" % int(c.get("shards", 1))]
    for k, it in enumerate(c.get("items", [])):
        f = it.split()
        if f[0] == "call" and len(f) >= 6 and not c.get("hex"):
            f[3], f[4] = hx(f[3]), hx(f[4])
        L.append("I %d %s" % (k, " ".join(f)))
    L.append("Z")
    return "\n".join(L) + "\n"


# ---------------------------------------------------------------------------------------------------------- running

def split_blocks(text):
    blocks, cur = [], None
    for line in text.splitlines():
        if line.startswith("S "):
            cur = [line]
            blocks.append(cur)
        elif cur is not None:
            cur.append(line)
            if line == "Z":
                cur = None
    return blocks


def _progress(outdir):
    started, done, hang = [], set(), None
    p = outdir / "progress.txt"
    if p.exists():
        for line in p.read_text().splitlines():
            f = line.split(None, 1)
            if len(f) == 2 and f[0] == "S":
                started.append(f[1])
            elif len(f) == 2 and f[0] == "D":
                done.add(f[1])
            elif len(f) == 2 and f[0] == "H":
                hang = f[1]
    return started, done, hang


def xpark_mode(xpark):
    """SCHED_XPARK of harness/sched: "0" comparison run (W and X labels transparent), "w" exhibit run (W labels park, X transparent),
    "1" W and X labels park."""
    if xpark in ("0", "w", "1"):
        return xpark
    return "1" if xpark else "0"


def run_schedules(ctx, b, sched_file, name="run", procs=8, timeout=300, watchdog_ms=2000, xpark=True, max_failures_per_job=3):
    """Executes every schedule of sched_file on the real code. -> dict(dirs, failures=[dict(sid, kind=hang|fatal, k, text)])"""
    blocks = split_blocks(Path(sched_file).read_text())
    root = b["work"] / name
    shutil.rmtree(root, ignore_errors=True)
    root.mkdir(parents=True)
    n = len(blocks)
    procs = max(1, min(procs, (n + 7) // 8))
    jobs = []
    for i in range(procs):
        part = blocks[i::procs]
        if not part:
            continue
        d = root / ("p%d" % i)
        d.mkdir()
        (d / "in.txt").write_text("\n".join("\n".join(bl) for bl in part) + "\n")
        jobs.append(dict(dir=d, ids=[bl[0].split()[1] for bl in part], skip=0))
    failures = []
    abandoned = 0
    pending = list(jobs)
    rounds = 0
    t_end = time.time() + timeout
    while pending and rounds < 40 and time.time() < t_end:
        rounds += 1
        running = []
        for j in pending:
            env = dict(os.environ)
            env.update({"SCHED_IN": str(j["dir"] / "in.txt"), "SCHED_OUT": str(j["dir"]), "SCHED_SKIP": str(j["skip"]),
                        "SCHED_WATCHDOG_MS": str(watchdog_ms), "SCHED_XPARK": xpark_mode(xpark),
                        "SCHED_ACQ_TABLE": str(b["work"] / "acq_table.json")})
            p = subprocess.Popen([str(b["test_bin"]), "-test.run", "TestSched", "-test.timeout", "%ds" % timeout], cwd=j["dir"], env=env,
                                 stdout=subprocess.PIPE, stderr=subprocess.STDOUT, text=True, errors="replace")
            running.append((p, j))
        nxt = []
        for p, j in running:
            try:
                out, _ = p.communicate(timeout=max(5, t_end - time.time()) + 20)
            except subprocess.TimeoutExpired:
                p.kill()
                out, _ = p.communicate()
                out = (out or "") + "\n[harness timeout]"
            if p.returncode == 0:
                continue
            started, done, hang = _progress(j["dir"])
            bad = [s for s in started if s not in done]
            sid = bad[-1] if bad else None
            if sid is None:
                failures.append(dict(sid="?", kind="fatal", k=-1, text=(out or "")[-3000:]))
                continue
            if hang and hang.split()[0] == sid:
                hf = hang.split(None, 2)
                failures.append(dict(sid=sid, kind="hang", k=int(hf[1]) if len(hf) > 1 and hf[1].lstrip("-").isdigit() else -1,
                                     text="no progress for %d ms at: %s" % (watchdog_ms, hang)))
            else:
                failures.append(dict(sid=sid, kind="fatal", k=-1, text=(out or "")[-3000:]))
            # forget the H line, continue after the failed schedule
            pf = j["dir"] / "progress.txt"
            pf.write_text("".join(l + "\n" for l in pf.read_text().splitlines() if not l.startswith("H ")) + "D %s\n" % sid)
            j["fails"] = j.get("fails", 0) + 1
            if sid in j["ids"]:
                j["skip"] = j["ids"].index(sid) + 1
                if j["skip"] < len(j["ids"]):
                    if j["fails"] < max_failures_per_job:
                        nxt.append(j)
                    else:
                        abandoned += len(j["ids"]) - j["skip"]
        pending = nxt
    return dict(dirs=[j["dir"] for j in jobs], failures=failures, schedules=n, abandoned=abandoned)


class Run:
    """One schedule as executed on the real code."""

    def __init__(self, sid):
        self.sid = sid
        self.minidle = 0
        self.shards = 1
        self.passages = []   # (k, tid, window label): thread tid went through a transparent window yield point during item k
        self.exhibit = None  # exhibit runs: dict(base, label, kind, at)
        self.items = []      # (k, [tokens])
        self.blocks = []     # (k, {tid: status tuple}, {name: (size, [keys])}, crashed)
        self.notes = []
        self.epi = []        # (idx, kind, [fields])
        self.epi_tabs = []   # (idx, name, size, [keys])
        self.complete = False
        self.raw = []

    def scenario(self):
        return self.sid.split("#")[0]


def parse_observed(path):
    try:
        text = Path(path).read_text()
    except OSError:
        return {}
    return parse_observed_text(text)


def parse_model_traces(dirs):
    """The MODEL's own run of every schedule, as `lkdriver check` rendered it in the harness's format (M lines of verdict.txt):
    expected observation after every item + the epilogue's calls made on the model. -> {sid: Run}"""
    out = {}
    for d in dirs:
        try:
            text = (Path(d) / "verdict.txt").read_text()
        except OSError:
            continue
        out.update(parse_observed_text("\n".join(l[2:] for l in text.splitlines() if l.startswith("M "))))
    return out


def parse_observed_text(text):
    runs, cur, blk = {}, None, None
    for line in text.splitlines():
        f = line.split()
        if not f:
            continue
        if f[0] == "S" and len(f) >= 2:
            cur = Run(f[1])
            runs[f[1]] = cur
            blk = None
            cur.raw.append(line)
            continue
        if cur is None:
            continue
        cur.raw.append(line)
        try:
            if f[0] == "C":
                cur.minidle = int(f[1])
            elif f[0] == "H":
                cur.shards = int(f[1])
            elif f[0] == "Y":
                cur.passages.append((int(f[1]), int(f[2]), f[3]))
            elif f[0] == "I":
                cur.items.append((int(f[1]), f[2:]))
                blk = None
            elif f[0] == "X":
                blk = (int(f[1]), {}, {}, [False])
                cur.blocks.append(blk)
            elif f[0] == "T" and blk is not None:
                blk[1][int(f[1])] = tuple(f[2:])
            elif f[0] == "L" and blk is not None:
                blk[2][unhx(f[1])] = (int(f[2]), [unhx(k) for k in f[4:]])
            elif f[0] == "K" and blk is not None:
                blk[3][0] = f[1] == "1"
            elif f[0] == "N":
                cur.notes.append((int(f[1]), " ".join(f[2:])))
            elif f[0] == "E":
                if f[2] == "tab":
                    cur.epi_tabs.append((int(f[1]), unhx(f[3]), int(f[4]), [unhx(k) for k in f[6:]]))
                else:
                    cur.epi.append((int(f[1]), f[2], f[3:]))
            elif f[0] == "Z":
                cur.complete = True
                cur = None
        except (ValueError, IndexError):
            pass
    return runs


def check_observed(ctx, b, dirs):
    """lkdriver check over every observed.txt -> {sid: dict(ok, first=(k, kind)|None, diffs=[(k, kind, who, text)], giveback, ghost=[lines])}"""
    res = {}
    for d in dirs:
        ob = d / "observed.txt"
        if not ob.exists():
            continue
        rc, out = sh([str(b["driver"]), "check", str(ob)], cwd=d, timeout=600)
        (d / "verdict.txt").write_text(out)
        for line in out.splitlines():
            f = line.split()
            if len(f) < 3:
                continue
            if f[0] == "R":
                r = res.setdefault(f[1], dict(ok=True, first=None, diffs=[], giveback=False, model_crashed=False, ghost=[], bad=None))
                if f[2] == "diff":
                    r["ok"] = False
                    r["first"] = (int(f[3]), f[4])
            elif f[0] == "D":
                r = res.setdefault(f[1], dict(ok=True, first=None, diffs=[], giveback=False, model_crashed=False, ghost=[], bad=None))
                r["diffs"].append((int(f[2]), f[3], f[4], " ".join(f[5:])))
            elif f[0] == "G":
                r = res.setdefault(f[1], dict(ok=True, first=None, diffs=[], giveback=False, model_crashed=False, ghost=[], bad=None))
                if f[2] == "giveback":
                    r["giveback"] = f[3] == "1"
                elif f[2] == "crashed":
                    r["model_crashed"] = f[3] == "1"
                else:
                    r["ghost"].append(" ".join(f[2:]))
            elif f[0] == "B":
                r = res.setdefault(f[1], dict(ok=True, first=None, diffs=[], giveback=False, model_crashed=False, ghost=[], bad=None))
                r["bad"] = " ".join(f[2:])
    return res


# ------------------------------------------------------------------------- the extracted Coq trace predicates

# predicate of Model/LkTrace.v -> (property it belongs to, theorem of Proofs/LkTraceP.v that proves it of every model trace)
TRACE_PREDS = {"wf": ("C02", "mlk_satisfies_p_wellformed"), "c01": ("C01", "mlk_satisfies_p_c01"), "once": ("C02", "mlk_satisfies_p_c02_once"),
               "fail": ("C02", "mlk_satisfies_p_c02_fail_consumes_nothing"), "giveup": ("C03", "mlk_satisfies_p_c03_giveup")}
TRACE_PRED_TEXT = {"wf": "p_wellformed: a response without exactly one earlier invocation of that call, or a call that answered twice",
                   "c01": "p_c01: more live holds (granted, Unlock not yet invoked) of one lock than the size the granted request named",
                   "once": "p_c02_once: a key unlocked successfully twice, or a key that was never granted unlocked successfully",
                   "fail": "p_c02_fail_consumes_nothing: the key of a failed / refused acquisition unlocked successfully",
                   "giveup": "p_c03_giveup: a Lock that returned an error answered again, or its key unlocked successfully"}


def trace_predicates(ctx, b, dirs):
    """lkdriver trace over every observed.txt -> {sid: dict(events, fresh, verdict={pred: None | (prefix length, index)}, holds, hist)}.
    fresh: None when the history satisfies the model's key assumption (p_fresh), else the offending position: the schedule is then
    outside what the theorems speak about and its verdicts are only counted."""
    res = {}
    for d in dirs:
        ob = d / "observed.txt"
        if not ob.exists():
            continue
        rc, out = sh([str(b["driver"]), "trace", str(ob)], cwd=d, timeout=300)
        (d / "trace_verdict.txt").write_text(out)
        for line in out.splitlines():
            f = line.split()
            if len(f) < 3 or f[0] not in ("P", "PL", "PH", "PB"):
                continue
            r = res.setdefault(f[1], dict(events=0, fresh=None, verdict={}, holds="", hist="", bad=None))
            try:
                if f[0] == "P":
                    r["events"] = int(f[2])
                    for kv in f[3:]:
                        k, v = kv.split("=", 1)
                        val = None if v == "-" else tuple(int(x) for x in v.split("@"))
                        if k == "fresh":
                            r["fresh"] = val
                        else:
                            r["verdict"][k] = val
                elif f[0] == "PL":
                    r["holds"] = " ".join(f[4:])
                elif f[0] == "PH":
                    r["hist"] = " ".join(f[2:])
                elif f[0] == "PB":
                    r["bad"] = " ".join(f[2:])
            except (ValueError, IndexError):
                r["bad"] = "unreadable verdict line: " + line[:200]
    return res


def lk_trace_sample(ctx, dirs, k=None, runs=None, xdirs=()):
    """Extraction + driver vs the Gallina definitions, for the trace predicates (same idea as lib/coqeval.py): on a seeded sample of
    the real histories `lk_trace_verdict` (Model/LkTrace.v) is evaluated INSIDE Coq (Eval vm_compute) on the history as THIS file
    reads it off observed.txt (history(run): the reading the Python oracles use) and compared with what `lkdriver trace` printed
    (extracted code on the history as the OCaml driver reads it). Schedules on which a predicate is false are sampled first."""
    from . import coqeval as cq
    miss = cq.models_built(["Model/Base.v", "Model/Err.v", "Model/Lk.v", "Model/LkTrace.v"])
    if miss:
        return dict(sampled=0, compared=0, disagreements=[], skipped=miss)
    k = k if k is not None else (12 if ctx.tier == "quick" else 200)
    cands = []
    for d in dirs:
        tv = Path(d) / "trace_verdict.txt"
        if not tv.exists():
            continue
        verdicts = {}
        for line in tv.read_text().splitlines():
            f = line.split()
            if len(f) >= 9 and f[0] == "P":
                verdicts[f[1]] = [None if kv.split("=", 1)[1] == "-" else int(kv.split("=", 1)[1].split("@")[0]) for kv in f[3:9]]
        # runs: the schedules as run_property parsed them already ("x:" + id for the reruns with parking sentinels, directories xdirs)
        pfx = "x:" if d in xdirs else ""
        druns = {pfx + k_: v_ for k_, v_ in parse_observed(Path(d) / "observed.txt").items()} if runs is None else runs
        for sid in sorted(verdicts):
            if pfx + sid in druns:
                cands.append((str(d), sid, verdicts[sid], druns[pfx + sid]))
    rng = random.Random("%d/lktrace/%s" % (int(ctx.seed), ctx.prop))
    flagged = [c for c in cands if any(v is not None for v in c[2][1:])]
    rest = [c for c in cands if c not in flagged]
    rng.shuffle(flagged)
    rng.shuffle(rest)
    chosen = flagged[:max(1, k // 2)] + rest
    chosen = chosen[:k]
    if not chosen:
        return dict(sampled=0, compared=0, disagreements=[], skipped="no history to sample")
    S, E = cq.Strs(), cq.Errs()
    body, used = [], []
    for d, sid, verdict, run in chosen:
        try:
            hist = history(run)
            nxt = max([int(o.who[1:]) for o in hist if o.who.startswith("t")] + [0]) + 1
            evs = []
            for n_, o in enumerate(hist):
                if o.who.startswith("t"):
                    tid = int(o.who[1:])
                else:
                    tid, nxt = nxt, nxt + 1
                op = ("(OUnl %s %s)" % (S.of_hex(hx(o.name)), S.of_hex(hx(o.key)))) if o.kind == "unl" else \
                    ("(%s %s %s %s)" % ("OTry" if o.kind == "try" else "OLock", S.of_hex(hx(o.name)), S.of_hex(hx(o.key)), cq.zlit(o.size)))
                evs.append((o.inv, 0, n_, "EvInv %s %s" % (cq.natlit(tid), op)))
                if o.res is not None:
                    evs.append((o.res, 1, n_, "EvRes %s (LRes %s %s)" % (cq.natlit(tid), "true" if o.ok else "false", E.opt(o.err or "~"))))
            # real-time order: by index; at one index the invocation comes first (an epilogue call is sequential: its invocation and
            # its response share an index), then the responses first seen in that observation block, by thread id
            evs.sort(key=lambda e_: (e_[0], e_[1], e_[2]))
            body.append("Eval vm_compute in (lk_trace_verdict [%s])." % "; ".join(e_[3] for e_ in evs))
            used.append((d, sid, verdict))
        except (cq.Untranslatable, ValueError) as ex:
            continue
    wd = ctx.work / "coqeval" / "lktrace"
    shutil.rmtree(wd, ignore_errors=True)
    wd.mkdir(parents=True)
    f = wd / "cases.v"
    f.write_text("From Ldlm Require Import Model.Base Model.Err Model.Lk Model.LkTrace.\n" + cq.PRINT_OPTS + "\n".join(S.defs) + "\n" + "\n".join(body) + "\n")
    res, secs = cq.run_coqc(ctx, [f])
    rc, out = res[0]
    if rc != 0:
        return dict(sampled=len(used), compared=0, disagreements=[dict(trace=used[0][1] if used else "?", what="coqc failed on the generated cases: " + out[-400:])],
                    coqc_s=round(secs, 2), cases_file=str(f))
    terms = cq.split_evals(out)
    dis, compared = [], 0
    if len(terms) != len(used):
        dis.append(dict(trace="*", what="%d Eval results for %d cases" % (len(terms), len(used))))
    for (d, sid, verdict), t in zip(used, terms):
        try:
            got = [None if x is None else x.v for x in cq.parse_term(t)]
        except Exception as ex:  # noqa
            dis.append(dict(trace=sid, what="unreadable Coq value: %r" % (ex,)))
            continue
        compared += len(got)
        if got != verdict:
            dis.append(dict(trace=sid, dir=d, what="lk_trace_verdict (fresh, wf, c01, once, fail, giveup): Coq %r, extracted driver %r" % (got, verdict)))
    return dict(sampled=len(used), compared=compared, disagreements=dis, coqc_s=round(secs, 2), cases_file=str(f),
                sampled_with_a_false_predicate=sum(1 for _d, _s, v in used if any(x is not None for x in v[1:])))


# ---------------------------------------------------------------------------------------------- the real history

class Op:
    __slots__ = ("who", "kind", "name", "key", "size", "inv", "res", "ok", "err", "tag")

    def __init__(self, who, kind, name, key, size, inv, res=None, ok=None, err=None, tag=""):
        self.who, self.kind, self.name, self.key, self.size, self.inv, self.res, self.ok, self.err, self.tag = \
            who, kind, name, key, size, inv, res, ok, err, tag

    def show(self):
        r = "pending" if self.res is None else ("%s%s @%d" % ("ok" if self.ok else "refused", "" if self.err in (None, "~") else " " + self.err, self.res))
        return "%s %s(%s,%s%s) inv@%d -> %s" % (self.who, {"try": "TryLock", "lock": "Lock", "unl": "Unlock"}[self.kind], self.name, self.key,
                                                "" if self.kind == "unl" else ",%d" % self.size, self.inv, r)


def history(run):
    """Invocations and responses as the harness saw them on the real code (schedule calls, then the epilogue's calls)."""
    ops = {}
    for k, f in run.items:
        if f[0] == "call":
            tid = int(f[1])
            ops[tid] = Op("t%d" % tid, f[2], unhx(f[3]), unhx(f[4]), int(f[5]), k)
    for k, thr, _tab, _cr in run.blocks:
        for tid, st in thr.items():
            if st and st[0] == "F" and tid in ops and ops[tid].res is None:
                ops[tid].res, ops[tid].ok, ops[tid].err = k, st[1] == "1", st[2]
    out = [ops[t] for t in sorted(ops)]
    for idx, kind, f in run.epi:
        if kind == "late":
            tid = int(f[0])
            if tid in ops and ops[tid].res is None:
                ops[tid].res, ops[tid].ok, ops[tid].err = idx, f[1] == "1", f[2]
        elif kind == "call":
            out.append(Op("e%d" % idx, f[0], unhx(f[1]), unhx(f[2]), int(f[3]), idx, idx, f[4] == "1", f[5], f[6] if len(f) > 6 else ""))
    return out


def run_has(run, kind):
    return any(f[0] == kind for _, f in run.items)


def run_has_gc(run):
    return any(f[0] in GC_ITEMS for _, f in run.items)


# ------------------------------------------------------------------------------------------------------- C01 oracle

def oracle_C01(run, hist=None):
    """Capacity bound. -> [(index, text)]"""
    hist = hist or history(run)
    bad = []
    unl_inv = {}
    for o in hist:
        if o.kind == "unl" and o.res is not None and o.ok:
            unl_inv.setdefault((o.name, o.key), []).append(o.inv)
    holds = []
    for o in hist:
        if o.kind in ("try", "lock") and o.res is not None and o.ok:
            ends = [i for i in unl_inv.get((o.name, o.key), [])]
            end = min(ends) if ends else float("inf")
            holds.append((o.res, end, o))
    for t in sorted(set(h[0] for h in holds)):
        per = {}
        for g, e, o in holds:
            if g <= t < e:
                per.setdefault(o.name, []).append(o)
        for name, hs in per.items():
            size = min(o.size for o in hs)
            if len(hs) > size:
                bad.append((t, "%d live holds of %r, size %d: %s" % (len(hs), name, size, "; ".join(o.show() for o in hs))))
    for k, _thr, tab, _cr in run.blocks:
        for name, (size, keys) in tab.items():
            if len(keys) > size:
                bad.append((k, "lock table shows %d keys %r for %r of size %d" % (len(keys), keys, name, size)))
    for idx, name, size, keys in run.epi_tabs:
        if len(keys) > size:
            bad.append((idx, "lock table shows %d keys %r for %r of size %d" % (len(keys), keys, name, size)))
    for idx, kind, f in run.epi:
        if kind in ("probe", "final"):
            name, size, nkeys, got = unhx(f[0]), int(f[1]), int(f[2]), int(f[3])
            if nkeys + got > size:
                bad.append((idx, "probe of %r: %d further TryLocks granted with %d keys held, size %d" % (name, got, nkeys, size)))
    return bad


# ------------------------------------------------------------------------------------------------------- C02 oracle

def linearizable(hist, gc_allowed, shutdown, transient_ok=False, transient_for=None):
    """Wing-Gong search against the counting lock with keys (bits only: ok / not ok). Pending operations may or may not
    take effect. transient_ok: a FAILED Lock may hold a unit during a sub-interval of its call (the F-LIN2 shape);
    transient_for: only these callers ("t<tid>": the Locks whose context the environment ended before they returned)."""
    ops = list(hist)
    n = len(ops)
    INF = float("inf")
    res = [o.res if o.res is not None else INF for o in ops]
    seen = set()
    sys.setrecursionlimit(10000)

    def legal(o, st):
        """-> list of successor states for taking o's effect now"""
        if shutdown and o.err == "lock.ErrManagerShutdown" and not o.ok:
            return [st]
        d = dict(st)
        outs = []
        if o.kind == "unl":
            obj = d.get(o.name)
            live = obj[1] if obj else ()
            if o.key in live:
                if o.ok or o.res is None:
                    l2 = list(live)
                    l2.remove(o.key)
                    d2 = dict(d)
                    d2[o.name] = (obj[0], tuple(l2), obj[2])
                    outs.append(d2)
            else:
                if (not o.ok) or o.res is None:
                    outs.append(d)
            return [tuple(sorted(x.items())) for x in outs]
        # try / lock
        if o.size <= 0:
            return [st] if (not o.ok or o.res is None) else []
        variants = [d]
        obj = d.get(o.name)
        if obj is not None and gc_allowed and not obj[1] and not obj[2]:
            d0 = dict(d)
            del d0[o.name]
            variants.append(d0)
        for dv in variants:
            obj = dv.get(o.name)
            if obj is None:
                obj = (o.size, (), 0)
            if obj[0] != o.size:
                if not o.ok or o.res is None:
                    outs.append(dv)
                continue
            free = len(obj[1]) + obj[2] < obj[0]
            if free and (o.ok or o.res is None):
                d2 = dict(dv)
                d2[o.name] = (obj[0], obj[1] + (o.key,), obj[2])
                outs.append(d2)
            if not o.ok or o.res is None:
                if o.kind == "lock" or not free:
                    d2 = dict(dv)
                    d2.setdefault(o.name, obj)
                    outs.append(d2)
        return [tuple(sorted(x.items())) for x in outs]

    def go(rem, st, phantom):
        if not rem:
            return not phantom
        key = (rem, st, phantom)
        if key in seen:
            return False
        seen.add(key)
        lim = min(res[i] for i in rem)
        if lim == INF and not phantom:
            return True    # only pending operations are left: none of them needs to take effect
        for i in rem:
            o = ops[i]
            if o.inv > lim:
                continue
            if i in phantom:
                # give the transient unit back, the failed Lock is then complete
                d = dict(st)
                obj = d[o.name]
                d[o.name] = (obj[0], obj[1], obj[2] - 1)
                if go(rem - {i}, tuple(sorted(d.items())), phantom - {i}):
                    return True
                continue
            for st2 in legal(o, st):
                if go(rem - {i}, st2, phantom):
                    return True
            if o.res is None and go(rem - {i}, st, phantom):
                return True
            if transient_ok and o.kind == "lock" and o.res is not None and not o.ok and o.size > 0 and (transient_for is None or o.who in transient_for):
                d = dict(st)
                obj = d.get(o.name)
                if obj is not None and obj[0] == o.size and len(obj[1]) + obj[2] < obj[0]:
                    d[o.name] = (obj[0], obj[1], obj[2] + 1)
                    if go(rem, tuple(sorted(d.items())), phantom | {i}):
                        return True
        return False

    return go(frozenset(range(n)), (), frozenset())


def oracle_C02(run, hist=None):
    """Linearizability to the counting lock + conservation. -> [(index, text, flin2_shape)]"""
    hist = hist or history(run)
    bad = []
    gc_allowed = run_has_gc(run) or run_has(run, "shutdown")
    shutdown = run_has(run, "shutdown")
    crashed = any(b[3][0] for b in run.blocks) or any(k == "panic" for _, k, _ in run.epi)
    # conservation: the semaphore's own guard fired, more units were released than were held
    for k, thr, _tab, _cr in run.blocks:
        for tid, st in thr.items():
            if st[0] == "Z" and len(st) > 1 and "released more than held" in unhx(st[1]):
                bad.append((k, "t%d released a unit that was not held (panic: %s): capacity was duplicated" % (tid, unhx(st[1])), False))
    for idx, kind, f in run.epi:
        if kind == "panic" and len(f) > 1 and "released more than held" in unhx(f[1]):
            bad.append((idx, "t%s released a unit that was not held (panic: %s): capacity was duplicated" % (f[0], unhx(f[1])), False))
    if not crashed:
        if not linearizable(hist, gc_allowed, shutdown):
            # F-LIN2's signature, read off the REAL trace only: the history becomes linearizable when the failed Locks whose
            # context was ended (a `cancel` item before their response) may hold a unit during part of their call
            ended = set()
            for o in hist:
                if o.kind == "lock" and o.who.startswith("t") and o.res is not None and not o.ok:
                    if any(f[0] == "cancel" and "t" + f[1] == o.who and k <= o.res for k, f in run.items):
                        ended.add(o.who)
            shape = bool(ended) and linearizable(hist, gc_allowed, shutdown, transient_ok=True, transient_for=ended)
            last = max([o.res for o in hist if o.res is not None] + [0])
            bad.append((last, "the history has no linearization against the counting lock: " + " | ".join(o.show() for o in hist if not o.tag or o.tag in ("release", "probe")), shape))
    blocked_names = set()
    late_or_stuck = set(int(f[0]) for _, k, f in run.epi if k == "stuck")
    for o in hist:
        if o.res is None and o.who.startswith("t"):
            blocked_names.add(o.name)
    for idx, kind, f in run.epi:
        if kind == "call" and len(f) > 6:
            tag, ok = f[6], f[4] == "1"
            if tag == "release" and not ok:
                bad.append((idx, "granted key %r of %r did not unlock (%s)" % (unhx(f[2]), unhx(f[1]), f[5]), False))
            if tag == "second-unlock" and ok:
                bad.append((idx, "key %r of %r unlocked successfully a second time" % (unhx(f[2]), unhx(f[1])), False))
            if tag == "refused-key" and ok:
                bad.append((idx, "the key %r of a failed acquisition of %r unlocked successfully: the failed call consumed capacity" % (unhx(f[2]), unhx(f[1])), False))
            if tag in ("unprobe", "unfinal") and not ok:
                bad.append((idx, "probe key %r of %r did not unlock" % (unhx(f[2]), unhx(f[1])), False))
        if kind == "final":
            name, size, nkeys, got = unhx(f[0]), int(f[1]), int(f[2]), int(f[3])
            if name not in blocked_names and not late_or_stuck and nkeys + got != size:
                bad.append((idx, "after every hold was released %r (size %d) shows %d keys and grants %d probes: capacity was %s"
                            % (name, size, nkeys, got, "lost" if nkeys + got < size else "duplicated"), False))
    return bad


# ------------------------------------------------------------------------------------------------------- C03 oracle

def oracle_C03(run, hist=None):
    """Blocked Lock calls: FIFO, no lost wake-up, an error means nothing is held, cancel/timeout cause. -> [(index, text)]"""
    hist = hist or history(run)
    bad = []
    ops = {int(o.who[1:]): o for o in hist if o.who.startswith("t")}
    cancel_at = {}
    for k, f in run.items:
        if f[0] == "cancel":
            cancel_at.setdefault(int(f[1]), (k, f[2]))

    def given_up(tid, k):
        return tid in cancel_at and cancel_at[tid][0] <= k

    enq = {}
    prev = None
    lost = False
    for k, thr, tab, _cr in run.blocks:
        for tid, st in thr.items():
            if st[0] == "B" and tid not in enq:
                enq[tid] = k
        if prev is not None:
            for tid, st in thr.items():
                woken = prev.get(tid, ("?",))[0] == "B" and st[0] == "P" and st[1] == "PAcqWoken"
                if not woken or tid not in ops:
                    continue
                for t1, st1 in thr.items():
                    if t1 != tid and t1 in ops and ops[t1].name == ops[tid].name and st1[0] == "B" and prev.get(t1, ("?",))[0] == "B" \
                            and enq.get(t1, 1 << 30) < enq.get(tid, -1) and not given_up(t1, k):
                        bad.append((k, "FIFO: t%d (queued at step %d) was handed the lock at step %d while t%d (queued earlier, at step %d) is still blocked and has not given up"
                                    % (tid, enq[tid], k, t1, enq[t1])))
        # lost wake-up: all threads are parked / blocked here
        for tid, st in thr.items():
            if lost or st[0] != "B" or tid not in ops or given_up(tid, k):
                continue
            name = ops[tid].name
            if name not in tab:
                continue
            size, keys = tab[name]
            transit = 0
            for t2, st2 in thr.items():
                if t2 in ops and ops[t2].name == name and st2[0] == "P" and (st2[1] in ("PAddKey", "PAcqWoken", "PRelCancel", "PAcqCancel") or st2[1] not in MODEL_LABELS):
                    transit += 1
            if len(keys) + transit < size:
                lost = True
                bad.append((k, "lost wake-up: t%d is blocked in Lock(%r) while the table shows %d of %d keys and no unit is in transit" % (tid, name, len(keys), size)))
        prev = thr
    # epilogue (free running): waiters are served in queue order as the holds are released
    finished_late = []
    for idx, kind, f in run.epi:
        if kind == "late":
            tid = int(f[0])
            if f[1] == "1" and tid in ops and ops[tid].kind == "lock" and tid in enq:
                for t1 in enq:
                    o1 = ops.get(t1)
                    if t1 != tid and o1 is not None and o1.name == ops[tid].name and enq[t1] < enq[tid] and not given_up(t1, 1 << 30) \
                            and (o1.res is None or o1.res > idx):
                        bad.append((idx, "FIFO: t%d (queued at step %d) was granted the lock while t%d (queued earlier, at step %d) is still blocked" % (tid, enq[tid], t1, enq[t1])))
            finished_late.append(tid)
        if kind == "stuck":
            bad.append((idx, "lost wake-up: t%s is still blocked in Lock after every hold was released" % f[0]))
        if kind == "call" and len(f) > 6 and f[6] == "refused-key" and f[4] == "1":
            bad.append((idx, "a Lock/TryLock that returned without the lock holds it: its key %r unlocks %r" % (unhx(f[2]), unhx(f[1]))))
    # a Lock that returned an error never shows its key
    for tid, o in ops.items():
        if o.kind == "lock" and o.res is not None and not o.ok:
            if sum(1 for x in ops.values() if x.kind != "unl" and x.key == o.key and x.name == o.name) != 1:
                continue
            for k, _thr, tab, _cr in run.blocks:
                if k >= o.res and o.name in tab and o.key in tab[o.name][1]:
                    bad.append((k, "t%d's Lock returned %s but its key %r is in the table" % (tid, o.err, o.key)))
                    break
    # a waiter whose context ended before it was handed a unit returns the cause, without the lock
    for tid, (ck, cause) in cancel_at.items():
        o = ops.get(tid)
        if o is None or o.kind != "lock" or o.res is None or o.size <= 0:
            continue
        before = [b for b in run.blocks if b[0] < ck]
        stc = before[-1][1].get(tid, ("?",)) if before else ("?",)
        early = stc[0] == "B" or (stc[0] == "P" and stc[1] in ("PEnter", "PGet", "PChkDel", "PAcqEnter"))
        if early and o.err not in ("lock.ErrLockSizeMismatch", "lock.ErrManagerShutdown", "lock.ErrInvalidLockSize"):
            if o.ok:
                bad.append((o.res, "t%d's context ended (%s) at step %d while it was %s, yet the Lock was granted" % (tid, cause, ck, " ".join(stc))))
            elif o.err != cause:
                bad.append((o.res, "t%d's context ended with cause %s; the Lock returned %s" % (tid, cause, o.err)))
    return bad


# ------------------------------------------------------------------------------------------------------- C13 oracle

def oracle_C13(run, hist=None):
    """GC is invisible: no panic, never removes a lock that has keys, a user or a waiter, no request fails. -> [(index, text)]"""
    hist = hist or history(run)
    bad = []
    ops = {int(o.who[1:]): o for o in hist if o.who.startswith("t")}
    for k, thr, _tab, cr in run.blocks:
        for tid, st in thr.items():
            if st[0] == "Z":
                bad.append((k, "panic in t%d: %s" % (tid, unhx(st[1]) if len(st) > 1 else "")))
    for idx, kind, f in run.epi:
        if kind == "panic":
            bad.append((idx, "panic in t%s: %s" % (f[0], unhx(f[1]) if len(f) > 1 else "")))
    kinds = {k: f[0] for k, f in run.items}
    prev = None
    for k, thr, tab, _cr in run.blocks:
        if prev is not None and kinds.get(k) in ("gcpass", "gcrun", "shutdown"):
            pthr, ptab = prev
            for name, (size, keys) in ptab.items():
                if name in tab:
                    continue
                if keys:
                    bad.append((k, "the GC pass at step %d removed %r which has keys %r" % (k, name, keys)))
                users = [tid for tid, st in pthr.items() if tid in ops and ops[tid].name == name and (st[0] == "B" or (st[0] == "P" and st[1] in USING))]
                if users:
                    bad.append((k, "the GC pass at step %d removed %r while %s" % (k, name, ", ".join("t%d is %s" % (t, " ".join(pthr[t])) for t in users))))
        prev = (thr, tab)
    if run_has_gc(run):
        unl_inv = {}
        for o in hist:
            if o.kind == "unl" and o.res is not None:
                unl_inv.setdefault((o.name, o.key), []).append(o)
        for o in hist:
            if o.kind in ("try", "lock") and o.res is not None and o.ok:
                us = sorted(unl_inv.get((o.name, o.key), []), key=lambda u: u.inv)
                if us and us[0].inv > o.res and not us[0].ok and us[0].err != "lock.ErrManagerShutdown" and all(u.inv > us[0].res for u in us[1:]):
                    bad.append((us[0].res, "Unlock of the live hold (%r,%r) failed with %s in a run with a GC pass" % (o.name, o.key, us[0].err)))
    return bad


ORACLES = {"C01": oracle_C01, "C02": oracle_C02, "C03": oracle_C03, "C13": oracle_C13}


# ------------------------------------------------------------------------------------------------------ exhibit runs

EXHIBIT_BUDGET = {"quick": 320, "thorough": 4000}
CAUSES = ("context.Canceled", "server.ErrLockWaitTimeout")


def gen_exhibits(runs, rng, budget):
    """Exhibit schedules from the runs of the comparison stage (their echoed items + the window yield points each thread went
    through). One exhibit = the base schedule with asynchronous items inserted right after the item during which thread t
    passed window W, followed by `resume t`:   cancel t <cause> (Lock calls whose context has not ended yet) | gcpass |
    tick 1, gcpass | tick 1.   Stratified by (window label, kind), drawn with `rng`.
    Runs whose GC pass was still parked when the schedule ended (the harness appended `gcrun` items: the pass has more lock
    sections than the model's) give variants with those extra items moved to earlier positions.
    -> ([dict(id, base, minidle, shards, items=[token lists], label, kind, at)], stats)"""
    groups = {}
    passages = {}
    overrun = []
    for sid in sorted(runs):
        run = runs[sid]
        ndrain = sum(1 for _k, t in run.notes if t.startswith("drain:"))
        if ndrain and run.complete:
            overrun.append((sid, ndrain))
        if not run.passages:
            continue
        pos = {k: i for i, (k, _f) in enumerate(run.items)}
        calls = {int(f[1]): f for _k, f in run.items if f[0] == "call"}
        for n_, (k, tid, label) in enumerate(run.passages):
            passages[label] = passages.get(label, 0) + 1
            at = pos.get(k)
            if at is None or tid >= GC_TID0:
                continue
            kinds = []
            op = calls.get(tid)
            if op is not None and op[2] == "lock" and not any(f[0] == "cancel" and int(f[1]) == tid for _k, f in run.items[:at + 1]):
                later = [f[2] for _k, f in run.items[at + 1:] if f[0] == "cancel" and int(f[1]) == tid]
                kinds.append(("cancel", [["cancel", str(tid), later[0] if later else CAUSES[(n_ + k) % 2]]]))
            kinds += [("gc", [["gcpass"]]), ("tick+gc", [["tick", "1"], ["gcpass"]]), ("tick", [["tick", "1"]])]
            for kind, ins in kinds:
                groups.setdefault((label, kind), []).append((sid, at, tid, ins))
    weight = {"cancel": 4, "gc": 2, "tick+gc": 2, "tick": 1}
    keys = sorted(groups)
    tot = sum(weight[k[1]] for k in keys) or 1
    chosen = []
    for key in keys:
        cands = groups[key]
        rng.shuffle(cands)
        quota = max(4, (budget * weight[key[1]]) // tot)
        for c in cands[:quota]:
            chosen.append((key, c))
    out = []
    stats = {"window_passages_seen": passages, "candidates": sum(len(v) for v in groups.values()), "inserted": {}}
    for n_, ((label, kind), (sid, at, tid, ins)) in enumerate(chosen):
        run = runs[sid]
        items = [list(f) for _k, f in run.items]
        items = items[:at + 1] + [list(i) for i in ins] + [["resume", str(tid)]] + items[at + 1:]
        out.append(dict(id="%s~%d" % (sid, n_), base=sid, minidle=run.minidle, shards=run.shards, items=items, label=label, kind=kind, at=at + 1))
        stats["inserted"]["%s/%s" % (label, kind)] = stats["inserted"].get("%s/%s" % (label, kind), 0) + 1
    # GC passes with more lock sections than the model's: the extra gcrun items anywhere after the model's last one
    nvar = 0
    rng.shuffle(overrun)
    for sid, ndrain in overrun[:max(8, budget // 4)]:
        run = runs[sid]
        items = [list(f) for _k, f in run.items]
        body, extra = items[:len(items) - ndrain], items[len(items) - ndrain:]
        gcpos = [i for i, f in enumerate(body) if f[0] == "gcrun"]
        lo = (gcpos[-1] + 1) if gcpos else 0
        for v in range(3):
            cut = sorted(rng.randint(lo, len(body)) for _ in extra)
            new, prev = [], 0
            for c, e_ in zip(cut, extra):
                new += body[prev:c] + [e_]
                prev = c
            new += body[prev:]
            if new == items:
                continue
            out.append(dict(id="%s~g%d" % (sid, nvar), base=sid, minidle=run.minidle, shards=run.shards, items=new, label="GcShard", kind="gc-overrun", at=cut[0]))
            nvar += 1
    stats["gc_overrun_base_schedules"] = len(overrun)
    stats["gc_overrun_variants"] = nvar
    return out, stats


def exhibit_text(x):
    L = ["S %s" % x["id"], "C %d" % x["minidle"], "H %d" % x["shards"]]
    for k, f in enumerate(x["items"]):
        L.append("I %d %s" % (k, " ".join(f)))
    L.append("Z")
    return "\n".join(L) + "\n"


# --------------------------------------------------------------------------------------------------- run_property

def _replay_obj(prop, run, why, chk, extra=None):
    items = []
    for k, f in run.items:
        g = list(f)
        if g[0] == "call":
            g[3], g[4] = unhx(g[3]), unhx(g[4])
        items.append(" ".join(g))
    obj = {"kind": "t2-schedule", "property": prop, "id": run.sid, "minidle": run.minidle, "shards": run.shards,
           "exhibit": bool(run.exhibit), "xpark": ("1" if run.sid.startswith("x:") else "w") if run.exhibit else "0",
           "exhibit_of": run.exhibit, "items": items, "why": why,
           "observed": run.raw[:400], "model_vs_real": (chk or {}).get("diffs", [])[:10], "ghost": (chk or {}).get("ghost", [])[:60],
           "replay_cmd": "python3 -m lib.schedtie --replay <this file> --prop %s" % prop}
    if extra:
        obj.update(extra)
    return obj


def execute(ctx, b, sched_file, name, procs=8, timeout=300, xpark=True):
    rr = run_schedules(ctx, b, sched_file, name=name, procs=procs, timeout=timeout, xpark=xpark)
    runs = {}
    for d in rr["dirs"]:
        runs.update(parse_observed(d / "observed.txt"))
    chk = check_observed(ctx, b, rr["dirs"])
    t_tp = time.time()
    try:
        tp = trace_predicates(ctx, b, rr["dirs"])
    except Exception as ex:  # noqa
        tp = {}
        ctx.note("T2: lkdriver trace failed: %r" % (ex,))
    t_tp = time.time() - t_tp
    reached = {}
    for d in rr["dirs"]:
        try:
            for k, v in json.loads((d / "reached.json").read_text()).items():
                reached[k] = reached.get(k, 0) + v
        except Exception:
            pass
    try:
        mruns = parse_model_traces(rr["dirs"])
    except Exception as ex:  # noqa
        mruns = {}
        ctx.note("T2: model traces unreadable: %r" % (ex,))
    return dict(runs=runs, chk=chk, failures=rr["failures"], reached=reached, schedules=rr["schedules"], abandoned=rr["abandoned"], dirs=list(rr["dirs"]),
                tp=tp, tp_wall=t_tp, mruns=mruns)


def oracle_selftest(prop, mruns, chk, acc):
    """Oracle self-test: Mlk is PROVED to satisfy the property on every schedule (Properties/<prop>.v; strict C02 up to F-LIN2), so the
    Python oracle of `prop` must accept the model's own trace of every schedule run. Judged: complete model traces of schedules on
    which model and implementation agree in everything but labels (the epilogue calls made on the model are the ones the harness
    chose from the REAL results: where the two differ, they are not the model's epilogue). acc: dict(model_traces_judged, failures=[..],
    known_finding_matches, skipped_model_differs_from_real)."""
    oracle = ORACLES[prop]
    for sid, mrun in sorted(mruns.items()):
        c = chk.get(sid, {})
        if not mrun.complete or any(d[1] != "label" for d in c.get("diffs", [])) or c.get("bad"):
            acc["skipped_model_differs_from_real"] += 1
            continue
        acc["model_traces_judged"] += 1
        try:
            vs = oracle(mrun, history(mrun))
        except Exception as ex:  # noqa
            vs = [(-1, "the oracle raised %r on the model trace" % (ex,), False)]
        for v in vs:
            if prop == "C02" and len(v) > 2 and v[2] and c.get("giveback"):
                acc["known_finding_matches"] += 1
            else:
                acc["failures"].append((sid, v[0], v[1]))
    return acc


def diverged(c, upto):
    """The real run of a schedule is out of step with the model's at or before event `upto`: `lkdriver check` saw a difference there
    (a thread parked at a window yield point in an exhibit run, and differences in the epilogue's calls, are not a divergence of the
    schedule), or there is no verdict for the schedule at all."""
    if not c or c.get("bad"):
        return True
    for k, kind, _who, text in c.get("diffs", []):
        if kind == "epi" or (kind == "label" and "got=P_W" in text):
            continue
        if k <= upto:
            return True
    return False


def judge(prop, runs, chk, failures, compare=True, tp=None, out_of_step=False):
    """-> dict(violations=[(sid, idx, text)], known=[(sid, text)], mismatches=[(sid, k, kind, text)], label_only=n, tp=statistics of the
    extracted Coq trace predicates, unclassified=[(sid, idx, text)]).
    The oracles read REAL observations only (responses, tables, probes, panics, the yield point a real goroutine is parked at). The
    one judgement that reads the MODEL's ghost log is C02's: a history with F-LIN2's shape is the known finding when the model's run of
    the same items has a LaGiveBack. That is only meaningful while the real run is in step with the model. out_of_step (a model label
    could not be placed on this tree, or the yield points parked where the model has no step), or a difference between model and real
    at or before the failure: the F-LIN2-shaped history is neither a known finding nor a real failing input: `unclassified` (the caller
    reports a correspondence alarm). Every other oracle failure is model-independent and stays a real failing input. compare=False: the runs are evaluated by the oracles only (sentinel yield points were parking:
    the schedule is not the model's).
    tp: trace_predicates(...). A predicate of `prop` that is false on a real history satisfying the model's key assumption is a
    violation of `prop`. F-LIN2 (a Lock handed a unit after its context ended gives it back) cannot make one of them false: the
    theorems of Proofs/LkTraceP.v hold of EVERY reachable trace of Mlk, the LaGiveBack ones included, so there is no known-finding
    exemption here."""
    proj = PROJ.get(prop, {"bit", "table", "crash", "hang", "fatal"})
    oracle = ORACLES[prop]
    viol, known, mism, unclassified = [], [], [], []
    label_only = 0
    tps = dict(histories=0, events=0, outside_key_assumption=0, unreadable=0, evaluated={}, false={}, false_outside_key_assumption={},
               python_oracle_failed=0, python_oracle_and_predicate_failed=0, predicate_failed_only=0)
    for sid, run in sorted(runs.items()):
        hist = history(run)
        c = chk.get(sid, {})
        py_fail = False
        n_before = len(viol)
        for v in oracle(run, hist):
            if prop == "C02" and len(v) > 2 and v[2] and (out_of_step or diverged(c, v[0])):
                unclassified.append((sid, v[0], v[1]))
            elif prop == "C02" and len(v) > 2 and v[2] and c.get("giveback"):
                known.append((sid, v[1]))
            else:
                viol.append((sid, v[0], v[1]))
                py_fail = True
        t = (tp or {}).get(sid)
        if t is not None:
            tps["histories"] += 1
            tps["events"] += t["events"]
            if t.get("bad"):
                tps["unreadable"] += 1
            if t["fresh"] is not None:
                tps["outside_key_assumption"] += 1
            pred_fail = False
            pv = []     # the Python oracle failed on this schedule as well: one violation, both texts
            for pred, val in sorted(t["verdict"].items()):
                if TRACE_PREDS.get(pred, ("", ""))[0] != prop:
                    continue
                tps["evaluated"][pred] = tps["evaluated"].get(pred, 0) + 1
                if val is None:
                    continue
                if t["fresh"] is not None:
                    tps["false_outside_key_assumption"][pred] = tps["false_outside_key_assumption"].get(pred, 0) + 1
                    continue
                tps["false"][pred] = tps["false"].get(pred, 0) + 1
                pred_fail = True
                (pv if py_fail else viol).append((sid, val[1] if len(val) > 1 else -1,
                             "extracted Coq predicate %s is false on the real call/return history (shortest offending prefix: %d events, the last at "
                             "index %d; proved of every trace of the model: %s)%s; history: %s"
                             % (TRACE_PRED_TEXT.get(pred, pred), val[0], val[1] if len(val) > 1 else -1, TRACE_PREDS[pred][1],
                                ("; live holds there: " + t["holds"]) if pred == "c01" and t.get("holds") else "", t.get("hist", "")[:600])))
            if pv:
                sid0, idx0, text0 = viol[n_before]
                viol[n_before] = (sid0, idx0, text0 + " || ALSO: " + " || ".join(x[2] for x in pv))
            tps["python_oracle_failed"] += 1 if py_fail else 0
            tps["python_oracle_and_predicate_failed"] += 1 if (py_fail and pred_fail) else 0
            tps["predicate_failed_only"] += 1 if (pred_fail and not py_fail) else 0
        if not compare:
            continue
        optab = {int(o.who[1:]): o for o in hist if o.who.startswith("t")}
        hit = False
        for k, kind, who, text in c.get("diffs", []):
            if kind not in proj:
                continue
            if kind == "err" and prop == "C03" and not (who.isdigit() and int(who) in optab and optab[int(who)].kind == "lock"):
                continue
            mism.append((sid, k, kind, "%s %s" % (who, text)))
            hit = True
            break
        if not hit and c.get("diffs"):
            label_only += 1
    if compare:
        for f in failures:
            mism.append((f["sid"], f["k"], f["kind"], f["text"][-600:]))
    return dict(violations=viol, known=known, mismatches=mism, label_only=label_only, tp=tps, unclassified=unclassified)


def run_property(ctx, prop, scenarios=None, tier=None, procs=8):
    """The whole T2 stage for one property; records violations / known findings / coverage on ctx."""
    tier = tier or ctx.tier
    tie = ctx.coverage["ties"].setdefault("T2-sched", {})
    b = build(ctx)
    if not b["ok"]:
        ctx.note("T2 build failed (%s)" % b["why"])
        ctx.violation({"broken": "build", "stage": b["why"], "log": b["log"], "instrumenter": b.get("instr")},
                      "the tree under test (or the instrumented harness against it) does not build: nothing is shown to hold",
                      name="t2_build_failure.json", no_failing_input=True)
        tie["build"] = "failed: " + b["why"]
        return dict(ok_build=False)
    ins = b["instr"]
    scs = scenarios if scenarios is not None else load_scenarios(prop)
    t0 = time.time()
    runs, chk, failures, reached = {}, {}, [], {}
    tp, tp_wall = {}, 0.0     # verdicts of the extracted Coq trace predicates per schedule (trace_predicates)
    cq_dirs = []     # directories whose observed.txt / verdict.txt lib/coqeval.py samples
    mruns = {}       # the model's own trace of every schedule (oracle self-test)
    # corpus first
    corpus = [c for c in corpus_schedules() if not c.get("props") or prop in c["props"]]
    if corpus:
        cf = b["work"] / ("corpus-%s.txt" % prop)
        cf.write_text("".join(corpus_text(c) for c in corpus))
        e = execute(ctx, b, cf, "corpus-%s" % prop, procs=procs, xpark=False)
        runs.update(e["runs"]); chk.update(e["chk"]); failures += e["failures"]
        tp.update(e["tp"]); tp_wall += e["tp_wall"]
        mruns.update(e.get("mruns", {}))
        cq_dirs += e["dirs"]
        for k, v in e["reached"].items():
            reached[k] = reached.get(k, 0) + v
    sf, gstats, glog = gen_schedules(ctx, b, scs, tier, ctx.seed, name="gen-%s" % prop)
    if glog:
        ctx.note("T2: " + glog)
    # comparison run: window yield points (W) and shape sentinels (X) transparent; compared with the model after every item
    e = execute(ctx, b, sf, "run-%s" % prop, procs=procs, timeout=300 if tier == "quick" else 3000, xpark=False)
    runs.update(e["runs"]); chk.update(e["chk"]); failures += e["failures"]
    tp.update(e["tp"]); tp_wall += e["tp_wall"]
    mruns.update(e.get("mruns", {}))
    cq_dirs += e["dirs"]
    for k, v in e["reached"].items():
        reached[k] = reached.get(k, 0) + v
    n_compare = len(runs)
    # a model label that could not be placed: every real run is out of step with the model
    oos = any(m.get("label") in MODEL_LABELS or str(m.get("label", "")).startswith(("GcShard", "*")) for m in ins["missing"])
    j = judge(prop, runs, chk, failures, tp=tp, out_of_step=oos)
    # exhibit runs: asynchronous items at the window yield points the comparison run went through (windows parking)
    tx = time.time()
    rng = random.Random("%s/%s/exhibit" % (int(ctx.seed), prop))
    xl, xstats = gen_exhibits(runs, rng, EXHIBIT_BUDGET.get(tier, 320))
    xruns, xchk, xfail, xtp = {}, {}, [], {}
    x_dirs = []      # directories of the reruns with parking sentinels (sampled by lk_trace_sample only)
    if xl:
        xf = b["work"] / ("exhibit-%s.txt" % prop)
        xf.write_text("".join(exhibit_text(x) for x in xl))
        e2 = execute(ctx, b, xf, "xrun-%s" % prop, procs=procs, timeout=300 if tier == "quick" else 3000, xpark="w")
        xruns, xchk, xfail = e2["runs"], e2["chk"], e2["failures"]
        xtp.update(e2["tp"]); tp_wall += e2["tp_wall"]
        mruns.update(e2.get("mruns", {}))
        cq_dirs += e2["dirs"]
        meta = {x["id"]: x for x in xl}
        for sid, r in xruns.items():
            m_ = meta.get(sid, {})
            r.exhibit = {"base": m_.get("base"), "window": m_.get("label"), "inserted": m_.get("kind"), "after_item": m_.get("at")}
        for k, v in e2["reached"].items():
            reached[k] = reached.get(k, 0) + v
    # shape sentinels placed, or a model step went through ADDITIONAL mutex acquisitions (W<func>#<n> passages: the step is more
    # than one critical section in the code): everything a second time with those yield points parking until the thread's next
    # `run` item, so that the other threads' ordinary steps come in between (oracle only: the schedule is not the model's)
    additional = {}
    for r_ in runs.values():
        for _k, _t, lab in r_.passages:
            if "#" in lab:
                additional[lab] = additional.get(lab, 0) + 1
    if ins["sentinels"] or additional:
        files = [sf] + ([b["work"] / ("corpus-%s.txt" % prop)] if corpus else [])
        for n_, f_ in enumerate(files):
            e3 = execute(ctx, b, f_, "srun-%s-%d" % (prop, n_), procs=procs, timeout=300 if tier == "quick" else 3000, xpark=True)
            for k, v in e3["runs"].items():
                v.sid = "x:" + k
                v.exhibit = {"base": k, "window": None, "inserted": "shape sentinels / additional mutex acquisitions parking until the thread's next run item", "after_item": None}
                xruns["x:" + k] = v
            xchk.update({"x:" + k: v for k, v in e3["chk"].items()})
            xtp.update({"x:" + k: v for k, v in e3["tp"].items()}); tp_wall += e3["tp_wall"]
            x_dirs += e3["dirs"]
    j2 = judge(prop, {k: v for k, v in xruns.items() if not k.startswith("x:")}, xchk, xfail, tp=xtp, out_of_step=oos)
    j3 = judge(prop, {k: v for k, v in xruns.items() if k.startswith("x:")}, xchk, [], compare=False, tp=xtp, out_of_step=True)
    j["unclassified"] += j2["unclassified"] + j3["unclassified"]
    # the extracted Coq trace predicates (Model/LkTrace.v) on the real histories: comparison runs + exhibit runs + reruns
    tps = {}
    for j_ in (j, j2, j3):
        for k_, v_ in j_["tp"].items():
            if isinstance(v_, dict):
                d_ = tps.setdefault(k_, {})
                for p_, n_ in v_.items():
                    d_[p_] = d_.get(p_, 0) + n_
            else:
                tps[k_] = tps.get(k_, 0) + v_
    tps["wall_s"] = round(tp_wall, 2)
    tps["predicates_of_this_property"] = {p_: t_[1] for p_, t_ in sorted(TRACE_PREDS.items()) if t_[0] == prop}
    tps["rule"] = ("lkdriver trace: history = invocations (echoed call items, epilogue calls) and responses (first F status / late line / epilogue "
                   "result) in item order; each predicate = extracted Gallina (coq/Model/LkTrace.v), checked at every prefix, proved of every "
                   "reachable trace of Mlk (coq/Proofs/LkTraceP.v); p_fresh false = the schedule presents a key to Unlock before its acquisition "
                   "returned (outside the model's key assumption): verdicts counted, never an alarm")
    tie["coq_trace_predicates"] = tps
    j["violations"] += j2["violations"] + j3["violations"]
    j["known"] += j2["known"] + j3["known"]
    x_mism = j2["mismatches"]
    j["mismatches"] += x_mism
    runs.update(xruns); chk.update(xchk); failures += xfail
    # oracle self-test: the same Python oracle on the MODEL's own trace of every schedule (comparison, corpus and exhibit runs)
    ts_ = time.time()
    allchk = dict(chk); allchk.update(xchk)
    st = oracle_selftest(prop, mruns, allchk, dict(model_traces_judged=0, failures=[], known_finding_matches=0, skipped_model_differs_from_real=0))
    tie["oracle_selftest"] = {
        "model_traces_judged": st["model_traces_judged"], "failures": len(st["failures"]), "known_finding_matches": st["known_finding_matches"],
        "skipped_model_differs_from_real": st["skipped_model_differs_from_real"], "first_failures": [list(f) for f in st["failures"][:5]],
        "wall_s": round(time.time() - ts_, 2),
        "rule": "lkdriver check renders the model's run of every schedule in the harness's format (expected observation after every item; the "
                "epilogue's calls made on the model); oracle_%s must accept it: Mlk is proved to satisfy %s on every schedule (F-LIN2 shape with "
                "a model LaGiveBack = known finding)" % (prop, prop)}
    if st["failures"]:
        sid_, idx_, text_ = st["failures"][0]
        ctx.violation({"broken": "oracle", "property": prop, "schedule": sid_, "at": idx_, "oracle_says": text_, "failures": len(st["failures"]),
                       "model_trace": mruns[sid_].raw[:400]},
                      "oracle self-test: the Python oracle of %s rejects a trace of the proved model (schedule %s, event %d: %s)" % (prop, sid_, idx_, text_[:200]),
                      name="t2_oracle_selftest_%s.json" % sid_.replace("#", "_").replace(":", "_"), no_failing_input=True)
    tie["exhibit"] = {
        "runs": len(xruns), "window_exhibit_runs": sum(1 for k in xruns if not k.startswith("x:")),
        "shape_sentinel_reruns": sum(1 for k in xruns if k.startswith("x:")), "additional_mutex_acquisitions_seen": additional,
        "mutex_acquisition_sites_instrumented": len(ins.get("acq_sites", [])), "window_yield_points_placed": ins.get("windows", []), "gc_yield_points_placed": ins.get("multi", {}),
        "window_passages_seen_in_comparison_runs": xstats["window_passages_seen"], "insertion_candidates": xstats["candidates"],
        "inserted_by_window_and_kind": xstats["inserted"], "gc_overrun_base_schedules": xstats["gc_overrun_base_schedules"],
        "gc_overrun_variants": xstats["gc_overrun_variants"],
        "schedules_failing_oracle": len(set(v[0] for v in j2["violations"] + j3["violations"])),
        "known_finding_reproductions": len(j2["known"] + j3["known"]), "mismatches_in_projection": len(x_mism),
        "schedules_differing_in_labels_only": j2["label_only"], "hangs_or_fatal": len(xfail),
        "incomplete_schedules": sum(1 for r in xruns.values() if not r.complete), "wall_s": round(time.time() - tx, 1),
        "rule": "base schedule (echoed items of a comparison run) + [cancel t cause | gcpass | tick 1, gcpass | tick 1] + resume t right after the "
                "item during which thread t went through the window; stratified by (window, kind), PRNG seeded by ctx.seed"}

    reported = 0
    seen_text = set()
    for sid, idx, text in j["violations"]:
        key = text.split(":")[0]
        if reported >= 3 or (sid.split("#")[0], key) in seen_text:
            continue
        seen_text.add((sid.split("#")[0], key))
        reported += 1
        ctx.violation(_replay_obj(prop, runs[sid], text, chk.get(sid), {"violation_at": idx, "seed": ctx.seed}),
                      "real trace violates %s at event %d of schedule %s: %s" % (prop, idx, sid, text[:300]),
                      name="t2_failing_%s.json" % sid.replace("#", "_").replace(":", "_"))
    for sid, text in j["known"][:1]:
        fk = [f for f in vcheck.load_known_findings() if f.get("id") == "F-LIN2" and f.get("kind") == "known" and f.get("property") == prop]
        if fk:
            ctx.known_finding("F-LIN2", "reproduced on the real code by schedule %s (%d schedules): a Lock handed a unit after its context ended "
                              "keeps it until its own Release; a TryLock in the window is refused" % (sid, len(j["known"])))
        else:
            ctx.violation(_replay_obj(prop, runs[sid], text, chk.get(sid)), "real trace violates %s (schedule %s): %s" % (prop, sid, text[:300]),
                          name="t2_failing_%s.json" % sid.replace("#", "_").replace(":", "_"))
    missing = [m for m in ins["missing"]]
    if not j["violations"]:
        if j["mismatches"]:
            sid, k, kind, text = j["mismatches"][0]
            run = runs.get(sid)
            obj = _replay_obj(prop, run, text, chk.get(sid)) if run else {"schedule": sid}
            obj.update({"broken": "correspondence T2 (projection %s)" % sorted(PROJ.get(prop, [])), "first_difference": {"item": k, "kind": kind, "text": text},
                        "mismatching_schedules": len(j["mismatches"]), "unplaced_yield_points": missing, "sentinels_placed": ins["sentinels"]})
            ctx.violation(obj, "model Mlk and the implementation disagree on %d schedule(s) in what %s reads (first: %s item %d, %s: %s); "
                          "no real trace violating the property was found" % (len(j["mismatches"]), prop, sid, k, kind, text[:200]),
                          name="t2_correspondence_%s.json" % sid.replace("#", "_").replace("?", "x").replace(":", "_"), no_failing_input=True)
        else:
            sent = [sid_ for sid_ in ins["sentinels"] if prop in ins.get("sentinel_concerns", {}).get(sid_, [prop])]
            sent += [lab for lab in sorted(additional) if prop in ins.get("acq_concerns", {}).get(lab[1:].split("#")[0], [prop])]
            if missing or sent:
                ctx.violation({"broken": "instrumentation", "unplaced_yield_points": missing, "sentinels_placed": sent, "log": ins["log"]},
                              "the code no longer has the shape the model was written against (%s); no failing real trace was found"
                              % ", ".join([m["id"] for m in missing] + sent), name="t2_unplaced_hooks.json", no_failing_input=True)
            elif j["unclassified"]:
                sid, idx, text = j["unclassified"][0]
                ctx.violation(_replay_obj(prop, runs[sid], text, chk.get(sid), {"unclassified": len(j["unclassified"])}),
                              "%d history(ies) with F-LIN2's shape on schedules whose real run is out of step with the model (first: %s): the model's ghost "
                              "log cannot tell the known finding from a new defect there; no model-independent judgement failed"
                              % (len(j["unclassified"]), sid), name="t2_unclassified_%s.json" % sid.replace("#", "_").replace(":", "_"), no_failing_input=True)
    n_items = sum(len(r.items) for r in runs.values())
    distinct = len(set(tuple(" ".join(f) for _, f in r.items) for r in runs.values()))
    tie.update({
        "schedules_executed_on_real_code": len(runs), "comparison_runs": n_compare, "exhibit_runs": len(xruns),
        "corpus": len(corpus), "items": n_items, "distinct_schedules": distinct,
        "scenarios": len(scs), "scenario_stats": gstats, "labels_reached": {k: reached.get(k, 0) for k in sorted(reached)},
        "model_labels_never_reached": [l for l in MODEL_LABELS if not reached.get(l)],
        "preemption_bound": max([g["bound"] for g in gstats.values()] + [0]),
        "mismatches_in_projection": len(j["mismatches"]), "schedules_differing_in_labels_only": j["label_only"], "projection": sorted(PROJ.get(prop, [])), "schedules_failing_oracle": len(set(v[0] for v in j["violations"])),
        "known_finding_reproductions": len(j["known"]), "hangs_or_fatal": len(failures), "yield_points_placed": len(ins["placed"]),
        "flin2_shaped_histories_unclassified_out_of_step": len(j["unclassified"]), "model_label_hooks_missing": bool(oos),
        "gc_pass_label_differences": sum(1 for c_ in chk.values() if any(d[2] == str(GC_TID0) or (d[2].isdigit() and int(d[2]) >= GC_TID0) for d in c_.get("diffs", []))),
        "yield_points_missing": [m["id"] for m in missing], "sentinels_placed": ins["sentinels"], "oracle": prop,
        "incomplete_schedules": sum(1 for r in runs.values() if not r.complete), "schedules_abandoned_after_repeated_hangs": e.get("abandoned", 0), "wall_s": round(time.time() - t0, 1)})
    ctx.coverage["traces_validated_against_impl"] = ctx.coverage.get("traces_validated_against_impl", 0) + len(runs)
    ctx.coverage["evaluations"] = ctx.coverage.get("evaluations", 0) + len(runs)
    ctx.coverage["distinct_nontrivial"] = ctx.coverage.get("distinct_nontrivial", 0) + distinct
    tie["rule"] = ("schedules = complete runs of the extracted model Mlk over the scenario's calls, enumerated by DFS over the model's enabled items with "
                   "the preemption bound (all of them, or a reservoir sample drawn from one PRNG seeded by ctx.seed); each is executed item by item "
                   "on the real lock.Manager inside a synctest bubble (one critical section per item) and compared after every item; distinct = "
                   "different item sequences; exhibit runs (counted separately under 'exhibit') add asynchronous items at window yield points")
    for a_ in T2_ASSUMPTIONS:
        if a_ not in ctx.assumptions:
            ctx.assumptions.append(a_)
    if runs and len(ctx.coverage["samples"]) < 3:
        sid = sorted(runs)[0]
        ctx.coverage["samples"].append({"schedule": sid, "observed_head": runs[sid].raw[:30]})
    xs = sorted(k for k in xruns if not k.startswith("x:"))
    if xs and not any(isinstance(x, dict) and "exhibit_schedule" in x for x in ctx.coverage["samples"]):
        r_ = xruns[xs[len(xs) // 2]]
        ctx.coverage["samples"].append({"exhibit_schedule": r_.sid, "exhibit_of": r_.exhibit, "items": [" ".join(f) for _k, f in r_.items][:60]})
    # extraction + driver vs the Gallina definitions: a sample of the checked schedules is evaluated inside Coq (lib/coqeval.py)
    try:
        from . import coqeval
        coqeval.hook(ctx, "T2-sched", coqeval.lk_sample, cq_dirs)
        coqeval.hook(ctx, "T2-sched-trace-predicates", lk_trace_sample, cq_dirs + x_dirs, runs=runs, xdirs=x_dirs)
    except Exception as ex:  # noqa
        ctx.note("coq/driver tie T2-sched not run: %r" % (ex,))
    return dict(ok_build=True, runs=runs, chk=chk, judged=j, failures=failures, stats=gstats, reached=reached, instr=ins)


def replay(ctx, prop, path):
    """bin/check Cxx --replay <t2 replay file>: executes the schedule again on the tree under test (exhibit schedules with the
    windows parking) and records a violation when the property's oracle still fails on the real trace."""
    c = json.loads(Path(path).read_text())
    b = build(ctx)
    if not b["ok"]:
        ctx.violation({"broken": "build", "stage": b["why"], "log": b["log"]}, "the tree under test does not build", name="t2_build_failure.json",
                      no_failing_input=True)
        return
    c.setdefault("id", "replay")
    cf = b["work"] / "replay.txt"
    cf.write_text(corpus_text(c))
    e = execute(ctx, b, cf, "replay", procs=1, xpark=c.get("xpark", "1"))
    oos = any(m.get("label") in MODEL_LABELS or str(m.get("label", "")).startswith(("GcShard", "*")) for m in b["instr"]["missing"]) or c.get("xpark") == "1"
    j = judge(prop, e["runs"], e["chk"], e["failures"], compare=True, tp=e.get("tp"), out_of_step=oos)
    for r in e["runs"].values():
        print("\n".join(r.raw))
    for sid, idx, text in j["violations"][:3]:
        ctx.violation(_replay_obj(prop, e["runs"][sid], text, e["chk"].get(sid), {"violation_at": idx}),
                      "replayed: real trace violates %s at event %d: %s" % (prop, idx, text[:300]), name="t2_replayed_%d.json" % idx)
    for sid, text in j["known"][:1]:
        ctx.known_finding("F-LIN2", "replayed: " + text[:200])
    if not j["violations"] and j["mismatches"]:
        sid, k, kind, text = j["mismatches"][0]
        ctx.violation({"schedule": sid, "first_difference": {"item": k, "kind": kind, "text": text}},
                      "replayed: model and implementation disagree at item %d (%s): %s" % (k, kind, text[:200]), name="t2_replayed_mismatch.json",
                      no_failing_input=True)
    ctx.coverage["ties"]["T2-sched"] = {"replayed": path, "schedules_executed_on_real_code": len(e["runs"])}


# ------------------------------------------------------------------------------------------------------------- smoke

def main(argv=None):
    import argparse
    ap = argparse.ArgumentParser()
    ap.add_argument("--tier", default="quick", choices=["quick", "thorough"])
    ap.add_argument("--prop", default="C01,C02,C03,C13")
    ap.add_argument("--seed", type=int, default=int(os.environ.get("VERIF_SEED", "1")))
    ap.add_argument("--scenario", default=None)
    ap.add_argument("--replay", default=None)
    ap.add_argument("--name", default="T2LK")
    a = ap.parse_args(argv)
    ctx = vcheck.Ctx(a.name, a.tier, a.seed)
    t0 = time.time()
    rc = 0
    props = a.prop.split(",")
    if a.replay:
        c = json.loads(Path(a.replay).read_text())
        b = build(ctx)
        if not b["ok"]:
            print("build failed:", b["why"], b["log"][-1500:])
            return 2
        cf = b["work"] / "replay.txt"
        c.setdefault("id", "replay")
        cf.write_text(corpus_text(c))
        e = execute(ctx, b, cf, "replay", procs=1, xpark=c.get("xpark", "1"))
        for p in props:
            j = judge(p, e["runs"], e["chk"], e["failures"], tp=e.get("tp"))
            print(p, json.dumps(j, indent=1))
        for r in e["runs"].values():
            print("\n".join(r.raw))
        return 0
    total = 0
    for p in props:
        scs = load_scenarios(p, a.scenario.split(",") if a.scenario else None)
        r = run_property(ctx, p, scenarios=scs, tier=a.tier)
        if not r.get("ok_build"):
            rc = 2
            break
        tie = ctx.coverage["ties"]["T2-sched"]
        total += tie["schedules_executed_on_real_code"]
        x_ = tie.get("exhibit", {})
        print("%s: oracle self-test on model traces: %s" % (p, json.dumps({k_: v_ for k_, v_ in tie.get("oracle_selftest", {}).items() if k_ != "rule"})))
        print("%s: exhibit runs %d (inserted %s; gc-overrun variants %d; failing oracle %d; mismatches %d; %.1fs)"
              % (p, x_.get("runs", 0), x_.get("inserted_by_window_and_kind"), x_.get("gc_overrun_variants", 0), x_.get("schedules_failing_oracle", 0),
                 x_.get("mismatches_in_projection", 0), x_.get("wall_s", 0)))
        print("%s: %d schedules (%d items, %d distinct) in %.1fs; mismatches %d, oracle failures %d, F-LIN2 reproductions %d, hangs/fatal %d; labels never reached: %s; missing hooks: %s; sentinels: %s"
              % (p, tie["schedules_executed_on_real_code"], tie["items"], tie["distinct_schedules"], tie["wall_s"], tie["mismatches_in_projection"],
                 tie["schedules_failing_oracle"], tie["known_finding_reproductions"], tie["hangs_or_fatal"], tie["model_labels_never_reached"],
                 tie["yield_points_missing"], tie["sentinels_placed"]))
        print("%s: extracted Coq trace predicates on the real histories: %s" % (p, json.dumps({k_: v_ for k_, v_ in tie.get("coq_trace_predicates", {}).items() if k_ != "rule"})))
    for fid, text in ctx.known:
        print("KNOWN-FINDING:", fid, text)
    for path, text, nfi in ctx.violations:
        print("VIOLATION replay=%s%s\n   %s" % (path, " no-failing-input-found" if nfi else "", text))
        rc = rc or 1
    print("total: %d schedules, %.1fs wall (tier %s, seed %d, repo %s)" % (total, time.time() - t0, a.tier, a.seed, REPO))
    return rc


if __name__ == "__main__":
    sys.exit(main())
