"""Coq-side re-evaluation of what the extracted model drivers said (tie "coq_vm_compute_vs_extracted_driver").

The theorems are about the Gallina definitions (Model/Seq.v + Track.v, Model/Lk.v, Model/Sv.v); the three big ties run those
definitions through OCaml extraction (ExtrOcamlBasic) and hand-written drivers (parsing, printing, projections, the schedule
bookkeeping). On a SAMPLE of the traces of every run the same inputs are evaluated INSIDE Coq (`Eval vm_compute`, one coqc
call per tie on a `cases.v` written under ctx.work) and compared with what the driver answered for the same trace:

  seq_sample  T1   histories of trace.txt (translated from the line format to Gallina terms by THIS file, not by the driver):
                   replay_history proj_all / the property's projection, track_failures, inert_failures  vs  the R/T/I lines of
                   the driver's verdict; plus MUTATED copies of the sampled histories (one observation falsified), on which
                   the driver is run again, so that the `mismatch <i>` and the oracle-failure paths are compared as well
  lk_sample   T2/1 the model items `lkdriver check` handed to the extracted lstep (its V i lines; the ones that are echoed harness
                   items are checked against the echoed items): lrun minidle (prefix) -> thread labels, results, l_table,
                   l_crashed, has_giveback  vs  the driver's V o lines (the expectation it compared the real observation with),
                   at the end of the schedule and at interior items chosen for label coverage
  sv_sample   T2/2 likewise with vrun cfg: clock, thread labels, responses, sv_table, timer map, sessions, sv_listing, sv_file,
                   v_crashed, sv_armed

A disagreement means the extraction / driver tie is broken for that run: ctx.violation(..., no_failing_input=True) naming the
trace. Counts go to ctx.coverage["ties"]["coq_vm_compute_vs_extracted_driver"]. Nothing here raises: the hooks in seqtie /
schedtie / svtie call `hook(...)`, which turns any exception into a note.
"""
import random
import re
import shutil
import subprocess
import time
from pathlib import Path

from . import vcheck
from .vcheck import VERIF, COQ, sh, Lock

TIE = "coq_vm_compute_vs_extracted_driver"
QUICK_K = {"seq": 12, "lk": 12, "sv": 12}
THOROUGH_K = {"seq": 200, "lk": 200, "sv": 200}
SHARD = 50                  # cases per cases.v
COQC_TIMEOUT = 600
COQ_FLAGS = ["-w", "-notation-overridden,-deprecated-hint-without-locality,-deprecated-instance-without-locality"]

# pc labels by the number Model/Lk.v pc_label / Model/Sv.v spc_label give them (this file's own table: the drivers have theirs)
LK_LABELS = ["PEnter", "PGet", "PChkDel", "PTryAcq", "PAcqEnter", "PAcqWait", "PAcqWoken", "PAcqCancel", "PRelCancel", "PAddKey",
             "PUnlChk", "PUnlRem", "PDone", "PFin"]
SV_LABELS = ["VMgrTry", "VMgrLock", "VWait", "VWoken", "VSessAdd", "VTmAdd", "VTmRemove", "VMgrUnlock", "VSessRemove", "VTmReset",
             "VCbUnlock", "VCbSessRemove", "VCbTmRemove", "VDsFlag", "VDsNoClear", "VDsDestroy", "VDsTmRemove", "VDsUnlock",
             "VShFlag", "VShNet", "VShTimers", "VShMgr", "VFin", "VEnd"]
# projections of DESIGN 4.6 in the field order of Model/Track.v's Proj (bits keys errs times listing file table last ipc);
# the same table as `projections` of ocaml/seq/driver.ml, kept here on purpose: the driver's copy is what is being checked
SEQ_PROJ = {
    "all": (1, 1, 1, 1, 1, 1, 1, 1, 1), "nolast": (1, 1, 1, 1, 1, 1, 1, 0, 1),
    "C01": (1, 0, 0, 0, 0, 0, 1, 0, 0), "C03": (1, 0, 1, 1, 0, 0, 0, 0, 0), "C04": (1, 0, 0, 1, 1, 0, 1, 0, 0),
    "C06": (1, 0, 0, 0, 1, 1, 1, 0, 0), "C07": (1, 1, 1, 1, 1, 1, 1, 0, 1), "C08": (0, 0, 0, 0, 1, 1, 1, 0, 0),
    "C10": (1, 0, 0, 1, 1, 1, 1, 0, 0), "C11": (1, 0, 1, 0, 1, 1, 1, 0, 0), "C12": (1, 0, 1, 0, 0, 0, 1, 0, 0),
    "C13": (1, 0, 1, 0, 0, 0, 1, 1, 0), "C14": (1, 0, 1, 0, 0, 0, 0, 0, 0), "C18": (1, 0, 1, 0, 1, 1, 1, 0, 1),
}


class Untranslatable(Exception):
    pass


# ------------------------------------------------------------------------------------------------ Gallina syntax helpers

def _err_table():
    """Go name -> constructor, read from Model/Err.v (err_go_name)."""
    tab = {}
    try:
        text = (COQ / "Model" / "Err.v").read_text()
        for m in re.finditer(r"\|\s*(E[A-Za-z0-9_]+)\s*=>\s*\"([^\"]+)\"", text):
            tab[m.group(2)] = m.group(1)
    except OSError:
        pass
    return tab


def _int(tok):
    try:
        return int(tok)
    except ValueError:
        raise Untranslatable("number %r" % tok)


def zlit(v):
    v = _int(v) if not isinstance(v, int) else v
    return "%d%%Z" % v if v >= 0 else "(%d)%%Z" % v


def natlit(v):
    v = _int(v) if not isinstance(v, int) else v
    if v < 0 or v > 5000:
        raise Untranslatable("nat %r" % v)
    return "%d%%nat" % v


def blit(tok):
    return "true" if tok == "1" else "false"


class Strs:
    """Interns byte strings: every distinct one becomes `Definition bN : str := [x61; x62].` (they recur in every probe)."""

    def __init__(self, prefix="b"):
        self.tab, self.defs, self.prefix = {}, [], prefix

    def of_hex(self, tok):
        tok = tok.lower()
        if tok in ("-", ""):
            tok = ""
        elif len(tok) % 2 or not re.fullmatch(r"[0-9a-f]+", tok):
            raise Untranslatable("hex string %r" % tok[:40])
        name = self.tab.get(tok)
        if name is None:
            name = "%s%d" % (self.prefix, len(self.tab))
            self.tab[tok] = name
            body = "; ".join("x" + tok[i:i + 2] for i in range(0, len(tok), 2))
            self.defs.append("Definition %s : str := [%s]." % (name, body))
        return name

    def opt(self, tok):
        return "None" if tok == "~" else "(Some %s)" % self.of_hex(tok)


def optz(tok):
    return "None" if tok == "~" else "(Some %s)" % zlit(tok)


class Errs:
    def __init__(self):
        self.tab = _err_table()

    def ctor(self, tok):
        return self.tab.get(tok, "EOther")

    def opt(self, tok):
        return "None" if tok == "~" else "(Some %s)" % self.ctor(tok)

    def canon(self, tok):
        """the name the drivers print for a parsed error token"""
        return tok if tok in self.tab else "other"


PRELUDE_HEX = """
Definition hexd (n : N) : ascii :=
  nth (N.to_nat n) ["0"%char; "1"%char; "2"%char; "3"%char; "4"%char; "5"%char; "6"%char; "7"%char; "8"%char; "9"%char;
                    "a"%char; "b"%char; "c"%char; "d"%char; "e"%char; "f"%char] "?"%char.
Definition hx (s : list byte) : string :=
  fold_right (fun b acc => String (hexd (N.div (Byte.to_N b) 16%N)) (String (hexd (N.modulo (Byte.to_N b) 16%N)) acc)) EmptyString s.
"""
PRINT_OPTS = "Set Printing Depth 1000000.\nSet Printing Width 4000.\n"


# ------------------------------------------------------------------------------------ parsing what `Eval vm_compute` prints

_TOK = re.compile(r"\s*(?:(\d+)|\"((?:[^\"]|\"\")*)\"|([A-Za-z_][A-Za-z0-9_'.]*)|(%[A-Za-z_][A-Za-z0-9_]*)|([\[\]();,\-]))")


class Some:
    __slots__ = ("v",)

    def __init__(self, v):
        self.v = v

    def __eq__(self, o):
        return isinstance(o, Some) and o.v == self.v

    def __repr__(self):
        return "Some(%r)" % (self.v,)


def parse_term(text):
    """A printed Coq value made of numbers, strings, booleans, options, tuples and lists -> Python value
    (int, str, bool, None / Some, tuple, list). Whitespace and line breaks are irrelevant; scope delimiters are dropped."""
    toks, pos = [], 0
    text = text.strip()
    while pos < len(text):
        m = _TOK.match(text, pos)
        if not m:
            if text[pos:].strip() == "":
                break
            raise ValueError("cannot read %r" % text[pos:pos + 40])
        pos = m.end()
        if m.group(1) is not None:
            toks.append(("n", int(m.group(1))))
        elif m.group(2) is not None:
            toks.append(("s", m.group(2).replace('""', '"')))
        elif m.group(3) is not None:
            toks.append(("i", m.group(3)))
        elif m.group(4) is not None:
            continue
        else:
            toks.append(("p", m.group(5)))
    i = [0]

    def peek():
        return toks[i[0]] if i[0] < len(toks) else ("e", None)

    def take():
        t = peek()
        i[0] += 1
        return t

    def term():
        k, v = take()
        if k == "n":
            return v
        if k == "s":
            return v
        if k == "i":
            if v == "true":
                return True
            if v == "false":
                return False
            if v == "None":
                return None
            if v == "Some":
                return Some(term())
            raise ValueError("identifier %r in a printed value" % v)
        if k == "p" and v == "-":
            k2, v2 = take()
            if k2 != "n":
                raise ValueError("'-' without a number")
            return -v2
        if k == "p" and v == "(":
            items = [term()]
            while peek() == ("p", ","):
                take()
                items.append(term())
            if take() != ("p", ")"):
                raise ValueError("')' expected")
            return items[0] if len(items) == 1 else tuple(items)
        if k == "p" and v == "[":
            items = []
            if peek() == ("p", "]"):
                take()
                return items
            items.append(term())
            while peek() == ("p", ";"):
                take()
                items.append(term())
            if take() != ("p", "]"):
                raise ValueError("']' expected")
            return items
        raise ValueError("unexpected %r" % (v,))

    r = term()
    if i[0] != len(toks):
        raise ValueError("trailing tokens after a printed value")
    return r


def split_evals(out):
    """The terms printed by the Eval commands of one coqc run, in order."""
    return [m.group(1) for m in re.finditer(r"(?ms)^\s*= (.*?)^\s*: ", out)]


# ---------------------------------------------------------------------------------------------------------------- coqc

def run_coqc(ctx, files):
    """coqc on every file (they live under ctx.work) while holding the Coq lock once; up to 4 at a time.
    -> [(rc, output)], seconds"""
    t0 = time.time()
    res = [None] * len(files)
    with Lock("coq"):
        for base in range(0, len(files), 4):
            procs = []
            for j, f in enumerate(files[base:base + 4]):
                cmd = ["timeout", str(COQC_TIMEOUT), "coqc", "-Q", str(COQ), "Ldlm"] + COQ_FLAGS + ["-o", str(f.with_suffix(".vo")), str(f)]
                try:
                    p = subprocess.Popen(cmd, cwd=str(f.parent), stdout=subprocess.PIPE, stderr=subprocess.STDOUT, text=True, errors="replace")
                except Exception as ex:  # noqa
                    res[base + j] = (127, repr(ex))
                    continue
                procs.append((base + j, p))
            for idx, p in procs:
                try:
                    out, _ = p.communicate(timeout=COQC_TIMEOUT + 30)
                    res[idx] = (p.returncode, out or "")
                except subprocess.TimeoutExpired:
                    p.kill()
                    out, _ = p.communicate()
                    res[idx] = (124, (out or "") + "\n[timeout]")
    return res, time.time() - t0


def models_built(rels):
    missing = [r for r in rels if not vcheck.coq_vo_ok(r)]
    return ("Coq model not built (missing or stale .vo): " + ", ".join(missing)) if missing else None


def _workdir(ctx, name):
    d = ctx.work / "coqeval" / name
    shutil.rmtree(d, ignore_errors=True)
    d.mkdir(parents=True)
    return d


def _tier_k(ctx, kind, k):
    if k is not None:
        return k
    return (QUICK_K if ctx.tier == "quick" else THOROUGH_K)[kind]


def record(ctx, tie, res):
    """res: dict(sampled, compared, disagreements=[...], skipped, coqc_s, ...) of one tie."""
    top = ctx.coverage["ties"].setdefault(TIE, {"compared": 0, "disagreements": [], "n_disagreements": 0, "by_tie": {},
                                                "rule": "a seeded sample of the traces of each tie is evaluated inside Coq (Eval vm_compute on the "
                                                        "Gallina definitions the theorems are about) and compared with the answers of the extracted OCaml "
                                                        "driver for the same trace; T1 also compares mutated copies (one observation falsified)"})
    dis = res.get("disagreements") or []
    top["compared"] += int(res.get("compared", 0))
    top["n_disagreements"] += len(dis)
    top["disagreements"] += dis[:5]
    ent = dict(res)
    ent["n_disagreements"] = len(dis)
    ent["disagreements"] = dis[:5]
    top["by_tie"][tie] = ent
    if dis:
        first = dis[0]
        ctx.violation({"broken": "extraction / driver tie (%s)" % tie, "what": "Coq's own evaluation of the model (vm_compute) and the extracted OCaml driver "
                       "answer differently on the same trace", "n_disagreements": len(dis), "disagreements": dis[:20], "cases_file": res.get("cases_file")},
                      "%s: Coq (vm_compute) and the extracted driver disagree on %d sampled trace(s); first: %s (%s)"
                      % (tie, len(set(d.get("trace") for d in dis)), first.get("trace"), first.get("what")),
                      name="coqeval_%s.json" % re.sub(r"[^A-Za-z0-9]", "_", tie), no_failing_input=True)
    elif res.get("skipped"):
        ctx.note("coq/driver tie %s skipped: %s" % (tie, str(res["skipped"])[:300]))
    else:
        ctx.note("coq/driver tie %s: %d comparisons on %d sampled traces, 0 disagreements (coqc %.1fs)"
                 % (tie, res.get("compared", 0), res.get("sampled", 0), res.get("coqc_s", 0.0)))


def hook(ctx, tie, fn, *a, **kw):
    """Called by the ties: never raises."""
    t0 = time.time()
    try:
        if getattr(ctx, "replay", None):
            return None
        res = fn(ctx, *a, **kw)
        res["wall_s"] = round(time.time() - t0, 2)
        record(ctx, tie, res)
        return res
    except Exception as ex:  # noqa
        import traceback
        ctx.note("coq/driver tie %s crashed (recorded, not a verdict): %r %s" % (tie, ex, traceback.format_exc()[-600:]))
        try:
            ctx.coverage["ties"].setdefault(TIE, {"compared": 0, "disagreements": [], "n_disagreements": 0, "by_tie": {}})["by_tie"][tie] = {
                "skipped": "crashed: %r" % (ex,), "compared": 0}
        except Exception:  # noqa
            pass
        return None


# =========================================================================================================== T1: Mseq

def seq_event(f, S, E):
    k = f[0]
    if k == "conn" and len(f) == 2:
        return "EConnect %s" % S.of_hex(f[1])
    if k == "disc" and len(f) == 2:
        return "EDisconnect %s" % S.of_hex(f[1])
    if k == "try" and len(f) == 6:
        return "ETryLock %s %s %s %s %s" % (S.opt(f[1]), S.of_hex(f[2]), optz(f[3]), optz(f[4]), S.of_hex(f[5]))
    if k == "lock" and len(f) == 8:
        return "ELock %s %s %s %s %s %s %s" % (natlit(f[1]), S.opt(f[2]), S.of_hex(f[3]), optz(f[4]), optz(f[5]), optz(f[6]), S.of_hex(f[7]))
    if k == "unl" and len(f) == 4:
        return "EUnlock %s %s %s" % (S.opt(f[1]), S.of_hex(f[2]), S.of_hex(f[3]))
    if k == "ren" and len(f) == 4:
        return "ERenew %s %s %s" % (S.of_hex(f[1]), S.of_hex(f[2]), zlit(f[3]))
    if k == "cancel" and len(f) == 2:
        return "ECancel %s" % natlit(f[1])
    if k == "adv" and len(f) == 2:
        return "EAdvance %s" % zlit(f[1])
    if k == "restart":
        return "ERestart [%s]" % "; ".join(S.of_hex(x) for x in f[1:])
    if f == ["shutdown"]:
        return "EShutdown"
    if f == ["probe"]:
        return "EProbe"
    if f == ["ipcl"]:
        return "EIpcList"
    if k == "ipcu" and len(f) == 3:
        return "EIpcUnlock %s %s" % (S.of_hex(f[1]), S.opt(f[2]))
    raise Untranslatable("event: " + " ".join(f)[:80])


def _clocks(n, toks, S):
    if len(toks) < 3 * n:
        raise Untranslatable("clocks")
    cs = ["Clock %s %s %s" % (S.of_hex(toks[3 * i]), S.of_hex(toks[3 * i + 1]), zlit(toks[3 * i + 2])) for i in range(n)]
    return "[%s]" % "; ".join(cs), toks[3 * n:]


def _resp(f, S, E):
    if len(f) == 4 and f[0] == "lock":
        return "(RLock %s %s %s)" % (blit(f[1]), S.of_hex(f[2]), E.opt(f[3]))
    if len(f) == 3 and f[0] == "unl":
        return "(RUnlock %s %s)" % (blit(f[1]), E.opt(f[2]))
    if f == ["blocked"]:
        return "RBlocked"
    raise Untranslatable("resp: " + " ".join(f)[:80])


def seq_out(f, S, E):
    k = f[0]
    if k == "r":
        return "OResp %s" % _resp(f[1:], S, E)
    if k == "w" and len(f) == 6:
        return "OWaiter %s %s (RLock %s %s %s)" % (natlit(f[1]), zlit(f[2]), blit(f[3]), S.of_hex(f[4]), E.opt(f[5]))
    if k == "listing" and len(f) >= 2:
        cs, _ = _clocks(_int(f[1]), f[2:], S)
        return "OListing %s" % cs
    if f == ["file", "none"]:
        return "OFile None"
    if k == "file" and len(f) >= 2:
        rest, ents = f[2:], []
        for _ in range(_int(f[1])):
            if len(rest) < 2:
                raise Untranslatable("file")
            sid, m = rest[0], _int(rest[1])
            cs, rest = _clocks(m, rest[2:], S)
            ents.append("(%s, %s)" % (S.of_hex(sid), cs))
        return "OFile (Some [%s])" % "; ".join(ents)
    if k == "table" and len(f) >= 2:
        rest, ents = f[2:], []
        for _ in range(_int(f[1])):
            if len(rest) < 4:
                raise Untranslatable("table")
            name, size, last, nk = rest[0], rest[1], rest[2], _int(rest[3])
            if len(rest) < 4 + nk:
                raise Untranslatable("table keys")
            ks = "[%s]" % "; ".join(S.of_hex(x) for x in rest[4:4 + nk])
            rest = rest[4 + nk:]
            ents.append("(%s, (%s, %s, %s))" % (S.of_hex(name), zlit(size), ks, zlit(last)))
        return "OTable [%s]" % "; ".join(ents)
    if k == "ipcl" and len(f) >= 2:
        cs, _ = _clocks(_int(f[1]), f[2:], S)
        return "OIpcList %s" % cs
    if k == "ipcu" and len(f) == 3:
        return "OIpcUnlock %s %s" % ("None" if f[1] == "~" else "(Some %s)" % blit(f[1]), E.opt(f[2]))
    raise Untranslatable("out: " + " ".join(f)[:80])


def seq_history_terms(lines, S, E):
    """lines of one history (after 'H ...') -> (config term, history term, number of events)."""
    cfg = "Config false false 1%Z 0%Z 0%Z"     # the driver's default when no C line is present
    evs = []
    for line in lines:
        f = line.split()
        if not f:
            continue
        if f[0] == "C" and len(f) == 6:
            cfg = "Config %s %s %s %s %s" % (blit(f[1]), blit(f[2]), zlit(f[3]), zlit(f[4]), zlit(f[5]))
        elif f[0] == "E":
            evs.append([seq_event(f[1:], S, E), []])
        elif f[0] == "O" and evs:
            evs[-1][1].append(seq_out(f[1:], S, E))
    h = "[%s]" % ";\n  ".join("(%s, [%s])" % (e, "; ".join(o)) for e, o in evs)
    return cfg, h, len(evs)


def read_traces(dirs):
    """{hid: (dir, [lines after the H line up to X])} of every trace.txt"""
    out = {}
    for d in dirs:
        tr = Path(d) / "trace.txt"
        try:
            text = tr.read_text()
        except OSError:
            continue
        cur = None
        for line in text.splitlines():
            if line.startswith("H "):
                f = line.split()
                cur = f[1] if len(f) > 1 else None
                if cur is not None:
                    out[cur] = (Path(d), [])
            elif line.strip() == "X":
                cur = None
            elif cur is not None:
                out[cur][1].append(line)
    return out


def parse_seq_verdict(text):
    """{hid: dict(R={proj: None|idx}, T=[(i,tag)], I=[...], B=bool)}"""
    res = {}
    for line in text.splitlines():
        f = line.split()
        if len(f) < 3 or f[0] not in ("R", "T", "I", "B"):
            continue
        r = res.setdefault(f[1], dict(R={}, T=[], I=[], B=False))
        try:
            if f[0] == "R":
                r["R"][f[2]] = None if f[3] == "ok" else int(f[4])
            elif f[0] == "T":
                r["T"].append((int(f[2]), f[3]))
            elif f[0] == "I":
                r["I"].append((int(f[2]), f[3]))
            elif f[0] == "B":
                r["B"] = True
        except (ValueError, IndexError):
            r["B"] = True
    return res


def mutate_history(lines, rng, E):
    """One falsified observation: -> (new lines, description) or None."""
    cands = []
    for i, line in enumerate(lines):
        f = line.split()
        if len(f) < 2 or f[0] != "O":
            continue
        if f[1] == "r" and len(f) == 6 and f[2] == "lock":
            cands += [(i, "bit"), (i, "err")]
        elif f[1] == "r" and len(f) == 5 and f[2] == "unl":
            cands += [(i, "bit"), (i, "err")]
        elif f[1] in ("listing", "table") and len(f) > 2 and f[2] != "0":
            cands.append((i, "empty"))
        elif f[1] == "w" and len(f) == 7:
            cands.append((i, "time"))
    if not cands:
        return None
    i, kind = cands[rng.randrange(len(cands))]
    f = lines[i].split()
    if kind == "bit":
        f[3] = "0" if f[3] == "1" else "1"
    elif kind == "err":
        f[-1] = "lock.ErrLockDoesNotExist" if f[-1] == "~" else "~"
    elif kind == "empty":
        f = f[:2] + ["0"]
    elif kind == "time":
        f[3] = str(int(f[3]) + 1)
    new = list(lines)
    new[i] = " ".join(f)
    return new, "%s of line %d: %s -> %s" % (kind, i, lines[i][:80], new[i][:80])


SEQ_HEADER = ("From Coq Require Import String Ascii.\nFrom Ldlm Require Import Model.Base Model.Err Model.Seq Model.Track.\n" + PRINT_OPTS)


def seq_sample(ctx, dirs, k=None, projection="all", driver=None, name="seq"):
    """T1. dirs: the directories judged by seqtie.judge (trace.txt + verdict.txt)."""
    k = _tier_k(ctx, "seq", k)
    res = dict(sampled=0, compared=0, disagreements=[], skipped=None, coqc_s=0.0, histories=0, mutants=0, untranslatable=0,
               verdicts_not_ok_in_sample=0, projection=projection)
    why = models_built(["Model/Base.v", "Model/Err.v", "Model/Seq.v", "Model/Track.v"])
    if why:
        res["skipped"] = why
        return res
    traces = read_traces(dirs)
    verdict = {}
    for d in set(str(v[0]) for v in traces.values()):
        try:
            verdict.update(parse_seq_verdict((Path(d) / "verdict.txt").read_text()))
        except OSError:
            pass
    hids = sorted(h for h in traces if h in verdict and not verdict[h]["B"] and "all" in verdict[h]["R"] and len(traces[h][1]) <= 1500)
    if not hids:
        res["skipped"] = "no judged history to sample"
        return res
    rng = random.Random("%d/coqeval/%s/%s" % (int(ctx.seed), name, ctx.prop))
    odd = [h for h in hids if verdict[h]["R"].get("all") is not None or verdict[h]["T"] or verdict[h]["I"]]
    rng.shuffle(odd)
    chosen = odd[:max(1, k // 4)]
    rest = [h for h in hids if h not in chosen]
    rng.shuffle(rest)
    chosen = (chosen + rest)[:k]
    work = _workdir(ctx, name)
    E = Errs()
    proj = projection if projection in SEQ_PROJ else "all"
    projs = ["all"] + ([proj] if proj != "all" else [])
    # mutants: a falsified copy of every sampled history, judged by the driver now
    cases = []           # dict(id, lines, want)
    mut_lines = []
    for h in chosen:
        cases.append(dict(id=h, lines=traces[h][1], want=verdict[h], origin=str(traces[h][0] / "trace.txt")))
    drv = Path(driver) if driver else VERIF / "ocaml" / "seq" / "seqdriver"
    muts = []
    for h in chosen:
        m = mutate_history(traces[h][1], rng, E)
        if m:
            mid = h + "~m"
            muts.append(dict(id=mid, lines=m[0], mutation=m[1], origin=str(traces[h][0] / "trace.txt")))
            mut_lines += ["H " + mid] + m[0] + ["X"]
    if muts and drv.exists():
        mf = work / "mutants.txt"
        mf.write_text("\n".join(mut_lines) + "\n")
        rc, out = sh([str(drv), str(mf)] + projs, cwd=work, timeout=300)
        (work / "mutants.verdict.txt").write_text(out)
        mv = parse_seq_verdict(out)
        for m in muts:
            if rc == 0 and m["id"] in mv and not mv[m["id"]]["B"] and "all" in mv[m["id"]]["R"]:
                m["want"] = mv[m["id"]]
                cases.append(m)
    # cases.v, in shards
    files, groups = [], []
    for base in range(0, len(cases), SHARD):
        grp, body, S = [], [], Strs()
        for n_, c in enumerate(cases[base:base + SHARD]):
            try:
                cfg, h, nev = seq_history_terms(c["lines"], S, E)
            except Untranslatable as ex:
                res["untranslatable"] += 1
                c["untranslatable"] = str(ex)
                continue
            i = len(grp)
            pr = "Proj " + " ".join("true" if b else "false" for b in SEQ_PROJ[proj])
            body.append("Definition cfg%d : config := %s.\nDefinition h%d : list (event * list out) :=\n  %s.\n"
                        "Eval vm_compute in (%d%%nat, option_map fst (replay_history proj_all cfg%d h%d), option_map fst (replay_history (%s) cfg%d h%d),\n"
                        "  track_failures cfg%d h%d, inert_failures 0 h%d).\n" % (i, cfg, i, h, i, i, i, pr, i, i, i, i, i))
            c["events"] = nev
            grp.append(c)
        if not grp:
            continue
        f = work / ("cases%d.v" % len(files))
        # the string definitions first (body refers to them)
        f.write_text(SEQ_HEADER + "\n".join(S.defs) + "\n" + "\n".join(body))
        files.append(f)
        groups.append(grp)
    if not files:
        res["skipped"] = "no sampled history could be translated (%d untranslatable)" % res["untranslatable"]
        return res
    res["cases_file"] = str(files[0])
    outs, secs = run_coqc(ctx, files)
    res["coqc_s"] = round(secs, 2)
    for f, grp, (rc, out) in zip(files, groups, outs):
        (f.with_suffix(".out")).write_text(out)
        terms = split_evals(out)
        if rc != 0 or len(terms) != len(grp):
            res["skipped"] = "coqc on %s failed (rc %s, %d of %d results): %s" % (f.name, rc, len(terms), len(grp), out[-400:])
            continue
        for c, t in zip(grp, terms):
            try:
                idx, r_all, r_proj, tf, inf = parse_term(t)
            except Exception as ex:  # noqa
                res["skipped"] = "unreadable Coq output for %s: %r" % (c["id"], ex)
                continue
            w = c["want"]
            res["sampled"] += 1
            if "mutation" in c:
                res["mutants"] += 1
            else:
                res["histories"] += 1
            coq = {"replay all": None if r_all is None else r_all.v,
                   "track_failures": [(a, b) for a, b in tf], "inert_failures": [(a, b) for a, b in inf]}
            drvv = {"replay all": w["R"].get("all"), "track_failures": list(w["T"]), "inert_failures": list(w["I"])}
            if proj != "all" and proj in w["R"]:
                coq["replay " + proj] = None if r_proj is None else r_proj.v
                drvv["replay " + proj] = w["R"][proj]
            if any(v is not None for kk, v in drvv.items() if kk.startswith("replay")) or drvv["track_failures"] or drvv["inert_failures"]:
                res["verdicts_not_ok_in_sample"] += 1
            for key in coq:
                res["compared"] += 1
                if coq[key] != drvv[key]:
                    res["disagreements"].append({"trace": "history %s of %s" % (c["id"], c["origin"]), "what": key, "coq_vm_compute": _show(coq[key]),
                                                 "extracted_driver": _show(drvv[key]), "mutation": c.get("mutation"), "events": c.get("events"),
                                                 "cases_file": str(f)})
    return res


# ------------------------------------------------------------------------------------- T1: boot on a given state file

SEQFILE_HEADER = ("From Coq Require Import String Ascii.\nFrom Ldlm Require Import Model.Base Model.Err Model.Seq Model.Track Model.SeqFile.\n" + PRINT_OPTS + """
(* restated from Extract/SeqExtract.v (that file is compiled by ocaml/seq/build.sh only): the observed history is a run of Mseq
   from file_state for SOME order of the file's sessions at the first boot *)
Definition set_boot_order (order : list str) (h : list (event * list out)) : list (event * list out) :=
  match h with
  | (ERestart _, o) :: h' => (ERestart order, o) :: h'
  | _ => h
  end.
Definition replay_history_from_any (p : proj) (cfg : config) (f : list (str * list clock)) (h : list (event * list out))
  : option (nat * list (list out)) :=
  match replay_history_from p cfg f h with
  | None => None
  | Some r =>
      if (Nat.leb (length f) 4
          && existsb (fun o => match replay_history_from p cfg f (set_boot_order o h) with None => true | Some _ => false end)
                     (permutations (map fst f)))%bool
      then None else Some r
  end.
""")


def seqfile_term(lines, S):
    """the `F` line of a history -> (Gallina term of the file's session list, state file configured?) or None when there is none"""
    fterm, file_on = None, False
    for line in lines:
        f = line.split()
        if f and f[0] == "C" and len(f) == 6:
            file_on = f[2] == "1"
        elif f and f[0] == "F" and len(f) >= 2:
            rest, ents = f[2:], []
            for _ in range(_int(f[1])):
                if len(rest) < 2:
                    raise Untranslatable("F line")
                sid, m = rest[0], _int(rest[1])
                cs, rest = _clocks(m, rest[2:], S)
                ents.append("(%s, %s)" % (S.of_hex(sid), cs))
            if rest:
                raise Untranslatable("F line: trailing tokens")
            fterm = "[%s]" % "; ".join(ents)
    return fterm, file_on


def parse_seqfile_verdict(text):
    """{hid: dict(R={proj: None|idx}, W=[idx], B=bool)} of the driver's answer on histories with an F line"""
    res = {}
    for line in text.splitlines():
        f = line.split()
        if len(f) < 3 or f[0] not in ("R", "W", "B", "T", "I"):
            continue
        r = res.setdefault(f[1], dict(R={}, W=[], B=False, TI=0))
        try:
            if f[0] == "R":
                r["R"][f[2]] = None if f[3] == "ok" else int(f[4])
            elif f[0] == "W":
                r["W"].append(int(f[2]))
            elif f[0] == "B":
                r["B"] = True
            else:
                r["TI"] += 1           # the driver must not run the hold tracker on these histories
        except (ValueError, IndexError):
            r["B"] = True
    return res


def seqfile_sample(ctx, dirs, k=None, projection="all", driver=None, name="seqfile"):
    """T1 "boot on a given state file" (seqtie.initfile_stage). dirs: directories judged by seqtie.judge. For a sample of the
    histories (and one falsified copy of each): replay_history_from_any under proj_all and the property's projection, and
    views_failures, evaluated by vm_compute  vs  the R / W lines of the extracted driver."""
    k = _tier_k(ctx, "seq", k)
    res = dict(sampled=0, compared=0, disagreements=[], skipped=None, coqc_s=0.0, histories=0, mutants=0, untranslatable=0,
               verdicts_not_ok_in_sample=0, projection=projection)
    why = models_built(["Model/Base.v", "Model/Err.v", "Model/Seq.v", "Model/Track.v", "Model/SeqFile.v"])
    if why:
        res["skipped"] = why
        return res
    traces = read_traces(dirs)
    traces = {h: v for h, v in traces.items() if any(l.startswith("F ") for l in v[1][:4])}

    def n_entries(lines):
        # (tokens of the F line - 2 - 2 per session) / 3; restored holds whose leases end together cost k! candidate states in replay
        for l in lines[:4]:
            f = l.split()
            if f and f[0] == "F" and len(f) >= 2:
                try:
                    return (len(f) - 2 - 2 * int(f[1])) // 3
                except ValueError:
                    return 99
        return 99
    traces = {h: v for h, v in traces.items() if n_entries(v[1]) <= 5}
    verdict = {}
    for d in set(str(v[0]) for v in traces.values()):
        try:
            verdict.update(parse_seqfile_verdict((Path(d) / "verdict.txt").read_text()))
        except OSError:
            pass
    hids = sorted(h for h in traces if h in verdict and not verdict[h]["B"] and "all" in verdict[h]["R"] and len(traces[h][1]) <= 1500)
    if not hids:
        res["skipped"] = "no judged history to sample"
        return res
    rng = random.Random("%d/coqeval/%s/%s" % (int(ctx.seed), name, ctx.prop))
    odd = [h for h in hids if verdict[h]["R"].get("all") is not None or verdict[h]["W"]]
    rng.shuffle(odd)
    chosen = odd[:max(1, k // 4)]
    rest = [h for h in hids if h not in chosen]
    rng.shuffle(rest)
    chosen = (chosen + rest)[:k]
    work = _workdir(ctx, name)
    E = Errs()
    proj = projection if projection in SEQ_PROJ else "all"
    projs = ["all"] + ([proj] if proj != "all" else [])
    cases, mut_lines, muts = [], [], []
    for h in chosen:
        cases.append(dict(id=h, lines=traces[h][1], want=verdict[h], origin=str(traces[h][0] / "trace.txt")))
    drv = Path(driver) if driver else VERIF / "ocaml" / "seq" / "seqdriver"
    for h in chosen:
        m = mutate_history(traces[h][1], rng, E)
        if m:
            mid = h + "~m"
            muts.append(dict(id=mid, lines=m[0], mutation=m[1], origin=str(traces[h][0] / "trace.txt")))
            mut_lines += ["H " + mid] + m[0] + ["X"]
    if muts and drv.exists():
        mf = work / "mutants.txt"
        mf.write_text("\n".join(mut_lines) + "\n")
        rc, out = sh([str(drv), str(mf)] + projs, cwd=work, timeout=300)
        (work / "mutants.verdict.txt").write_text(out)
        mv = parse_seqfile_verdict(out)
        for m in muts:
            if rc == 0 and m["id"] in mv and not mv[m["id"]]["B"] and "all" in mv[m["id"]]["R"]:
                m["want"] = mv[m["id"]]
                cases.append(m)
    files, groups = [], []
    for base in range(0, len(cases), SHARD):
        grp, body, S = [], [], Strs()
        for c in cases[base:base + SHARD]:
            try:
                cfg, h, nev = seq_history_terms(c["lines"], S, E)
                fterm, file_on = seqfile_term(c["lines"], S)
                if fterm is None:
                    raise Untranslatable("no F line")
            except Untranslatable as ex:
                res["untranslatable"] += 1
                c["untranslatable"] = str(ex)
                continue
            i = len(grp)
            pr = "Proj " + " ".join("true" if b else "false" for b in SEQ_PROJ[proj])
            body.append("Definition cfg%d : config := %s.\nDefinition f%d : list (str * list clock) := %s.\nDefinition h%d : list (event * list out) :=\n  %s.\n"
                        "Eval vm_compute in (%d%%nat, option_map fst (replay_history_from_any proj_all cfg%d f%d h%d), "
                        "option_map fst (replay_history_from_any (%s) cfg%d f%d h%d),\n  views_failures %s 0%%nat h%d).\n"
                        % (i, cfg, i, fterm, i, h, i, i, i, i, pr, i, i, i, "true" if file_on else "false", i))
            c["events"] = nev
            grp.append(c)
        if not grp:
            continue
        f = work / ("cases%d.v" % len(files))
        f.write_text(SEQFILE_HEADER + "\n".join(S.defs) + "\n" + "\n".join(body))
        files.append(f)
        groups.append(grp)
    if not files:
        res["skipped"] = "no sampled history could be translated (%d untranslatable)" % res["untranslatable"]
        return res
    res["cases_file"] = str(files[0])
    outs, secs = run_coqc(ctx, files)
    res["coqc_s"] = round(secs, 2)
    for f, grp, (rc, out) in zip(files, groups, outs):
        (f.with_suffix(".out")).write_text(out)
        terms = split_evals(out)
        if rc != 0 or len(terms) != len(grp):
            res["skipped"] = "coqc on %s failed (rc %s, %d of %d results): %s" % (f.name, rc, len(terms), len(grp), out[-400:])
            continue
        for c, t in zip(grp, terms):
            try:
                idx, r_all, r_proj, vf = parse_term(t)
            except Exception as ex:  # noqa
                res["skipped"] = "unreadable Coq output for %s: %r" % (c["id"], ex)
                continue
            w = c["want"]
            res["sampled"] += 1
            if "mutation" in c:
                res["mutants"] += 1
            else:
                res["histories"] += 1
            coq = {"replay-from-file all": None if r_all is None else r_all.v, "views_failures": list(vf), "tracker lines printed": 0}
            drvv = {"replay-from-file all": w["R"].get("all"), "views_failures": list(w["W"]), "tracker lines printed": w.get("TI", 0)}
            if proj != "all" and proj in w["R"]:
                coq["replay-from-file " + proj] = None if r_proj is None else r_proj.v
                drvv["replay-from-file " + proj] = w["R"][proj]
            if any(v is not None for kk, v in drvv.items() if kk.startswith("replay")) or drvv["views_failures"]:
                res["verdicts_not_ok_in_sample"] += 1
            for key in coq:
                res["compared"] += 1
                if coq[key] != drvv[key]:
                    res["disagreements"].append({"trace": "history %s of %s" % (c["id"], c["origin"]), "what": key, "coq_vm_compute": _show(coq[key]),
                                                 "extracted_driver": _show(drvv[key]), "mutation": c.get("mutation"), "events": c.get("events"),
                                                 "cases_file": str(f)})
    return res


def _show(v):
    if v is None:
        return "ok"
    if isinstance(v, int):
        return "mismatch %d" % v
    return v


# ============================================================================================== T2: shared schedule parts

def read_vlines(text):
    """V lines of a check verdict -> {sid: dict(stream=[('i', tag, tokens) | ('o', k, obs string)], z=n|None, bad=bool)}"""
    res = {}
    for line in text.splitlines():
        if line.startswith("V "):
            f = line.split()
            if len(f) < 3:
                continue
            r = res.setdefault(f[1], dict(stream=[], z=None, bad=False))
            if f[2] == "i" and len(f) >= 5:
                r["stream"].append(("i", f[3], f[4:]))
            elif f[2] == "o" and len(f) >= 4:
                r["stream"].append(("o", f[3], f[4:]))
            elif f[2] == "z" and len(f) == 4:
                try:
                    r["z"] = int(f[3])
                except ValueError:
                    pass
        elif line.startswith("B "):
            f = line.split()
            if len(f) >= 2:
                res.setdefault(f[1], dict(stream=[], z=None, bad=False))["bad"] = True
    return res


def read_echoed(text, stop_at_J=False):
    """observed.txt -> {sid: dict(C=token, H=token, items=[tokens])} (the items the harness executed and echoed)"""
    res, cur, stopped = {}, None, False
    for line in text.splitlines():
        f = line.split()
        if not f:
            continue
        if f[0] == "S" and len(f) >= 2:
            cur = res.setdefault(f[1], dict(C="0", H="1", items=[]))
            cur["items"] = []
            stopped = False
        elif cur is None:
            continue
        elif f[0] == "C" and len(f) == 2:
            cur["C"] = f[1]
        elif f[0] == "H" and len(f) == 2:
            cur["H"] = f[1]
        elif f[0] == "J" and stop_at_J:
            stopped = True
        elif f[0] == "I" and len(f) >= 3 and not stopped:
            cur["items"].append(f[2:])
        elif f[0] == "Z":
            cur = None
    return res


def pick_schedules(cands, k, rng):
    """round robin over the scenarios (sid up to '#'), seeded"""
    by = {}
    for sid in sorted(cands):
        by.setdefault(sid.split("#")[0], []).append(sid)
    for v in by.values():
        rng.shuffle(v)
    keys = sorted(by)
    rng.shuffle(keys)
    out = []
    while len(out) < k and any(by.values()):
        for s in keys:
            if by[s] and len(out) < k:
                out.append(by[s].pop())
    return out


def pick_cuts(stream, seen, rng, extra=2):
    """-> [(number of model items before it, k, obs tokens)]: the final observation + up to `extra` interior ones that add the
    most thread-status tokens not yet covered by the sample."""
    obs, n = [], 0
    for e in stream:
        if e[0] == "i":
            n += 1
        else:
            obs.append((n, e[1], e[2]))
    if not obs:
        return []
    final = obs[-1]
    chosen = [final]
    seen.update(t.split(":", 2)[2] for t in final[2] if t.startswith("T:"))
    inner = obs[:-1]
    for _ in range(extra):
        best, gain = None, -1
        order = list(range(len(inner)))
        rng.shuffle(order)
        for j in order:
            g = len(set(t.split(":", 2)[2] for t in inner[j][2] if t.startswith("T:")) - seen)
            if g > gain:
                best, gain = j, g
        if best is None:
            break
        o = inner.pop(best)
        if o[0] != final[0] or o[2] != final[2]:
            chosen.append(o)
        seen.update(t.split(":", 2)[2] for t in o[2] if t.startswith("T:"))
    return chosen


def _nz(s):
    return s if s else "-"


def _stat(lab, res, labels, fin, blocked, end=None):
    """driver-style status token of a thread from the label number and the result Coq printed"""
    if lab == fin:
        if not isinstance(res, Some):
            return "F_?"
        ok, err = res.v
        return "F_%d_%s" % (1 if ok else 0, "~" if err is None else err.v)
    if end is not None and lab == end:
        return "E"
    if lab == blocked:
        return "B"
    return "P_" + (labels[lab] if 0 <= lab < len(labels) else "label%d" % lab)


# ============================================================================================================ T2/1: Mlk

def lk_item_term(f, S, E):
    k = f[0]
    if k == "call" and len(f) == 6:
        t, kind, name, key, size = f[1:]
        if kind == "try":
            return "ICall %s (OTry %s %s %s)" % (natlit(t), S.of_hex(name), S.of_hex(key), zlit(size))
        if kind == "lock":
            return "ICall %s (OLock %s %s %s)" % (natlit(t), S.of_hex(name), S.of_hex(key), zlit(size))
        if kind == "unl":
            return "ICall %s (OUnl %s %s)" % (natlit(t), S.of_hex(name), S.of_hex(key))
    if k == "run" and len(f) == 2:
        return "IRun %s" % natlit(f[1])
    if k == "runcancel" and len(f) == 2:
        return "IRunCancel %s" % natlit(f[1])
    if k == "cancel" and len(f) == 3:
        return "ICancel %s %s" % (natlit(f[1]), E.ctor(f[2]))
    if k == "gc" and len(f) == 2:
        return "IGc %s" % S.of_hex(f[1])
    if k == "tick" and len(f) == 2:
        return "ITick %s" % zlit(f[1])
    if f == ["shutdown"]:
        return "IShutdown"
    raise Untranslatable("model item: " + " ".join(f)[:80])


def lk_echo_model(f, E):
    """the model item (driver token form) an echoed harness item IS, or None when it has none of its own"""
    k = f[0]
    try:
        if k == "call" and len(f) == 6:
            return ["call", str(int(f[1])), f[2], f[3].lower(), f[4].lower(), "1" if f[2] == "unl" else str(int(f[5]))]
        if k == "run":
            return ["run", str(int(f[1]))]
        if k == "cancel" and len(f) == 3:
            return ["cancel", str(int(f[1])), "context.Canceled" if f[2] == "~" else E.canon(f[2])]
        if k == "tick":
            return ["tick", str(int(f[1]))]
        if k == "shutdown":
            return ["shutdown"]
    except (ValueError, IndexError):
        return ["?"] + f
    return None


LK_HEADER = ("From Coq Require Import String Ascii.\nFrom Ldlm Require Import Model.Base Model.Err Model.Lk.\n" + PRINT_OPTS + PRELUDE_HEX + """
Definition lk_res (pc : lpc) : option (bool * option string) :=
  match pc with PFin r => Some (r_ok r, option_map err_go_name (r_err r)) | _ => None end.
Definition lk_obs (s : lstate) :=
  (map (fun '(tid, t) => (tid, pc_label (t_pc t), lk_res (t_pc t))) (map_to_list (l_thr s)),
   map (fun '(n, (z, ks)) => (hx n, z, map hx ks)) (l_table s),
   l_crashed s,
   existsb (fun e => match e with EvLin (LaGiveBack _ _ _ _) => true | _ => false end) (l_trace s)).
""")


def lk_canon_driver(toks):
    thr, tab, k, g = {}, [], None, None
    for t in toks:
        p = t.split(":")
        if p[0] == "T" and len(p) >= 3:
            thr[int(p[1])] = ":".join(p[2:])
        elif p[0] == "L" and len(p) == 4:
            tab.append((p[1], int(p[2]), tuple(x for x in p[3].split(",") if x)))
        elif p[0] == "K":
            k = p[1] == "1"
        elif p[0] == "G":
            g = p[1] == "1"
    return {"threads": sorted(thr.items()), "table": sorted(tab), "crashed": k, "giveback": g}


def lk_canon_coq(v):
    thr, tab, crashed, gb = v
    return {"threads": sorted((tid, _stat(lab, r, LK_LABELS, 13, 5)) for tid, lab, r in thr),
            "table": sorted((_nz(n), z, tuple(_nz(x) for x in ks)) for n, z, ks in tab), "crashed": crashed, "giveback": gb}


def _sched_sample(ctx, dirs, k, kind, name, header, item_term, echo_model, stop_at_J, cfg_term, run_fn, obs_fn, canon_driver, canon_coq, needs):
    res = dict(sampled=0, compared=0, disagreements=[], skipped=None, coqc_s=0.0, schedules=0, observations=0, model_items=0,
               status_tokens_covered=[], echoed_items_checked=0)
    why = models_built(needs)
    if why:
        res["skipped"] = why
        return res
    E = Errs()
    vl, echoed, where = {}, {}, {}
    for d in dirs:
        d = Path(d)
        try:
            v = read_vlines((d / "verdict.txt").read_text())
            e = read_echoed((d / "observed.txt").read_text(), stop_at_J=stop_at_J)
        except OSError:
            continue
        for sid, r in v.items():
            vl[sid], where[sid] = r, d
        echoed.update(e)
    cands = [sid for sid, r in vl.items() if sid in echoed and not r["bad"] and any(e[0] == "o" for e in r["stream"])
             and sum(1 for e in r["stream"] if e[0] == "i") <= 1500]
    if not cands:
        res["skipped"] = "the driver's verdicts carry no V lines (old driver binary?) or no schedule was checked"
        return res
    rng = random.Random("%d/coqeval/%s/%s" % (int(ctx.seed), name, ctx.prop))
    chosen = pick_schedules(cands, k, rng)
    work = _workdir(ctx, name)
    seen = set()
    files, groups = [], []
    for base in range(0, len(chosen), SHARD):
        S, body, grp = Strs(), [], []
        for sid in chosen[base:base + SHARD]:
            r, ec = vl[sid], echoed[sid]
            trace = "schedule %s of %s" % (sid, where[sid] / "observed.txt")
            items = [e for e in r["stream"] if e[0] == "i"]
            # the driver's own account of what it did must be complete, and its 'e' items must be the echoed harness items
            res["compared"] += 1
            if r["z"] != len(items):
                res["disagreements"].append({"trace": trace, "what": "the driver logged %s model items and printed %d" % (r["z"], len(items))})
                continue
            want = [m for m in (echo_model(f, E) for f in ec["items"]) if m is not None]
            got = [e[2] for e in items if e[1] == "e"]
            res["compared"] += 1
            res["echoed_items_checked"] += len(want)
            if want != got:
                j = next((x for x in range(min(len(want), len(got))) if want[x] != got[x]), min(len(want), len(got)))
                res["disagreements"].append({"trace": trace, "what": "the model items the driver executed are not the items the harness echoed",
                                             "first_difference": j, "echoed": " ".join(want[j]) if j < len(want) else None,
                                             "driver_executed": " ".join(got[j]) if j < len(got) else None})
                continue
            try:
                terms = [item_term(e[2], S, E) for e in items]
                cfg = cfg_term(ec)
            except Untranslatable as ex:
                res.setdefault("untranslatable", []).append("%s: %s" % (sid, ex))
                continue
            cuts = pick_cuts(r["stream"], seen, rng)
            i = len(grp)
            body.append("Definition it%d := [%s].\n" % (i, ";\n  ".join(terms)) +
                        "".join("Eval vm_compute in (%d%%nat, %d%%nat, %s (%s %s (firstn %d it%d))).\n" % (i, n, obs_fn, run_fn, cfg, n, i) for n, _k, _o in cuts))
            grp.append(dict(sid=sid, trace=trace, cuts=cuts, nitems=len(items)))
            res["model_items"] += len(items)
        if not grp:
            continue
        f = work / ("cases%d.v" % len(files))
        f.write_text(header + "\n".join(S.defs) + "\n" + "\n".join(body))
        files.append(f)
        groups.append(grp)
    res["status_tokens_covered"] = sorted(seen)
    if not files:
        if not res["disagreements"]:
            res["skipped"] = "no sampled schedule could be translated"
        return res
    res["cases_file"] = str(files[0])
    outs, secs = run_coqc(ctx, files)
    res["coqc_s"] = round(secs, 2)
    for f, grp, (rc, out) in zip(files, groups, outs):
        f.with_suffix(".out").write_text(out)
        terms = split_evals(out)
        n_exp = sum(len(g["cuts"]) for g in grp)
        if rc != 0 or len(terms) != n_exp:
            res["skipped"] = "coqc on %s failed (rc %s, %d of %d results): %s" % (f.name, rc, len(terms), n_exp, out[-400:])
            continue
        ti = 0
        for g in grp:
            res["sampled"] += 1
            res["schedules"] += 1
            for n, kk, otoks in g["cuts"]:
                t = terms[ti]
                ti += 1
                try:
                    _i, n2, v = parse_term(t)
                    coq = canon_coq(v)
                except Exception as ex:  # noqa
                    res["skipped"] = "unreadable Coq output for %s: %r" % (g["sid"], ex)
                    continue
                drv = canon_driver(otoks)
                res["observations"] += 1
                for key in coq:
                    res["compared"] += 1
                    if coq[key] != drv.get(key):
                        res["disagreements"].append({"trace": g["trace"], "what": "%s after %d model items (harness item %s)" % (key, n, kk),
                                                     "coq_vm_compute": coq[key], "extracted_driver": drv.get(key), "cases_file": str(f)})
    return res


def lk_sample(ctx, dirs, k=None, name="lk"):
    """T2 layer 1. dirs: directories with observed.txt (echoed items) and verdict.txt (`lkdriver check` output with V lines)."""
    return _sched_sample(ctx, dirs, _tier_k(ctx, "lk", k), "lk", name, LK_HEADER, lk_item_term, lk_echo_model, False,
                         lambda ec: zlit(ec["C"]), "lrun", "lk_obs", lk_canon_driver, lk_canon_coq,
                         ["Model/Base.v", "Model/Err.v", "Model/Lk.v"])


# ============================================================================================================ T2/2: Msv

def _sop_term(f, S):
    if f[0] in ("try", "lock") and len(f) == 6:
        return "(%s %s %s %s %s %s)" % ("STry" if f[0] == "try" else "SLock", S.of_hex(f[1]), S.of_hex(f[2]), S.of_hex(f[3]), zlit(f[4]), optz(f[5]))
    if f[0] == "unl" and len(f) == 3:
        return "(SUnlock %s %s)" % (S.of_hex(f[1]), S.of_hex(f[2]))
    if f[0] == "renew" and len(f) == 4:
        return "(SRenew %s %s %s)" % (S.of_hex(f[1]), S.of_hex(f[2]), zlit(f[3]))
    raise Untranslatable("op: " + " ".join(f)[:80])


def sv_item_term(f, S, E):
    k = f[0]
    if k == "call" and len(f) >= 4:
        return "VCall %s %s" % (natlit(f[1]), _sop_term(f[2:], S))
    if k == "run" and len(f) == 2:
        return "VRun %s" % natlit(f[1])
    if k == "cancel" and len(f) == 3:
        return "VCancel %s %s" % (natlit(f[1]), E.ctor(f[2]))
    if k == "connect" and len(f) == 2:
        return "VConnect %s" % S.of_hex(f[1])
    if k == "connend" and len(f) == 2:
        return "VConnEnd %s" % S.of_hex(f[1])
    if k == "tick" and len(f) == 2:
        return "VTick %s" % zlit(f[1])
    if f == ["signal"]:
        return "VSignal"
    raise Untranslatable("model item: " + " ".join(f)[:80])


def sv_echo_model(f, E):
    if "spawn" in f:
        f = f[:f.index("spawn")]
    k = f[0] if f else ""
    try:
        if k == "call" and len(f) >= 4:
            op = f[2]
            if op in ("try", "lock") and len(f) == 8:
                return ["call", str(int(f[1])), op, f[3].lower(), f[4].lower(), f[5].lower(), str(int(f[6])), "~" if f[7] == "~" else str(int(f[7]))]
            if op == "unl" and len(f) == 5:
                return ["call", str(int(f[1])), op, f[3].lower(), f[4].lower()]
            if op == "renew" and len(f) == 6:
                return ["call", str(int(f[1])), op, f[3].lower(), f[4].lower(), str(int(f[5]))]
        if k in ("run", "wake") and len(f) == 2:
            return ["run", str(int(f[1]))]
        if k == "cancel" and len(f) == 3:
            return ["cancel", str(int(f[1])), "context.Canceled" if f[2] == "~" else E.canon(f[2])]
        if k in ("connect", "connend") and len(f) == 2:
            return [k, f[1].lower()]
        if k == "tick" and len(f) == 2:
            return ["tick", str(int(f[1]))]
        if f == ["signal"]:
            return ["signal"]
    except (ValueError, IndexError):
        pass
    return ["?"] + f


SV_HEADER = ("From Coq Require Import String Ascii.\nFrom Ldlm Require Import Model.Base Model.Err Model.Seq Model.Sv.\n" + PRINT_OPTS + PRELUDE_HEX + """
Definition sv_res (pc : spc) : option (bool * option string) :=
  match pc with VFin r => Some (sr_ok r, option_map err_go_name (sr_err r)) | _ => None end.
Definition hc (c : clock) := (hx (cl_name c), hx (cl_key c), cl_size c).
Definition sv_obs (s : svstate) :=
  (v_now s,
   map (fun '(tid, t) => (tid, spc_label (st_pc t), sv_res (st_pc t))) (map_to_list (v_thr s)),
   map (fun '(n, (z, ks)) => (hx n, z, map hx ks)) (sv_table s),
   omap (fun '(_, id) => match v_theap s !! id with Some tm => Some (hx (tm_n tm), hx (tm_k tm)) | None => None end) (map_to_list (v_timers s)),
   map (fun '(sid, l) => (hx sid, map hc l)) (map_to_list (v_sess s)),
   map hc (sv_listing s),
   option_map (map (fun '(sid, l) => (hx sid, map hc l))) (sv_file s),
   v_crashed s,
   map (fun '(tk, d) => (hx tk, d)) (sv_armed s)).
""")


def _ces(s):
    out = []
    for x in s.split(","):
        if x:
            p = x.split("/")
            out.append((p[0], p[1], int(p[2])))
    return tuple(out)


def sv_canon_driver(toks):
    o = {"now": None, "threads": [], "table": [], "timers": [], "sessions": [], "listing": (), "file": None, "crashed": None, "armed": []}
    for t in toks:
        p = t.split(":")
        if p[0] == "N":
            o["now"] = int(p[1])
        elif p[0] == "T" and len(p) >= 3:
            o["threads"].append((int(p[1]), ":".join(p[2:])))
        elif p[0] == "L" and len(p) == 4:
            o["table"].append((p[1], int(p[2]), tuple(x for x in p[3].split(",") if x)))
        elif p[0] == "A" and len(p) == 3:
            o["timers"].append((p[1], p[2]))
        elif p[0] == "P" and len(p) == 3:
            o["sessions"].append((p[1], _ces(p[2])))
        elif p[0] == "G" and len(p) == 2:
            o["listing"] = tuple(sorted(_ces(p[1])))
        elif p[0] == "F":
            o["file"] = [] if p[1] == "1" else None
        elif p[0] == "Q" and len(p) == 3 and o["file"] is not None:
            o["file"].append((p[1], _ces(p[2])))
        elif p[0] == "K":
            o["crashed"] = p[1] == "1"
        elif p[0] == "R" and len(p) == 3:
            o["armed"].append((p[1], int(p[2])))
    for key in ("threads", "table", "timers", "sessions", "armed"):
        o[key] = sorted(o[key])
    if o["file"] is not None:
        o["file"] = sorted(o["file"])
    return o


def sv_canon_coq(v):
    now, thr, tab, tmr, ses, lst, fil, crashed, armed = v
    cl = lambda l: tuple((_nz(a), _nz(b), z) for a, b, z in l)  # noqa
    return {"now": now,
            "threads": sorted((tid, _stat(lab, r, SV_LABELS, 22, 2, end=23)) for tid, lab, r in thr),
            "table": sorted((_nz(n), z, tuple(_nz(x) for x in ks)) for n, z, ks in tab if ks),       # the driver shows objects with keys
            "timers": sorted((_nz(a), _nz(b)) for a, b in tmr),
            "sessions": sorted((_nz(s), cl(l)) for s, l in ses),
            "listing": tuple(sorted(cl(lst))),
            "file": None if fil is None else sorted((_nz(s), cl(l)) for s, l in fil.v),
            "crashed": crashed,
            "armed": sorted((_nz(a), d) for a, d in armed)}


def sv_sample(ctx, dirs, k=None, name="sv"):
    """T2 layer 2. dirs: directories with observed.txt and verdict.txt (`svdriver check` output with V lines)."""
    return _sched_sample(ctx, dirs, _tier_k(ctx, "sv", k), "sv", name, SV_HEADER, sv_item_term, sv_echo_model, True,
                         lambda ec: "(SvCfg %s true)" % blit(ec["C"]), "vrun", "sv_obs", sv_canon_driver, sv_canon_coq,
                         ["Model/Base.v", "Model/Err.v", "Model/Seq.v", "Model/Sv.v"])
